#!/bin/bash
# MANIFEST.setup_cmd: regenerate Gen/*.v from /repo and build the whole Coq project (full .vo build).
set -e
HERE="$(cd "$(dirname "$0")" && pwd)"
export PYTHONHASHSEED=0 PYTHONDONTWRITEBYTECODE=1 PYTHONPATH="${VERIF_REPO:-/repo}"
cd "$HERE"
/venv/bin/python harness/gen_all.py
cd coq
coq_makefile -f _CoqProject -o Makefile >/dev/null
timeout 3000 make -j16
