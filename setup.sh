#!/bin/bash
# MANIFEST.setup_cmd: regenerate Gen/*.v from /repo and build the whole Coq project (full .vo build).
# -k: one property's broken proof must not keep the others from building; each check rebuilds
# (and fails closed on) exactly the files its Props/<ID>.v depends on.
HERE="$(cd "$(dirname "$0")" && pwd)"
export PYTHONHASHSEED=0 PYTHONDONTWRITEBYTECODE=1 PYTHONPATH="${VERIF_REPO:-/repo}"
cd "$HERE" || exit 1
mkdir -p .work evidence
/venv/bin/python harness/gen_all.py || exit 1
cd coq || exit 1
coq_makefile -f _CoqProject -o Makefile >/dev/null || exit 1
# build only what the claimed checks need (the closure of Props/<ID>.vo for every id in MANIFEST.json);
# files of properties still under construction are compiled by their own check when it runs.
TARGETS=$(/venv/bin/python -c "import json;print(' '.join('Props/%s.vo'%c['property_id'] for c in json.load(open('$HERE/MANIFEST.json'))['checks']))")
timeout 3000 make -k -j16 $TARGETS >"$HERE/.work/setup_build.log" 2>&1
rc=$?
tail -5 "$HERE/.work/setup_build.log"
test -f Lib/Base.vo || exit 1
echo "setup: make exit $rc (see .work/setup_build.log)"
exit 0
