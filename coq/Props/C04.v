(* C04 -- property theorems: score -> MIDI -> score.  Statements + `exact` only; proofs are in
   Proofs/C04.v.  All definitions are those of Model/C04.v, the model the correspondence of
   harness/props/c04.py evaluates against save_score_midi / load_score_midi on every run. *)
From PV Require Import Lib.Base Lib.Round Model.C04 Model.C04_stream Model.C04_hist Model.C04_tsc Proofs.C04 Proofs.C04_nonneg Proofs.C04_stream Proofs.C04_hist Proofs.C04_tsc.
From Coq Require Import QArith Permutation.
#[local] Open Scope Z_scope.

(* O1: ticks per quarter = lcm of all quarter durations, doubled (the loop never runs out of its fuel)
   until >= minimum_ppq and no further; every quarter duration divides it *)
Theorem ppq_divisible_and_minimal : forall qdurs mn,
  (forall q, In q qdurs -> 0 < q) ->
  exists ppq, model_ppq qdurs mn = Some ppq /\ mn <= ppq /\ 0 < ppq /\
              (forall q, In q qdurs -> (q | ppq)) /\
              (exists k, ppq = lcm_list qdurs * 2 ^ Z.of_nat k) /\
              (ppq = lcm_list qdurs \/ ppq / 2 < mn).
Proof. exact ppq_spec. Qed.
Print Assumptions ppq_divisible_and_minimal.

Theorem lcm_is_least : forall l m, (forall q, In q l -> (q | m)) -> (lcm_list l | m).
Proof. exact lcm_list_least. Qed.
Print Assumptions lcm_is_least.

(* O2: for every part, every timeline time and every anacrusis behaviour the exact tick
   ppq * (quarter(t) - ftp) is an integer (any tuplet), and the conversion used by the code
   (round to nearest) returns exactly that integer.  bar_ok: a full bar of the signature in force
   at 0 is a whole number of ticks (needed for pad_bar only). *)
Theorem tick_integral_and_exact : forall ppq an ps p t,
  parts_ok ppq ps -> (forall p, In p ps -> bar_ok ppq p) -> In p ps ->
  exists k, (tick_q ppq (ftp an ps) p t == inject_Z k)%Q /\ tick ppq (ftp an ps) p t = k.
Proof. exact tick_integral. Qed.
Print Assumptions tick_integral_and_exact.

(* delta-time coding: the importer's running sum inverts the exporter's differences, for every list;
   sorted ticks give non-negative deltas; the model sorts *)
Theorem undelta_delta_id : forall ts, undelta (delta ts) = ts.
Proof. exact undelta_delta. Qed.
Print Assumptions undelta_delta_id.

Theorem delta_nonneg : forall a ts, nondecreasing_from a ts -> Forall (fun d => 0 <= d) (delta_from a ts).
Proof. exact delta_nonneg_from. Qed.
Print Assumptions delta_nonneg.

Theorem zsort_sorted : forall l a, (forall x, In x l -> a <= x) -> nondecreasing_from a (zsort l).
Proof. exact zsort_nondecr. Qed.
Print Assumptions zsort_sorted.

Theorem importer_time_is_undelta : forall ms, map m_time (absolute ms) = undelta (map m_time ms).
Proof. exact (absolute_times_from 0). Qed.
Print Assumptions importer_time_is_undelta.

(* the six part/voice -> track/channel numberings: two note keys share (track, channel) iff they are
   related by the mode's relation (0: part and voice, 1: group and part, 2: part, 3: part, 4: all,
   5: part and voice) *)
Theorem track_channel_share_iff_mode_rel : forall mode keys x y,
  0 <= mode <= 5 -> In x keys -> In y keys ->
  (track_channel mode keys x = track_channel mode keys y <-> mode_rel mode x y).
Proof. exact track_channel_share. Qed.
Print Assumptions track_channel_share_iff_mode_rel.

(* setdefault numbering is injective and dense *)
Theorem numbering_injective : forall (x y : Z) l, In x l -> In y l -> (number Z.eqb x l = number Z.eqb y l <-> x = y).
Proof. exact (number_inj Z.eqb Z.eqb_eq). Qed.
Print Assumptions numbering_injective.

Theorem numbering_dense : forall (x : Z) l, In x l -> 0 <= number Z.eqb x l < Z.of_nat (List.length (dedup Z.eqb l)).
Proof. exact (number_range Z.eqb Z.eqb_eq). Qed.
Print Assumptions numbering_dense.

(* assign_group_part_voice: two (track, channel) keys get the same (group, part, voice) iff ... *)
Theorem import_grouping : forall mode tcs x y,
  0 <= mode <= 5 -> In x tcs -> In y tcs ->
  (import_gpv mode tcs x = import_gpv mode tcs y <-> import_rel mode x y).
Proof. exact import_gpv_share. Qed.
Print Assumptions import_grouping.

(* O5: export with mode k then import with mode k groups two notes alike iff mode k relates them --
   every mode except 2 *)
Theorem roundtrip_grouping_modes_0_1_3_4_5 : forall mode keys tcs x y,
  0 <= mode <= 5 -> mode <> 2 -> In x keys -> In y keys ->
  In (track_channel mode keys x) tcs -> In (track_channel mode keys y) tcs ->
  (import_gpv mode tcs (track_channel mode keys x) = import_gpv mode tcs (track_channel mode keys y)
   <-> mode_rel mode x y).
Proof. exact roundtrip_grouping. Qed.
Print Assumptions roundtrip_grouping_modes_0_1_3_4_5.

(* mode 2 (known finding C04-K1): the full statement is false, everything ends in one part and voice *)
Theorem roundtrip_grouping_mode_2_refuted :
  exists keys tcs x y, In x keys /\ In y keys /\
    In (track_channel 2 keys x) tcs /\ In (track_channel 2 keys y) tcs /\
    import_gpv 2 tcs (track_channel 2 keys x) = import_gpv 2 tcs (track_channel 2 keys y) /\ ~ mode_rel 2 x y.
Proof. exact mode2_grouping_refuted. Qed.
Print Assumptions roundtrip_grouping_mode_2_refuted.

Theorem roundtrip_grouping_mode_2_coarse : forall keys tcs x y,
  In (track_channel 2 keys x) tcs -> In (track_channel 2 keys y) tcs ->
  import_gpv 2 tcs (track_channel 2 keys x) = import_gpv 2 tcs (track_channel 2 keys y).
Proof. exact mode2_grouping_coarse. Qed.
Print Assumptions roundtrip_grouping_mode_2_coarse.

(* O3: the importer's pairing (sounding-note table keyed by channel*128+pitch, note_on with velocity 0
   as note off) returns exactly the notes -- as a multiset -- whenever every (channel, pitch) stream of
   the track alternates on/off (order_ok).  That is what "no two equal-pitch notes overlap within one
   track/channel" plus the exporter's order at equal ticks (offs, zero-length notes, ons) gives; it is
   tested on every written track by the `alternating` correspondence. *)
Theorem pairing_inverts : forall vel as_on ns evs,
  (forall n, 0 < vel n) -> order_ok vel as_on ns evs -> Permutation (pair_notes no_open evs) ns.
Proof. exact Proofs.C04.pairing_inverts. Qed.
Print Assumptions pairing_inverts.

Theorem note_hash_injective : forall c1 p1 c2 p2, 0 <= p1 < 128 -> 0 <= p2 < 128 ->
  note_hash c1 p1 = note_hash c2 p2 -> c1 = c2 /\ p1 = p2.
Proof. exact note_hash_inj. Qed.
Print Assumptions note_hash_injective.

(* non-overlapping notes of one key in time order: their alternating stream is in time order *)
Theorem alternating_stream_time_sorted : forall vel as_on ns a,
  chain a ns -> nondecreasing_from a (map m_time (bracket vel as_on ns)).
Proof. exact bracket_time_sorted. Qed.
Print Assumptions alternating_stream_time_sorted.

(* hypotheses satisfiable: abutting equal-pitch notes, a zero-velocity note_on as off, a grace note *)
Theorem pairing_example :
  let ns := [(1, 0, 60, 4); (1, 4, 60, 2); (1, 4, 62, 0)] in
  let evs := [(0, 4, 500000, 0, 0); (0, 1, 1, 60, 30); (4, 1, 1, 60, 0); (4, 1, 1, 62, 30); (4, 0, 1, 62, 0);
              (4, 1, 1, 60, 30); (6, 0, 1, 60, 0)] in
  order_ok (fun _ => 30) (fun n => let '(_, s, _, _) := n in s =? 0) ns evs /\
  pair_notes no_open evs = [(1, 0, 60, 4); (1, 4, 62, 0); (1, 4, 60, 2)].
Proof. exact order_ok_example. Qed.
Print Assumptions pairing_example.

(* ticks are non-negative under each of the three anacrusis behaviours (shift, time_sig_change, pad_bar),
   for parts starting at 0 whose pickup is judged against the signature in force at 0 (part_wf) *)
Theorem ticks_nonnegative : forall ppq an ps p t,
  0 <= ppq -> (forall p, In p ps -> part_wf p) -> In p ps -> 0 <= t ->
  0 <= tick ppq (ftp an ps) p t.
Proof. exact ticks_nonneg. Qed.
Print Assumptions ticks_nonnegative.

Theorem ticks_example :
  let p := mkPart 1 1 [(0, 3); (15, 4)] (Some (3, 4, 4)) (4, 4) [(0, 3, 60, 1); (7, 2, 62, 1)] [(0, 4, 4)] [] [] in
  part_wf p /\ (anac p == 1)%Q /\ tick 12 (ftp 0 [p]) p 7 = 28 /\ tick 12 (ftp 2 [p]) p 7 = 64.
Proof. exact part_wf_example. Qed.
Print Assumptions ticks_example.

(* ---------------------------------------------------------------------------------------------
   Model/C04_stream.v: tied chains, the message SEQUENCE of a written track, its reading. *)

(* "tied notes merged": following tie_next from a Note object through a chain l of objects that abut,
   duration_tied is the sum of the durations and the written note ends where the last object ends
   (the fuel of the model's recursion never runs out on a chain not longer than the fuel) *)
Theorem tied_chain_merged : forall pcs i l fuel,
  tie_path pcs i l -> abutting l -> (List.length l <= fuel)%nat ->
  exists r, dur_tied fuel pcs i = Some r /\ r = sum_durs l /\ chain_start l + r = chain_end l.
Proof. exact Proofs.C04_stream.tied_chain_merged. Qed.
Print Assumptions tied_chain_merged.

(* notes_tied has one entry per Note object without tie_prev *)
Theorem tied_notes_are_the_heads : forall pcs out, tied_notes pcs = Some out ->
  List.length out = List.length (filter (fun pc => negb (pc_has_prev pc)) pcs).
Proof. intros pcs out. exact (tied_from_heads pcs pcs 0 out). Qed.
Print Assumptions tied_notes_are_the_heads.

Theorem tied_example :
  let pcs := [(0, 3, 60, 1, false, Some 2); (0, 0, 64, 1, false, None); (3, 12, 60, 1, true, Some 4);
              (5, 2, 67, 2, false, None); (15, 5, 60, 1, true, None)] in
  tie_path pcs 0 [(0, 3, 60, 1, false, Some 2); (3, 12, 60, 1, true, Some 4); (15, 5, 60, 1, true, None)] /\
  tied_notes pcs = Some [(0, 20, 60, 1); (0, 0, 64, 1); (5, 2, 67, 2)].
Proof. exact Proofs.C04_stream.tied_example. Qed.
Print Assumptions tied_example.

(* O3, the exporter's half: the sequence save_score_midi writes for the notes N of a track (ticks
   ascending and distinct; per tick the signatures/tempi, the note offs, the zero-length notes as
   on/off pairs, the note ons) is read back by the importer's pairing loop as exactly N, whenever
   no two notes of one (channel, pitch) key overlap (zero-length notes may touch either end of a
   note and each other) -- for all N, all metas, every positive velocity *)
Theorem export_sequence_read_back : forall vel metas N,
  0 < vel -> (forall m, In m metas -> is_note_msg m = false) ->
  (forall n, In n N -> 0 <= n_dur n) -> no_overlap N ->
  Permutation (pair_notes no_open (stream vel metas N)) N.
Proof. exact stream_pairs. Qed.
Print Assumptions export_sequence_read_back.

(* the same through the whole model of save_score_midi, delta coding included, for each track, mode,
   anacrusis behaviour: qd_sorted = positive quarter durations at increasing times, notes_fwd = no
   negative duration_tied, parts_ok/bar_ok as in tick_integral_and_exact *)
Theorem score_track_roundtrip : forall mode vel an ppq ps i,
  0 < vel -> 0 <= ppq -> parts_ok ppq ps -> (forall p, In p ps -> bar_ok ppq p) ->
  (forall p, In p ps -> qd_sorted (p_qd p) /\ notes_fwd p) ->
  no_overlap (track_notes mode an ppq ps i) ->
  Permutation (pair_notes no_open (absolute (to_delta 0 (model_stream mode vel an ppq ps i))))
              (track_notes mode an ppq ps i).
Proof. exact Proofs.C04_stream.score_track_roundtrip. Qed.
Print Assumptions score_track_roundtrip.

(* the tick conversion is monotone: no note is written with its note off before its note on *)
Theorem tick_monotone : forall ppq an ps p t t',
  0 <= ppq -> parts_ok ppq ps -> (forall p, In p ps -> bar_ok ppq p) -> In p ps ->
  qd_sorted (p_qd p) -> t <= t' -> tick ppq (ftp an ps) p t <= tick ppq (ftp an ps) p t'.
Proof. exact tick_mono. Qed.
Print Assumptions tick_monotone.

(* delta coding of a message sequence is inverted by the importer's running time, for every sequence;
   the written sequence is in tick order, so its delta times are non-negative *)
Theorem sequence_delta_inverted : forall ms a, abs_from a (to_delta a ms) = ms.
Proof. exact abs_to_delta. Qed.
Print Assumptions sequence_delta_inverted.

Theorem sequence_deltas_nonneg : forall vel metas N,
  (forall x, In x (map m_time metas ++ note_ticks N) -> 0 <= x) ->
  Forall (fun d => 0 <= d) (map m_time (to_delta 0 (stream vel metas N))).
Proof. exact stream_deltas_nonneg. Qed.
Print Assumptions sequence_deltas_nonneg.

(* the requested velocity is used by every note_on, zero-length notes included *)
Theorem velocity_used : forall vel metas N m,
  (forall x, In x metas -> m_kind x <> 1) ->
  In m (stream vel metas N) -> m_kind m = 1 -> let '(_, _, _, _, v) := m in v = vel.
Proof. exact Proofs.C04_stream.velocity_used. Qed.
Print Assumptions velocity_used.

Theorem stream_example :
  let N := [(1, 4, 60, 2); (1, 0, 60, 4); (1, 4, 60, 0); (1, 0, 64, 6)] in
  let metas := [(0, 4, 500000, 0, 0); (4, 3, 2, 0, 0)] in
  no_overlap N /\
  stream 30 metas N =
    [(0, 4, 500000, 0, 0); (0, 1, 1, 60, 30); (0, 1, 1, 64, 30);
     (4, 3, 2, 0, 0); (4, 0, 1, 60, 0); (4, 1, 1, 60, 30); (4, 0, 1, 60, 0); (4, 1, 1, 60, 30);
     (6, 0, 1, 60, 0); (6, 0, 1, 64, 0)] /\
  pair_notes no_open (absolute (to_delta 0 (stream 30 metas N))) =
    [(1, 0, 60, 4); (1, 4, 60, 0); (1, 4, 60, 2); (1, 0, 64, 6)].
Proof. exact Proofs.C04_stream.stream_example. Qed.
Print Assumptions stream_example.

(* O4, "key and time signatures appear at the same musical positions" -- the exporter's half: a key
   signature at timeline time t of a part is in the written (delta-coded) sequence of every track holding
   notes of that part (k: any note key of the part), at the tick of t; likewise every time signature
   under "shift" *)
Theorem keysig_written : forall mode vel an ppq ps p t code k,
  In p ps -> In (t, code) (p_ksigs p) -> In k (all_keys ps) -> k_part k = p_id p ->
  In (tick ppq (ftp an ps) p t, code, 0)
     (track_sigs 3 (to_delta 0 (model_stream mode vel an ppq ps (fst (track_channel mode (all_keys ps) k))))).
Proof. exact Proofs.C04_stream.keysig_written. Qed.
Print Assumptions keysig_written.

Theorem timesig_written_shift : forall mode vel ppq ps p t b bt k,
  In p ps -> In (t, b, bt) (p_tsigs p) -> In k (all_keys ps) -> k_part k = p_id p ->
  In (tick ppq (ftp 0 ps) p t, b, bt)
     (track_sigs 2 (to_delta 0 (model_stream mode vel 0 ppq ps (fst (track_channel mode (all_keys ps) k))))).
Proof. exact Proofs.C04_stream.timesig_written_shift. Qed.
Print Assumptions timesig_written_shift.

(* the importer's half (make_track_to_part_mapping): an imported part has a key signature iff it holds the
   notes of some channel of a track carrying it, or the signature stands in a track without any note *)
Theorem import_keysigs_spec : forall mode trs prt sg,
  In (prt, sg) (import_sigs mode 3 trs) <->
  (exists i tr ch, In (i, tr) (indexed 0 trs) /\ In sg (track_sigs 3 tr) /\
                   In (i, ch) (tcs_of trs) /\ gpv_part mode (tcs_of trs) (i, ch) = prt)
  \/ (exists i tr ch', In (i, tr) (indexed 0 trs) /\ In sg (track_sigs 3 tr) /\ ~ track_sounds trs i /\
                       In ch' (tcs_of trs) /\ gpv_part mode (tcs_of trs) ch' = prt).
Proof. exact Proofs.C04_stream.import_keysigs_spec. Qed.
Print Assumptions import_keysigs_spec.

(* all tracks at once: the importer's reading (import_tracks: running time + sounding-note table, per
   track) of the file the model of save_score_midi writes is, track by track, exactly the notes the
   exporter put there, for every mode, anacrusis behaviour and velocity *)
Theorem score_file_roundtrip : forall mode vel an ppq ps,
  0 < vel -> 0 <= ppq -> parts_ok ppq ps -> (forall p, In p ps -> bar_ok ppq p) ->
  (forall p, In p ps -> qd_sorted (p_qd p) /\ notes_fwd p) ->
  (forall i, no_overlap (track_notes mode an ppq ps i)) ->
  Permutation (import_tracks 0 (model_file mode vel an ppq ps))
              (flat_map (fun i => map (fun n => (i, n)) (track_notes mode an ppq ps i))
                        (zrange 0 (Z.to_nat (n_tracks mode ps)))).
Proof. exact Proofs.C04_stream.score_file_roundtrip. Qed.
Print Assumptions score_file_roundtrip.

(* ---- state carried between calls (Model/C04_hist.v): a Score whose parts' quarter durations are edited
   between exports -- Part.set_quarter_duration (the list manipulation of the code: overwrite at t, insert
   unless redundant), score[i] = part -- and the ticks per quarter each save_score_midi call writes. *)

(* for ALL histories: every export observes f(current state), the current state being nothing but the fold
   of the edits made so far over the initial state (no other carrier of information between calls) *)
Theorem history_observation_is_current_state : forall st ops, run st ops = spec_obs st [] ops.
Proof. exact run_is_current_state. Qed.
Print Assumptions history_observation_is_current_state.

(* the statement is not vacuous: a variant that keeps the first result per minimum_ppq violates it *)
Theorem history_memo_refuted :
  exists st ops, run_memo [] st ops <> spec_obs st [] ops /\ run st ops = spec_obs st [] ops.
Proof. exact run_memo_refuted. Qed.
Print Assumptions history_memo_refuted.

(* whatever happened before, the ticks per quarter of an export are >= minimum_ppq and a multiple of every
   quarter duration the parts hold now (so every tick of the current score is integral) *)
Theorem history_ppq_divisible_now : forall st ops mn,
  (forall q, In q (all_q (state_after st ops)) -> 0 < q) ->
  exists ppq, run st (ops ++ [HExport mn]) = run st ops ++ [Some ppq] /\ mn <= ppq /\
              forall q, In q (all_q (state_after st ops)) -> (q | ppq).
Proof. exact history_ppq_divisible. Qed.
Print Assumptions history_ppq_divisible_now.

(* set_quarter_duration(t, q) on a part (lists starting at time 0): afterwards q is in force from t up to
   the next change point and nothing else changed -- although the code inserts nothing when the entry
   before t already has q and overwrites an entry at t *)
Theorem set_quarter_duration_spec : forall q0 r t q x, increasing_from 0 r = true -> 0 <= t ->
  qd_at q0 (set_qd None ((0, q0) :: r) t q) x =
  if (t <=? x) && before_next ((0, q0) :: r) t x then q else qd_at q0 ((0, q0) :: r) x.
Proof. exact set_qd_spec. Qed.
Print Assumptions set_quarter_duration_spec.

(* the times stay strictly increasing (the interpolators need it); the duration in force is one of the list *)
Theorem set_quarter_duration_increasing : forall l prev a t q, increasing_from a l = true -> a < t ->
  increasing_from a (set_qd prev l t q) = true.
Proof. exact set_qd_increasing. Qed.
Print Assumptions set_quarter_duration_increasing.

Theorem quarter_duration_in_force_is_listed : forall l d x, qd_at d l x = d \/ In (qd_at d l x) (map snd l).
Proof. exact qd_at_in. Qed.
Print Assumptions quarter_duration_in_force_is_listed.

Theorem history_example :
  run [[(0, 4)]; [(0, 6)]] [HExport 0; HSetQD 0 16 5; HExport 0; HSetQD 0 32 5; HSetQD 1 0 8; HExport 100;
                            HSetItem 0 [(0, 3)]; HExport 0]
  = [Some 12; Some 60; Some 160; Some 24]
  /\ state_after [[(0, 4)]; [(0, 6)]] [HSetQD 0 16 5; HSetQD 0 32 5; HSetQD 1 0 8] = [[(0, 4); (16, 5)]; [(0, 8)]].
Proof. exact history_example_pf. Qed.
Print Assumptions history_example.

(* ---- round j (Model/C04_tsc.v): the time-signature branch of save_score_midi under "time_sig_change" -- the
   insertion-ordered dict meta_events[part] (tick -> list), the measure loop with ts_changing_time and
   fitted_measure_time, the two-entries clean-up, the part's own signatures, then the key signatures; merged into
   the track with the dicts of the other parts of the track. *)

(* the dict: d[k].append(x) changes the list at k and no other *)
Theorem tsc_dict_append_spec : forall d k x k',
  d_get (d_append d k x) k' = if k' =? k then d_get d k' ++ [x] else d_get d k'.
Proof. exact d_get_append. Qed.
Print Assumptions tsc_dict_append_spec.

(* O4 under time_sig_change, key signatures, unbounded: for ALL tick maps, time signatures, measures (regular or
   not) and whatever other parts share the track (ds), every key signature of the part is in the written sequence
   of the track at the tick of its time -- the clean-up of the time-signature branch never removes one *)
Theorem tsc_keysig_written : forall tk tsigs ksigs ms ds t code,
  In (tsc_dict 0 tk tsigs ksigs ms) ds -> In (t, code) ksigs ->
  In (tk t, (3, code, 0)) (track_meta_seq ds).
Proof. exact keysig_in_track. Qed.
Print Assumptions tsc_keysig_written.

(* O4 under time_sig_change, time signatures; COMPLETE FINITE DOMAIN (the bound is `grids 5`: every measure grid of
   1..5 measures, each 2, 3 or 4 beats long, each with no / a 3/4 / a 4/4 / a 3/8 signature at its start, the first
   one with a signature: 203589 grids; tick map 3t+1, key signatures at 0 and 8): at the start tick of EVERY measure
   a reader of the track holds the score's signature when the measure has its nominal length and the fitted one
   (length in beats, same beat type) when it does not, and no tick carries two time signatures *)
Theorem tsc_signature_in_force_grids5 : forall g, In g (grids 5) ->
  let '(ts, ms) := grid_build 0 (4, 4) g in
  (forall m, In m ms ->
     in_force (track_meta_seq [tsc_dict 0 tk3 ts ks0 ms]) (tk3 (fst (fst m))) = Some (tsc_expected ts m))
  /\ NoDup (tsig_ticks (track_meta_seq [tsc_dict 0 tk3 ts ks0 ms])).
Proof. exact tsc_in_force_grids5. Qed.
Print Assumptions tsc_signature_in_force_grids5.

Theorem tsc_grids_example :
  Z.of_nat (List.length (grids 5)) = 203589 /\
  In [(2, 2); (3, 0); (4, 0); (3, 1)] (grids 5) /\
  (let '(ts, ms) := grid_build 0 (4, 4) [(2, 2); (3, 0); (4, 0); (3, 1)] in
   ts = [(0, 4, 4); (18, 3, 4)] /\
   ms = [(0, 4, inject_Z 2); (4, 10, inject_Z 3); (10, 18, inject_Z 4); (18, 24, inject_Z 3)] /\
   track_meta_seq [tsc_dict 0 tk3 ts ks0 ms] =
     [(1, (2, 2, 4)); (1, (3, 5, 0)); (13, (2, 3, 4)); (25, (3, 7, 0)); (31, (2, 4, 4)); (55, (2, 3, 4))]).
Proof. exact grids5_example. Qed.
Print Assumptions tsc_grids_example.

(* the statement discriminates: three one-token slips of the algorithm fail it on a grid of the domain *)
Theorem tsc_keysigs_before_cleanup_refuted :
  exists g, In g (grids 5) /\ grid_ok 1 tk3 ks0 g = false /\ grid_ok 0 tk3 ks0 g = true.
Proof. exact tsc_variant1_refuted. Qed.
Print Assumptions tsc_keysigs_before_cleanup_refuted.

Theorem tsc_cleanup_keeps_first_refuted :
  exists g, In g (grids 5) /\ grid_ok 2 tk3 ks0 g = false /\ grid_ok 0 tk3 ks0 g = true.
Proof. exact tsc_variant2_refuted. Qed.
Print Assumptions tsc_cleanup_keeps_first_refuted.

Theorem tsc_restore_unconditional_refuted :
  exists g, In g (grids 5) /\ grid_ok 3 tk3 ks0 g = false /\ grid_ok 0 tk3 ks0 g = true.
Proof. exact tsc_variant3_refuted. Qed.
Print Assumptions tsc_restore_unconditional_refuted.

(* O4 under time_sig_change, the score's own time signatures, unbounded: for ALL tick maps, signature lists, key
   signatures, measure lists and other parts of the track, a time signature of the part is in the written sequence
   of the track at the tick of its time unless a measure that does not have its nominal length starts there (then
   the fitted signature stands in its place, tsc_signature_in_force_grids5) *)
Theorem tsc_own_signature_written : forall tk tsigs ksigs ms ds t b bt,
  In (tsc_dict 0 tk tsigs ksigs ms) ds -> In (t, b, bt) tsigs ->
  (forall m, In m ms -> fst (fst m) = t -> irregular tsigs m = false) ->
  In (tk t, (2, b, bt)) (track_meta_seq ds).
Proof. exact own_signature_written. Qed.
Print Assumptions tsc_own_signature_written.

(* hypotheses satisfiable (a signature change at a regular measure); reading ts_changing_time where the code reads
   fitted_measure_time loses that signature *)
Theorem tsc_own_signature_wrong_list_refuted : exists tk tsigs ksigs ms t b bt,
  In (t, b, bt) tsigs /\ (forall m, In m ms -> fst (fst m) = t -> irregular tsigs m = false) /\
  ~ In (tk t, (2, b, bt)) (track_meta_seq [tsc_dict 4 tk tsigs ksigs ms]) /\
  In (tk t, (2, b, bt)) (track_meta_seq [tsc_dict 0 tk tsigs ksigs ms]).
Proof. exact own_variant4_refuted. Qed.
Print Assumptions tsc_own_signature_wrong_list_refuted.
