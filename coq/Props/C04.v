(* C04 -- property theorems: score -> MIDI -> score.  Statements + `exact` only; proofs are in
   Proofs/C04.v.  All definitions are those of Model/C04.v, the model the correspondence of
   harness/props/c04.py evaluates against save_score_midi / load_score_midi on every run. *)
From PV Require Import Lib.Base Lib.Round Model.C04 Proofs.C04 Proofs.C04_nonneg.
From Coq Require Import QArith Permutation.
#[local] Open Scope Z_scope.

(* O1: ticks per quarter = lcm of all quarter durations, doubled (the loop never runs out of its fuel)
   until >= minimum_ppq and no further; every quarter duration divides it *)
Theorem ppq_divisible_and_minimal : forall qdurs mn,
  (forall q, In q qdurs -> 0 < q) ->
  exists ppq, model_ppq qdurs mn = Some ppq /\ mn <= ppq /\ 0 < ppq /\
              (forall q, In q qdurs -> (q | ppq)) /\
              (exists k, ppq = lcm_list qdurs * 2 ^ Z.of_nat k) /\
              (ppq = lcm_list qdurs \/ ppq / 2 < mn).
Proof. exact ppq_spec. Qed.
Print Assumptions ppq_divisible_and_minimal.

Theorem lcm_is_least : forall l m, (forall q, In q l -> (q | m)) -> (lcm_list l | m).
Proof. exact lcm_list_least. Qed.
Print Assumptions lcm_is_least.

(* O2: for every part, every timeline time and every anacrusis behaviour the exact tick
   ppq * (quarter(t) - ftp) is an integer (any tuplet), and the conversion used by the code
   (round to nearest) returns exactly that integer.  bar_ok: a full bar of the signature in force
   at 0 is a whole number of ticks (needed for pad_bar only). *)
Theorem tick_integral_and_exact : forall ppq an ps p t,
  parts_ok ppq ps -> (forall p, In p ps -> bar_ok ppq p) -> In p ps ->
  exists k, (tick_q ppq (ftp an ps) p t == inject_Z k)%Q /\ tick ppq (ftp an ps) p t = k.
Proof. exact tick_integral. Qed.
Print Assumptions tick_integral_and_exact.

(* delta-time coding: the importer's running sum inverts the exporter's differences, for every list;
   sorted ticks give non-negative deltas; the model sorts *)
Theorem undelta_delta_id : forall ts, undelta (delta ts) = ts.
Proof. exact undelta_delta. Qed.
Print Assumptions undelta_delta_id.

Theorem delta_nonneg : forall a ts, nondecreasing_from a ts -> Forall (fun d => 0 <= d) (delta_from a ts).
Proof. exact delta_nonneg_from. Qed.
Print Assumptions delta_nonneg.

Theorem zsort_sorted : forall l a, (forall x, In x l -> a <= x) -> nondecreasing_from a (zsort l).
Proof. exact zsort_nondecr. Qed.
Print Assumptions zsort_sorted.

Theorem importer_time_is_undelta : forall ms, map m_time (absolute ms) = undelta (map m_time ms).
Proof. exact (absolute_times_from 0). Qed.
Print Assumptions importer_time_is_undelta.

(* the six part/voice -> track/channel numberings: two note keys share (track, channel) iff they are
   related by the mode's relation (0: part and voice, 1: group and part, 2: part, 3: part, 4: all,
   5: part and voice) *)
Theorem track_channel_share_iff_mode_rel : forall mode keys x y,
  0 <= mode <= 5 -> In x keys -> In y keys ->
  (track_channel mode keys x = track_channel mode keys y <-> mode_rel mode x y).
Proof. exact track_channel_share. Qed.
Print Assumptions track_channel_share_iff_mode_rel.

(* setdefault numbering is injective and dense *)
Theorem numbering_injective : forall (x y : Z) l, In x l -> In y l -> (number Z.eqb x l = number Z.eqb y l <-> x = y).
Proof. exact (number_inj Z.eqb Z.eqb_eq). Qed.
Print Assumptions numbering_injective.

Theorem numbering_dense : forall (x : Z) l, In x l -> 0 <= number Z.eqb x l < Z.of_nat (List.length (dedup Z.eqb l)).
Proof. exact (number_range Z.eqb Z.eqb_eq). Qed.
Print Assumptions numbering_dense.

(* assign_group_part_voice: two (track, channel) keys get the same (group, part, voice) iff ... *)
Theorem import_grouping : forall mode tcs x y,
  0 <= mode <= 5 -> In x tcs -> In y tcs ->
  (import_gpv mode tcs x = import_gpv mode tcs y <-> import_rel mode x y).
Proof. exact import_gpv_share. Qed.
Print Assumptions import_grouping.

(* O5: export with mode k then import with mode k groups two notes alike iff mode k relates them --
   every mode except 2 *)
Theorem roundtrip_grouping_modes_0_1_3_4_5 : forall mode keys tcs x y,
  0 <= mode <= 5 -> mode <> 2 -> In x keys -> In y keys ->
  In (track_channel mode keys x) tcs -> In (track_channel mode keys y) tcs ->
  (import_gpv mode tcs (track_channel mode keys x) = import_gpv mode tcs (track_channel mode keys y)
   <-> mode_rel mode x y).
Proof. exact roundtrip_grouping. Qed.
Print Assumptions roundtrip_grouping_modes_0_1_3_4_5.

(* mode 2 (known finding C04-K1): the full statement is false, everything ends in one part and voice *)
Theorem roundtrip_grouping_mode_2_refuted :
  exists keys tcs x y, In x keys /\ In y keys /\
    In (track_channel 2 keys x) tcs /\ In (track_channel 2 keys y) tcs /\
    import_gpv 2 tcs (track_channel 2 keys x) = import_gpv 2 tcs (track_channel 2 keys y) /\ ~ mode_rel 2 x y.
Proof. exact mode2_grouping_refuted. Qed.
Print Assumptions roundtrip_grouping_mode_2_refuted.

Theorem roundtrip_grouping_mode_2_coarse : forall keys tcs x y,
  In (track_channel 2 keys x) tcs -> In (track_channel 2 keys y) tcs ->
  import_gpv 2 tcs (track_channel 2 keys x) = import_gpv 2 tcs (track_channel 2 keys y).
Proof. exact mode2_grouping_coarse. Qed.
Print Assumptions roundtrip_grouping_mode_2_coarse.

(* O3: the importer's pairing (sounding-note table keyed by channel*128+pitch, note_on with velocity 0
   as note off) returns exactly the notes -- as a multiset -- whenever every (channel, pitch) stream of
   the track alternates on/off (order_ok).  That is what "no two equal-pitch notes overlap within one
   track/channel" plus the exporter's order at equal ticks (offs, zero-length notes, ons) gives; it is
   tested on every written track by the `alternating` correspondence. *)
Theorem pairing_inverts : forall vel as_on ns evs,
  (forall n, 0 < vel n) -> order_ok vel as_on ns evs -> Permutation (pair_notes no_open evs) ns.
Proof. exact Proofs.C04.pairing_inverts. Qed.
Print Assumptions pairing_inverts.

Theorem note_hash_injective : forall c1 p1 c2 p2, 0 <= p1 < 128 -> 0 <= p2 < 128 ->
  note_hash c1 p1 = note_hash c2 p2 -> c1 = c2 /\ p1 = p2.
Proof. exact note_hash_inj. Qed.
Print Assumptions note_hash_injective.

(* non-overlapping notes of one key in time order: their alternating stream is in time order *)
Theorem alternating_stream_time_sorted : forall vel as_on ns a,
  chain a ns -> nondecreasing_from a (map m_time (bracket vel as_on ns)).
Proof. exact bracket_time_sorted. Qed.
Print Assumptions alternating_stream_time_sorted.

(* hypotheses satisfiable: abutting equal-pitch notes, a zero-velocity note_on as off, a grace note *)
Theorem pairing_example :
  let ns := [(1, 0, 60, 4); (1, 4, 60, 2); (1, 4, 62, 0)] in
  let evs := [(0, 4, 500000, 0, 0); (0, 1, 1, 60, 30); (4, 1, 1, 60, 0); (4, 1, 1, 62, 30); (4, 0, 1, 62, 0);
              (4, 1, 1, 60, 30); (6, 0, 1, 60, 0)] in
  order_ok (fun _ => 30) (fun n => let '(_, s, _, _) := n in s =? 0) ns evs /\
  pair_notes no_open evs = [(1, 0, 60, 4); (1, 4, 62, 0); (1, 4, 60, 2)].
Proof. exact order_ok_example. Qed.
Print Assumptions pairing_example.

(* ticks are non-negative under each of the three anacrusis behaviours (shift, time_sig_change, pad_bar),
   for parts starting at 0 whose pickup is judged against the signature in force at 0 (part_wf) *)
Theorem ticks_nonnegative : forall ppq an ps p t,
  0 <= ppq -> (forall p, In p ps -> part_wf p) -> In p ps -> 0 <= t ->
  0 <= tick ppq (ftp an ps) p t.
Proof. exact ticks_nonneg. Qed.
Print Assumptions ticks_nonnegative.

Theorem ticks_example :
  let p := mkPart 1 1 [(0, 3); (15, 4)] (Some (3, 4, 4)) (4, 4) [(0, 3, 60, 1); (7, 2, 62, 1)] [(0, 4, 4)] [] [] in
  part_wf p /\ (anac p == 1)%Q /\ tick 12 (ftp 0 [p]) p 7 = 28 /\ tick 12 (ftp 2 [p]) p 7 = 64.
Proof. exact part_wf_example. Qed.
Print Assumptions ticks_example.
