(* C12 -- property theorems.  Statements + `exact` only; proofs live in Proofs/C12.v.
   Tables tab_* (Gen/C12_Tab.v) are the graphs of the real partitura functions on the
   finite domains named by the property, regenerated from the source on every run;
   "In (x, y) tab_f" therefore reads "the implementation's f returns y on x". *)
From PV Require Import Lib.Base Lib.Round Lib.Tab Model.C12 Gen.C12_Tab Proofs.C12.
From Coq Require Import QArith Qabs.
#[local] Open Scope Z_scope.

(* O1 twelve-tone arithmetic, C4 = 60, each accidental one semitone, each octave twelve *)
Theorem ps_to_midi_C4 : ps_to_midi "C" 0 4 = Some 60.
Proof. exact Proofs.C12.ps_to_midi_C4. Qed.
Print Assumptions ps_to_midi_C4.

Theorem ps_to_midi_shift : forall s a o m da do,
  ps_to_midi s a o = Some m -> ps_to_midi s (a + da) (o + do) = Some (m + da + 12 * do).
Proof. exact Proofs.C12.ps_to_midi_shift. Qed.
Print Assumptions ps_to_midi_shift.

(* every integer MIDI pitch (not only 0..127): spelling then pitch is the identity *)
Theorem midi_ps_roundtrip : forall m : Z,
  let '(s, a, o) := midi_to_ps m in ps_to_midi s a o = Some m.
Proof. exact midi_ps_roundtrip_lemma. Qed.
Print Assumptions midi_ps_roundtrip.

(* the implementation equals the model on all steps x alterations -3..3 x octaves -1..9 *)
Theorem impl_ps_to_midi : forall s a o,
  In s steps7 -> -3 <= a <= 3 -> -1 <= o <= 9 ->
  In ((s, a, o), ps_to_midi s a o) tab_ps_to_midi.
Proof. exact impl_ps_to_midi_lemma. Qed.
Print Assumptions impl_ps_to_midi.

Theorem impl_midi_to_ps : forall m, 0 <= m <= 127 ->
  let '(s, a, o) := midi_to_ps m in In (m, Some (s, Some a, Some o)) tab_midi_to_ps.
Proof. exact impl_midi_to_ps_lemma. Qed.
Print Assumptions impl_midi_to_ps.

(* note names: the implementation prints the model's name, and for octaves >= 0 (the
   documented grammar has no sign) parses it back to the same spelling and MIDI pitch *)
Theorem impl_note_name : forall s a o,
  In s steps7 -> -3 <= a <= 3 -> -1 <= o <= 9 ->
  In ((s, a, o), Some (note_name s a o)) tab_note_name /\
  (0 <= o -> In (note_name s a o, Some (s, Some a, Some o), ps_to_midi s a o) tab_name_parse).
Proof. exact impl_note_name_lemma. Qed.
Print Assumptions impl_note_name.

Theorem impl_note_name_accidental_spellings :
  all_rows tab_name_alt (fun k v => let '(s, a, o) := k in
     ps_res_eqb (fst v) (s, a, o) && zopt_eqb (snd v) (ps_to_midi s a o)) = true
  /\ List.length tab_name_alt = 336%nat.
Proof. exact tab_name_alt_ok. Qed.
Print Assumptions impl_note_name_accidental_spellings.

(* O2 keys: bijection on 15 + 15 names; everything else rejected *)
Theorem key_roundtrip : forall f m, -7 <= f <= 7 ->
  exists n, key_name f m = Some n /\ key_parse n = Some (f, m).
Proof. exact key_roundtrip_lemma. Qed.
Print Assumptions key_roundtrip.

Theorem key_names_distinct : NoDup (major_keys ++ minor_keys).
Proof. exact Proofs.C12.key_names_distinct. Qed.
Print Assumptions key_names_distinct.

Theorem key_name_rejects : forall f m, ~ (-7 <= f <= 7) -> key_name f m = None.
Proof. exact Proofs.C12.key_name_rejects. Qed.
Print Assumptions key_name_rejects.

(* implementation = model for all fifths -12..12 x all nine mode spellings (six accepted, three unknown) *)
Theorem impl_key_name : forall f mi, -12 <= f <= 12 -> 0 <= mi <= 8 ->
  In ((f, mi), key_name_sp f mi) tab_key_name.
Proof. exact impl_key_name_lemma. Qed.
Print Assumptions impl_key_name.

Theorem impl_key_parse : forall n, In n (major_keys ++ minor_keys) ->
  exists f m, key_parse n = Some (f, m) /\ In (n, Some (f, mode_string m)) tab_key_parse.
Proof. exact impl_key_parse_lemma. Qed.
Print Assumptions impl_key_parse.

(* O3 interval sizes: all 7 numbers x 7 qualities x 2 directions; exactly 39 classes *)
Theorem impl_interval : forall n q d, 1 <= n <= 7 -> In q quals ->
  In ((n, q, d), interval_semitones n q) tab_interval.
Proof. exact impl_interval_lemma. Qed.
Print Assumptions impl_interval.

Theorem interval_classes : List.length tab_intervalclasses = 39%nat /\
  forallb (fun n => forallb (fun q =>
     Bool.eqb (existsb (String.eqb (q ++ digit n)) tab_intervalclasses)
              (match interval_semitones n q with Some _ => true | None => false end)) quals) (zrange 1 7) = true.
Proof. exact interval_classes_39. Qed.
Print Assumptions interval_classes.

(* O3 dotted units and tempo units *)
Theorem dot_multipliers : list_eqb Qeq_bool tab_dot_mult [dot_mult 0; dot_mult 1; dot_mult 2; dot_mult 3] = true.
Proof. exact tab_dot_mult_ok. Qed.
Print Assumptions dot_multipliers.

Theorem tempo_units :
  all_rows tab_tempo (fun k v => match v, label_dur (fst k) with
                                 | Some x, Some l => Qeq_bool x (l * dot_mult (snd k))
                                 | _, _ => false end) = true /\ List.length tab_tempo = 56%nat.
Proof. exact tab_tempo_ok. Qed.
Print Assumptions tempo_units.

Theorem symbolic_durations :
  all_rows tab_symdur (fun k v => let '(u, dots, an, nn, divs) := k in qopt_close v (sym_dur u dots an nn divs)) = true
  /\ List.length tab_symdur = 1176%nat.
Proof. exact tab_symdur_ok. Qed.
Print Assumptions symbolic_durations.

(* O4 seconds <-> ticks *)
Theorem tick_roundtrip : forall ppq mpq k,
  0 < ppq -> 0 < mpq -> sec_to_tick ppq mpq (tick_to_sec ppq mpq k) = k.
Proof. exact tick_roundtrip_lemma. Qed.
Print Assumptions tick_roundtrip.

Theorem sec_to_tick_nearest : forall ppq mpq t,
  (Qabs (inject_Z (1000000 * ppq) * t / inject_Z mpq - inject_Z (sec_to_tick ppq mpq t)) <= 1 # 2)%Q.
Proof. exact sec_to_tick_nearest_lemma. Qed.
Print Assumptions sec_to_tick_nearest.

(* O5 frequency <-> MIDI pitch, rounded float arithmetic, whole MIDI range, three tunings *)
Theorem impl_freq_roundtrip : forall m a4, 0 <= m <= 127 -> In a4 [440; 415; 442] -> In ((m, a4), Some m) tab_freq.
Proof. exact impl_freq_lemma. Qed.
Print Assumptions impl_freq_roundtrip.

(* a frequency detuned by +-0.4 semitone still maps to the nearest MIDI pitch *)
Theorem impl_freq_nearest :
  all_rows tab_freq_off (fun k v => zopt_eqb v (Some (fst k))) = true /\ List.length tab_freq_off = 256%nat.
Proof. exact tab_freq_off_ok. Qed.
Print Assumptions impl_freq_nearest.

(* O6 mode and clef codes decode to what was encoded *)
Theorem mode_codes :
  all_rows tab_mode_int (fun mi r => zopt_eqb r (option_map mode_int (mode_of_spelling mi))) = true /\
  all_rows tab_int_mode (fun mi r => sopt_eqb r (option_map mode_string (mode_of_spelling mi))) = true /\
  covers Z.eqb (zrange 0 9) tab_mode_int (fun _ _ => true) = true /\
  covers Z.eqb (zrange 0 9) tab_int_mode (fun _ _ => true) = true.
Proof. exact tab_mode_codes_ok. Qed.
Print Assumptions mode_codes.

Theorem clef_codes :
  all_rows tab_clef (fun s r =>
    match r with
    | Some c => match zfind c tab_clef_back with Some (Some s') => String.eqb s s' | _ => false end
    | None => String.eqb s "X"
    end) = true /\
  all_rows tab_clef_back (fun c r =>
    match r with
    | Some s => match slookup s tab_clef with Some (Some c') => Z.eqb c c' | _ => false end
    | None => true
    end) = true /\
  covers String.eqb ["G"; "F"; "C"; "percussion"; "TAB"; "jianpu"; "none"]%string tab_clef
         (fun _ r => match r with Some _ => true | None => false end) = true.
Proof. exact tab_clef_codes_ok. Qed.
Print Assumptions clef_codes.

(* O5 over the reals (depends on the standard library's real-number axioms) *)
From PV Require Import Proofs.C12_real.
From Coq Require Import Reals.
Theorem freq_midi_inverse : forall a4 m : R, (0 < a4)%R -> midi_of_freq a4 (freq_of_midi a4 m) = m.
Proof. exact freq_midi_inverse_lemma. Qed.
Print Assumptions freq_midi_inverse.

Theorem freq_octave_doubles : forall a4 m : R, freq_of_midi a4 (m + 12) = (2 * freq_of_midi a4 m)%R.
Proof. exact freq_octave_lemma. Qed.
Print Assumptions freq_octave_doubles.

Theorem freq_a4 : forall a4 : R, freq_of_midi a4 69 = a4.
Proof. exact freq_a4_lemma. Qed.
Print Assumptions freq_a4.
