(* C12 -- property theorems.  Statements + `exact` only; proofs live in Proofs/C12*.v.
   Tables tab_* (Gen/C12_Tab.v) are the graphs of the real partitura functions on the
   finite domains named by the property (and the constant tables it lists), regenerated
   from the source on every run; "In (x, y) tab_f" therefore reads "the implementation's
   f returns y on x" (None = the call raised). *)
From PV Require Import Lib.Base Lib.Round Lib.Tab Model.C12 Gen.C12_Tab Proofs.C12_model Proofs.C12.
From Coq Require Import QArith Qabs.
#[local] Open Scope Z_scope.

(* ---- O1 twelve-tone arithmetic, C4 = 60, each accidental one semitone, each octave twelve ---- *)
Theorem ps_to_midi_C4 : ps_to_midi "C" 0 4 = Some 60.
Proof. exact Proofs.C12.ps_to_midi_C4. Qed.
Print Assumptions ps_to_midi_C4.

Theorem ps_to_midi_shift : forall s a o m da do,
  ps_to_midi s a o = Some m -> ps_to_midi s (a + da) (o + do) = Some (m + da + 12 * do).
Proof. exact Proofs.C12.ps_to_midi_shift. Qed.
Print Assumptions ps_to_midi_shift.

(* MIDI pitch -> spelling -> MIDI pitch is the identity for EVERY integer pitch and for every
   pitch-class table the algorithm of midi_pitch_to_pitch_spelling may be given, provided each
   entry (step, alter) of the table has base pitch class + alter = its pitch class *)
Theorem midi_ps_roundtrip_any_table : forall tab, dummy_ok tab = true -> forall m : Z,
  exists s a o, midi_to_ps_with tab m = Some (s, a, o) /\ In s steps7 /\ ps_to_midi s a o = Some m.
Proof. exact midi_ps_roundtrip_any. Qed.
Print Assumptions midi_ps_roundtrip_any_table.

Example dummy_ok_satisfiable : dummy_ok sharps_table = true.
Proof. exact sharps_table_ok. Qed.

(* ... in particular for the table the code has now (DUMMY_PS_BASE_CLASS, reflected) *)
Theorem midi_ps_roundtrip : forall m : Z,
  exists s a o, midi_to_ps_with tab_dummy_ps m = Some (s, a, o) /\ In s steps7 /\ ps_to_midi s a o = Some m.
Proof. exact midi_ps_roundtrip_lemma. Qed.
Print Assumptions midi_ps_roundtrip.

(* the pitch class of a spelling is its MIDI pitch modulo twelve, whatever the octave *)
Theorem step2pc_is_pitch_class : forall s a o m, ps_to_midi s a o = Some m -> step2pc s a = Some (m mod 12).
Proof. exact step2pc_spec. Qed.
Print Assumptions step2pc_is_pitch_class.

(* the implementation equals the model on all steps x alterations -3..3 x octaves -1..9 *)
Theorem impl_ps_to_midi : forall s a o,
  In s steps7 -> -3 <= a <= 3 -> -1 <= o <= 9 ->
  In ((s, a, o), ps_to_midi s a o) tab_ps_to_midi.
Proof. exact impl_ps_to_midi_lemma. Qed.
Print Assumptions impl_ps_to_midi.

Theorem impl_note_midi_pitch : forall s a o,
  In s steps7 -> -3 <= a <= 3 -> -1 <= o <= 9 ->
  In ((s, Some a, o), ps_to_midi s a o) tab_note_midi.
Proof. exact impl_note_midi_lemma. Qed.
Print Assumptions impl_note_midi_pitch.

(* alter None counts as unaltered; lower-case steps, where accepted, follow the same arithmetic *)
Theorem impl_alter_none_and_lower_case :
  all_rows tab_ps_to_midi_none (fun k v => zopt_eqb v (ps_to_midi (fst k) 0 (snd k))) = true /\
  all_rows tab_ps_to_midi_lower (fun k v => let '(s, a, o) := k in some_then_eqb v (ps_to_midi s a o)) = true /\
  all_rows tab_note_midi (fun k v => let '(s, a, o) := k in zopt_eqb v (ps_to_midi s (alter_or_0 a) o)) = true /\
  existsb (fun row => match fst row with (_, None, _) => true | _ => false end) tab_note_midi = true /\
  all_rows tab_note_midi_lower (fun k v => let '(s, a, o) := k in some_then_eqb v (ps_to_midi s a o)) = true.
Proof. exact (conj tab_ps_to_midi_none_all (conj tab_ps_to_midi_lower_ok tab_note_midi_all)). Qed.
Print Assumptions impl_alter_none_and_lower_case.

Theorem impl_step2pc : forall s a, In s steps7 -> -3 <= a <= 3 -> In ((s, a), step2pc s a) tab_step2pc.
Proof. exact impl_step2pc_lemma. Qed.
Print Assumptions impl_step2pc.

(* midi_pitch_to_pitch_spelling on 0..127 returns a spelling that sounds the pitch (which spelling
   is not prescribed), and it is the one the modelled algorithm computes from the code's own table *)
Theorem impl_midi_to_ps : forall m, 0 <= m <= 127 ->
  exists s a o, In (m, Some (s, Some a, Some o)) tab_midi_to_ps /\ ps_to_midi s a o = Some m /\
                midi_to_ps_with tab_dummy_ps m = Some (s, a, o).
Proof. exact impl_midi_to_ps_lemma. Qed.
Print Assumptions impl_midi_to_ps.

(* note names: printing then reading is the identity for EVERY octave >= 0 (the grammar has no sign),
   so printed names of different spellings differ *)
Theorem name_roundtrip : forall s a o, In s steps7 -> -3 <= a <= 3 -> 0 <= o ->
  parse_name (note_name s a o) = Some (s, a, o) /\ name_documented (note_name s a o) = true.
Proof. exact name_roundtrip_lemma. Qed.
Print Assumptions name_roundtrip.

Theorem note_name_injective : forall s a o s' a' o',
  In s steps7 -> -3 <= a <= 3 -> 0 <= o -> In s' steps7 -> -3 <= a' <= 3 -> 0 <= o' ->
  note_name s a o = note_name s' a' o' -> (s, a, o) = (s', a', o').
Proof. exact note_name_injective_lemma. Qed.
Print Assumptions note_name_injective.

(* each further accidental sign adds its own semitone *)
Theorem accidentals_additive : forall a b va vb, sign_value a = Some va -> sign_value b = Some vb ->
  sign_value (a ++ b) = Some (va + vb).
Proof. exact sign_value_app. Qed.
Print Assumptions accidentals_additive.

(* the implementation's printed name of every spelling of the domain is read back -- by the model's
   reader and by the implementation's -- as that spelling and its MIDI pitch (octaves 0..9); the
   accidental signs it prints are not prescribed *)
Theorem impl_note_name : forall s a o,
  In s steps7 -> -3 <= a <= 3 -> -1 <= o <= 9 ->
  exists n, In ((s, a, o), Some n) tab_note_name /\
  (0 <= o -> parse_name n = Some (s, a, o) /\ In (n, Some (s, Some a, Some o), ps_to_midi s a o) tab_name_parse).
Proof. exact impl_note_name_lemma. Qed.
Print Assumptions impl_note_name.

(* strings of the grammar [A-G][xb#]*digits: documented accidental strings (with one- and two-digit
   octaves) are accepted and read as the model reads them; other strings of signs are rejected or read
   one semitone per sign; note_name_to_midi_pitch is the MIDI pitch of what was read *)
Theorem impl_name_grammar :
  (forall n v, In (n, v) tab_name_grammar -> gram_row_ok n v = true) /\
  (forall s a o, In s steps7 -> In a doc_accs -> In o oct_strings ->
     exists r m, In ((s ++ a ++ o)%string, (Some r, m)) tab_name_grammar).
Proof. exact impl_name_grammar_lemma. Qed.
Print Assumptions impl_name_grammar.

Theorem impl_ensure_format_and_alter_sign :
  (all_rows tab_ensure_sign ensure_sign_ok = true /\
   covers ss_eqb (list_prod (steps7 ++ ["c"; "d"; "e"; "f"; "g"; "a"; "b"]%string) ["n"; "#"; "x"; "b"; "bb"]%string)
          tab_ensure_sign (fun _ _ => true) = true /\
   all_rows tab_ensure_int (fun k r => let '(s, a, o) := k in ps_res_eqb r (upper_step s, a, o)) = true /\
   Nat.leb 1 (List.length tab_ensure_int) = true) /\
  (all_rows tab_note_alter_sign (fun al r =>
     match r with
     | Some sg => all_acc_chars sg && zopt_eqb (sign_value sg) (Some (alter_or_0 al))
     | None => match al with Some a => (a <? -2) || (2 <? a) | None => false end
     end) = true /\
   covers zopt_eqb [None; Some (-2); Some (-1); Some 0; Some 1; Some 2] tab_note_alter_sign (fun _ _ => true) = true).
Proof. exact (conj tab_ensure_ok tab_note_alter_sign_ok). Qed.
Print Assumptions impl_ensure_format_and_alter_sign.

(* the constant tables the property lists agree with the model and with each other *)
Theorem constant_tables_agree :
  all_rows tab_base_pc (fun k v => zopt_eqb (base_pc k) (Some v)) = true /\
  covers String.eqb steps7 tab_base_pc (fun _ _ => true) = true /\
  all_rows tab_midi_base_class (fun k v => zopt_eqb (base_pc k) (Some v)) = true /\
  covers String.eqb lower7 tab_midi_base_class (fun _ _ => true) = true /\
  forallb (fun s => match slookup s tab_steps_idx with
                    | Some i => sopt_eqb (zlookup i tab_steps_letter) (Some s) | None => false end) steps7 = true /\
  forallb (fun i => match zlookup i tab_steps_letter with
                    | Some s => zopt_eqb (slookup s tab_steps_idx) (Some i) | None => false end) (zrange 0 7) = true /\
  forallb (fun n => zopt_eqb (s <- zlookup (n - 1) tab_steps_letter ;; base_pc s)
                             (interval_semitones n (if is_perfect n then "P" else "M")%string)) (zrange 1 7) = true /\
  all_rows tab_alt_to_int (fun k v => zopt_eqb (sign_value k) (Some v)) = true /\
  all_rows tab_int_to_alt (fun i s => zopt_eqb (slookup s tab_alt_to_int) (Some i)) = true /\
  covers Z.eqb (zrange (-2) 5) tab_int_to_alt (fun _ _ => true) = true /\
  all_rows tab_sign_to_alter (fun k v => match v with Some x => zopt_eqb (sign_value k) (Some x) | None => true end) = true /\
  covers String.eqb (tl doc_accs) tab_sign_to_alter (fun _ v => match v with Some _ => true | None => false end) = true /\
  forallb (fun n => forallb (fun q => zopt_eqb (slookup (q ++ digit n) tab_interval_to_semitones) (interval_semitones n q))
                            ["dd"; "d"; "m"; "M"; "P"; "A"; "AA"]%string) (zrange 1 7) = true.
Proof. exact tab_constants_ok. Qed.
Print Assumptions constant_tables_agree.

(* ---- O2 keys: bijection on 15 + 15 names; everything else rejected ---- *)
Theorem key_roundtrip : forall f m, -7 <= f <= 7 ->
  exists n, key_name f m = Some n /\ key_parse n = Some (f, m).
Proof. exact key_roundtrip_lemma. Qed.
Print Assumptions key_roundtrip.

(* the other direction, for every string: what key_parse reads is a key in -7..7 that prints as that string *)
Theorem key_parse_roundtrip : forall n f m, key_parse n = Some (f, m) -> -7 <= f <= 7 /\ key_name f m = Some n.
Proof. exact key_parse_sound. Qed.
Print Assumptions key_parse_roundtrip.

Theorem key_names_distinct : NoDup (major_keys ++ minor_keys).
Proof. exact Proofs.C12.key_names_distinct. Qed.
Print Assumptions key_names_distinct.

Theorem key_name_rejects : forall f m, ~ (-7 <= f <= 7) -> key_name f m = None.
Proof. exact Proofs.C12.key_name_rejects. Qed.
Print Assumptions key_name_rejects.

(* implementation = model for all fifths -12..12 x all nine mode spellings (six accepted, three unknown),
   for the function and for KeySignature.name *)
Theorem impl_key_name : forall f mi, -12 <= f <= 12 -> 0 <= mi <= 8 ->
  In ((f, mi), key_name_sp f mi) tab_key_name.
Proof. exact impl_key_name_lemma. Qed.
Print Assumptions impl_key_name.

Theorem impl_keysig_name : forall f mi, -12 <= f <= 12 -> 0 <= mi <= 8 ->
  In ((f, mi), key_name_sp f mi) tab_keysig_name.
Proof. exact impl_keysig_name_lemma. Qed.
Print Assumptions impl_keysig_name.

Theorem impl_key_parse : forall n, In n (major_keys ++ minor_keys) ->
  exists f m, key_parse n = Some (f, m) /\ In (n, Some (f, mode_string m)) tab_key_parse.
Proof. exact impl_key_parse_lemma. Qed.
Print Assumptions impl_key_parse.

(* ---- O3 interval sizes: all 7 numbers x 7 qualities x 2 directions; exactly 39 classes ---- *)
Theorem impl_interval : forall n q d, 1 <= n <= 7 -> In q quals ->
  In ((n, q, d), interval_semitones n q) tab_interval.
Proof. exact impl_interval_lemma. Qed.
Print Assumptions impl_interval.

Theorem interval_classes : List.length tab_intervalclasses = 39%nat /\
  forallb (fun n => forallb (fun q =>
     Bool.eqb (existsb (String.eqb (q ++ digit n)) tab_intervalclasses)
              (match interval_semitones n q with Some _ => true | None => false end)) quals) (zrange 1 7) = true.
Proof. exact interval_classes_39. Qed.
Print Assumptions interval_classes.

(* ---- O3 dotted units, tempo units, durations, tuplets ---- *)
Theorem dot_multipliers : list_eqb Qeq_bool tab_dot_mult [dot_mult 0; dot_mult 1; dot_mult 2; dot_mult 3] = true.
Proof. exact tab_dot_mult_ok. Qed.
Print Assumptions dot_multipliers.

Theorem dot_multiplier_values : (dot_mult 0 == 1 /\ dot_mult 1 == 3 # 2 /\ dot_mult 2 == 7 # 4 /\ dot_mult 3 == 15 # 8)%Q.
Proof. exact dot_mult_values. Qed.
Print Assumptions dot_multiplier_values.

Theorem dot_multiplier_step : forall k, 0 <= k -> (dot_mult (k + 1) == dot_mult k + 1 / inject_Z (2 ^ (k + 1)))%Q.
Proof. exact dot_mult_step. Qed.
Print Assumptions dot_multiplier_step.

Theorem label_durations :
  all_rows tab_label_durs (fun u v => match label_dur u with Some l => Qeq_bool v l | None => false end) = true
  /\ List.length tab_label_durs = 14%nat.
Proof. exact tab_label_durs_ok. Qed.
Print Assumptions label_durations.

(* to_quarter_tempo: 14 units x 0..3 dots x 5 tempo values *)
Theorem tempo_units :
  all_rows tab_tempo (fun k v => let '(u, dots, tp) := k in qopt_close v (quarter_tempo u dots tp)) = true
  /\ List.length tab_tempo = 280%nat.
Proof. exact tab_tempo_ok. Qed.
Print Assumptions tempo_units.

(* Tempo.microseconds_per_quarter is the integer nearest to 60e6 / (bpm in quarters): 14 units x 0..3 dots
   (and no unit = quarter) x 15 bpm values *)
Theorem tempo_microseconds_per_quarter :
  all_rows tab_mpq (fun k v => let '(u, dots, bpm) := k in
     match v, mpq_exact (unit_or_q u) dots bpm with Some x, Some e => mpq_nearest x e | _, _ => false end) = true
  /\ List.length tab_mpq = 855%nat.
Proof. exact tab_mpq_ok. Qed.
Print Assumptions tempo_microseconds_per_quarter.

Theorem symbolic_durations :
  all_rows tab_symdur (fun k v => let '(u, dots, an, nn, divs) := k in qopt_close v (sym_dur u dots an nn divs)) = true
  /\ List.length tab_symdur = 1176%nat.
Proof. exact tab_symdur_ok. Qed.
Print Assumptions symbolic_durations.

(* Tuplet.duration_multiplier: 6 ratios x (14 x 14 note types + no type) *)
Theorem tuplet_multipliers :
  all_rows tab_tuplet (fun k v => let '(an, nn, atype, ntype) := k in qopt_close v (tuplet_mult an nn atype ntype)) = true
  /\ List.length tab_tuplet = 1182%nat.
Proof. exact tab_tuplet_ok. Qed.
Print Assumptions tuplet_multipliers.

(* the tuplet multiplier is exactly the factor by which a tuplet scales a symbolic duration *)
Theorem tuplet_scales_symbolic_duration : forall u dots an nn divs d1 d m, an <> 0 ->
  sym_dur u dots 1 1 divs = Some d1 -> sym_dur u dots an nn divs = Some d -> tuplet_mult an nn u u = Some m ->
  (d == d1 * m)%Q.
Proof. exact tuplet_scales_sym_dur. Qed.
Print Assumptions tuplet_scales_symbolic_duration.

Example tuplet_hypotheses_satisfiable :
  exists d1 d m, sym_dur "eighth" 1 1 1 480 = Some d1 /\ sym_dur "eighth" 1 3 2 480 = Some d /\ tuplet_mult 3 2 "eighth" "eighth" = Some m.
Proof. do 3 eexists. repeat split. Qed.

(* ---- O4 seconds <-> ticks ---- *)
Theorem tick_roundtrip : forall ppq mpq k,
  0 < ppq -> 0 < mpq -> sec_to_tick ppq mpq (tick_to_sec ppq mpq k) = k.
Proof. exact tick_roundtrip_lemma. Qed.
Print Assumptions tick_roundtrip.

Theorem sec_to_tick_nearest : forall ppq mpq t,
  (Qabs (inject_Z (1000000 * ppq) * t / inject_Z mpq - inject_Z (sec_to_tick ppq mpq t)) <= 1 # 2)%Q.
Proof. exact sec_to_tick_nearest_lemma. Qed.
Print Assumptions sec_to_tick_nearest.

(* tempo and ticks are consistent: a quarter note at mpq microseconds per quarter is exactly ppq ticks *)
Theorem quarter_note_is_ppq_ticks : forall ppq mpq, 0 < ppq -> 0 < mpq ->
  sec_to_tick ppq mpq (inject_Z mpq / 1000000)%Q = ppq.
Proof. exact quarter_is_ppq_ticks. Qed.
Print Assumptions quarter_note_is_ppq_ticks.

(* later times never get earlier ticks *)
Theorem sec_to_tick_monotone : forall ppq mpq t1 t2, 0 < ppq -> 0 < mpq -> (t1 <= t2)%Q ->
  sec_to_tick ppq mpq t1 <= sec_to_tick ppq mpq t2.
Proof. exact Proofs.C12_model.sec_to_tick_monotone. Qed.
Print Assumptions sec_to_tick_monotone.

(* seconds -> ticks -> seconds moves a time by at most half a tick *)
Theorem sec_tick_sec_within_half_tick : forall ppq mpq t, 0 < ppq -> 0 < mpq ->
  (Qabs (tick_to_sec ppq mpq (sec_to_tick ppq mpq t) - t) <= (1 # 2) * (inject_Z mpq / inject_Z (1000000 * ppq)))%Q.
Proof. exact sec_tick_sec_error. Qed.
Print Assumptions sec_tick_sec_within_half_tick.

(* ---- O5 frequency <-> MIDI pitch, rounded float arithmetic, whole MIDI range, three tunings ---- *)
Theorem impl_freq_roundtrip : forall m a4, 0 <= m <= 127 -> In a4 [440; 415; 442] -> In ((m, a4), Some m) tab_freq.
Proof. exact impl_freq_lemma. Qed.
Print Assumptions impl_freq_roundtrip.

(* a frequency detuned by +-0.4 semitone still maps to the nearest MIDI pitch *)
Theorem impl_freq_nearest :
  all_rows tab_freq_off (fun k v => zopt_eqb v (Some (fst k))) = true /\ List.length tab_freq_off = 256%nat.
Proof. exact tab_freq_off_ok. Qed.
Print Assumptions impl_freq_nearest.

(* ---- O6 mode and clef codes decode to what was encoded (the code numbers are not prescribed) ---- *)
Theorem mode_codes :
  all_rows tab_mode_int mode_int_row_ok = true /\
  negb (zopt_eqb (mode_code 0) (mode_code 1)) = true /\
  all_rows tab_int_mode (fun mi r => sopt_eqb r (option_map mode_string (mode_of_spelling mi))) = true /\
  all_rows tab_mode_rt (fun mi r => sopt_eqb r (option_map mode_string (mode_of_spelling mi))) = true /\
  covers Z.eqb (zrange 0 9) tab_mode_int (fun _ _ => true) = true /\
  covers Z.eqb (zrange 0 9) tab_int_mode (fun _ _ => true) = true /\
  covers Z.eqb (zrange 0 9) tab_mode_rt (fun _ _ => true) = true.
Proof. exact tab_mode_codes_ok. Qed.
Print Assumptions mode_codes.

Theorem clef_codes :
  all_rows tab_clef (fun s r =>
    match r with
    | Some c => match zfind c tab_clef_back with Some (Some s') => String.eqb s s' | _ => false end
    | None => String.eqb s "X"
    end) = true /\
  all_rows tab_clef_back (fun c r =>
    match r with
    | Some s => match slookup s tab_clef with Some (Some c') => Z.eqb c c' | _ => false end
    | None => true
    end) = true /\
  covers String.eqb ["G"; "F"; "C"; "percussion"; "TAB"; "jianpu"; "none"]%string tab_clef
         (fun _ r => match r with Some _ => true | None => false end) = true.
Proof. exact tab_clef_codes_ok. Qed.
Print Assumptions clef_codes.

(* ---- T1 tie: the definitions T1_music.f are REGENERATED FROM THE SOURCE TEXT of the functions on every run
   (harness/t1.py, a fail-closed Python-ast -> Gallina translator; Gen/T1_music.v names file, function and the
   sha1 of each source segment).  First the equivalence with the hand model (spec_f of Model/T1_spec.v is the
   hand model at the types of the translation), for ALL arguments unless a guard is stated; then the unbounded
   theorems above, restated about the translated definitions.  If a function is outside the translator's subset
   in this run its T1 name is a stub equal to spec_f (the evidence file says so): the statement is then about
   the hand model only. ---- *)
From PV Require Import Lib.Py Model.T1_spec.
From PV Require Gen.T1_music Proofs.T1_core Proofs.C12_t1.
Theorem t1_step2pc_eq : forall s a,
  T1_music.step2pc s a = spec_step2pc s a.
Proof. exact PV.Proofs.T1_core.t1_step2pc_eq. Qed.
Print Assumptions t1_step2pc_eq.

Theorem t1_Interval_semitones_eq : forall iv,
  T1_music.Interval_semitones iv = spec_Interval_semitones iv.
Proof. exact PV.Proofs.T1_core.t1_Interval_semitones_eq. Qed.
Print Assumptions t1_Interval_semitones_eq.

Theorem t1_Interval_validate_eq : forall iv,
  T1_music.Interval_validate iv = spec_Interval_validate iv.
Proof. exact PV.Proofs.T1_core.t1_Interval_validate_eq. Qed.
Print Assumptions t1_Interval_validate_eq.

Theorem t1_pitch_spelling_to_midi_pitch_eq : forall s a o,
  T1_music.pitch_spelling_to_midi_pitch s a o = spec_pitch_spelling_to_midi_pitch s a o.
Proof. exact PV.Proofs.T1_core.t1_pitch_spelling_to_midi_pitch_eq. Qed.
Print Assumptions t1_pitch_spelling_to_midi_pitch_eq.

Theorem t1_find_smallest_unit_eq : forall fuel divs,
  T1_music.find_smallest_unit fuel divs = spec_find_smallest_unit fuel divs.
Proof. exact PV.Proofs.C12_t1.t1_find_smallest_unit_eq. Qed.
Print Assumptions t1_find_smallest_unit_eq.

Theorem t1_pitch_spelling_to_note_name_eq : forall s a o,
  -3 <= a <= 3 ->
  T1_music.pitch_spelling_to_note_name s a o = spec_pitch_spelling_to_note_name s a o.
Proof. exact PV.Proofs.C12_t1.t1_pitch_spelling_to_note_name_eq. Qed.
Print Assumptions t1_pitch_spelling_to_note_name_eq.

Theorem t1_key_mode_to_int_eq : forall m,
  T1_music.key_mode_to_int m = spec_key_mode_to_int m.
Proof. exact PV.Proofs.C12_t1.t1_key_mode_to_int_eq. Qed.
Print Assumptions t1_key_mode_to_int_eq.

Theorem t1_key_int_to_mode_eq : forall m,
  T1_music.key_int_to_mode m = spec_key_int_to_mode m.
Proof. exact PV.Proofs.C12_t1.t1_key_int_to_mode_eq. Qed.
Print Assumptions t1_key_int_to_mode_eq.

Theorem t1_clef_sign_to_int_eq : forall s,
  T1_music.clef_sign_to_int s = spec_clef_sign_to_int s.
Proof. exact PV.Proofs.C12_t1.t1_clef_sign_to_int_eq. Qed.
Print Assumptions t1_clef_sign_to_int_eq.

Theorem t1_clef_int_to_sign_eq : forall c,
  T1_music.clef_int_to_sign c = spec_clef_int_to_sign c.
Proof. exact PV.Proofs.C12_t1.t1_clef_int_to_sign_eq. Qed.
Print Assumptions t1_clef_int_to_sign_eq.

Theorem t1_fifths_mode_to_key_name_eq : forall f m,
  T1_music.fifths_mode_to_key_name f m = spec_fifths_mode_to_key_name f m.
Proof. exact PV.Proofs.C12_t1.t1_fifths_mode_to_key_name_eq. Qed.
Print Assumptions t1_fifths_mode_to_key_name_eq.

Theorem t1_key_name_to_fifths_mode_eq : forall n,
  In n (C12.major_keys ++ C12.minor_keys) ->
  T1_music.key_name_to_fifths_mode n = spec_key_name_to_fifths_mode n.
Proof. exact PV.Proofs.C12_t1.t1_key_name_to_fifths_mode_eq. Qed.
Print Assumptions t1_key_name_to_fifths_mode_eq.

Theorem t1_ensure_pitch_spelling_format_eq : forall s a o,
  T1_music.ensure_pitch_spelling_format s a o = spec_ensure_pitch_spelling_format s a o.
Proof. exact PV.Proofs.C12_t1.t1_ensure_pitch_spelling_format_eq. Qed.
Print Assumptions t1_ensure_pitch_spelling_format_eq.

Theorem t1_midi_pitch_to_pitch_spelling_eq : forall m,
  T1_music.midi_pitch_to_pitch_spelling m = spec_midi_pitch_to_pitch_spelling T1_music.DUMMY_PS_BASE_CLASS m.
Proof. exact PV.Proofs.C12_t1.t1_midi_pitch_to_pitch_spelling_eq. Qed.
Print Assumptions t1_midi_pitch_to_pitch_spelling_eq.

(* symbolic_to_numeric_duration read over exact rationals (the code computes floats); dots 0..3 (and -4..-1, which
   Python's negative indices wrap), an absent or zero tuplet count reads as 1 *)
Theorem t1_symbolic_to_numeric_duration_eq : forall sd divs,
  qopt_equiv (T1_music.symbolic_to_numeric_duration sd divs) (spec_symbolic_to_numeric_duration sd divs).
Proof. exact PV.Proofs.C12_t1.t1_symbolic_to_numeric_duration_eq. Qed.
Print Assumptions t1_symbolic_to_numeric_duration_eq.

(* midi_ticks_to_seconds read over exact rationals (the code computes floats); ppq = 0 raises *)
Theorem t1_midi_ticks_to_seconds_eq : forall ticks mpq ppq,
  qopt_equiv (T1_music.midi_ticks_to_seconds ticks mpq ppq) (spec_midi_ticks_to_seconds ticks mpq ppq).
Proof. exact PV.Proofs.C12_t1.t1_midi_ticks_to_seconds_eq. Qed.
Print Assumptions t1_midi_ticks_to_seconds_eq.

(* ticks -> seconds by the translated definition -> ticks by the model's rounding: the identity (all ppq, mpq > 0, all k) *)
Theorem t1_tick_roundtrip : forall ppq mpq k, 0 < ppq -> 0 < mpq ->
  exists t, T1_music.midi_ticks_to_seconds k mpq ppq = Some t /\ sec_to_tick ppq mpq t = k.
Proof. exact PV.Proofs.C12_t1.t1_tick_roundtrip. Qed.
Print Assumptions t1_tick_roundtrip.

Theorem t1_Tuplet_duration_multiplier_eq : forall t,
  qopt_equiv (T1_music.Tuplet_duration_multiplier t) (spec_Tuplet_duration_multiplier t).
Proof. exact PV.Proofs.C12_t1.t1_Tuplet_duration_multiplier_eq. Qed.
Print Assumptions t1_Tuplet_duration_multiplier_eq.

Theorem t1_Note_alter_sign_eq : forall x,
  T1_music.Note_alter_sign x = spec_Note_alter_sign x.
Proof. exact PV.Proofs.C12_t1.t1_Note_alter_sign_eq. Qed.
Print Assumptions t1_Note_alter_sign_eq.

Theorem t1_Note_midi_pitch_eq : forall x,
  T1_music.Note_midi_pitch x = spec_Note_midi_pitch x.
Proof. exact PV.Proofs.C12_t1.t1_Note_midi_pitch_eq. Qed.
Print Assumptions t1_Note_midi_pitch_eq.

Theorem t1_KeySignature_name_eq : forall k,
  T1_music.KeySignature_name k = spec_KeySignature_name k.
Proof. exact PV.Proofs.C12_t1.t1_KeySignature_name_eq. Qed.
Print Assumptions t1_KeySignature_name_eq.

Theorem t1_ps_to_midi_C4 : T1_music.pitch_spelling_to_midi_pitch "C" None 4 = Some 60.
Proof. exact PV.Proofs.C12_t1.t1_ps_to_midi_C4. Qed.
Print Assumptions t1_ps_to_midi_C4.

Theorem t1_ps_to_midi_shift : forall s a o m da do,
  T1_music.pitch_spelling_to_midi_pitch s (Some a) o = Some m ->
  T1_music.pitch_spelling_to_midi_pitch s (Some (a + da)) (o + do) = Some (m + da + 12 * do).
Proof. exact PV.Proofs.C12_t1.t1_ps_to_midi_shift. Qed.
Print Assumptions t1_ps_to_midi_shift.

Theorem t1_midi_ps_roundtrip : forall (m : Z),
  exists s a o, T1_music.midi_pitch_to_pitch_spelling m = Some (s, a, o) /\ In s C12.steps7 /\
                T1_music.pitch_spelling_to_midi_pitch s (Some a) o = Some m.
Proof. exact PV.Proofs.C12_t1.t1_midi_ps_roundtrip. Qed.
Print Assumptions t1_midi_ps_roundtrip.

Theorem t1_step2pc_is_pitch_class : forall s a o m,
  In s C12.steps7 ->
  T1_music.pitch_spelling_to_midi_pitch s (Some a) o = Some m -> T1_music.step2pc s a = Some (m mod 12).
Proof. exact PV.Proofs.C12_t1.t1_step2pc_is_pitch_class. Qed.
Print Assumptions t1_step2pc_is_pitch_class.

Theorem t1_key_name_rejects : forall f m,
  ~ (-7 <= f <= 7) -> T1_music.fifths_mode_to_key_name f m = None.
Proof. exact PV.Proofs.C12_t1.t1_key_name_rejects. Qed.
Print Assumptions t1_key_name_rejects.

Theorem t1_key_roundtrip : forall f md,
  -7 <= f <= 7 ->
  exists n, T1_music.fifths_mode_to_key_name f (pyval_of_mode md) = Some n /\
            T1_music.key_name_to_fifths_mode n = Some (f, C12.mode_string md).
Proof. exact PV.Proofs.C12_t1.t1_key_roundtrip. Qed.
Print Assumptions t1_key_roundtrip.

Theorem t1_mode_roundtrip : forall m c,
  T1_music.key_mode_to_int m = Some c ->
  T1_music.key_int_to_mode (PyInt c) = T1_music.key_int_to_mode m /\ T1_music.key_int_to_mode m <> None.
Proof. exact PV.Proofs.C12_t1.t1_mode_roundtrip. Qed.
Print Assumptions t1_mode_roundtrip.

Theorem t1_clef_roundtrip : forall s c,
  T1_music.clef_sign_to_int s = Some c -> T1_music.clef_int_to_sign c = Some s.
Proof. exact PV.Proofs.C12_t1.t1_clef_roundtrip. Qed.
Print Assumptions t1_clef_roundtrip.

Theorem t1_note_midi_pitch : forall s a o,
  T1_music.Note_midi_pitch (mk_note s a o) = C12.ps_to_midi s (alter_or_0 a) o.
Proof. exact PV.Proofs.C12_t1.t1_note_midi_pitch. Qed.
Print Assumptions t1_note_midi_pitch.

Theorem t1_note_name_roundtrip : forall s a o n,
  In s C12.steps7 -> -3 <= a <= 3 -> 0 <= o ->
  T1_music.pitch_spelling_to_note_name s a o = Some n -> C12.parse_name n = Some (s, a, o).
Proof. exact PV.Proofs.C12_t1.t1_note_name_roundtrip. Qed.
Print Assumptions t1_note_name_roundtrip.

Theorem t1_find_smallest_unit_odd_part : forall fuel divs u,
  T1_music.find_smallest_unit fuel divs = Some u ->
  u mod 2 = 1 /\ exists k, 0 <= k /\ divs = u * 2 ^ k.
Proof. exact PV.Proofs.C12_t1.t1_find_smallest_unit_odd_part. Qed.
Print Assumptions t1_find_smallest_unit_odd_part.

(* ---- O3 over HISTORIES: the Interval object (Model/C12_Interval.v).  The state of a score.Interval is its three
   public attributes; [step_code] is the machine of the code as it is -- the reads are the definitions regenerated
   from the source text (T1_music.Interval_semitones / Interval_validate / transpose_note /
   transpose_note_inplace), change_quality is the method's two ladders, tied to the code by replaying every generated
   history of operations on a real object through [hist_agrees] (harness/props/c12.py, stream "history").
   After ANY history of reads, transpositions, change_quality calls and assignments of number / quality /
   direction, from ANY initial fields: the size read from the object is the table value (major/perfect size +
   quality offset) of its CURRENT fields, transposing with it is transposing with a freshly constructed interval of
   those fields, and every operation of the history returned what the fields at that moment define. ---- *)
From PV Require Import Model.C12_Interval Proofs.C12_interval.
Theorem interval_history_semitones : forall (f0 : PyInterval) (ops : list iop),
  let s := final_code ops f0 in
  read_code s = C12.interval_semitones (i_number s) (i_quality s) /\
  (forall st al, tn_code s st al = T1_music.transpose_note st al (mk_interval (i_number s) (i_quality s) (i_direction s))) /\
  (forall x, tr_code s x = T1_music.transpose_note_inplace x (mk_interval (i_number s) (i_quality s) (i_direction s))) /\
  Forall (fun t : tstep => let '(f, o, ob, f') := t in ob = obs_spec o f /\ f' = fields_spec o f) (trace_code ops f0).
Proof. exact interval_history_semitones_lemma. Qed.
Print Assumptions interval_history_semitones.

(* the same as a boolean over the generic runner (any machine: state type, step function, public fields) *)
Theorem interval_history_ok : forall ops f0, history_ok step_code (fun s => s) ops f0 = true.
Proof. exact interval_history_ok_lemma. Qed.
Print Assumptions interval_history_ok.

(* the fields after a history are the fold of the assignments (change_quality: one rung per semitone, or no change) *)
Theorem interval_history_fields : forall ops f0,
  final_code ops f0 = fold_left (fun f o => fields_spec o f) ops f0.
Proof. exact final_code_fields. Qed.
Print Assumptions interval_history_fields.

(* NOT vacuous: a machine that memoises `semitones` on the object and never invalidates it (not the code) violates
   the statement -- read, change_quality(-1), read *)
Theorem interval_history_memo_refuted : exists f0 ops, history_ok step_memo m_iv ops (memo_init f0) = false.
Proof. exact interval_history_memo_refuted_lemma. Qed.
Print Assumptions interval_history_memo_refuted.

Example interval_memo_stale :
  let s := snd (run step_memo m_iv [OpRead; OpCq (-1)] (memo_init (mk_interval 3 "M" "up"))) in
  m_iv s = mk_interval 3 "m" "up" /\
  snd (step_memo OpRead s) = ObZ (Some 4) /\
  obs_spec OpRead (m_iv s) = ObZ (Some 3) /\
  snd (step_memo (OpTn "C" 0) s) = ObSA (Some ("E"%string, 0)) /\
  spec_transpose_note "C" 0 (m_iv s) = Some ("E"%string, -1).
Proof. exact interval_memo_stale_example. Qed.
Print Assumptions interval_memo_stale.

(* change_quality(k) on an interval class moves its size by exactly k semitones and leaves number and direction *)
Theorem change_quality_shifts_semitones : forall iv k iv' sem,
  C12.interval_semitones (i_number iv) (i_quality iv) = Some sem ->
  change_quality iv k = Some iv' ->
  i_number iv' = i_number iv /\ i_direction iv' = i_direction iv /\
  C12.interval_semitones (i_number iv') (i_quality iv') = Some (sem + k).
Proof. exact change_quality_shifts_lemma. Qed.
Print Assumptions change_quality_shifts_semitones.

(* a non-trivial history: P5 up, read 7, raised twice (AA5, 9), number := 6 (AA6, 11), lowered by three (m6, 8),
   direction := down; transpose_note then refuses (only "up" is supported) *)
Example interval_history_nontrivial :
  let ops := [OpRead; OpCq 2; OpRead; OpSetN 6; OpRead; OpCq (-3); OpSetD "down"; OpRead; OpTn "C" 0; OpStr] in
  map (fun t : tstep => snd (fst t)) (trace_code ops (mk_interval 5 "P" "up")) =
    [ObZ (Some 7); ObU (Some tt); ObZ (Some 9); ObU (Some tt); ObZ (Some 11); ObU (Some tt); ObU (Some tt);
     ObZ (Some 8); ObSA None; ObS "6m"] /\
  final_code ops (mk_interval 5 "P" "up") = mk_interval 6 "m" "down".
Proof. exact interval_history_example. Qed.
Print Assumptions interval_history_nontrivial.

(* ---- round j: note_name_to_pitch_spelling / note_name_to_midi_pitch as the code reads a name: the compiled
   pattern (one letter A-G, greedy x b # group, greedy digit group) applied with .search, the sign group looked
   up in SIGN_TO_ALTER (reflected: tab_sign_to_alter), the digit group read by int().  Model/C12_NoteName.v;
   tied to the code by the correspondence stream "namesearch" of harness/props/c12.py. ---- *)
From PV Require Import Model.C12_NoteName Proofs.C12_notename.
From Coq Require Import Ascii NArith Decimal DecimalString.

(* ALL texts: a successful search returns the groups of the LEFTMOST position at which an attempt of the pattern
   succeeds; both groups are maximal (greedy) *)
Theorem name_search_leftmost : forall n c a d, re_search n = Some (c, a, d) ->
  exists pre rest, n = (pre ++ String c (a ++ d ++ rest))%string /\
    is_step_char c = true /\ all_chars is_acc_char a = true /\ all_chars is_digit_char d = true /\
    d <> EmptyString /\ starts_not is_digit_char rest = true /\
    (forall p1 p2, pre = (p1 ++ p2)%string -> p2 <> EmptyString ->
                   match_here (p2 ++ String c (a ++ d ++ rest)) = None).
Proof. exact search_sound. Qed.
Print Assumptions name_search_leftmost.

(* ALL texts: the search rejects only a text in which no attempt succeeds at any position ... *)
Theorem name_search_rejects_only_nameless : forall n, re_search n = None ->
  forall pre s, n = (pre ++ s)%string -> match_here s = None.
Proof. exact search_none. Qed.
Print Assumptions name_search_rejects_only_nameless.

(* ... so a text that holds letter, signs over x b #, digits anywhere is never rejected by the search *)
Theorem name_search_finds : forall pre c a d rest,
  is_step_char c = true -> all_chars is_acc_char a = true -> all_chars is_digit_char d = true ->
  d <> EmptyString -> starts_not is_digit_char rest = true ->
  exists g, re_search (pre ++ String c (a ++ d ++ rest)) = Some g.
Proof. exact search_finds. Qed.
Print Assumptions name_search_finds.

(* the code's SIGN_TO_ALTER (as reflected in this run) counts one semitone per sign on every key over x b #
   and reads the empty group as the natural *)
Theorem impl_sign_table_one_semitone_per_sign : sign_table_ok tab_sign_to_alter = true.
Proof. exact tab_sign_table_ok. Qed.
Print Assumptions impl_sign_table_one_semitone_per_sign.

(* ALL texts, every table that is sign_table_ok: whatever value the two functions give is twelve-tone arithmetic
   of the leftmost name in the text -- step = its letter, alteration = one semitone per sign of its sign group,
   octave = decimal value of its digit group (>= 0), MIDI pitch = (octave + 1) * 12 + base pitch class + alteration *)
Theorem name_value_twelve_tone : forall tab n s v o, sign_table_ok tab = true ->
  nn_spelling_with tab n = Some (s, v, o) ->
  exists c a d u b, re_search n = Some (c, a, d) /\ s = String c EmptyString /\ In s steps7 /\
    sign_value a = Some v /\
    NilEmpty.uint_of_string d = Some u /\ o = Z.of_N (N.of_uint u) /\ 0 <= o /\
    base_pc s = Some b /\ nn_midi_with tab n = Some ((o + 1) * 12 + b + v).
Proof. exact nn_value_sound. Qed.
Print Assumptions name_value_twelve_tone.

(* inverse, EVERY octave >= 0, inside ANY surrounding text: the printed name of (step, alter -3..3, octave) is read
   back as that spelling and as its MIDI pitch by the code's table, behind any text without a letter A-G and in front
   of any text that does not begin with a digit *)
Theorem name_read_printed_anywhere : forall s a o pre rest,
  In s steps7 -> -3 <= a <= 3 -> 0 <= o ->
  all_chars (fun c => negb (is_step_char c)) pre = true -> starts_not is_digit_char rest = true ->
  nn_spelling_with tab_sign_to_alter (pre ++ note_name s a o ++ rest) = Some (s, a, o) /\
  nn_midi_with tab_sign_to_alter (pre ++ note_name s a o ++ rest) = ps_to_midi s a o.
Proof. intros s a o pre rest. exact (nn_read_printed tab_sign_to_alter s a o pre rest tab_sign_prints). Qed.
Print Assumptions name_read_printed_anywhere.

(* on whole strings of the grammar the search model and the whole-string model (parse_name, the one the tabulated
   names are judged by) give the same spelling whenever the table accepts the sign group *)
Theorem name_search_agrees_whole_string : forall tab n r r', sign_table_ok tab = true ->
  parse_name n = Some r -> nn_spelling_with tab n = Some r' -> r' = r.
Proof. exact nn_agrees_parse_name. Qed.
Print Assumptions name_search_agrees_whole_string.

Example name_search_example :
  nn_spelling_with tab_sign_to_alter "xyAb G##007;C4"%string = Some ("G"%string, 2, 7) /\
  nn_midi_with tab_sign_to_alter "xyAb G##007;C4"%string = Some 105 /\
  nn_spelling_with tab_sign_to_alter "Cxb4"%string = None /\
  nn_spelling_with tab_sign_to_alter "c4 H2 C#"%string = None.
Proof. exact nn_embedded_example. Qed.
Print Assumptions name_search_example.

(* the statements discriminate: a search that gives up after the first failed attempt violates
   name_search_rejects_only_nameless; an anchored match violates name_read_printed_anywhere; a table in which the
   double sharp counts one semitone is not sign_table_ok and violates the conclusion of name_value_twelve_tone *)
Example name_search_giveup_refuted :
  re_search_giveup "AB4"%string = None /\ match_here "B4"%string <> None /\
  re_search "AB4"%string = Some ("B"%char, EmptyString, "4"%string).
Proof. exact search_giveup_refuted. Qed.
Print Assumptions name_search_giveup_refuted.

Example name_anchored_refuted :
  re_match ("= " ++ note_name "F" 1 3)%string = None /\
  re_search ("= " ++ note_name "F" 1 3)%string = Some ("F"%char, "#"%string, "3"%string).
Proof. exact anchored_refuted. Qed.
Print Assumptions name_anchored_refuted.

Example name_bad_table_refuted :
  sign_table_ok bad_sign_table = false /\
  nn_spelling_with bad_sign_table "Cx4"%string = Some ("C"%string, 1, 4) /\
  sign_value "x"%string = Some 2 /\ nn_midi_with bad_sign_table "Cx4"%string = Some 61.
Proof. exact (conj bad_sign_table_not_ok bad_table_refuted). Qed.
Print Assumptions name_bad_table_refuted.

(* ---- O5 over the reals (depends on the standard library's real-number axioms) ---- *)
From PV Require Import Proofs.C12_real.
From Coq Require Import Reals.
Theorem freq_midi_inverse : forall a4 m : R, (0 < a4)%R -> midi_of_freq a4 (freq_of_midi a4 m) = m.
Proof. exact freq_midi_inverse_lemma. Qed.
Print Assumptions freq_midi_inverse.

Theorem freq_octave_doubles : forall a4 m : R, freq_of_midi a4 (m + 12) = (2 * freq_of_midi a4 m)%R.
Proof. exact freq_octave_lemma. Qed.
Print Assumptions freq_octave_doubles.

Theorem freq_a4 : forall a4 : R, freq_of_midi a4 69 = a4.
Proof. exact freq_a4_lemma. Qed.
Print Assumptions freq_a4.
