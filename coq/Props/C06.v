(* C06 -- performance MIDI export and import preserve notes, controls and timing.
   Statements + `exact` only; proofs in Proofs/C06*.v.  The model (Model/C06.v: save, load,
   pair_notes, sort_notes, tempo_list, adjust_time; Model/C06_perf.v: sanitize, rs_notes, rs_times;
   Model/C06_hist.v: histories of saves; Model/C06_file.v: tempo changes / seconds / notes of a file read with and without merge_tracks) is
   tied to partitura/io/exportmidi.py, importmidi.py, performance.py and utils/music.py by the
   correspondence run by harness/props/c06.py on every check. *)
From PV Require Import Lib.Base Lib.Round Model.C12 Model.C06 Model.C06_perf Proofs.C06_lib Proofs.C06 Proofs.C06_pair Proofs.C06_save Proofs.C06_merge Proofs.C06_check Proofs.C06_sec Proofs.C06_perf Proofs.C06_tracks Model.C06_hist Proofs.C06_hist Model.C06_file Proofs.C06_file.
From Coq Require Import QArith Qabs Sorted Permutation.
#[local] Open Scope Z_scope.

(* O1a  the exporter's tick is a nearest tick of the time in seconds -- all ppq, mpq, times, and
   whatever is done with a time exactly half way between two ticks (rule) *)
Theorem tick_of_sec_nearest : forall rule ppq mpq t,
  (Qabs (inject_Z (1000000 * ppq) * t / inject_Z mpq - inject_Z (sec_to_tick_r rule ppq mpq t)) <= 1 # 2)%Q.
Proof. exact tick_of_sec_nearest_lemma. Qed.
Print Assumptions tick_of_sec_nearest.

(* rule 0 is round-half-to-even: np.round, and the conversion Model.C12 proves things about *)
Theorem sec_to_tick_rule0 : forall ppq mpq t, sec_to_tick_r 0 ppq mpq t = sec_to_tick ppq mpq t.
Proof. exact sec_to_tick_rule0_lemma. Qed.
Print Assumptions sec_to_tick_rule0.

(* O1b  tick -> seconds -> tick is the identity (exact arithmetic) *)
Theorem tick_roundtrip : forall rule ppq mpq k,
  0 < ppq -> 0 < mpq -> sec_to_tick_r rule ppq mpq (tick_to_sec ppq mpq k) = k.
Proof. exact tick_roundtrip_lemma. Qed.
Print Assumptions tick_roundtrip.

(* O1c  seconds -> tick -> seconds moves a time by at most half a tick *)
Theorem sec_roundtrip_halftick : forall rule ppq mpq s,
  0 < ppq -> 0 < mpq ->
  (Qabs (tick_to_sec ppq mpq (sec_to_tick_r rule ppq mpq s) - s) <= inject_Z mpq / inject_Z (2 * (1000000 * ppq)))%Q.
Proof. exact sec_roundtrip_halftick_lemma. Qed.
Print Assumptions sec_roundtrip_halftick.

(* O2a  adjust_time on tick-ordered tempo changes is the integral of the tempo step function:
   every tick k < tick lasts tempo_at k microseconds per quarter / ppq *)
Theorem adjust_time_sorted : forall ppq tc tick,
  tick_sorted tc -> Forall (fun e => 0 <= fst e) tc -> 0 <= tick ->
  adjust_time ppq tc tick = seconds_spec ppq tc tick.
Proof. exact adjust_time_sorted_lemma. Qed.
Print Assumptions adjust_time_sorted.

(* O2b  the loader: whatever the order in which the tempo changes were read (any track), the
   seconds of a tick are the integral over the changes ordered by tick *)
Theorem load_seconds_spec : forall ppq collected tick,
  Forall (fun e => 0 <= fst e) collected -> 0 <= tick ->
  adjust_time ppq (tempo_list collected) tick = seconds_spec ppq (sort_by_tick collected) tick.
Proof. exact load_seconds_spec_lemma. Qed.
Print Assumptions load_seconds_spec.

(* the integral on a file with a tempo change in a later track at an earlier tick (D12's witness:
   tempo 600000 from tick 960 read first, tempo 250000 from tick 240 read second, ppq 480):
   tick 1440 is at 0.25 + 0.375 + 0.6 s *)
Theorem load_seconds_example :
  (adjust_time 480 (tempo_list [(0, 500000); (960, 600000); (240, 250000)]%Z) 1440%Z == 1225 # 1000)%Q.
Proof. exact load_seconds_example_lemma. Qed.
Print Assumptions load_seconds_example.

(* O3  a note-on (velocity > 0) is paired with the next note-off or zero-velocity note-on of the
   same channel and pitch, whatever else happens in between on other keys *)
Theorem pairing_next_off : forall pre t1 ch p v mid t2 m2 post,
  0 < v ->
  (forall e, In e mid -> is_note_ev (note_hash ch p) (snd e) = false) ->
  is_off_for ch p m2 = true ->
  In (mkLN p v ch t1 t2) (pair_notes [] (pre ++ (t1, NoteOn ch p v) :: mid ++ (t2, m2) :: post)).
Proof. exact pairing_next_off_lemma. Qed.
Print Assumptions pairing_next_off.

(* O3, whole track: the message loop, restricted to one (channel, pitch), is the message loop run on
   the messages of that (channel, pitch) alone -- keys never interfere, for ANY message list and state *)
Theorem pairing_per_key : forall k l s,
  filter (on_key k) (pair_notes s l) = pair_notes (restrict s k) (proj k l).
Proof. exact pair_notes_key. Qed.
Print Assumptions pairing_per_key.

(* pairing inverts the writing of notes, for ANY interleaving: ws are notes (velocity > 0) each with
   the message that ends it (note-off of any velocity, or zero-velocity note-on, of its channel and
   pitch); l is any message list -- other messages anywhere -- in which, for every (channel, pitch),
   the note messages of that key are those of the notes of the key written one after the other
   (= no two notes of one channel and pitch overlap; at a common tick the earlier note's off comes
   before the later note's on).  Then the message loop returns exactly the notes. *)
Theorem pairing_inverts : forall ws l,
  Forall wnote_ok ws -> well_interleaved ws l -> Permutation (pair_notes [] l) (map fst ws).
Proof. exact pairing_inverts_lemma. Qed.
Print Assumptions pairing_inverts.

(* the hypotheses are satisfiable by a polyphonic interleaving: two keys sounding together, a third
   note re-striking the first key at the tick it ends, a control change and a stray tempo in between *)
Example pairing_inverts_example :
  let ws := [(mkLN 60 64 0 0 10, NoteOff 0 60 0); (mkLN 64 70 1 5 20, NoteOn 1 64 0); (mkLN 60 30 0 10 12, NoteOff 0 60 99)] in
  let l := [(0, NoteOn 0 60 64); (5, NoteOn 1 64 70); (7, CC 0 64 127); (10, NoteOff 0 60 0); (10, NoteOn 0 60 30);
            (11, Tempo 400000); (12, NoteOff 0 60 99); (20, NoteOn 1 64 0)] in
  Forall wnote_ok ws /\ well_interleaved ws l /\ pair_notes [] l = [mkLN 60 64 0 0 10; mkLN 60 30 0 10 12; mkLN 64 70 1 5 20].
Proof. exact pairing_inverts_example_lemma. Qed.
Print Assumptions pairing_inverts_example.

(* O4  ids n0, n1, ... are given along the sorted list: a permutation of the paired notes, ordered
   lexicographically by (onset, pitch, offset, channel) (the track is constant within a part) *)
Theorem ids_sorted_perm : forall l,
  Permutation (sort_notes l) l /\
  StronglySorted (fun a b => lex4_le (lnote_key a) (lnote_key b)) (sort_notes l).
Proof. exact ids_sorted_perm_lemma. Qed.
Print Assumptions ids_sorted_perm.

(* O1  load (save p), tracks not merged: the model of save_performance_midi writes one file track per
   track number used (save_tracks, increasing), and reading the i-th file track back (delta times ->
   absolute ticks, message loop, id sort) returns, as a multiset, exactly the notes of the i-th track
   number with their times replaced by nearest ticks -- pitch, velocity, channel kept -- for EVERY
   performance (any number of parts, notes in any list order, controls / programs / meta items
   anywhere) in which velocities are positive, no note ends before it starts, and two notes of one
   (track, channel, pitch) have disjoint closed tick intervals (notes_ok); no note is lost (its track
   is one of the file tracks).  Any tie rule, any ppq, mpq. *)
Theorem save_load_notes : forall rule ppq mpq ps, notes_ok rule ppq mpq ps ->
  let trs := save_tracks rule ppq mpq ps in
  let file := save rule ppq mpq false ps in
  List.length file = List.length trs /\
  (forall i tr, nth_error trs i = Some tr ->
     exists t, nth_error file i = Some t /\
       Permutation (lp_notes (read_track (Z.of_nat i) (undelta 0 t)))
                   (map (quantised rule ppq mpq) (filter (fun n => pn_track n =? tr) (all_notes ps)))) /\
  (forall n, In n (all_notes ps) -> In (pn_track n) trs).
Proof. exact save_load_notes_lemma. Qed.
Print Assumptions save_load_notes.

(* O1, controls / programs / signatures / meta, tracks not merged: the i-th file track holds, as a
   multiset of (nearest tick, message), exactly the messages the exporter emits for the i-th track
   number (emit_parts: every item of every part at its rounded time, the default programs), plus the
   set_tempo in front of the first track; hence whatever class of messages f the loader selects from
   it (is_cc, is_pc, is_key, is_time, is_meta) is what was emitted -- nothing dropped, moved, invented *)
Theorem save_load_items : forall rule ppq mpq ps (f : msg -> bool), f (Tempo mpq) = false ->
  forall i tr, nth_error (save_tracks rule ppq mpq ps) i = Some tr ->
    exists t, nth_error (save rule ppq mpq false ps) i = Some t /\
      Permutation (sel f (undelta 0 t)) (sel f (track_abs tr (emit_parts rule ppq mpq [] ps))).
Proof. exact save_load_items_lemma. Qed.
Print Assumptions save_load_items.

(* ... and load_performance_midi's model is that reading, track by track, dropping the tracks without
   notes, controls and programs *)
Theorem load_unmerged_parts : forall dmpq tracks,
  fst (load dmpq false tracks)
  = filter nonempty_part (map (fun x => read_track (fst x) (snd x)) (number_from 0 (map (undelta 0) tracks))).
Proof. exact load_unmerged_parts_lemma. Qed.
Print Assumptions load_unmerged_parts.

(* notes_ok is satisfiable by a polyphonic two-part performance; what the file gives back *)
Example save_load_notes_example :
  notes_ok 0 480 500000 ex_ps /\
  save_tracks 0 480 500000 ex_ps = [0; 1] /\
  map (fun t => pair_notes [] (undelta 0 t)) (save 0 480 500000 false ex_ps)
  = [[mkLN 60 64 0 0 480; mkLN 60 30 0 720 959; mkLN 60 5 0 960 960; mkLN 60 70 1 240 1920]; [mkLN 60 90 0 96 672]].
Proof. exact save_load_notes_example_lemma. Qed.
Print Assumptions save_load_notes_example.

(* O1  load (save p) with tracks merged.  mido.merge_tracks (absolute ticks, stable sort, deltas) is
   part of the model on both sides: save merges when merge_tracks_save is set and there are several
   tracks, load merges when merge_tracks is set. *)
Theorem save_merge_shape : forall rule ppq mpq ps,
  save rule ppq mpq true ps
  = if 1 <? Z.of_nat (List.length (save rule ppq mpq false ps))
    then [merge_tracks (save rule ppq mpq false ps)] else save rule ppq mpq false ps.
Proof. exact save_merge_shape_lemma. Qed.
Print Assumptions save_merge_shape.

Theorem load_merged_parts : forall dmpq tracks,
  fst (load dmpq true tracks) = filter nonempty_part [read_track 0 (undelta 0 (merge_tracks tracks))].
Proof. exact load_merged_parts_lemma. Qed.
Print Assumptions load_merged_parts.

(* merged once (on export, the file then read as it is: its single track is merge_tracks of the
   tracks; or on import of a file saved without merging): the single part has, as a multiset, the
   quantised notes of ALL tracks -- for every performance in which two notes of one (channel, pitch)
   have disjoint closed tick intervals whatever their tracks (notes_ok_merged) *)
Theorem save_load_notes_merged : forall rule ppq mpq ps, notes_ok_merged rule ppq mpq ps ->
  Permutation (lp_notes (read_track 0 (undelta 0 (merge_tracks (save rule ppq mpq false ps)))))
              (map (quantised rule ppq mpq) (all_notes ps)).
Proof. exact save_load_notes_merged_lemma. Qed.
Print Assumptions save_load_notes_merged.

(* merged on export and again on import *)
Theorem save_load_notes_merged_twice : forall rule ppq mpq ps, notes_ok_merged rule ppq mpq ps ->
  Permutation (lp_notes (read_track 0 (undelta 0 (merge_tracks [merge_tracks (save rule ppq mpq false ps)]))))
              (map (quantised rule ppq mpq) (all_notes ps)).
Proof. exact save_load_notes_merged_twice_lemma. Qed.
Print Assumptions save_load_notes_merged_twice.

Example save_load_notes_merged_example :
  notes_ok_merged 0 480 500000 ex_ps_m /\
  map lp_notes (fst (load 500000 true (save 0 480 500000 true ex_ps_m)))
  = [[mkLN 60 64 0 0 480; mkLN 60 90 2 96 672; mkLN 60 70 1 240 1920; mkLN 60 30 0 720 959; mkLN 60 5 0 960 960]].
Proof. exact save_load_notes_merged_example_lemma. Qed.
Print Assumptions save_load_notes_merged_example.

(* what the note clause of the correspondence checker check_load establishes on every compared file:
   the implementation's notes, in the order of their ids, are a permutation of the notes the message
   loop pairs and are ordered by (onset, pitch, offset, channel) *)
Theorem check_notes_sound : forall paired obs,
  mset_eqb lnote_eqb (sort_notes paired) obs = true -> sorted_by lnote_leb obs = true ->
  Permutation obs paired /\ StronglySorted (fun a b => lex4_le (lnote_key a) (lnote_key b)) obs.
Proof. exact check_notes_sound_lemma. Qed.
Print Assumptions check_notes_sound.

(* ======================================================================================
   load (save p): seconds.  The saved file carries one set_tempo (mpq, tick 0, first track); whatever the
   loader's default tempo and with tracks merged on export, on import, on both sides or not at all, the
   loader's tempo map turns tick k into k * mpq / (10^6 * ppq) seconds -- for every performance that has
   no set_tempo among its items and writes at least one message *)
Theorem save_load_seconds : forall rule ppq mpq dmpq (ms ml : bool) ps k,
  no_tempo ps -> save_tracks rule ppq mpq ps <> [] -> 0 <= k ->
  adjust_time ppq (snd (load dmpq ml (save rule ppq mpq ms ps))) k = tick_to_sec ppq mpq k.
Proof. exact save_load_seconds_lemma. Qed.
Print Assumptions save_load_seconds.

(* ... hence a time t comes back, in seconds, at most half a tick of the exported file away from t: "onset /
   offset equal to the original times rounded to the nearest tick" *)
Theorem save_load_time_halftick : forall rule ppq mpq dmpq (ms ml : bool) ps t,
  no_tempo ps -> save_tracks rule ppq mpq ps <> [] -> 0 < ppq -> 0 < mpq -> 0 <= sec_to_tick_r rule ppq mpq t ->
  (Qabs (adjust_time ppq (snd (load dmpq ml (save rule ppq mpq ms ps))) (sec_to_tick_r rule ppq mpq t) - t)
   <= inject_Z mpq / inject_Z (2 * (1000000 * ppq)))%Q.
Proof. exact save_load_time_halftick_lemma. Qed.
Print Assumptions save_load_time_halftick.

(* O1, controls / programs / signatures / meta with tracks merged (once: on export or on import; twice: on
   both sides): whatever class f of messages the loader selects from the single merged track (any class
   without set_tempo and end_of_track: is_cc, is_pc, is_key, is_time, the text-like meta events) is, as a
   multiset of (nearest tick, message), what the exporter emits for all tracks together *)
Theorem save_load_items_merged : forall rule ppq mpq ps (f : msg -> bool), f (Tempo mpq) = false -> f EndOfTrack = false ->
  Permutation (sel f (undelta 0 (merge_tracks (save rule ppq mpq false ps)))) (sel f (map strip (emit_parts rule ppq mpq [] ps))) /\
  Permutation (sel f (undelta 0 (merge_tracks [merge_tracks (save rule ppq mpq false ps)]))) (sel f (map strip (emit_parts rule ppq mpq [] ps))).
Proof. exact save_load_items_merged_lemma. Qed.
Print Assumptions save_load_items_merged.

(* the default program changes of the exporter: none for a part that has program changes; for a part without,
   program 0 exactly on the (track, channel) pairs of its controls and notes, at the earliest tick written so
   far (so never after a message already written) *)
Theorem default_programs_spec : forall sofar p,
  (pp_progs p <> [] -> default_programs sofar p = []) /\
  (pp_progs p = [] -> forall e, In e (default_programs sofar p) <->
      exists tr ch, e = (tr, first_tick sofar, PC ch 0) /\ In (tr, ch) (part_pairs p)) /\
  (forall e, In e sofar -> first_tick sofar <= ev_tick e).
Proof. exact default_programs_spec_lemma. Qed.
Print Assumptions default_programs_spec.

Example save_load_seconds_example :
  no_tempo ex_ps /\ save_tracks 0 480 500000 ex_ps <> [] /\
  (adjust_time 480 (snd (load 600000 true (save 0 480 500000 true ex_ps))) 960 == 1)%Q /\
  default_programs [(0, 7, Meta 1)] (hd (mkPP [] [] [] [] [] []) ex_ps) = [(0, 7, PC 0 0); (0, 7, PC 1 0)].
Proof. exact save_load_seconds_example_lemma. Qed.
Print Assumptions save_load_seconds_example.

(* ======================================================================================
   Performance.sanitize_track_numbers (what Performance(...) does to the track numbers before anything is
   saved, and what the loader's Performance(...) does to the parts it has read).  The number of a (part,
   track) pair is the number of distinct pairs below it in the lexicographic order ... *)
Theorem sanitize_numbering : forall ps x, In x (all_pairs ps) ->
  track_no (sorted_pairs (all_pairs ps)) x
  = Z.of_nat (List.length (filter (fun y => pair_ltb y x) (puniq (all_pairs ps)))).
Proof. exact sanitize_numbering_lemma. Qed.
Print Assumptions sanitize_numbering.

(* ... so the renumbering keeps the order of the pairs, gives the items of one (part, track) one number and
   different pairs different numbers (the notes, controls and programs of a track stay together and apart
   from every other track: "the same track" after save -> load is meaningful) ... *)
Theorem sanitize_order : forall ps x y, In x (all_pairs ps) -> In y (all_pairs ps) ->
  (track_no (sorted_pairs (all_pairs ps)) x < track_no (sorted_pairs (all_pairs ps)) y <-> pair_lt x y) /\
  (track_no (sorted_pairs (all_pairs ps)) x = track_no (sorted_pairs (all_pairs ps)) y <-> x = y).
Proof. exact sanitize_order_perf_lemma. Qed.
Print Assumptions sanitize_order.

(* ... the numbers are 0 .. n-1 for n distinct pairs (the exporter then writes n file tracks in this order) *)
Theorem sanitize_range : forall ps x, In x (all_pairs ps) ->
  0 <= track_no (sorted_pairs (all_pairs ps)) x < Z.of_nat (List.length (sorted_pairs (all_pairs ps))).
Proof. exact sanitize_range_perf_lemma. Qed.
Print Assumptions sanitize_range.

(* ... renumbering a renumbered performance changes nothing (a loaded Performance wrapped into a Performance
   again, the performedparts of one handed to another) ... *)
Theorem sanitize_idempotent : forall ps, sanitize (sanitize ps) = sanitize ps.
Proof. exact sanitize_idempotent_lemma. Qed.
Print Assumptions sanitize_idempotent.

(* ... and the parts the loader builds -- everything read from one file track carries that track's index,
   tracks without notes, controls and programs are left out -- get the position of the part as their number *)
Theorem sanitize_loaded : forall ps, Forall single_track ps ->
  sanitize ps = map (fun x => pmap (fun _ => fst x) (snd x)) (number_from 0 ps).
Proof. exact sanitize_loaded_lemma. Qed.
Print Assumptions sanitize_loaded.

(* what the correspondence checker check_sanitize establishes for an observed renumbering: two items have
   the same observed number exactly when the model gives them the same number *)
Theorem check_sanitize_sound : forall m o, same_partition m o = true ->
  forall a b, In a (combine m o) -> In b (combine m o) -> (fst a = fst b <-> snd a = snd b).
Proof. exact same_partition_sound. Qed.
Print Assumptions check_sanitize_sound.

Example sanitize_example :
  sanitize [([0; 0; 2], [-1], []); ([0], [0; 5], [5]); ([], [], [1])]
  = [([1; 1; 2], [0], []); ([3], [3; 4], [4]); ([], [], [5])] /\
  Forall single_track [([3; 3], [3], []); ([], [7], []); ([4], [], [4])] /\
  sanitize [([3; 3], [3], []); ([], [7], []); ([4], [], [4])] = [([0; 0], [0], []); ([], [1], []); ([2], [], [2])].
Proof. exact sanitize_example_lemma. Qed.
Print Assumptions sanitize_example.

(* ======================================================================================
   remove_silence_from_performed_part (load_performance(..., first_note_at_zero=True)): notes whose offset is
   not before their onset are all moved by the earliest onset -- nothing is clipped, so durations and the
   distances between notes are kept --, no onset is negative and some note starts at 0 *)
Theorem remove_silence_notes : forall ns, ns <> [] -> Forall (fun n => (fst n <= snd n)%Q) ns ->
  let s := rs_start (map fst ns) in
  rs_notes ns = map (fun n => (fst n - s, snd n - s)%Q) ns /\
  (forall n, In n ns -> (0 <= fst n - s)%Q) /\
  (exists n, In n ns /\ (fst n - s == 0)%Q).
Proof. exact remove_silence_notes_lemma. Qed.
Print Assumptions remove_silence_notes.

(* program changes: moved by the same amount when not before the first onset, otherwise put at 0; never
   negative, order kept *)
Theorem remove_silence_times : forall ns ts,
  let s := rs_start (map fst ns) in
  rs_times ns ts = map (fun t => qmax0 (t - s)) ts /\
  (forall t, (s <= t)%Q -> qmax0 (t - s) = (t - s)%Q) /\
  (forall t, (0 <= qmax0 (t - s))%Q) /\
  (forall t u, (t <= u)%Q -> (qmax0 (t - s) <= qmax0 (u - s))%Q).
Proof. exact remove_silence_times_lemma. Qed.
Print Assumptions remove_silence_times.

Example remove_silence_example :
  forall2b (fun a b : Q * Q => Qeq_bool (fst a) (fst b) && Qeq_bool (snd a) (snd b))
    (rs_notes [(3 # 2, 2); (5 # 4, 5 # 4); (7, 8)]%Q) [(1 # 4, 3 # 4); (0, 0); (23 # 4, 27 # 4)]%Q = true /\
  forall2b Qeq_bool (rs_times [(3 # 2, 2); (5 # 4, 5 # 4)]%Q [0; 5 # 4; 2]%Q) [0; 0; 3 # 4]%Q = true.
Proof. exact remove_silence_example_lemma. Qed.
Print Assumptions remove_silence_example.

(* ======================================================================================
   load (save p), tracks not merged, as one statement about the loaded parts: when every track number
   written carries a note, no part is dropped; the k-th loaded part is file track k and holds, in the
   order of its ids, a permutation of the quantised notes of the k-th track number, ordered by (onset,
   pitch, offset, channel).  (With sanitize_loaded the notes of part k get track number k; for a
   Performance, whose track numbers are 0 .. n-1 by sanitize_range, that is the number they had.) *)
Theorem save_load_parts : forall rule ppq mpq dmpq ps, notes_ok rule ppq mpq ps ->
  (forall tr, In tr (save_tracks rule ppq mpq ps) -> exists n, In n (all_notes ps) /\ pn_track n = tr) ->
  Forall2 (fun part i_tr => part_is rule ppq mpq ps i_tr part)
          (fst (load dmpq false (save rule ppq mpq false ps))) (number_from 0 (save_tracks rule ppq mpq ps)).
Proof. exact save_load_parts_lemma. Qed.
Print Assumptions save_load_parts.

(* the file tracks are the track numbers of the written messages in increasing order; when these are 0 .. n-1
   (what Performance(...) guarantees, sanitize_range) the k-th file track -- hence, by save_load_parts and
   sanitize_loaded, the track number of the k-th loaded part -- is track number k: "the same track" *)
Theorem save_tracks_range : forall rule ppq mpq ps n,
  (forall tr, In tr (map ev_track (emit_parts rule ppq mpq [] ps)) <-> 0 <= tr < Z.of_nat n) ->
  save_tracks rule ppq mpq ps = zrange 0 n /\
  number_from 0 (save_tracks rule ppq mpq ps) = map (fun k => (k, k)) (zrange 0 n).
Proof. exact save_tracks_range_lemma. Qed.
Print Assumptions save_tracks_range.

Example save_load_parts_example :
  (forall tr, In tr (save_tracks 0 480 500000 ex_ps) -> exists n, In n (all_notes ex_ps) /\ pn_track n = tr) /\
  map lp_track (fst (load 500000 false (save 0 480 500000 false ex_ps))) = [0; 1].
Proof. exact save_load_parts_example_lemma. Qed.
Print Assumptions save_load_parts_example.

(* ======================================================================================
   State carried between calls.  The machine Model.C06_hist: part objects by identity, the caller's list,
   the Performance made from it (two views sharing the objects); steps = an object gets new content (any
   edit, renumbering, new part), a view gets other members (list edits; Performance(list); perf[i] = part),
   a save through a view.  For EVERY history: the result of a save is Model.C06.save of what the view
   holds at that moment -- a function of the current state only, whatever was saved, edited or replaced
   before (the harness runs the machine on the edits of its live histories and compares each save of the
   implementation with it: check_hist). *)
Theorem hist_obs_current : forall rule h1 a h2 w,
  nth (hsaves h1) (hrun rule w (h1 ++ HSave a :: h2)) [] = hobserve rule (hstate w h1) a.
Proof. exact hist_obs_current_lemma. Qed.
Print Assumptions hist_obs_current.

(* hence two histories whose edits add up to the same state give the same result for the same call *)
Theorem hist_obs_state_only : forall rule h1 h1' a h2 h2' w w',
  hstate w h1 = hstate w' h1' ->
  nth (hsaves h1) (hrun rule w (h1 ++ HSave a :: h2)) [] = nth (hsaves h1') (hrun rule w' (h1' ++ HSave a :: h2')) [].
Proof. exact hist_obs_state_only_lemma. Qed.
Print Assumptions hist_obs_state_only.

(* a save changes nothing: it can be dropped from a history without changing any later state; one result per save *)
Theorem hist_save_pure : forall h1 a h2 w, hstate w (h1 ++ HSave a :: h2) = hstate w (h1 ++ h2).
Proof. exact hist_save_pure_lemma. Qed.
Print Assumptions hist_save_pure.

(* the frames the correspondence checker compares are (state the edits so far add up to, arguments), and the
   run is Model.C06.save on them *)
Theorem hist_frames : forall rule h w,
  hrun rule w h = map (fun f => hobserve rule (fst f) (snd f)) (hframes w h) /\
  List.length (hrun rule w h) = hsaves h /\
  (forall h1 a h2 d, h = h1 ++ HSave a :: h2 -> nth (hsaves h1) (hframes w h) d = (hstate w h1, a)).
Proof.
  intros rule h w. split; [exact (hrun_frames_lemma rule h w)|]. split; [exact (hrun_length_lemma rule h w)|].
  intros h1 a h2 d ->. exact (hframes_nth_lemma h1 a h2 w d).
Qed.
Print Assumptions hist_frames.

(* non-vacuity: one object in both views, edited between two saves through the Performance; the caller's list
   shortened meanwhile does not reach the Performance; the second result is that of the edited parts and differs
   from the first *)
Example hist_example :
  hview_parts (hstate hworld0 hx_h1) VPerf = [hx_p0'; hx_p1] /\
  hview_parts (hstate hworld0 hx_h1) VList = [hx_p1] /\
  nth 1 (hrun 0 hworld0 (hx_h1 ++ [HSave hx_a])) [] = save 0 480 500000 false [hx_p0'; hx_p1] /\
  nth 0 (hrun 0 hworld0 (hx_h1 ++ [HSave hx_a])) [] <> nth 1 (hrun 0 hworld0 (hx_h1 ++ [HSave hx_a])) [].
Proof. exact hist_example_lemma. Qed.
Print Assumptions hist_example.

(* a machine that memoises the first result (no invalidation) does not have the property *)
Example hist_memo_refuted : exists w h1 a h2,
  nth (hsaves h1) (hrun_memo 0 None w (h1 ++ HSave a :: h2)) [] <> hobserve 0 (hstate w h1) a.
Proof. exact hist_memo_refuted_lemma. Qed.
Print Assumptions hist_memo_refuted.

(* ======================================================================================
   Round j.  "Loading ANY MIDI file converts ticks to seconds by integrating every tempo change of the file in
   order", on the loader itself (Model.C06.load) and for every file: the tempo list the loader ends up with is a
   function of the set_tempo events of ALL tracks (file_tempi: every track, absolute ticks) and of nothing else --
   in particular it is the same list with merge_tracks and without (mido.merge_tracks' stable sort keeps the
   changes of one tick in the order track by track, which is the order in which the unmerged reading meets them) *)
Theorem load_tempo_of_file : forall dmpq (ml : bool) tracks,
  snd (load dmpq ml tracks) = tempo_list ((0, dmpq) :: file_tempi tracks).
Proof. exact load_tempo_file_lemma. Qed.
Print Assumptions load_tempo_of_file.

Theorem load_tempo_merge_invariant : forall dmpq tracks, snd (load dmpq true tracks) = snd (load dmpq false tracks).
Proof. exact load_tempo_merge_invariant_lemma. Qed.
Print Assumptions load_tempo_merge_invariant.

(* ... and for every file without negative delta times, every default tempo, merged or not, the seconds the
   loader gives tick k >= 0 are file_seconds (what the correspondence evaluates) = the integral of the tempo step
   function of the file: every tick below k lasts the tempo of the last change at or before it, the changes of
   all tracks taken in tick order (file_tempo_map) *)
Theorem load_file_seconds : forall ppq dmpq (ml : bool) tracks k,
  nonneg_deltas tracks = true -> 0 <= k ->
  adjust_time ppq (snd (load dmpq ml tracks)) k = file_seconds ppq dmpq tracks k /\
  file_seconds ppq dmpq tracks k = seconds_spec ppq (file_tempo_map dmpq tracks) k.
Proof. exact load_file_seconds_lemma. Qed.
Print Assumptions load_file_seconds.

(* file_tempo_map is ordered by tick and holds exactly the default and the set_tempo events of every track *)
Theorem file_tempo_map_order : forall dmpq tracks,
  tick_sorted (file_tempo_map dmpq tracks) /\ Permutation (file_tempo_map dmpq tracks) ((0, dmpq) :: file_tempi tracks).
Proof. exact file_tempo_map_order_lemma. Qed.
Print Assumptions file_tempo_map_order.

(* non-vacuity: three tracks, no set_tempo in the first, a change in the third track at an earlier tick than the
   second track's, two changes at one tick in different tracks, a repeat of the default *)
Example load_file_seconds_example :
  nonneg_deltas fx_tracks = true /\
  file_tempo_map 500000 fx_tracks = [(0, 500000); (240, 250000); (960, 600000); (960, 400000); (1200, 500000)] /\
  snd (load 500000 false fx_tracks) = [(0, 500000); (240, 250000); (960, 600000); (960, 400000); (1200, 500000)] /\
  snd (load 500000 true fx_tracks) = snd (load 500000 false fx_tracks) /\
  (file_seconds 480 500000 fx_tracks 1440 == 1075 # 1000)%Q.
Proof. exact load_file_seconds_example_lemma. Qed.
Print Assumptions load_file_seconds_example.

(* the statement discriminates: a loader that looks for set_tempo in the first track only, one that drops a
   set_tempo repeating the value read last before the changes are ordered by tick, and one that integrates in
   reading order do not have it *)
Example tempo_first_track_refuted : exists ppq dmpq tracks k,
  nonneg_deltas tracks = true /\ 0 <= k /\
  ~ (adjust_time ppq (tempo_first_track dmpq tracks) k == seconds_spec ppq (file_tempo_map dmpq tracks) k)%Q.
Proof. exact tempo_first_track_refuted_lemma. Qed.
Print Assumptions tempo_first_track_refuted.

Example tempo_dedup_reading_refuted : exists ppq dmpq tracks k,
  nonneg_deltas tracks = true /\ 0 <= k /\
  ~ (adjust_time ppq (tempo_dedup_reading dmpq tracks) k == seconds_spec ppq (file_tempo_map dmpq tracks) k)%Q.
Proof. exact tempo_dedup_reading_refuted_lemma. Qed.
Print Assumptions tempo_dedup_reading_refuted.

Example tempo_reading_order_refuted : exists ppq dmpq tracks k,
  nonneg_deltas tracks = true /\ 0 <= k /\
  ~ (adjust_time ppq (tempo_reading_order dmpq tracks) k == seconds_spec ppq (file_tempo_map dmpq tracks) k)%Q.
Proof. exact tempo_reading_order_refuted_lemma. Qed.
Print Assumptions tempo_reading_order_refuted.

(* what the correspondence checker check_anyfile (one file, loaded with merge_tracks=False and =True) establishes:
   every time the implementation returned, in either mode, is (float tolerance) that integral *)
Theorem check_anyfile_sound : forall ppq dmpq tracks obs_u obs_m,
  check_anyfile (ppq, dmpq, tracks, obs_u, obs_m) = true ->
  forall x, In x (obs_u ++ obs_m) -> 0 <= fst x ->
    q_close9 (seconds_spec ppq (file_tempo_map dmpq tracks) (fst x)) (snd x) = true.
Proof. exact check_anyfile_sound_lemma. Qed.
Print Assumptions check_anyfile_sound.

(* "with or without track merging", for ANY file (not only a saved performance): when no (channel, pitch) has note
   messages in two tracks (keys_exclusive: then C06's proviso holds in the merged track as soon as it holds in the
   tracks) and no delta time is negative, the message loop pairs from the track mido.merge_tracks makes of the file
   exactly the notes -- pitch, velocity, channel, onset and offset tick -- it pairs from the tracks one by one ... *)
Theorem load_merge_notes : forall tracks, nonneg_deltas tracks = true -> keys_exclusive tracks = true ->
  Permutation (file_notes_merged tracks) (file_notes_separate tracks).
Proof. exact load_merge_notes_lemma. Qed.
Print Assumptions load_merge_notes.

(* ... so the single part load_performance_midi(merge_tracks=True) returns holds the notes of all the parts it
   returns with merge_tracks=False (and, by load_tempo_merge_invariant, at the same seconds) *)
Theorem load_parts_merge_notes : forall dmpq tracks, nonneg_deltas tracks = true -> keys_exclusive tracks = true ->
  Permutation (flat_map lp_notes (fst (load dmpq true tracks))) (flat_map lp_notes (fst (load dmpq false tracks))).
Proof. exact load_parts_merge_notes_lemma. Qed.
Print Assumptions load_parts_merge_notes.

(* non-vacuity: two tracks, three keys, a zero-length note re-striking a key at the tick the previous note ends,
   messages of both tracks at one tick *)
Example load_merge_notes_example :
  nonneg_deltas fy_tracks = true /\ keys_exclusive fy_tracks = true /\
  file_notes_separate fy_tracks = [mkLN 60 64 0 0 480; mkLN 60 30 0 480 480; mkLN 60 70 1 240 480; mkLN 61 9 0 480 580] /\
  file_notes_merged fy_tracks = [mkLN 60 64 0 0 480; mkLN 60 30 0 480 480; mkLN 60 70 1 240 480; mkLN 61 9 0 480 580].
Proof. exact load_merge_notes_example_lemma. Qed.
Print Assumptions load_merge_notes_example.

(* the statement discriminates: a merge whose sort is not stable loses a zero-length note; and the hypothesis on the
   keys is needed (one key sounding in two tracks at once) *)
Example merge_unstable_refuted : exists tracks,
  nonneg_deltas tracks = true /\ keys_exclusive tracks = true /\
  ~ Permutation (pair_notes [] (undelta 0 (merge_tracks_unstable tracks))) (file_notes_separate tracks).
Proof. exact merge_unstable_refuted_lemma. Qed.
Print Assumptions merge_unstable_refuted.

Example load_merge_notes_needs_exclusive : exists tracks,
  nonneg_deltas tracks = true /\ keys_exclusive tracks = false /\
  ~ Permutation (file_notes_merged tracks) (file_notes_separate tracks).
Proof. exact load_merge_notes_needs_exclusive_lemma. Qed.
Print Assumptions load_merge_notes_needs_exclusive.
