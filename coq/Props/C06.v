(* C06 -- property theorems (statements + exact only; proofs in Proofs/C06*.v). *)
From PV Require Import Lib.Base Lib.Round Model.C12 Model.C06 Proofs.C06.
From Coq Require Import QArith Qabs.
#[local] Open Scope Q_scope.

Theorem tick_of_sec_nearest : forall ppq mpq t,
  Qabs (inject_Z (1000000 * ppq) * t / inject_Z mpq - inject_Z (sec_to_tick ppq mpq t)) <= 1 # 2.
Proof. exact tick_of_sec_nearest_lemma. Qed.
Print Assumptions tick_of_sec_nearest.
