(* C06 -- performance MIDI export and import preserve notes, controls and timing.
   Statements + `exact` only; proofs in Proofs/C06*.v.  The model (Model/C06.v: save, load,
   pair_notes, sort_notes, tempo_list, adjust_time) is tied to partitura/io/exportmidi.py and
   importmidi.py by the correspondence run by harness/props/c06.py on every check. *)
From PV Require Import Lib.Base Lib.Round Model.C12 Model.C06 Proofs.C06_lib Proofs.C06 Proofs.C06_pair Proofs.C06_save Proofs.C06_merge Proofs.C06_check.
From Coq Require Import QArith Qabs Sorted Permutation.
#[local] Open Scope Z_scope.

(* O1a  the exporter's tick is a nearest tick of the time in seconds -- all ppq, mpq, times, and
   whatever is done with a time exactly half way between two ticks (rule) *)
Theorem tick_of_sec_nearest : forall rule ppq mpq t,
  (Qabs (inject_Z (1000000 * ppq) * t / inject_Z mpq - inject_Z (sec_to_tick_r rule ppq mpq t)) <= 1 # 2)%Q.
Proof. exact tick_of_sec_nearest_lemma. Qed.
Print Assumptions tick_of_sec_nearest.

(* rule 0 is round-half-to-even: np.round, and the conversion Model.C12 proves things about *)
Theorem sec_to_tick_rule0 : forall ppq mpq t, sec_to_tick_r 0 ppq mpq t = sec_to_tick ppq mpq t.
Proof. exact sec_to_tick_rule0_lemma. Qed.
Print Assumptions sec_to_tick_rule0.

(* O1b  tick -> seconds -> tick is the identity (exact arithmetic) *)
Theorem tick_roundtrip : forall rule ppq mpq k,
  0 < ppq -> 0 < mpq -> sec_to_tick_r rule ppq mpq (tick_to_sec ppq mpq k) = k.
Proof. exact tick_roundtrip_lemma. Qed.
Print Assumptions tick_roundtrip.

(* O1c  seconds -> tick -> seconds moves a time by at most half a tick *)
Theorem sec_roundtrip_halftick : forall rule ppq mpq s,
  0 < ppq -> 0 < mpq ->
  (Qabs (tick_to_sec ppq mpq (sec_to_tick_r rule ppq mpq s) - s) <= inject_Z mpq / inject_Z (2 * (1000000 * ppq)))%Q.
Proof. exact sec_roundtrip_halftick_lemma. Qed.
Print Assumptions sec_roundtrip_halftick.

(* O2a  adjust_time on tick-ordered tempo changes is the integral of the tempo step function:
   every tick k < tick lasts tempo_at k microseconds per quarter / ppq *)
Theorem adjust_time_sorted : forall ppq tc tick,
  tick_sorted tc -> Forall (fun e => 0 <= fst e) tc -> 0 <= tick ->
  adjust_time ppq tc tick = seconds_spec ppq tc tick.
Proof. exact adjust_time_sorted_lemma. Qed.
Print Assumptions adjust_time_sorted.

(* O2b  the loader: whatever the order in which the tempo changes were read (any track), the
   seconds of a tick are the integral over the changes ordered by tick *)
Theorem load_seconds_spec : forall ppq collected tick,
  Forall (fun e => 0 <= fst e) collected -> 0 <= tick ->
  adjust_time ppq (tempo_list collected) tick = seconds_spec ppq (sort_by_tick collected) tick.
Proof. exact load_seconds_spec_lemma. Qed.
Print Assumptions load_seconds_spec.

(* the integral on a file with a tempo change in a later track at an earlier tick (D12's witness:
   tempo 600000 from tick 960 read first, tempo 250000 from tick 240 read second, ppq 480):
   tick 1440 is at 0.25 + 0.375 + 0.6 s *)
Theorem load_seconds_example :
  (adjust_time 480 (tempo_list [(0, 500000); (960, 600000); (240, 250000)]%Z) 1440%Z == 1225 # 1000)%Q.
Proof. exact load_seconds_example_lemma. Qed.
Print Assumptions load_seconds_example.

(* O3  a note-on (velocity > 0) is paired with the next note-off or zero-velocity note-on of the
   same channel and pitch, whatever else happens in between on other keys *)
Theorem pairing_next_off : forall pre t1 ch p v mid t2 m2 post,
  0 < v ->
  (forall e, In e mid -> is_note_ev (note_hash ch p) (snd e) = false) ->
  is_off_for ch p m2 = true ->
  In (mkLN p v ch t1 t2) (pair_notes [] (pre ++ (t1, NoteOn ch p v) :: mid ++ (t2, m2) :: post)).
Proof. exact pairing_next_off_lemma. Qed.
Print Assumptions pairing_next_off.

(* O3, whole track: the message loop, restricted to one (channel, pitch), is the message loop run on
   the messages of that (channel, pitch) alone -- keys never interfere, for ANY message list and state *)
Theorem pairing_per_key : forall k l s,
  filter (on_key k) (pair_notes s l) = pair_notes (restrict s k) (proj k l).
Proof. exact pair_notes_key. Qed.
Print Assumptions pairing_per_key.

(* pairing inverts the writing of notes, for ANY interleaving: ws are notes (velocity > 0) each with
   the message that ends it (note-off of any velocity, or zero-velocity note-on, of its channel and
   pitch); l is any message list -- other messages anywhere -- in which, for every (channel, pitch),
   the note messages of that key are those of the notes of the key written one after the other
   (= no two notes of one channel and pitch overlap; at a common tick the earlier note's off comes
   before the later note's on).  Then the message loop returns exactly the notes. *)
Theorem pairing_inverts : forall ws l,
  Forall wnote_ok ws -> well_interleaved ws l -> Permutation (pair_notes [] l) (map fst ws).
Proof. exact pairing_inverts_lemma. Qed.
Print Assumptions pairing_inverts.

(* the hypotheses are satisfiable by a polyphonic interleaving: two keys sounding together, a third
   note re-striking the first key at the tick it ends, a control change and a stray tempo in between *)
Example pairing_inverts_example :
  let ws := [(mkLN 60 64 0 0 10, NoteOff 0 60 0); (mkLN 64 70 1 5 20, NoteOn 1 64 0); (mkLN 60 30 0 10 12, NoteOff 0 60 99)] in
  let l := [(0, NoteOn 0 60 64); (5, NoteOn 1 64 70); (7, CC 0 64 127); (10, NoteOff 0 60 0); (10, NoteOn 0 60 30);
            (11, Tempo 400000); (12, NoteOff 0 60 99); (20, NoteOn 1 64 0)] in
  Forall wnote_ok ws /\ well_interleaved ws l /\ pair_notes [] l = [mkLN 60 64 0 0 10; mkLN 60 30 0 10 12; mkLN 64 70 1 5 20].
Proof. exact pairing_inverts_example_lemma. Qed.
Print Assumptions pairing_inverts_example.

(* O4  ids n0, n1, ... are given along the sorted list: a permutation of the paired notes, ordered
   lexicographically by (onset, pitch, offset, channel) (the track is constant within a part) *)
Theorem ids_sorted_perm : forall l,
  Permutation (sort_notes l) l /\
  StronglySorted (fun a b => lex4_le (lnote_key a) (lnote_key b)) (sort_notes l).
Proof. exact ids_sorted_perm_lemma. Qed.
Print Assumptions ids_sorted_perm.

(* O1  load (save p), tracks not merged: the model of save_performance_midi writes one file track per
   track number used (save_tracks, increasing), and reading the i-th file track back (delta times ->
   absolute ticks, message loop, id sort) returns, as a multiset, exactly the notes of the i-th track
   number with their times replaced by nearest ticks -- pitch, velocity, channel kept -- for EVERY
   performance (any number of parts, notes in any list order, controls / programs / meta items
   anywhere) in which velocities are positive, no note ends before it starts, and two notes of one
   (track, channel, pitch) have disjoint closed tick intervals (notes_ok); no note is lost (its track
   is one of the file tracks).  Any tie rule, any ppq, mpq. *)
Theorem save_load_notes : forall rule ppq mpq ps, notes_ok rule ppq mpq ps ->
  let trs := save_tracks rule ppq mpq ps in
  let file := save rule ppq mpq false ps in
  List.length file = List.length trs /\
  (forall i tr, nth_error trs i = Some tr ->
     exists t, nth_error file i = Some t /\
       Permutation (lp_notes (read_track (Z.of_nat i) (undelta 0 t)))
                   (map (quantised rule ppq mpq) (filter (fun n => pn_track n =? tr) (all_notes ps)))) /\
  (forall n, In n (all_notes ps) -> In (pn_track n) trs).
Proof. exact save_load_notes_lemma. Qed.
Print Assumptions save_load_notes.

(* O1, controls / programs / signatures / meta, tracks not merged: the i-th file track holds, as a
   multiset of (nearest tick, message), exactly the messages the exporter emits for the i-th track
   number (emit_parts: every item of every part at its rounded time, the default programs), plus the
   set_tempo in front of the first track; hence whatever class of messages f the loader selects from
   it (is_cc, is_pc, is_key, is_time, is_meta) is what was emitted -- nothing dropped, moved, invented *)
Theorem save_load_items : forall rule ppq mpq ps (f : msg -> bool), f (Tempo mpq) = false ->
  forall i tr, nth_error (save_tracks rule ppq mpq ps) i = Some tr ->
    exists t, nth_error (save rule ppq mpq false ps) i = Some t /\
      Permutation (sel f (undelta 0 t)) (sel f (track_abs tr (emit_parts rule ppq mpq [] ps))).
Proof. exact save_load_items_lemma. Qed.
Print Assumptions save_load_items.

(* ... and load_performance_midi's model is that reading, track by track, dropping the tracks without
   notes, controls and programs *)
Theorem load_unmerged_parts : forall dmpq tracks,
  fst (load dmpq false tracks)
  = filter nonempty_part (map (fun x => read_track (fst x) (snd x)) (number_from 0 (map (undelta 0) tracks))).
Proof. exact load_unmerged_parts_lemma. Qed.
Print Assumptions load_unmerged_parts.

(* notes_ok is satisfiable by a polyphonic two-part performance; what the file gives back *)
Example save_load_notes_example :
  notes_ok 0 480 500000 ex_ps /\
  save_tracks 0 480 500000 ex_ps = [0; 1] /\
  map (fun t => pair_notes [] (undelta 0 t)) (save 0 480 500000 false ex_ps)
  = [[mkLN 60 64 0 0 480; mkLN 60 30 0 720 959; mkLN 60 5 0 960 960; mkLN 60 70 1 240 1920]; [mkLN 60 90 0 96 672]].
Proof. exact save_load_notes_example_lemma. Qed.
Print Assumptions save_load_notes_example.

(* O1  load (save p) with tracks merged.  mido.merge_tracks (absolute ticks, stable sort, deltas) is
   part of the model on both sides: save merges when merge_tracks_save is set and there are several
   tracks, load merges when merge_tracks is set. *)
Theorem save_merge_shape : forall rule ppq mpq ps,
  save rule ppq mpq true ps
  = if 1 <? Z.of_nat (List.length (save rule ppq mpq false ps))
    then [merge_tracks (save rule ppq mpq false ps)] else save rule ppq mpq false ps.
Proof. exact save_merge_shape_lemma. Qed.
Print Assumptions save_merge_shape.

Theorem load_merged_parts : forall dmpq tracks,
  fst (load dmpq true tracks) = filter nonempty_part [read_track 0 (undelta 0 (merge_tracks tracks))].
Proof. exact load_merged_parts_lemma. Qed.
Print Assumptions load_merged_parts.

(* merged once (on export, the file then read as it is: its single track is merge_tracks of the
   tracks; or on import of a file saved without merging): the single part has, as a multiset, the
   quantised notes of ALL tracks -- for every performance in which two notes of one (channel, pitch)
   have disjoint closed tick intervals whatever their tracks (notes_ok_merged) *)
Theorem save_load_notes_merged : forall rule ppq mpq ps, notes_ok_merged rule ppq mpq ps ->
  Permutation (lp_notes (read_track 0 (undelta 0 (merge_tracks (save rule ppq mpq false ps)))))
              (map (quantised rule ppq mpq) (all_notes ps)).
Proof. exact save_load_notes_merged_lemma. Qed.
Print Assumptions save_load_notes_merged.

(* merged on export and again on import *)
Theorem save_load_notes_merged_twice : forall rule ppq mpq ps, notes_ok_merged rule ppq mpq ps ->
  Permutation (lp_notes (read_track 0 (undelta 0 (merge_tracks [merge_tracks (save rule ppq mpq false ps)]))))
              (map (quantised rule ppq mpq) (all_notes ps)).
Proof. exact save_load_notes_merged_twice_lemma. Qed.
Print Assumptions save_load_notes_merged_twice.

Example save_load_notes_merged_example :
  notes_ok_merged 0 480 500000 ex_ps_m /\
  map lp_notes (fst (load 500000 true (save 0 480 500000 true ex_ps_m)))
  = [[mkLN 60 64 0 0 480; mkLN 60 90 2 96 672; mkLN 60 70 1 240 1920; mkLN 60 30 0 720 959; mkLN 60 5 0 960 960]].
Proof. exact save_load_notes_merged_example_lemma. Qed.
Print Assumptions save_load_notes_merged_example.

(* what the note clause of the correspondence checker check_load establishes on every compared file:
   the implementation's notes, in the order of their ids, are a permutation of the notes the message
   loop pairs and are ordered by (onset, pitch, offset, channel) *)
Theorem check_notes_sound : forall paired obs,
  mset_eqb lnote_eqb (sort_notes paired) obs = true -> sorted_by lnote_leb obs = true ->
  Permutation obs paired /\ StronglySorted (fun a b => lex4_le (lnote_key a) (lnote_key b)) obs.
Proof. exact check_notes_sound_lemma. Qed.
Print Assumptions check_notes_sound.
