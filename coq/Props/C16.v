(* C16 -- property theorems.  Statements + `exact` only; proofs live in Proofs/C16*.v.

   Model (Model/C16.v) = the arithmetic of partitura/utils/music.py as repaired:
   tr_note = _transpose_note_inplace, tn_note = transpose_note, transpose_elems = transpose.
   Encodings: step C=0..B=6; quality dd=0 d=1 m=2 M=3 P=4 A=5 AA=6; up = true.
   Tables tab_* (Gen/C16_*.v) are the graphs of the REAL functions on the whole finite domain
   named by the property, regenerated from the source on every run;
   "In (x, y) rows" reads "the implementation returns y on x". *)
From PV Require Import Lib.Base Model.C16 Gen.C16_Tab Gen.C16_TN Proofs.C16 Proofs.C16_tab.
#[local] Open Scope Z_scope.

(* O1, unbounded: for EVERY octave, alteration and interval size, the code's arithmetic is the
   diatonic specification: step index +-(n-1), octave = floor of the diatonic index / 7, alter such
   that the MIDI pitch moves by +-semitones.  (p1 is the code's "P1" shortcut.)  No bound on the
   alteration is needed for the repaired code. *)
Theorem transpose_inplace_spec : forall p1 n sem up i a o,
  0 <= i <= 6 -> 1 <= n <= 7 -> (p1 = true -> n = 1 /\ sem = 0) ->
  tr_note p1 n sem up (i, a, o) = tr_spec n sem up (i, a, o).
Proof. exact tr_note_spec_lemma. Qed.
Print Assumptions transpose_inplace_spec.

Theorem midi_moves_by_semitones : forall p1 n sem up i a o,
  0 <= i <= 6 -> 1 <= n <= 7 -> (p1 = true -> n = 1 /\ sem = 0) ->
  midi (tr_note p1 n sem up (i, a, o)) = if up then midi (i, a, o) + sem else midi (i, a, o) - sem.
Proof. exact midi_moves_lemma. Qed.
Print Assumptions midi_moves_by_semitones.

(* the octave follows the step: the diatonic index 7*octave + step moves by exactly n-1 staff steps *)
Theorem octave_follows_step : forall p1 n sem up i a o,
  0 <= i <= 6 -> 1 <= n <= 7 -> (p1 = true -> n = 1 /\ sem = 0) ->
  let '(i', a', o') := tr_note p1 n sem up (i, a, o) in
  0 <= i' <= 6 /\ diat i' o' = if up then diat i o + (n - 1) else diat i o - (n - 1).
Proof. exact steps_move_lemma. Qed.
Print Assumptions octave_follows_step.

(* O3: up then down (and down then up) by the same interval restores the spelling *)
Theorem up_down_identity : forall p1 n sem up i a o,
  0 <= i <= 6 -> 1 <= n <= 7 -> (p1 = true -> n = 1 /\ sem = 0) ->
  tr_note p1 n sem (negb up) (tr_note p1 n sem up (i, a, o)) = (i, a, o).
Proof. exact up_down_lemma. Qed.
Print Assumptions up_down_identity.

(* the same, per interval class of INTERVALCLASSES *)
Theorem transpose_class_spec : forall n q up i a o sem,
  iv_semitones n q = Some sem -> 0 <= i <= 6 ->
  tr_iv n q up (i, a, o) = Some (tr_spec n sem up (i, a, o)).
Proof. exact tr_iv_spec_lemma. Qed.
Print Assumptions transpose_class_spec.

Theorem interval_classes_are_39 : List.length interval_classes = 39%nat.
Proof. exact interval_classes_39. Qed.
Print Assumptions interval_classes_are_39.

(* O4: transpose_note (octave free, used for chord roots and local keys) is the same arithmetic:
   whenever it returns, it returns step and alteration of tr_note; it returns whenever the
   alterations before and after are within -2..2 (its documented assertions). *)
Theorem transpose_note_agrees : forall p1 n sem up i a i' a',
  1 <= n -> (p1 = true -> n = 1 /\ sem = 0) ->
  tn_note n sem up i a = Some (i', a') ->
  up = true /\ 0 <= i <= 6 /\ -2 <= a <= 2 /\ -2 <= a' <= 2 /\
  forall o, exists o', tr_note p1 n sem true (i, a, o) = (i', a', o').
Proof. exact tn_note_agrees_lemma. Qed.
Print Assumptions transpose_note_agrees.

Theorem transpose_note_defined : forall n sem i a o,
  0 <= i <= 6 -> 1 <= n <= 7 -> -2 <= a <= 2 ->
  let '(i', a', o') := tr_note false n sem true (i, a, o) in
  -2 <= a' <= 2 -> tn_note n sem true i a = Some (i', a').
Proof. exact tn_note_defined_lemma. Qed.
Print Assumptions transpose_note_defined.

(* T2, complete finite domain (the bound is in the statement): the REAL _transpose_note_inplace
   equals the model on all 7 steps x alterations -2..2 x octaves 0..8 x 39 classes x 2 directions *)
Theorem impl_transpose_domain : forall n q sem up i a o,
  iv_semitones n q = Some sem -> 0 <= i <= 6 -> -2 <= a <= 2 -> 0 <= o <= 8 ->
  exists rows, In (n, q, up, rows) tab_transpose /\
               In ((i, a, o), tr_note (is_p1 n q) n sem up (i, a, o)) rows.
Proof. exact impl_transpose_domain_lemma. Qed.
Print Assumptions impl_transpose_domain.

Theorem impl_transpose_rows : forall n q up rows x y,
  In (n, q, up, rows) tab_transpose -> In (x, y) rows ->
  exists sem, iv_semitones n q = Some sem /\ y = tr_note (is_p1 n q) n sem up x.
Proof. exact impl_transpose_rows_lemma. Qed.
Print Assumptions impl_transpose_rows.

(* INTERVALCLASSES / INTERVAL_TO_SEMITONES / Interval(n, q, dir).semitones = the model's classes *)
Theorem impl_intervals : forall n q sem,
  iv_semitones n q = Some sem -> In (n, q, sem, Some sem, Some sem) tab_intervals.
Proof. exact impl_intervals_lemma. Qed.
Print Assumptions impl_intervals.

Theorem impl_intervals_only : forall n q s su sd,
  In (n, q, s, su, sd) tab_intervals -> iv_semitones n q = Some s /\ su = Some s /\ sd = Some s.
Proof. exact impl_intervals_only_lemma. Qed.
Print Assumptions impl_intervals_only.

(* the REAL transpose_note equals the model on all 7 steps x alterations -2..2 x 39 classes x 2
   directions (None = AssertionError: direction down, or an alteration beyond a double accidental) *)
Theorem impl_transpose_note : forall n q sem up i a,
  iv_semitones n q = Some sem -> 0 <= i <= 6 -> -2 <= a <= 2 ->
  In (n, q, up, i, a, tn_note n sem up i a) tab_tn.
Proof. exact impl_transpose_note_lemma. Qed.
Print Assumptions impl_transpose_note.

(* O1/O2 driver, unbounded over element lists: every element of the result is the argument's
   element with the same fingerprint; pitched ones moved by tr_note, the others untouched *)
Theorem transpose_visits_all_notes : forall n q up l l',
  transpose_elems n q up l = Some l' -> Forall2 (moved n q up) l l'.
Proof. exact transpose_elems_moved. Qed.
Print Assumptions transpose_visits_all_notes.

Theorem transpose_total : forall n q up l sem,
  iv_semitones n q = Some sem -> exists l', transpose_elems n q up l = Some l'.
Proof. exact transpose_elems_total. Qed.
Print Assumptions transpose_total.

(* O3 driver: transposing the result back restores every element *)
Theorem transpose_up_down_restores : forall n q up l l',
  Forall pitched_ok l -> transpose_elems n q up l = Some l' ->
  transpose_elems n q (negb up) l' = Some l.
Proof. exact transpose_elems_up_down. Qed.
Print Assumptions transpose_up_down_restores.

(* hypotheses are satisfiable by a non-trivial state: C#4 (tied to a second C#4), a grace B3 and
   a rest, down an augmented second: Bb3, Bb3, Ab3; the rest is untouched *)
Example transpose_example :
  transpose_elems 2 5 false [(11, Some (0, 1, 4)); (12, Some (0, 1, 4)); (13, Some (6, 0, 3)); (14, None)]
  = Some [(11, Some (6, -1, 3)); (12, Some (6, -1, 3)); (13, Some (5, -1, 3)); (14, None)].
Proof. vm_compute. reflexivity. Qed.
Print Assumptions transpose_example.

(* ---- T1 tie: the definitions T1_music.f are REGENERATED FROM THE SOURCE TEXT of the functions on every run
   (harness/t1.py, a fail-closed Python-ast -> Gallina translator; Gen/T1_music.v names file, function and the
   sha1 of each source segment).  First the equivalence with the hand model (spec_f of Model/T1_spec.v is the
   hand model at the types of the translation), for ALL arguments unless a guard is stated; then the unbounded
   theorems above, restated about the translated definitions.  If a function is outside the translator's subset
   in this run its T1 name is a stub equal to spec_f (the evidence file says so): the statement is then about
   the hand model only. ---- *)
From PV Require Import Lib.Py Model.T1_spec.
From PV Require Gen.T1_music Proofs.T1_core Proofs.C16_t1.
Theorem t1_step2pc_eq : forall s a,
  T1_music.step2pc s a = spec_step2pc s a.
Proof. exact PV.Proofs.T1_core.t1_step2pc_eq. Qed.
Print Assumptions t1_step2pc_eq.

Theorem t1_Interval_semitones_eq : forall iv,
  T1_music.Interval_semitones iv = spec_Interval_semitones iv.
Proof. exact PV.Proofs.T1_core.t1_Interval_semitones_eq. Qed.
Print Assumptions t1_Interval_semitones_eq.

Theorem t1_transpose_step_eq : forall s n d,
  T1_music.transpose_step s n d = spec_transpose_step s n d.
Proof. exact PV.Proofs.C16_t1.t1_transpose_step_eq. Qed.
Print Assumptions t1_transpose_step_eq.

Theorem t1_transpose_note_inplace_eq : forall x iv,
  In (i_direction iv) ["up"; "down"]%string ->
  T1_music.transpose_note_inplace x iv = spec_transpose_note_inplace x iv.
Proof. exact PV.Proofs.C16_t1.t1_transpose_note_inplace_eq. Qed.
Print Assumptions t1_transpose_note_inplace_eq.

Theorem t1_transpose_note_eq : forall s a iv,
  T1_music.transpose_note s a iv = spec_transpose_note s a iv.
Proof. exact PV.Proofs.C16_t1.t1_transpose_note_eq. Qed.
Print Assumptions t1_transpose_note_eq.

Theorem t1_transpose_inplace_spec : forall i a o n q sem up,
  0 <= i <= 6 -> C12.interval_semitones n q = Some sem ->
  T1_music.transpose_note_inplace (mk_note (step_name i) (Some a) o) (mk_interval n q (dir_name up))
  = Some (note_of_pitch (C16.tr_spec n sem up (i, a, o))).
Proof. exact PV.Proofs.C16_t1.t1_transpose_inplace_spec. Qed.
Print Assumptions t1_transpose_inplace_spec.

Theorem t1_midi_moves_by_semitones : forall i a o n q sem up,
  0 <= i <= 6 -> C12.interval_semitones n q = Some sem ->
  exists y, T1_music.transpose_note_inplace (mk_note (step_name i) (Some a) o) (mk_interval n q (dir_name up)) = Some y /\
            T1_music.Note_midi_pitch y = Some (if up then C16.midi (i, a, o) + sem else C16.midi (i, a, o) - sem).
Proof. exact PV.Proofs.C16_t1.t1_midi_moves_by_semitones. Qed.
Print Assumptions t1_midi_moves_by_semitones.

Theorem t1_up_down_identity : forall i a o n q sem up,
  0 <= i <= 6 -> C12.interval_semitones n q = Some sem ->
  exists y, T1_music.transpose_note_inplace (mk_note (step_name i) (Some a) o) (mk_interval n q (dir_name up)) = Some y /\
            T1_music.transpose_note_inplace y (mk_interval n q (dir_name (negb up))) = Some (mk_note (step_name i) (Some a) o).
Proof. exact PV.Proofs.C16_t1.t1_up_down_identity. Qed.
Print Assumptions t1_up_down_identity.

Theorem t1_transpose_note_spec : forall i a n q sem up,
  0 <= i <= 6 -> C12.interval_semitones n q = Some sem ->
  T1_music.transpose_note (step_name i) a (mk_interval n q (dir_name up)) =
  match C16.tn_note n sem up i a with Some (i', a') => Some (step_name i', a') | None => None end.
Proof. exact PV.Proofs.C16_t1.t1_transpose_note_spec. Qed.
Print Assumptions t1_transpose_note_spec.

(* ---- transposition by an Interval OBJECT after any history of operations on it (Model/C12_Interval.v: the state
   machine of score.Interval -- reads, transpose_note, transpose(), change_quality, assignment of number / quality /
   direction; tied to the code by replaying every generated history on a real object, harness/props/c16.py stream
   "history").  Whatever was done with the object before, a note moves by the staff steps AND the semitones of the
   interval the object denotes NOW, in its current direction: the diatonic specification at the table size of its
   current fields -- the same as for a freshly constructed interval. ---- *)
From PV Require Import Model.C12_Interval Proofs.C16_interval.
Theorem interval_history_transpose : forall (f0 : PyInterval) (ops : list iop) n q sem up i a o,
  let s := final_code ops f0 in
  i_number s = n -> i_quality s = q -> i_direction s = dir_name up ->
  C12.interval_semitones n q = Some sem -> 0 <= i <= 6 ->
  tr_code s (mk_note (step_name i) (Some a) o) = Some (note_of_pitch (C16.tr_spec n sem up (i, a, o))) /\
  tn_code s (step_name i) a =
    match C16.tn_note n sem up i a with Some (i', a') => Some (step_name i', a') | None => None end.
Proof. exact interval_history_transpose_lemma. Qed.
Print Assumptions interval_history_transpose.

(* transpose(part, iv) as an operation of the history: every note of the part, and the interval object is not modified *)
Theorem interval_history_transpose_all : forall (f0 : PyInterval) (ops : list iop) n q sem up (l : list (Z * Z * Z)),
  let s := final_code ops f0 in
  i_number s = n -> i_quality s = q -> i_direction s = dir_name up ->
  C12.interval_semitones n q = Some sem -> Forall (fun x : Z * Z * Z => 0 <= fst (fst x) <= 6) l ->
  snd (step_code (OpTr (map note_of_pitch l)) s) = ObNotes (Some (map (fun x => note_of_pitch (C16.tr_spec n sem up x)) l)) /\
  fst (step_code (OpTr (map note_of_pitch l)) s) = s.
Proof. exact interval_history_transpose_all_lemma. Qed.
Print Assumptions interval_history_transpose_all.

(* NOT vacuous: for a machine that memoises the size on the object (not the code) the statement fails -- M6 up used
   once, change_quality(-1), used again: C4 goes to A natural (old size 9), the minor sixth above C4 is A flat *)
Example interval_history_transpose_memo_refuted :
  let c4 := mk_note "C" (Some 0) 4 in
  let s := snd (run step_memo m_iv [OpTr [c4]; OpCq (-1)] (memo_init (mk_interval 6 "M" "up"))) in
  m_iv s = mk_interval 6 "m" "up" /\
  snd (step_memo (OpTr [c4]) s) = ObNotes (Some [mk_note "A" (Some 0) 4]) /\
  C12.interval_semitones 6 "m" = Some 8 /\
  note_of_pitch (C16.tr_spec 6 8 true (0, 0, 4)) = mk_note "A" (Some (-1)) 4 /\
  history_ok step_memo m_iv [OpTr [c4]; OpCq (-1); OpTr [c4]] (memo_init (mk_interval 6 "M" "up")) = false.
Proof. exact interval_history_transpose_memo_refuted_lemma. Qed.
Print Assumptions interval_history_transpose_memo_refuted.

(* ---- chord roots and local keys (Model/C16_Roots.v: process_local_key, RomanNumeral.find_root_note / find_bass_note,
   transpose_note over the module-level degree tables, as a state machine `call -> tables -> tables * observation`;
   tied to the code by (a) the graph of the real process_local_key on its whole finite domain, tabulated in a fresh
   interpreter on every run (Gen/C16_RootsTab.v), (b) the degree tables read from that interpreter, (c) generated call
   sequences executed forwards and reversed in one interpreter each and replayed through the machine,
   harness/props/c16.py stream "roots"). ---- *)
From PV Require Proofs.C16_roots Proofs.C16_roots_tab Gen.C16_RootsTab.
From PV Require Import Model.C16_Roots.

(* state carried between calls: after ANY sequence of calls every call returns what it returns in a fresh interpreter --
   a function of its own arguments -- and the module-level tables are what they were *)
Theorem roots_history_pure : forall ops,
  fst (run step_code ops init_tables) = map obs_fresh ops /\ snd (run step_code ops init_tables) = init_tables.
Proof. exact PV.Proofs.C16_roots.roots_history_pure_lemma. Qed.
Print Assumptions roots_history_pure.

Theorem roots_history_after_any : forall pre o,
  fst (run step_code (pre ++ [o]) init_tables) = fst (run step_code pre init_tables) ++ [obs_fresh o].
Proof. exact PV.Proofs.C16_roots.roots_history_after_any_lemma. Qed.
Print Assumptions roots_history_after_any.

Theorem roots_history_reversed : forall ops,
  fst (run step_code (rev ops) init_tables) = rev (fst (run step_code ops init_tables)).
Proof. exact PV.Proofs.C16_roots.roots_history_reversed_lemma. Qed.
Print Assumptions roots_history_reversed.

Theorem roots_tables_untouched : forall ops t, snd (run step_code ops t) = t.
Proof. exact PV.Proofs.C16_roots.roots_tables_untouched_lemma. Qed.
Print Assumptions roots_tables_untouched.

(* NOT vacuous: a machine that keeps one Interval object per local-key degree at module level and lets change_quality
   work on the table entry (not the code) answers B flat for VII of C major once bVII of C major has been asked *)
Example roots_history_shared_refuted :
  let bVII := mk_deg None (Some 7) (-1) false false in
  let VII := mk_deg None (Some 7) 0 false false in
  let C := (0, 0, false) in
  fst (run step_shared [OPlk bVII C false; OPlk VII C false] init_tables)
    = [BRes (RName (6, -1, false)); BRes (RName (6, -1, false))] /\
  obs_fresh (OPlk VII C false) = BRes (RName (6, 0, false)) /\
  snd (run step_shared [OPlk bVII C false] init_tables) <> init_tables.
Proof. exact PV.Proofs.C16_roots.roots_history_shared_refuted_lemma. Qed.
Print Assumptions roots_history_shared_refuted.

(* Interval.change_quality(num) moves the size of the interval by num semitones, for every interval class and every
   num it accepts (the two quality ladders) *)
Theorem change_quality_size : forall n q k q' s,
  change_quality n q k = Some q' -> C16.iv_semitones n q = Some s -> C16.iv_semitones n q' = Some (s + k).
Proof. exact PV.Proofs.C16_roots.change_quality_size_lemma. Qed.
Print Assumptions change_quality_size.

(* process_local_key is the diatonic arithmetic: whenever it returns (a name or a step/alteration pair) outside its
   shortcut, the key note has moved by n - 1 staff steps and by the size of scale degree n of the key's mode plus the
   accidentals of the degree -- the diatonic specification tr_spec of _transpose_note_inplace, for every octave *)
Theorem local_key_spec : forall d k rsa n i' a',
  plk_identity d k rsa = false -> d_num d = Some n ->
  (plk init_tables d k rsa = RPair i' a' \/ exists l, plk init_tables d k rsa = RName (i', a', l)) ->
  1 <= n <= 7 /\ 0 <= i' <= 6 /\
  forall o, exists o', C16.tr_spec n (scale_size (snd k) n + d_acc d) true (fst (fst k), snd (fst k), o) = (i', a', o').
Proof. exact PV.Proofs.C16_roots.local_key_spec_lemma. Qed.
Print Assumptions local_key_spec.

(* RomanNumeral.find_root_note: whenever it returns, the root is the key note moved by the interval of the secondary
   degree (in the mode of the key) and then by the interval of the primary degree (in the mode the secondary degree
   is written in), both by the diatonic specification; deg_size = catalogue entry, else scale degree + accidentals *)
Theorem root_spec : forall k d1 d2 ri ra rl,
  0 <= fst (fst k) <= 6 ->
  find_root init_tables k d1 d2 = Some (ri, ra, rl) ->
  exists n2 s2 n1 s1 si sa,
    deg_size (snd k) d2 = Some (n2, s2) /\ deg_size (d_lower_all d2) d1 = Some (n1, s1) /\
    forall o, exists o' o'', C16.tr_spec n2 s2 true (fst (fst k), snd (fst k), o) = (si, sa, o') /\
                             C16.tr_spec n1 s1 true (si, sa, o') = (ri, ra, o'').
Proof. exact PV.Proofs.C16_roots.root_spec_lemma. Qed.
Print Assumptions root_spec.

(* find_bass_note: the root moved by a third (minor for a lower-case degree) / perfect fifth / minor seventh *)
Theorem bass_spec : forall ri ra rl inv pl bi ba bl,
  0 <= ri <= 6 -> find_bass (ri, ra, rl) inv pl = Some (bi, ba, bl) ->
  forall o, exists o', C16.tr_spec (fst (PV.Proofs.C16_roots.bass_interval inv pl)) (snd (PV.Proofs.C16_roots.bass_interval inv pl)) true (ri, ra, o) = (bi, ba, o').
Proof. exact PV.Proofs.C16_roots.bass_spec_lemma. Qed.
Print Assumptions bass_spec.

(* V65/bVII in C major: root F, bass A; bII of a minor: B flat *)
Example roots_example :
  let C := (0, 0, false) in
  let V := mk_deg (Some 5) (Some 5) 0 false false in
  let bVII := mk_deg None (Some 7) (-1) false false in
  find_root init_tables C V bVII = Some (3, 0, false) /\
  find_bass (3, 0, false) 1 false = Some (5, 0, false) /\
  plk init_tables (mk_deg None (Some 2) (-1) false false) (5, 0, true) false = RName (6, -1, false).
Proof. exact PV.Proofs.C16_roots.roots_example_lemma. Qed.
Print Assumptions roots_example.

(* T2, complete finite domain (the bound is in the statement): the REAL process_local_key equals the model for all
   7 degrees x upper/lower case x accidentals -2..2 x 7 key steps x key alterations -2..2 x major/minor x
   return_step_alter (9800 rows; RErr = an exception) *)
Theorem impl_local_key_domain : forall n lower acc ki ka kmin rsa,
  1 <= n <= 7 -> -2 <= acc <= 2 -> 0 <= ki <= 6 -> -2 <= ka <= 2 ->
  In (n, lower, acc, ki, ka, kmin, rsa, plk init_tables (deg_of n lower acc) (ki, ka, kmin) rsa) C16_RootsTab.tab_plk.
Proof. exact PV.Proofs.C16_roots_tab.impl_local_key_domain_lemma. Qed.
Print Assumptions impl_local_key_domain.

Theorem impl_local_key_rows : forall n lower acc ki ka kmin rsa out,
  In (n, lower, acc, ki, ka, kmin, rsa, out) C16_RootsTab.tab_plk ->
  out = plk init_tables (deg_of n lower acc) (ki, ka, kmin) rsa.
Proof. exact PV.Proofs.C16_roots_tab.impl_local_key_rows_lemma. Qed.
Print Assumptions impl_local_key_rows.

(* Roman2Interval_Maj / _Min and LOCAL_KEY_TRASPOSITIONS_DCML as read from a fresh interpreter = the model's tables
   (if a tree has no such module-level names, refl_* are the model's tables and C16_RootsTab.refl_present is false) *)
Theorem impl_degree_tables :
  mk_tabs C16_RootsTab.refl_maj C16_RootsTab.refl_min C16_RootsTab.refl_lkmaj C16_RootsTab.refl_lkmin = init_tables.
Proof. exact PV.Proofs.C16_roots_tab.impl_degree_tables_lemma. Qed.
Print Assumptions impl_degree_tables.

(* ------------------------------------------------------------------------------------------------
   State carried on the ARGUMENT between calls (Model/C16_Hist.v, Proofs/C16_hist.v): a Score keeps the flat list
   `parts` (read by score[i], iteration, len, note_array) and the structure it was built from; score[i] = part,
   unfold_part_maximal/minimal(score), edits of a part in place and "transpose the result again" change `parts`
   only.  transpose(score, iv) as a state machine over such histories. *)
From PV Require Proofs.C16_hist.
From PV Require Import Model.C16_Hist.

(* for EVERY history: the state reached is (the list operations applied to the initial part list, the structure
   given at construction) *)
Theorem score_state_after_history : forall partlist ops s,
  sh_run ops (sh_init partlist) = Some s <->
  (sh_lrun ops partlist = Some (sh_parts s) /\ sh_structure s = partlist).
Proof. intros. apply (PV.Proofs.C16_hist.sh_state_lemma ops (sh_init partlist) s). Qed.
Print Assumptions score_state_after_history.

(* forall history, observation = f (current state): what the public views of transpose(score, iv) show after any
   history of score[i] = part / edits in place / unfolding / earlier transpositions (kept or adopted) is the
   transposition of the CURRENT part list, part by part *)
Theorem score_history_reads_current : forall n q up partlist ops,
  opt_bind (sh_run ops (sh_init partlist)) (sh_view n q up) =
  opt_bind (sh_lrun ops partlist) (sh_map_opt (transpose_elems n q up)).
Proof. exact PV.Proofs.C16_hist.sh_history_lemma. Qed.
Print Assumptions score_history_reads_current.

(* the structure a score was built from never matters *)
Theorem score_structure_irrelevant : forall n q up s s',
  sh_parts s = sh_parts s' -> sh_view n q up s = sh_view n q up s'.
Proof. exact PV.Proofs.C16_hist.sh_structure_irrelevant_lemma. Qed.
Print Assumptions score_structure_irrelevant.

(* every element of every current part appears in the result, pitched ones moved by tr_note, the others untouched *)
Theorem score_transpose_moves_current_parts : forall n q up s v,
  sh_view n q up s = Some v -> Forall2 (fun p p' => Forall2 (moved n q up) p p') (sh_parts s) v.
Proof. exact PV.Proofs.C16_hist.sh_view_moves_lemma. Qed.
Print Assumptions score_transpose_moves_current_parts.

(* an observed transposition leaves the argument's state alone (so the same argument can be transposed again, by
   another interval, with the answer of a first call) *)
Theorem score_transpose_keeps_argument : forall n q up s, sh_step s (ShTr n q up) = Some s.
Proof. exact PV.Proofs.C16_hist.sh_tr_keeps_lemma. Qed.
Print Assumptions score_transpose_keeps_argument.

(* non-vacuity: a score built from [C4]; score[0] = [G4, rest]; transposed up a major third shows [B4, rest]; that
   result transposed down a minor second shows [A#4, rest] *)
Example score_history_example :
  opt_bind (sh_run [ShSet 0 [(2, Some (4, 0, 4)); (3, None)]] (sh_init [[(1, Some (0, 0, 4))]])) (sh_view 3 3 true)
    = Some [[(2, Some (6, 0, 4)); (3, None)]] /\
  opt_bind (sh_run [ShSet 0 [(2, Some (4, 0, 4)); (3, None)]; ShAdopt 3 3 true] (sh_init [[(1, Some (0, 0, 4))]]))
           (sh_view 2 2 false)
    = Some [[(2, Some (5, 1, 4)); (3, None)]].
Proof. split; vm_compute; reflexivity. Qed.

(* a variant that walks the structure the score was built from answers E4 (the major third above the C4 the score
   no longer holds) for the same history: the statement above is not vacuous *)
Example score_history_stale_refuted :
  opt_bind (sh_run [ShSet 0 [(2, Some (4, 0, 4)); (3, None)]] (sh_init [[(1, Some (0, 0, 4))]])) (sh_view_stale 3 3 true)
    = Some [[(1, Some (2, 0, 4))]] /\
  opt_bind (sh_run [ShSet 0 [(2, Some (4, 0, 4)); (3, None)]] (sh_init [[(1, Some (0, 0, 4))]])) (sh_view_stale 3 3 true)
    <> opt_bind (sh_lrun [ShSet 0 [(2, Some (4, 0, 4)); (3, None)]] [[(1, Some (0, 0, 4))]])
                (sh_map_opt (transpose_elems 3 3 true)).
Proof. split; [vm_compute; reflexivity | vm_compute; discriminate]. Qed.

(* ------------------------------------------------------------------------------------------------
   "returns a NEW score or part ... and the argument itself is not modified" (Model/C16_Heap.v, Proofs/C16_heap.v):
   objects live in a heap (address = position; a cell = fingerprint and pitch of one object; a Part object is a cell
   and stands first in its part's address list), transpose() = copy.deepcopy with its memo (new cells at the end of
   the heap), then _transpose_note_inplace ASSIGNS to the cells of the copy.  hp_valid: every address of the argument
   is a cell of the heap; NoDup: no object is listed twice in the argument.  Tied to the code by the stream
   "identity" of harness/props/c16.py (objects numbered by id(), heap before and after the real call). *)
From PV Require Proofs.C16_heap.
From PV Require Import Model.C16_Heap.

(* refinement to the value-level driver: what is read through the result's addresses after the call is
   transpose_elems of what was read through the argument's addresses before it, part by part (same part sizes) *)
Theorem heap_transpose_refines : forall n q up h arg h2 res,
  hp_valid h arg -> NoDup (List.concat arg) -> hp_transpose n q up h arg = Some (h2, res) ->
  exists es es',
    hp_read h (List.concat arg) = map Some es /\ transpose_elems n q up es = Some es' /\
    hp_read h2 (List.concat res) = map Some es' /\ map (@List.length nat) res = map (@List.length nat) arg.
Proof. exact PV.Proofs.C16_heap.hp_refines_lemma. Qed.
Print Assumptions heap_transpose_refines.

(* the argument itself is not modified: every cell that existed before the call holds what it held *)
Theorem heap_transpose_keeps_argument : forall n q up h arg h2 res,
  hp_valid h arg -> NoDup (List.concat arg) -> hp_transpose n q up h arg = Some (h2, res) ->
  firstn (List.length h) h2 = h /\ hp_read h2 (List.concat arg) = hp_read h (List.concat arg).
Proof. exact PV.Proofs.C16_heap.hp_keeps_argument_lemma. Qed.
Print Assumptions heap_transpose_keeps_argument.

(* the result is new: only cells allocated by the call, pairwise different, none of them a cell of the argument *)
Theorem heap_transpose_result_fresh : forall n q up h arg h2 res,
  hp_valid h arg -> NoDup (List.concat arg) -> hp_transpose n q up h arg = Some (h2, res) ->
  Forall (fun a => (List.length h <= a < List.length h2)%nat) (List.concat res) /\ NoDup (List.concat res) /\
  (forall a, In a (List.concat res) -> ~ In a (List.concat arg)).
Proof. exact PV.Proofs.C16_heap.hp_result_fresh_lemma. Qed.
Print Assumptions heap_transpose_result_fresh.

Theorem heap_transpose_total : forall n q up h arg sem,
  iv_semitones n q = Some sem -> hp_valid h arg -> NoDup (List.concat arg) ->
  exists h2 res, hp_transpose n q up h arg = Some (h2, res).
Proof. exact PV.Proofs.C16_heap.hp_total_lemma. Qed.
Print Assumptions heap_transpose_total.

(* non-vacuity: a part object, C#4 tied to a second C#4, a grace B3 and a rest, down an augmented second *)
Example heap_transpose_example :
  hp_transpose 2 5 false PV.Proofs.C16_heap.hp_ex_heap [[0; 1; 2; 3; 4]]%nat
  = Some ((PV.Proofs.C16_heap.hp_ex_heap ++ [(10, None); (11, Some (6, -1, 3)); (12, Some (6, -1, 3)); (13, Some (5, -1, 3)); (14, None)])%list,
          [[5; 6; 7; 8; 9]]%nat) /\
  hp_valid PV.Proofs.C16_heap.hp_ex_heap [[0; 1; 2; 3; 4]]%nat /\ NoDup (List.concat [[0; 1; 2; 3; 4]]%nat).
Proof. exact PV.Proofs.C16_heap.hp_example_lemma. Qed.
Print Assumptions heap_transpose_example.

(* NOT vacuous: "a perfect unison changes nothing, hand the argument back" (not the code) returns the argument's own
   cells -- heap_transpose_result_fresh fails for it *)
Example heap_unison_fast_path_refuted :
  hp_transpose_fast 1 4 true PV.Proofs.C16_heap.hp_ex_heap [[0; 1; 2; 3; 4]]%nat
    = Some (PV.Proofs.C16_heap.hp_ex_heap, [[0; 1; 2; 3; 4]]%nat) /\
  ~ (forall a, In a (List.concat [[0; 1; 2; 3; 4]]%nat) -> ~ In a (List.concat [[0; 1; 2; 3; 4]]%nat)).
Proof. exact PV.Proofs.C16_heap.hp_fast_refuted_lemma. Qed.
Print Assumptions heap_unison_fast_path_refuted.

(* NOT vacuous: copy.copy instead of copy.deepcopy (not the code) assigns to the argument's notes --
   heap_transpose_keeps_argument fails for it *)
Example heap_shallow_copy_refuted :
  exists h2 res, hp_transpose_shallow 2 5 false PV.Proofs.C16_heap.hp_ex_heap [[0; 1; 2; 3; 4]]%nat = Some (h2, res) /\
                 firstn (List.length PV.Proofs.C16_heap.hp_ex_heap) h2 <> PV.Proofs.C16_heap.hp_ex_heap.
Proof. exact PV.Proofs.C16_heap.hp_shallow_refuted_lemma. Qed.
Print Assumptions heap_shallow_copy_refuted.

(* the hypothesis NoDup is needed, and this IS the code (Score([p, p]): deepcopy's memo hands out the one copy of p
   twice, the loop visits it twice): C4 up a major third comes back as G#4 *)
Example heap_same_part_twice_moves_twice :
  hp_transpose 3 3 true [(10, None); (11, Some (0, 0, 4))] [[0; 1]; [0; 1]]%nat
  = Some ([(10, None); (11, Some (0, 0, 4)); (10, None); (11, Some (4, 1, 4))], [[2; 3]; [2; 3]]%nat).
Proof. exact PV.Proofs.C16_heap.hp_same_part_twice_lemma. Qed.
Print Assumptions heap_same_part_twice_moves_twice.

(* the per-call statements chained over a whole HISTORY of calls on one live argument (hp_run: each call transposes
   the original argument again, or the result of the call before it; hp_vrun: the same sequence on element lists,
   Model/C16.v): for EVERY sequence, every cell that existed before the first call still holds what it held -- the
   argument is not modified by any later call, whatever is done with the results --, the latest result consists of
   pairwise different cells, and what is read through it is what the sequence computes on values *)
Theorem heap_history_keeps_argument_and_refines : forall calls h arg h' res,
  hp_valid h arg -> NoDup (List.concat arg) -> hp_run calls h arg arg = Some (h', res) ->
  firstn (List.length h) h' = h /\ hp_read h' (List.concat arg) = hp_read h (List.concat arg) /\
  NoDup (List.concat res) /\
  exists va v, hp_read h (List.concat arg) = map Some va /\ hp_vrun calls va va = Some v /\
               hp_read h' (List.concat res) = map Some v.
Proof. exact PV.Proofs.C16_heap.hp_history_lemma. Qed.
Print Assumptions heap_history_keeps_argument_and_refines.

(* C4: up a major third (E4), that result down a minor second (D#4), the ORIGINAL again up a perfect fifth (G4) *)
Example heap_history_example :
  hp_run [HpCall false 3 3 true; HpCall true 2 2 false; HpCall false 5 4 true] [(10, None); (11, Some (0, 0, 4))] [[0; 1]]%nat [[0; 1]]%nat
  = Some ([(10, None); (11, Some (0, 0, 4)); (10, None); (11, Some (2, 0, 4)); (10, None); (11, Some (1, 1, 4)); (10, None); (11, Some (4, 0, 4))],
          [[6; 7]]%nat).
Proof. exact PV.Proofs.C16_heap.hp_history_example_lemma. Qed.
Print Assumptions heap_history_example.

(* NOT vacuous: a machine that keeps the copy it made for an argument and transposes THAT copy in place when the
   argument comes again (not the code) answers B4 (E4 moved by the fifth) where the sequence on values says G4 *)
Example heap_history_memo_refuted :
  let calls := [HpCall false 3 3 true; HpCall false 5 4 true] in
  let h := [(10, None); (11, Some (0, 0, 4))] in
  hp_run_memo calls h [[0; 1]]%nat
    = Some ([(10, None); (11, Some (0, 0, 4)); (10, None); (11, Some (6, 0, 4))], [[2; 3]]%nat) /\
  hp_vrun calls [(10, None); (11, Some (0, 0, 4))] [(10, None); (11, Some (0, 0, 4))] = Some [(10, None); (11, Some (4, 0, 4))].
Proof. exact PV.Proofs.C16_heap.hp_history_memo_refuted_lemma. Qed.
Print Assumptions heap_history_memo_refuted.
