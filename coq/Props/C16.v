(* C16 -- property theorems.  Statements + `exact` only; proofs live in Proofs/C16*.v.

   Model (Model/C16.v) = the arithmetic of partitura/utils/music.py as repaired:
   tr_note = _transpose_note_inplace, tn_note = transpose_note, transpose_elems = transpose.
   Encodings: step C=0..B=6; quality dd=0 d=1 m=2 M=3 P=4 A=5 AA=6; up = true.
   Tables tab_* (Gen/C16_*.v) are the graphs of the REAL functions on the whole finite domain
   named by the property, regenerated from the source on every run;
   "In (x, y) rows" reads "the implementation returns y on x". *)
From PV Require Import Lib.Base Model.C16 Gen.C16_Tab Gen.C16_TN Proofs.C16 Proofs.C16_tab.
#[local] Open Scope Z_scope.

(* O1, unbounded: for EVERY octave, alteration and interval size, the code's arithmetic is the
   diatonic specification: step index +-(n-1), octave = floor of the diatonic index / 7, alter such
   that the MIDI pitch moves by +-semitones.  (p1 is the code's "P1" shortcut.)  No bound on the
   alteration is needed for the repaired code. *)
Theorem transpose_inplace_spec : forall p1 n sem up i a o,
  0 <= i <= 6 -> 1 <= n <= 7 -> (p1 = true -> n = 1 /\ sem = 0) ->
  tr_note p1 n sem up (i, a, o) = tr_spec n sem up (i, a, o).
Proof. exact tr_note_spec_lemma. Qed.
Print Assumptions transpose_inplace_spec.

Theorem midi_moves_by_semitones : forall p1 n sem up i a o,
  0 <= i <= 6 -> 1 <= n <= 7 -> (p1 = true -> n = 1 /\ sem = 0) ->
  midi (tr_note p1 n sem up (i, a, o)) = if up then midi (i, a, o) + sem else midi (i, a, o) - sem.
Proof. exact midi_moves_lemma. Qed.
Print Assumptions midi_moves_by_semitones.

(* the octave follows the step: the diatonic index 7*octave + step moves by exactly n-1 staff steps *)
Theorem octave_follows_step : forall p1 n sem up i a o,
  0 <= i <= 6 -> 1 <= n <= 7 -> (p1 = true -> n = 1 /\ sem = 0) ->
  let '(i', a', o') := tr_note p1 n sem up (i, a, o) in
  0 <= i' <= 6 /\ diat i' o' = if up then diat i o + (n - 1) else diat i o - (n - 1).
Proof. exact steps_move_lemma. Qed.
Print Assumptions octave_follows_step.

(* O3: up then down (and down then up) by the same interval restores the spelling *)
Theorem up_down_identity : forall p1 n sem up i a o,
  0 <= i <= 6 -> 1 <= n <= 7 -> (p1 = true -> n = 1 /\ sem = 0) ->
  tr_note p1 n sem (negb up) (tr_note p1 n sem up (i, a, o)) = (i, a, o).
Proof. exact up_down_lemma. Qed.
Print Assumptions up_down_identity.

(* the same, per interval class of INTERVALCLASSES *)
Theorem transpose_class_spec : forall n q up i a o sem,
  iv_semitones n q = Some sem -> 0 <= i <= 6 ->
  tr_iv n q up (i, a, o) = Some (tr_spec n sem up (i, a, o)).
Proof. exact tr_iv_spec_lemma. Qed.
Print Assumptions transpose_class_spec.

Theorem interval_classes_are_39 : List.length interval_classes = 39%nat.
Proof. exact interval_classes_39. Qed.
Print Assumptions interval_classes_are_39.

(* O4: transpose_note (octave free, used for chord roots and local keys) is the same arithmetic:
   whenever it returns, it returns step and alteration of tr_note; it returns whenever the
   alterations before and after are within -2..2 (its documented assertions). *)
Theorem transpose_note_agrees : forall p1 n sem up i a i' a',
  1 <= n -> (p1 = true -> n = 1 /\ sem = 0) ->
  tn_note n sem up i a = Some (i', a') ->
  up = true /\ 0 <= i <= 6 /\ -2 <= a <= 2 /\ -2 <= a' <= 2 /\
  forall o, exists o', tr_note p1 n sem true (i, a, o) = (i', a', o').
Proof. exact tn_note_agrees_lemma. Qed.
Print Assumptions transpose_note_agrees.

Theorem transpose_note_defined : forall n sem i a o,
  0 <= i <= 6 -> 1 <= n <= 7 -> -2 <= a <= 2 ->
  let '(i', a', o') := tr_note false n sem true (i, a, o) in
  -2 <= a' <= 2 -> tn_note n sem true i a = Some (i', a').
Proof. exact tn_note_defined_lemma. Qed.
Print Assumptions transpose_note_defined.

(* T2, complete finite domain (the bound is in the statement): the REAL _transpose_note_inplace
   equals the model on all 7 steps x alterations -2..2 x octaves 0..8 x 39 classes x 2 directions *)
Theorem impl_transpose_domain : forall n q sem up i a o,
  iv_semitones n q = Some sem -> 0 <= i <= 6 -> -2 <= a <= 2 -> 0 <= o <= 8 ->
  exists rows, In (n, q, up, rows) tab_transpose /\
               In ((i, a, o), tr_note (is_p1 n q) n sem up (i, a, o)) rows.
Proof. exact impl_transpose_domain_lemma. Qed.
Print Assumptions impl_transpose_domain.

Theorem impl_transpose_rows : forall n q up rows x y,
  In (n, q, up, rows) tab_transpose -> In (x, y) rows ->
  exists sem, iv_semitones n q = Some sem /\ y = tr_note (is_p1 n q) n sem up x.
Proof. exact impl_transpose_rows_lemma. Qed.
Print Assumptions impl_transpose_rows.

(* INTERVALCLASSES / INTERVAL_TO_SEMITONES / Interval(n, q, dir).semitones = the model's classes *)
Theorem impl_intervals : forall n q sem,
  iv_semitones n q = Some sem -> In (n, q, sem, Some sem, Some sem) tab_intervals.
Proof. exact impl_intervals_lemma. Qed.
Print Assumptions impl_intervals.

Theorem impl_intervals_only : forall n q s su sd,
  In (n, q, s, su, sd) tab_intervals -> iv_semitones n q = Some s /\ su = Some s /\ sd = Some s.
Proof. exact impl_intervals_only_lemma. Qed.
Print Assumptions impl_intervals_only.

(* the REAL transpose_note equals the model on all 7 steps x alterations -2..2 x 39 classes x 2
   directions (None = AssertionError: direction down, or an alteration beyond a double accidental) *)
Theorem impl_transpose_note : forall n q sem up i a,
  iv_semitones n q = Some sem -> 0 <= i <= 6 -> -2 <= a <= 2 ->
  In (n, q, up, i, a, tn_note n sem up i a) tab_tn.
Proof. exact impl_transpose_note_lemma. Qed.
Print Assumptions impl_transpose_note.

(* O1/O2 driver, unbounded over element lists: every element of the result is the argument's
   element with the same fingerprint; pitched ones moved by tr_note, the others untouched *)
Theorem transpose_visits_all_notes : forall n q up l l',
  transpose_elems n q up l = Some l' -> Forall2 (moved n q up) l l'.
Proof. exact transpose_elems_moved. Qed.
Print Assumptions transpose_visits_all_notes.

Theorem transpose_total : forall n q up l sem,
  iv_semitones n q = Some sem -> exists l', transpose_elems n q up l = Some l'.
Proof. exact transpose_elems_total. Qed.
Print Assumptions transpose_total.

(* O3 driver: transposing the result back restores every element *)
Theorem transpose_up_down_restores : forall n q up l l',
  Forall pitched_ok l -> transpose_elems n q up l = Some l' ->
  transpose_elems n q (negb up) l' = Some l.
Proof. exact transpose_elems_up_down. Qed.
Print Assumptions transpose_up_down_restores.

(* hypotheses are satisfiable by a non-trivial state: C#4 (tied to a second C#4), a grace B3 and
   a rest, down an augmented second: Bb3, Bb3, Ab3; the rest is untouched *)
Example transpose_example :
  transpose_elems 2 5 false [(11, Some (0, 1, 4)); (12, Some (0, 1, 4)); (13, Some (6, 0, 3)); (14, None)]
  = Some [(11, Some (6, -1, 3)); (12, Some (6, -1, 3)); (13, Some (5, -1, 3)); (14, None)].
Proof. vm_compute. reflexivity. Qed.
Print Assumptions transpose_example.

(* ---- T1 tie: the definitions T1_music.f are REGENERATED FROM THE SOURCE TEXT of the functions on every run
   (harness/t1.py, a fail-closed Python-ast -> Gallina translator; Gen/T1_music.v names file, function and the
   sha1 of each source segment).  First the equivalence with the hand model (spec_f of Model/T1_spec.v is the
   hand model at the types of the translation), for ALL arguments unless a guard is stated; then the unbounded
   theorems above, restated about the translated definitions.  If a function is outside the translator's subset
   in this run its T1 name is a stub equal to spec_f (the evidence file says so): the statement is then about
   the hand model only. ---- *)
From PV Require Import Lib.Py Model.T1_spec.
From PV Require Gen.T1_music Proofs.T1_core Proofs.C16_t1.
Theorem t1_step2pc_eq : forall s a,
  T1_music.step2pc s a = spec_step2pc s a.
Proof. exact PV.Proofs.T1_core.t1_step2pc_eq. Qed.
Print Assumptions t1_step2pc_eq.

Theorem t1_Interval_semitones_eq : forall iv,
  T1_music.Interval_semitones iv = spec_Interval_semitones iv.
Proof. exact PV.Proofs.T1_core.t1_Interval_semitones_eq. Qed.
Print Assumptions t1_Interval_semitones_eq.

Theorem t1_transpose_step_eq : forall s n d,
  T1_music.transpose_step s n d = spec_transpose_step s n d.
Proof. exact PV.Proofs.C16_t1.t1_transpose_step_eq. Qed.
Print Assumptions t1_transpose_step_eq.

Theorem t1_transpose_note_inplace_eq : forall x iv,
  In (i_direction iv) ["up"; "down"]%string ->
  T1_music.transpose_note_inplace x iv = spec_transpose_note_inplace x iv.
Proof. exact PV.Proofs.C16_t1.t1_transpose_note_inplace_eq. Qed.
Print Assumptions t1_transpose_note_inplace_eq.

Theorem t1_transpose_note_eq : forall s a iv,
  T1_music.transpose_note s a iv = spec_transpose_note s a iv.
Proof. exact PV.Proofs.C16_t1.t1_transpose_note_eq. Qed.
Print Assumptions t1_transpose_note_eq.

Theorem t1_transpose_inplace_spec : forall i a o n q sem up,
  0 <= i <= 6 -> C12.interval_semitones n q = Some sem ->
  T1_music.transpose_note_inplace (mk_note (step_name i) (Some a) o) (mk_interval n q (dir_name up))
  = Some (note_of_pitch (C16.tr_spec n sem up (i, a, o))).
Proof. exact PV.Proofs.C16_t1.t1_transpose_inplace_spec. Qed.
Print Assumptions t1_transpose_inplace_spec.

Theorem t1_midi_moves_by_semitones : forall i a o n q sem up,
  0 <= i <= 6 -> C12.interval_semitones n q = Some sem ->
  exists y, T1_music.transpose_note_inplace (mk_note (step_name i) (Some a) o) (mk_interval n q (dir_name up)) = Some y /\
            T1_music.Note_midi_pitch y = Some (if up then C16.midi (i, a, o) + sem else C16.midi (i, a, o) - sem).
Proof. exact PV.Proofs.C16_t1.t1_midi_moves_by_semitones. Qed.
Print Assumptions t1_midi_moves_by_semitones.

Theorem t1_up_down_identity : forall i a o n q sem up,
  0 <= i <= 6 -> C12.interval_semitones n q = Some sem ->
  exists y, T1_music.transpose_note_inplace (mk_note (step_name i) (Some a) o) (mk_interval n q (dir_name up)) = Some y /\
            T1_music.transpose_note_inplace y (mk_interval n q (dir_name (negb up))) = Some (mk_note (step_name i) (Some a) o).
Proof. exact PV.Proofs.C16_t1.t1_up_down_identity. Qed.
Print Assumptions t1_up_down_identity.

Theorem t1_transpose_note_spec : forall i a n q sem up,
  0 <= i <= 6 -> C12.interval_semitones n q = Some sem ->
  T1_music.transpose_note (step_name i) a (mk_interval n q (dir_name up)) =
  match C16.tn_note n sem up i a with Some (i', a') => Some (step_name i', a') | None => None end.
Proof. exact PV.Proofs.C16_t1.t1_transpose_note_spec. Qed.
Print Assumptions t1_transpose_note_spec.

(* ---- transposition by an Interval OBJECT after any history of operations on it (Model/C12_Interval.v: the state
   machine of score.Interval -- reads, transpose_note, transpose(), change_quality, assignment of number / quality /
   direction; tied to the code by replaying every generated history on a real object, harness/props/c16.py stream
   "history").  Whatever was done with the object before, a note moves by the staff steps AND the semitones of the
   interval the object denotes NOW, in its current direction: the diatonic specification at the table size of its
   current fields -- the same as for a freshly constructed interval. ---- *)
From PV Require Import Model.C12_Interval Proofs.C16_interval.
Theorem interval_history_transpose : forall (f0 : PyInterval) (ops : list iop) n q sem up i a o,
  let s := final_code ops f0 in
  i_number s = n -> i_quality s = q -> i_direction s = dir_name up ->
  C12.interval_semitones n q = Some sem -> 0 <= i <= 6 ->
  tr_code s (mk_note (step_name i) (Some a) o) = Some (note_of_pitch (C16.tr_spec n sem up (i, a, o))) /\
  tn_code s (step_name i) a =
    match C16.tn_note n sem up i a with Some (i', a') => Some (step_name i', a') | None => None end.
Proof. exact interval_history_transpose_lemma. Qed.
Print Assumptions interval_history_transpose.

(* transpose(part, iv) as an operation of the history: every note of the part, and the interval object is not modified *)
Theorem interval_history_transpose_all : forall (f0 : PyInterval) (ops : list iop) n q sem up (l : list (Z * Z * Z)),
  let s := final_code ops f0 in
  i_number s = n -> i_quality s = q -> i_direction s = dir_name up ->
  C12.interval_semitones n q = Some sem -> Forall (fun x : Z * Z * Z => 0 <= fst (fst x) <= 6) l ->
  snd (step_code (OpTr (map note_of_pitch l)) s) = ObNotes (Some (map (fun x => note_of_pitch (C16.tr_spec n sem up x)) l)) /\
  fst (step_code (OpTr (map note_of_pitch l)) s) = s.
Proof. exact interval_history_transpose_all_lemma. Qed.
Print Assumptions interval_history_transpose_all.

(* NOT vacuous: for a machine that memoises the size on the object (not the code) the statement fails -- M6 up used
   once, change_quality(-1), used again: C4 goes to A natural (old size 9), the minor sixth above C4 is A flat *)
Example interval_history_transpose_memo_refuted :
  let c4 := mk_note "C" (Some 0) 4 in
  let s := snd (run step_memo m_iv [OpTr [c4]; OpCq (-1)] (memo_init (mk_interval 6 "M" "up"))) in
  m_iv s = mk_interval 6 "m" "up" /\
  snd (step_memo (OpTr [c4]) s) = ObNotes (Some [mk_note "A" (Some 0) 4]) /\
  C12.interval_semitones 6 "m" = Some 8 /\
  note_of_pitch (C16.tr_spec 6 8 true (0, 0, 4)) = mk_note "A" (Some (-1)) 4 /\
  history_ok step_memo m_iv [OpTr [c4]; OpCq (-1); OpTr [c4]] (memo_init (mk_interval 6 "M" "up")) = false.
Proof. exact interval_history_transpose_memo_refuted_lemma. Qed.
Print Assumptions interval_history_transpose_memo_refuted.
