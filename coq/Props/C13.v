(* C13 -- property theorems.  Statements + `exact` only; proofs live in the Proofs/C13 files.
   All statements are about Model.C13 (make_pianoroll, compute_pianoroll, pc_cell / pc_value, decode_frames), the
   definitions the correspondence run evaluates against partitura on every check.
   Vocabulary (Proofs/C13.v): spec_min_time = time origin (least onset, or 0 / least negative onset
   without remove_silence) over the rows in INPUT order; covers o mt lo n r c = note n occupies
   (row r, frame c); cell_spec = binarised maximum velocity of the covering notes, 0 if none. *)
From PV Require Import Lib.Base Lib.Round Model.C13 Proofs.C13_lib Proofs.C13 Proofs.C13_pc Proofs.C13_decode.
From PV Require Import Proofs.C13_round Proofs.C13_more Proofs.C13_scan Model.C13_Api Proofs.C13_api.
From PV Require Import Model.C13_Hist Proofs.C13_hist.
From PV Require Import Model.C13_Runs Proofs.C13_runs.
From Coq Require Import QArith Qround Permutation Sorted.
#[local] Open Scope Z_scope.

(* O2/O3: every cell inside the roll holds the specification's value, for all note lists and options *)
Theorem roll_spec : forall o ns R, make_pianoroll o ns = Some R ->
  forall r c, 0 <= r < r_rows R -> cell_at (r_cells R) r c = cell_spec o ns r c.
Proof. exact roll_spec_lemma. Qed.
Print Assumptions roll_spec.

(* ... where the value is the velocity of a note sounding there, the largest when notes collide *)
Theorem cell_value : forall o ns r c,
  let mt := spec_min_time o ns in
  let lo := lowest_pitch o ns in
  match sounding_max o ns r c with
  | None => forall n, In n ns -> covers o mt lo n (r + pr_start o) c = false
  | Some v => (exists n, In n ns /\ covers o mt lo n (r + pr_start o) c = true /\ n_vel n = v) /\
              forall n, In n ns -> covers o mt lo n (r + pr_start o) c = true -> n_vel n <= v
  end.
Proof. exact sounding_max_spec. Qed.
Print Assumptions cell_value.

(* ... non-zero exactly when a note sounds there (positive velocities) *)
Theorem cell_nonzero_iff : forall o ns r c,
  (forall n, In n ns -> 0 < n_vel n) ->
  (cell_spec o ns r c <> 0 <->
   exists n, In n ns /\ covers o (spec_min_time o ns) (lowest_pitch o ns) n (r + pr_start o) c = true).
Proof. exact cell_nonzero_iff_lemma. Qed.
Print Assumptions cell_nonzero_iff.

Theorem binary_cells : forall o ns r c, o_binary o = true ->
  cell_spec o ns r c = 0 \/ cell_spec o ns r c = 1.
Proof. exact binary_cell_lemma. Qed.
Print Assumptions binary_cells.

(* never less than one frame: the onset frame of every note is covered, in every mode *)
Theorem min_one_frame : forall o mt lo n,
  fr_on o mt n < fr_end o mt n /\ covers o mt lo n (row_full o lo n) (fr_on o mt n) = true.
Proof. exact min_one_frame_lemma. Qed.
Print Assumptions min_one_frame.

(* stored cells lie inside the shape (nothing is written outside the roll) *)
Theorem cells_in_shape : forall o ns R, make_pianoroll o ns = Some R ->
  forall r c v, In (r, c, v) (r_cells R) -> 0 <= r < r_rows R /\ 0 <= c < r_cols R.
Proof. exact cells_in_shape_lemma. Qed.
Print Assumptions cells_in_shape.

(* whatever the order of the input rows: same acceptance, same shape, same cells *)
Theorem roll_perm_invariant : forall o ns ns' R, Permutation ns ns' -> make_pianoroll o ns = Some R ->
  exists R', make_pianoroll o ns' = Some R' /\ r_rows R' = r_rows R /\ r_cols R' = r_cols R /\
             forall r c, cell_at (r_cells R') r c = cell_at (r_cells R) r c.
Proof. exact roll_perm_invariant_lemma. Qed.
Print Assumptions roll_perm_invariant.

Theorem rejected_perm_invariant : forall o ns ns', Permutation ns ns' ->
  make_pianoroll o ns = None -> make_pianoroll o ns' = None.
Proof. exact rejected_perm_lemma. Qed.
Print Assumptions rejected_perm_invariant.

(* ... also through field selection and drum filtering: reordering the rows of the note array *)
Theorem compute_pianoroll_perm_invariant : forall c us hv hc rows rows' R, Permutation rows rows' ->
  compute_pianoroll c (us, hv, hc, rows) = Some R ->
  exists R', compute_pianoroll c (us, hv, hc, rows') = Some R' /\
    r_rows R' = r_rows R /\ r_cols R' = r_cols R /\
    forall r j, cell_at (r_cells R') r j = cell_at (r_cells R) r j.
Proof. exact compute_pianoroll_perm_lemma. Qed.
Print Assumptions compute_pianoroll_perm_invariant.

(* the stored cells occupy distinct positions (colliding notes are merged BEFORE the sparse matrix is
   assembled; a sparse constructor would add duplicates up) *)
Theorem stored_positions_distinct : forall o ns R, make_pianoroll o ns = Some R ->
  NoDup (map pos_of_cell (r_cells R)).
Proof. exact stored_positions_distinct_lemma. Qed.
Print Assumptions stored_positions_distinct.

(* O4: index row k belongs to input row k (input order) ... *)
Theorem idx_rows_spec : forall o ns R, make_pianoroll o ns = Some R ->
  r_idx R = map (idx_of o (spec_min_time o ns) (lowest_pitch o ns)) ns.
Proof. exact idx_rows_lemma. Qed.
Print Assumptions idx_rows_spec.

(* ... and designates exactly the cells of its note: row, [onset column, offset column) -- in every
   mode (onset-only included, after the repair of the former known finding C13-K1) *)
Theorem idx_designates : forall o mt lo n r c,
  let '(r0, a, b, p) := idx_of o mt lo n in
  p = n_pitch n /\
  (covers o mt lo n r c = true <-> r = r0 + pr_start o /\ a <= c < b).
Proof. exact idx_designates_lemma. Qed.
Print Assumptions idx_designates.

(* onset-only mode: every index row spans exactly its onset frame *)
Theorem idx_onset_only_one_frame : forall o ns R, make_pianoroll o ns = Some R -> o_onset_only o = true ->
  forall r a b p, In (r, a, b, p) (r_idx R) -> b = a + 1.
Proof. exact idx_onset_only_lemma. Qed.
Print Assumptions idx_onset_only_one_frame.

(* the input of the former known finding: note (60, onset 0, duration 2), time_div 2, onset-only *)
Theorem example_onset_only_idx :
  exists R, make_pianoroll (mkOpts 2 true false (-1) 0 false true None false) [(60, 0%Q, 2%Q, 1)] = Some R /\
    r_idx R = [(60, 0, 1, 60)] /\ r_cols R = 4 /\ cell_at (r_cells R) 60 0 = 1 /\ cell_at (r_cells R) 60 1 = 0.
Proof. exact example_onset_only_idx_lemma. Qed.
Print Assumptions example_onset_only_idx.

(* O1 shape: 128 rows, 88 in piano range *)
Theorem shape_rows_default : forall o ns R, make_pianoroll o ns = Some R -> o_pitch_margin o <= -1 ->
  r_rows R = if o_piano_range o then 88 else 128.
Proof. exact rows_default_lemma. Qed.
Print Assumptions shape_rows_default.

(* pitch span plus twice the margin *)
Theorem shape_rows_margin : forall o ns R, make_pianoroll o ns = Some R ->
  -1 < o_pitch_margin o -> o_piano_range o = false ->
  exists lo hi, least n_pitch ns lo /\ greatest n_pitch ns hi /\ r_rows R = hi - lo + 1 + 2 * o_pitch_margin o.
Proof. exact rows_margin_lemma. Qed.
Print Assumptions shape_rows_margin.

(* columns: last nominal offset frame (which already contains the leading margin) plus the trailing
   margin; with end_time: both margins plus the frames up to end_time, and end_time is accepted only
   if no note ends after it *)
Theorem shape_cols : forall o ns R, make_pianoroll o ns = Some R ->
  exists l, last_off o ns l /\
    match o_end_time o with
    | None => r_cols R = o_time_div o * o_time_margin o + l
    | Some e =>
        (inject_Z l <= (e - spec_min_time o ns) * inject_Z (o_time_div o) + inject_Z (o_time_margin o * o_time_div o))%Q /\
        r_cols R = Qceiling (inject_Z (2 * o_time_div o * o_time_margin o) + inject_Z (o_time_div o) * (e - spec_min_time o ns))
    end.
Proof. exact cols_lemma. Qed.
Print Assumptions shape_cols.

(* compute_pianoroll = unit inference / field selection / drum filtering, then make_pianoroll *)
Theorem compute_pianoroll_factors : forall c a R, compute_pianoroll c a = Some R ->
  exists u ns, resolve_unit a (c_time_unit c) = Some u /\
    select_rows a u (c_remove_drums c) = Some ns /\
    make_pianoroll (with_div (c_opts c) (match c_time_div c with Some d => d | None => auto_div u end)) ns = Some R.
Proof. exact compute_pianoroll_lemma. Qed.
Print Assumptions compute_pianoroll_factors.

Theorem select_rows_spec : forall us hv hc rows u rd ns,
  select_rows (us, hv, hc, rows) u rd = Some ns ->
  exists k, unit_pos u us = Some k /\
            Forall2 (fun r n => row_note k hv r = Some n) (kept_rows hc rd rows) ns.
Proof. exact select_rows_lemma. Qed.
Print Assumptions select_rows_spec.

(* O5: the pitch-class roll is the octave fold of the full roll, i.e. of the notes' cell specification *)
Theorem fold_spec : forall o ns R, make_pianoroll o ns = Some R -> r_rows R = 128 ->
  forall c j, 0 <= c < 12 ->
  pc_cell (r_cells R) c j =
  zsum (map (fun k => if c + 12 * k <? 128 then cell_spec o ns (c + 12 * k) j else 0) (zrange 0 11)).
Proof. exact fold_spec_lemma. Qed.
Print Assumptions fold_spec.

Theorem fold_partition : forall r, 0 <= r < 128 ->
  0 <= r mod 12 < 12 /\ 0 <= r / 12 < 11 /\ r = r mod 12 + 12 * (r / 12).
Proof. exact fold_partition_lemma. Qed.
Print Assumptions fold_partition.

Theorem normalise_columns_sum_1 : forall m b j, zsum (pc_col m b j) <> 0 ->
  (qsum (map (fun c => pc_value m b true c j) (zrange 0 12)) == 1)%Q.
Proof. exact normalise_sum_lemma. Qed.
Print Assumptions normalise_columns_sum_1.

Theorem normalise_empty_column : forall m b j c, zsum (pc_col m b j) = 0 ->
  (pc_value m b true c j == inject_Z (pc_bin b (pc_cell m c j)))%Q.
Proof. exact normalise_empty_lemma. Qed.
Print Assumptions normalise_empty_column.

Theorem pc_source_is_full_roll : forall p a R, pc_source p a = Some R ->
  exists R0, compute_pianoroll
               (mkCopts (p_time_unit p) (p_time_div p) true
                  (mkOpts 1 (p_onset_only p) (p_note_sep p) (-1) (p_time_margin p) false
                          (p_remove_silence p) (p_end_time p) false)) a = Some R0 /\
    r_rows R = r_rows R0 /\ r_cols R = r_cols R0 /\ r_cells R = r_cells R0 /\
    r_idx R = map (fun x : idxrow => let '(r0, a0, b0, p0) := x in (r0 mod 12, a0, b0, p0)) (r_idx R0).
Proof. exact pc_source_lemma. Qed.
Print Assumptions pc_source_is_full_roll.

(* satisfiability / the former velocity defect: two rows out of onset order keep their own velocities *)
Theorem example_unsorted :
  exists R, make_pianoroll ex_opts ex_notes = Some R /\ r_rows R = 128 /\ r_cols R = 2 /\
    cell_at (r_cells R) 60 1 = 100 /\ cell_at (r_cells R) 62 0 = 20 /\
    cell_at (r_cells R) 60 0 = 0 /\ cell_at (r_cells R) 62 1 = 0 /\
    r_idx R = [(60, 1, 2, 60); (62, 0, 1, 62)].
Proof. exact example_unsorted_lemma. Qed.
Print Assumptions example_unsorted.

(* O6 *)
Theorem decode_rejects_other_shapes : forall rows cols m td, rows <> 128 -> rows <> 88 ->
  pianoroll_to_notearray rows cols m td = None.
Proof. exact decode_rejects_lemma. Qed.
Print Assumptions decode_rejects_other_shapes.

(* decoding a row painted from runs in onset order, each separated from the next by an empty frame
   (non-touching), returns exactly those runs -- for every row function, all lengths *)
Theorem decode_row : forall m cols p bs, 0 <= cols ->
  chain 0 bs cols -> (forall j, 0 <= j < cols -> cell_at m p j = paint bs j) ->
  row_runs m cols p = map (fun x : run => let '(v, a, b) := x in (p, a, b, v)) bs.
Proof. exact decode_row_lemma. Qed.
Print Assumptions decode_row.

(* decode(encode ns), row form: when the runs of the notes of a row, in list order, are non-touching,
   decoding that row of THEIR roll returns exactly (row, onset frame, end frame, velocity) of each *)
Theorem decode_encode_row : forall o ns R p,
  make_pianoroll o ns = Some R -> o_binary o = false -> 0 <= p < r_rows R ->
  chain 0 (row_boxes o (spec_min_time o ns) (lowest_pitch o ns) ns (p + pr_start o)) (r_cols R) ->
  row_runs (r_cells R) (r_cols R) p =
  map (fun x : run => let '(v, a, b) := x in (p, a, b, v))
      (row_boxes o (spec_min_time o ns) (lowest_pitch o ns) ns (p + pr_start o)).
Proof. exact decode_encode_row_lemma. Qed.
Print Assumptions decode_encode_row.

(* decode(encode ns), WHOLE roll, any row order: if every two rows of the note list are apart (same
   roll row => an empty frame between them), all notes lie inside the returned roll and have non-zero
   velocity, the decoder returns exactly the notes' frames (row, onset frame, end frame, velocity), up
   to order *)
Theorem decode_encode_roll : forall o ns R,
  make_pianoroll o ns = Some R -> o_binary o = false ->
  (forall n, In n ns -> n_vel n <> 0 /\
             0 <= row_full o (lowest_pitch o ns) n - pr_start o < r_rows R) ->
  non_touching o (spec_min_time o ns) (lowest_pitch o ns) ns ->
  Permutation (decode_frames (r_rows R) (r_cols R) (r_cells R))
              (map (frame_of o (spec_min_time o ns) (lowest_pitch o ns)) ns).
Proof. exact decode_encode_roll_lemma. Qed.
Print Assumptions decode_encode_roll.

(* being non-touching does not depend on the order of the rows *)
Theorem non_touching_perm_invariant : forall o mt lo ns ns', Permutation ns ns' ->
  non_touching o mt lo ns -> non_touching o mt lo ns'.
Proof. exact non_touching_perm. Qed.
Print Assumptions non_touching_perm_invariant.

(* O6 in the property's words: the roll of grid-aligned, non-touching notes (default mode: no onset-only,
   no note separation, no margins, not binary; 128 or 88 rows), turned back into a note array at the
   same resolution, recovers every pitch, onset (counted from the roll's time origin), duration and
   velocity -- for every note list, in any row order *)
Theorem roundtrip_recovers_notes : forall o ns R,
  make_pianoroll o ns = Some R ->
  o_binary o = false -> o_onset_only o = false -> o_note_sep o = false ->
  o_pitch_margin o <= -1 -> o_time_margin o = 0 -> 0 < o_time_div o ->
  (forall n, In n ns -> grid_aligned (o_time_div o) (spec_min_time o ns) n /\ n_vel n <> 0 /\
                        (o_piano_range o = true -> 21 <= n_pitch n <= 108)) ->
  non_touching o (spec_min_time o ns) (lowest_pitch o ns) ns ->
  exists out ns', pianoroll_to_notearray (r_rows R) (r_cols R) (r_cells R) (o_time_div o) = Some out /\
    Permutation ns ns' /\ Forall2 (recovered (spec_min_time o ns)) out ns'.
Proof. exact roundtrip_lemma. Qed.
Print Assumptions roundtrip_recovers_notes.

(* ... and that time origin is 0 (onsets come back as given) without remove_silence when no onset is
   negative *)
Theorem time_origin_zero : forall o ns, o_remove_silence o = false ->
  (forall n, In n ns -> (0 <= n_onset n)%Q) -> spec_min_time o ns = 0%Q.
Proof. exact spec_min_time_zero. Qed.
Print Assumptions time_origin_zero.

(* the hypotheses are satisfiable: three rows out of onset order, two on one pitch *)
Theorem example_roundtrip :
  exists R, make_pianoroll rt_opts rt_notes = Some R /\
    non_touching rt_opts (spec_min_time rt_opts rt_notes) (lowest_pitch rt_opts rt_notes) rt_notes /\
    (forall n, In n rt_notes -> grid_aligned 4 (spec_min_time rt_opts rt_notes) n) /\
    pianoroll_to_notearray (r_rows R) (r_cols R) (r_cells R) 4 =
      Some [(64, (0 # 4)%Q, (1 # 4)%Q, 33); (60, (1 # 4)%Q, (3 # 4)%Q, 101); (60, (6 # 4)%Q, (2 # 4)%Q, 80)].
Proof. exact example_roundtrip_lemma. Qed.
Print Assumptions example_roundtrip.

(* the decoder as the code runs it -- one pass over the time steps with the dictionary of sounding notes
   (Model.C13.scan_row / scan_col / scan) -- returns the same notes as the row-wise run-length decoder
   the statements above are about, for EVERY roll (any cell values, any shape) *)
Theorem column_scan_is_rowwise_decoding : forall rows cols m,
  Permutation (scan_frames rows cols m) (decode_frames rows cols m).
Proof. exact scan_frames_perm. Qed.
Print Assumptions column_scan_is_rowwise_decoding.

Theorem notearray_scan_agrees : forall rows cols m td,
  match pianoroll_to_notearray_scan rows cols m td, pianoroll_to_notearray rows cols m td with
  | Some l, Some l' => Permutation l l'
  | None, None => True
  | _, _ => False
  end.
Proof. exact notearray_scan_perm. Qed.
Print Assumptions notearray_scan_agrees.

(* ------------------------------------------------------------------------------------------------ *)
(* glue around the rasteriser (Proofs/C13_api.v) *)

(* unit inference: the unit taken is present in the array and no unit of the array ranks before it
   (beat, quarter, div, sec, tick); no unit is found only when the array has none *)
Theorem unit_inference_priority : forall us,
  match infer_unit us with
  | Some u => In u us /\ forall u', In u' us -> unit_rank u <= unit_rank u'
  | None => us = []
  end.
Proof. exact infer_unit_lemma. Qed.
Print Assumptions unit_inference_priority.

(* drum filtering: with a channel field and remove_drums the result is that of the array without its
   channel-9 rows; in every other case the channel values play no part *)
Theorem drum_rows_invisible : forall c us hv rows, c_remove_drums c = true ->
  compute_pianoroll c (us, hv, true, rows) = compute_pianoroll c (us, hv, false, filter not_drum rows).
Proof. exact drums_removed_lemma. Qed.
Print Assumptions drum_rows_invisible.

Theorem drum_rows_kept_otherwise : forall c us hv hc rows, hc && c_remove_drums c = false ->
  compute_pianoroll c (us, hv, hc, rows) = compute_pianoroll c (us, hv, false, rows).
Proof. exact drums_kept_lemma. Qed.
Print Assumptions drum_rows_kept_otherwise.

(* "1 without velocities": an array without velocity field gives a roll of zeros and ones *)
Theorem no_velocity_cells_01 : forall c us hc rows R, compute_pianoroll c (us, false, hc, rows) = Some R ->
  forall r j, 0 <= r < r_rows R -> cell_at (r_cells R) r j = 0 \/ cell_at (r_cells R) r j = 1.
Proof. exact no_velocity_lemma. Qed.
Print Assumptions no_velocity_cells_01.

(* the frames of a note, mode by mode: its onset frame only in onset mode; without its last frame, but
   never less than one, with note separation; else onset frame .. onset frame + duration frames *)
Theorem frames_by_mode : forall o mt lo n r c,
  covers o mt lo n r c = true <->
  r = row_full o lo n /\
  (if o_onset_only o then c = fr_on o mt n
   else if o_note_sep o then fr_on o mt n <= c < Z.max (fr_on o mt n + 1) (fr_on o mt n + fr_dur o n - 1)
   else fr_on o mt n <= c < fr_on o mt n + fr_dur o n).
Proof. exact covers_by_mode_lemma. Qed.
Print Assumptions frames_by_mode.

Theorem duration_frames : forall o n,
  fr_dur o n = Z.max 1 (round_half_even (inject_Z (o_time_div o) * n_dur n)) /\ 1 <= fr_dur o n.
Proof. exact fr_dur_lemma. Qed.
Print Assumptions duration_frames.

(* no valid array is refused: at least one note, no negative duration, pitches 0..127 when no pitch
   margin is given, a positive resolution, a margin >= 0, and end_time (if given) not before the last offset *)
Theorem accepts_every_valid_array : forall o ns, valid_input o ns ->
  (forall e l, o_end_time o = Some e -> last_off o ns l ->
     (inject_Z l <= (e - spec_min_time o ns) * inject_Z (o_time_div o) + inject_Z (o_time_margin o * o_time_div o))%Q) ->
  exists R, make_pianoroll o ns = Some R.
Proof. exact accepts_valid_lemma. Qed.
Print Assumptions accepts_every_valid_array.

(* sparse assembly: scipy ADDS the entries handed over for one position; on the stored cells of a roll
   (distinct positions) that sum is the stored value *)
Theorem sparse_assembly_is_lookup : forall o ns R, make_pianoroll o ns = Some R ->
  forall r c, sparse_sum (r_cells R) r c = cell_at (r_cells R) r c.
Proof. exact assembled_roll_lemma. Qed.
Print Assumptions sparse_assembly_is_lookup.

(* instance: two colliding entries are summed by the constructor, the dictionary keeps the maximum *)
Theorem sparse_sum_adds_duplicates : sparse_sum [(60, 0, 40); (60, 0, 90)] 60 0 = 130 /\
  cell_at (fill [(60, 0, 40); (60, 0, 90)]) 60 0 = 90.
Proof. exact sparse_sum_adds_lemma. Qed.
Print Assumptions sparse_sum_adds_duplicates.

(* the round trip with a time margin: onsets come back counted from (time origin - margin) *)
Theorem roundtrip_with_time_margin : forall o ns R,
  make_pianoroll o ns = Some R ->
  o_binary o = false -> o_onset_only o = false -> o_note_sep o = false ->
  o_pitch_margin o <= -1 -> 0 < o_time_div o ->
  (forall n, In n ns -> grid_aligned (o_time_div o) (spec_min_time o ns) n /\ n_vel n <> 0 /\
                        (o_piano_range o = true -> 21 <= n_pitch n <= 108)) ->
  non_touching o (spec_min_time o ns) (lowest_pitch o ns) ns ->
  exists out ns', pianoroll_to_notearray (r_rows R) (r_cols R) (r_cells R) (o_time_div o) = Some out /\
    Permutation ns ns' /\ Forall2 (recovered (spec_min_time o ns - inject_Z (o_time_margin o))) out ns'.
Proof. exact roundtrip_margin_lemma. Qed.
Print Assumptions roundtrip_with_time_margin.

(* the last clause at the level of the interface and with the code's own decoder (the column scan):
   compute_pianoroll (unit inference, field selection, drum filter, plain mode) followed by
   pianoroll_to_notearray at the same resolution SUCCEEDS on every array of grid-aligned, non-touching
   notes and recovers pitch, onset, duration and velocity of every note that is shown *)
Theorem roundtrip_through_interface : forall c a u ns,
  resolve_unit a (c_time_unit c) = Some u ->
  select_rows a u (c_remove_drums c) = Some ns ->
  let td := match c_time_div c with Some d => d | None => auto_div u end in
  let o := with_div (c_opts c) td in
  plain_mode (c_opts c) -> 0 < td -> ns <> [] ->
  (forall n, In n ns -> grid_aligned td (spec_min_time o ns) n /\ n_vel n <> 0 /\ 0 <= n_pitch n <= 127 /\
                        (o_piano_range o = true -> 21 <= n_pitch n <= 108)) ->
  non_touching o (spec_min_time o ns) (lowest_pitch o ns) ns ->
  exists out ns', roundtrip c a = Some out /\ Permutation ns ns' /\
    Forall2 (recovered (spec_min_time o ns - inject_Z (o_time_margin o))) out ns'.
Proof. exact roundtrip_api_lemma. Qed.
Print Assumptions roundtrip_through_interface.

(* the pitch-class roll in terms of the notes: class c is non-zero at frame j exactly when a note whose
   pitch is congruent to c modulo 12 sounds during frame j *)
Theorem pitch_class_nonzero_iff : forall o ns R, make_pianoroll o ns = Some R ->
  o_pitch_margin o <= -1 -> o_piano_range o = false ->
  (forall n, In n ns -> 0 < n_vel n) ->
  forall c j, 0 <= c < 12 ->
  (pc_cell (r_cells R) c j <> 0 <->
   exists n, In n ns /\ n_pitch n mod 12 = c /\
             covers o (spec_min_time o ns) (lowest_pitch o ns) n (n_pitch n) j = true).
Proof. exact pc_nonzero_lemma. Qed.
Print Assumptions pitch_class_nonzero_iff.

(* its index rows: (pitch class, onset frame, offset frame, MIDI pitch) of every note, in input order *)
Theorem pitch_class_index_rows : forall p a R, pc_source p a = Some R ->
  exists u ns o, select_rows a u true = Some ns /\ make_pianoroll o ns <> None /\
    o_pitch_margin o = -1 /\ o_piano_range o = false /\
    r_idx R = map (fun n => (n_pitch n mod 12, fr_on o (spec_min_time o ns) n, fr_off o (spec_min_time o ns) n, n_pitch n)) ns.
Proof. exact pc_idx_rows_lemma. Qed.
Print Assumptions pitch_class_index_rows.

(* the decoded rows come in the order the code sorts to: (onset, pitch, offset, velocity) *)
Theorem decoded_rows_sorted : forall rows cols m,
  Sorted dn_le (decode_frames rows cols m) /\ Sorted dn_le (scan_frames rows cols m).
Proof. exact decode_sorted_lemma. Qed.
Print Assumptions decoded_rows_sorted.

(* the hypotheses of the interface theorems are satisfiable: seconds and beats present, velocity and
   channel fields, a drum row, rows out of onset order, two notes on one pitch, a time margin *)
Theorem example_interface :
  let o := with_div (c_opts api_copts) 4 in
  resolve_unit api_arr (c_time_unit api_copts) = Some UBeat /\
  select_rows api_arr UBeat true = Some api_notes /\
  plain_mode (c_opts api_copts) /\
  valid_input o api_notes /\
  non_touching o (spec_min_time o api_notes) (lowest_pitch o api_notes) api_notes /\
  (forall n, In n api_notes -> grid_aligned 4 (spec_min_time o api_notes) n) /\
  roundtrip api_copts api_arr =
    Some [(64, (4 # 4)%Q, (1 # 4)%Q, 33); (60, (5 # 4)%Q, (3 # 4)%Q, 101); (60, (10 # 4)%Q, (2 # 4)%Q, 80)] /\
  (exists R, compute_pianoroll api_copts api_arr = Some R /\ r_rows R = 128 /\ r_cols R = 16 /\
             cell_at (r_cells R) 36 5 = 0 /\ cell_at (r_cells R) 60 5 = 101 /\
             sparse_sum (r_cells R) 60 5 = 101).
Proof. exact example_api_lemma. Qed.
Print Assumptions example_interface.

(* ---- state carried between calls (Model/C13_Hist.v): a caller holding two note arrays edits them in place (HSet),
   goes from one to the other (HSwitch), calls compute_pianoroll (HRoll) and the pitch-class roll (HPc, which calls
   compute_pianoroll and folds the index rows it got back in place) in any order and with repeated options, and
   overwrites the result objects it holds (HWrite).  For EVERY history every observation is the function's value on the
   array as it is at that moment (hspec reads nothing but the two arrays) ... *)
Theorem history_observes_current_state : forall keq a b ops,
  hrun keq false (hinit a b) ops = hspec a b ops.
Proof. exact history_spec_lemma. Qed.
Print Assumptions history_observes_current_state.

(* ... in particular a call after any history shows the roll of the current array *)
Theorem history_last_call_current : forall keq a b ops c,
  last (hrun keq false (hinit a b) (ops ++ [HRoll c])) None = compute_pianoroll c (hcur a b ops).
Proof. exact history_last_lemma. Qed.
Print Assumptions history_last_call_current.

Theorem history_last_pitch_class_current : forall keq a b ops p,
  last (hrun keq false (hinit a b) (ops ++ [HPc p])) None = pc_source p (hcur a b ops).
Proof. exact history_last_pc_lemma. Qed.
Print Assumptions history_last_pitch_class_current.

(* the statement is not vacuous: a compute_pianoroll that remembers its result per argument object and options
   (compared exactly: copts_eqb) fails it in three ways -- stale after an in-place edit of the array; the caller's
   write into the object it got comes back; the pitch-class function's in-place fold of the index rows comes back *)
Theorem history_memo_stale_refuted :
  let ops := [HRoll hx_opts; HSet (hx_arr 72); HRoll hx_opts] in
  hrun copts_eqb true (hinit (hx_arr 60) (hx_arr 60)) ops <> hspec (hx_arr 60) (hx_arr 60) ops
  /\ hrun copts_eqb false (hinit (hx_arr 60) (hx_arr 60)) ops = hspec (hx_arr 60) (hx_arr 60) ops.
Proof. exact memo_stale_lemma. Qed.
Print Assumptions history_memo_stale_refuted.

Theorem history_memo_alias_refuted :
  let ops := [HRoll hx_opts; HWrite 0 None; HRoll hx_opts] in
  hrun copts_eqb true (hinit (hx_arr 60) (hx_arr 60)) ops <> hspec (hx_arr 60) (hx_arr 60) ops
  /\ hrun copts_eqb false (hinit (hx_arr 60) (hx_arr 60)) ops = hspec (hx_arr 60) (hx_arr 60) ops.
Proof. exact memo_alias_lemma. Qed.
Print Assumptions history_memo_alias_refuted.

Theorem history_memo_sibling_refuted :
  let ops := [HRoll (pc_copts hx_pc); HPc hx_pc; HRoll (pc_copts hx_pc)] in
  hrun copts_eqb true (hinit (hx_arr 60) (hx_arr 60)) ops <> hspec (hx_arr 60) (hx_arr 60) ops
  /\ hrun copts_eqb false (hinit (hx_arr 60) (hx_arr 60)) ops = hspec (hx_arr 60) (hx_arr 60) ops.
Proof. exact memo_sibling_lemma. Qed.
Print Assumptions history_memo_sibling_refuted.

(* ------------------------------------------------------------------------------------------------ *)
(* round j extension (Model/C13_Runs.v, Proofs/C13_runs.v): what pianoroll_to_notearray returns for ANY integer
   roll -- "all integer rolls of shape 128 or 88 by n for the inverse".  Until here arbitrary rolls had only
   scan = row-wise decoding, sortedness and the shape refusal; `decode_row` needs runs separated by an empty frame. *)

(* one row, every function f, every length: the run-length step returns (v, a, b) iff [a, b) is a MAXIMAL run of
   the non-zero value v -- inside the row, all frames equal v, the frame before and the frame after are not v
   (touching runs of different velocity are split, equal ones never) *)
Theorem row_runs_are_maximal_runs : forall f n v a b,
  In (v, a, b) (rle f n 0 None) <->
  0 <= a /\ a < b /\ b <= Z.of_nat n /\ v <> 0 /\ (forall i, a <= i < b -> f i = v) /\
  (a = 0 \/ f (a - 1) <> v) /\ (b = Z.of_nat n \/ f b <> v).
Proof. exact rle_maxrun. Qed.
Print Assumptions row_runs_are_maximal_runs.

(* the code's own column scan with the `active_notes` dictionary, every roll (any row count, any cells): the
   notes returned are exactly the maximal runs of the rows *)
Theorem decoder_returns_maximal_runs : forall rows cols m p a b v, 0 <= cols ->
  (In (p, a, b, v) (scan_frames rows cols m) <->
   0 <= p < rows /\
   (0 <= a /\ a < b /\ b <= cols /\ v <> 0 /\ (forall i, a <= i < b -> cell_at m p i = v) /\
    (a = 0 \/ cell_at m p (a - 1) <> v) /\ (b = cols \/ cell_at m p b <> v))).
Proof. exact scan_frames_in. Qed.
Print Assumptions decoder_returns_maximal_runs.

(* ... and no note is returned twice: together with decoder_returns_maximal_runs the returned list is, up to order,
   THE list of the maximal runs (both decoders) *)
Theorem decoder_returns_no_note_twice : forall rows cols m,
  NoDup (scan_frames rows cols m) /\ NoDup (decode_frames rows cols m).
Proof. exact scan_frames_NoDup. Qed.
Print Assumptions decoder_returns_no_note_twice.

(* decoding loses nothing and invents nothing: a non-zero cell lies in exactly one returned note, which carries
   the cell's value; a returned note covers only cells holding its (non-zero) value *)
Theorem decoder_covers_every_cell_once : forall rows cols m p j, 0 <= p < rows -> 0 <= j < cols ->
  (cell_at m p j <> 0 ->
     exists a b, In (p, a, b, cell_at m p j) (scan_frames rows cols m) /\ a <= j < b /\
       forall a' b' v', In (p, a', b', v') (scan_frames rows cols m) -> a' <= j < b' ->
                        v' = cell_at m p j /\ a' = a /\ b' = b) /\
  (forall a b v, In (p, a, b, v) (scan_frames rows cols m) -> a <= j < b -> cell_at m p j = v /\ v <> 0).
Proof. exact scan_covers. Qed.
Print Assumptions decoder_covers_every_cell_once.

(* the note array: its (pitch, onset, duration, velocity) rows are the maximal runs, pitch = row (+ 21 for an
   88-row roll), onset = a / time_div, duration = (b - a) / time_div *)
Theorem notearray_rows_are_maximal_runs : forall rows cols m td l q on du v, 0 <= cols ->
  pianoroll_to_notearray_scan rows cols m td = Some l ->
  (In (q, on, du, v) l <->
   exists p a b, 0 <= p < rows /\ maxrun (cell_at m p) cols v a b /\ q = p + (if rows =? 128 then 0 else 21) /\
                 on = (inject_Z a / inject_Z td)%Q /\ du = (inject_Z (b - a) / inject_Z td)%Q).
Proof. exact notearray_scan_in. Qed.
Print Assumptions notearray_rows_are_maximal_runs.

(* the checker `check_decode_runs` of the correspondence evaluates this very statement on the implementation's output *)
Theorem maximal_run_checker_sound : forall f n v a b, maxrun_b f n v a b = true <-> maxrun f n v a b.
Proof. exact maxrun_b_spec. Qed.
Print Assumptions maximal_run_checker_sound.

(* instance, non-vacuity: a row 0 5 5 3 0 3 7 7 -- touching runs of different velocity, a re-struck pitch, a run
   reaching the last frame *)
Theorem example_maximal_runs :
  rle runs_row 8 0 None = [(5, 1, 3); (3, 3, 4); (3, 5, 6); (7, 6, 8)] /\
  maxrun runs_row 8 3 3 4 /\ maxrun runs_row 8 5 1 3.
Proof. exact runs_example. Qed.
Print Assumptions example_maximal_runs.

(* the statement discriminates: the step that starts a new note only when the velocity RISES (cf. mutation m11)
   returns (5, 1, 4) on that row, which is not a maximal run (frame 3 holds 3) *)
Theorem split_on_rise_only_refuted :
  In (5, 1, 4) (rle_rise runs_row 8 0 None) /\ ~ maxrun runs_row 8 5 1 4.
Proof. exact rle_rise_refuted. Qed.
Print Assumptions split_on_rise_only_refuted.
