From PV Require Import Lib.Base Model.C07 Gen.C07_Schemas Proofs.C07.
Theorem reflected_schemas_wellformed : forallb (fun p => schema_wf (snd p)) all_schemas = true.
Proof. exact reflected_schemas_wellformed_lemma. Qed.
Print Assumptions reflected_schemas_wellformed.
