(* C07 -- property theorems.  Statements + `exact` only; proofs live in Proofs/C07.v, Proofs/C07_lib.v.
   The model (Model/C07.v) is a schema-driven line codec; the schemas sch_* and the key-name table
   key_tab / key_rows (Gen/C07_Schemas.v) are reflected / tabulated from the real line classes on every
   run.  [fields_ok tab sch vs] = "every field value its format version allows": each value survives its
   own codec (field_rt, proved per codec below) and its text fits the character class of the pattern. *)
From PV Require Import Lib.Base Lib.Round Model.C07 Model.C07_Disp Model.C07_Up Gen.C07_Schemas Gen.C07_Parsers Proofs.C07_lib Proofs.C07 Proofs.C07_codec Proofs.C07_hist Proofs.C07_disp Proofs.C07_disp2 Proofs.C07_up.
From PV Require Import Model.C07_Hist Proofs.C07_phist.
From Coq Require Import QArith Qabs Ascii.
#[local] Open Scope string_scope.
#[local] Open Scope Z_scope.

(* O1, all schemas, all field values, unbounded: the scanner inverts out_pattern.format *)
Theorem scan_fill : forall sch ts s,
  schema_wf sch = true -> texts_ok sch ts = true -> fill sch ts = Some s -> scan sch s = Some ts.
Proof. exact scan_fill_lemma. Qed.
Print Assumptions scan_fill.

(* O1: writing a line and parsing the text gives the same field values (a float of a fixed-point
   field comes back as its d-decimal rounding: norm_line) *)
Theorem line_roundtrip : forall tab sch vs,
  schema_wf sch = true -> fields_ok tab sch vs ->
  exists s, format_line tab sch vs = Some s /\ parse_line tab sch s = Some (norm_line (codecs sch) vs).
Proof. exact line_roundtrip_lemma. Qed.
Print Assumptions line_roundtrip.

(* O2: writing the parsed object again gives the identical text *)
Theorem line_fixpoint : forall tab sch vs,
  schema_wf sch = true -> fields_ok tab sch vs ->
  exists s vs', format_line tab sch vs = Some s /\ parse_line tab sch s = Some vs' /\
                format_line tab sch vs' = Some s.
Proof. exact line_fixpoint_lemma. Qed.
Print Assumptions line_fixpoint.

(* every schema reflected from the live classes (all classes x versions x attributes) satisfies the
   side condition of the two theorems above *)
Theorem reflected_schemas_wellformed : forallb (fun p => schema_wf (snd p)) all_schemas = true.
Proof. exact reflected_schemas_wellformed_lemma. Qed.
Print Assumptions reflected_schemas_wellformed.

(* the hypotheses are satisfiable: sustain(711360,22). on the reflected 1.0.0 schema *)
Theorem example_sustain :
  exists s, format_line key_tab sch_sustain_v1_0_0 [VInt 711360; VInt 22] = Some s /\
            parse_line key_tab sch_sustain_v1_0_0 s = Some [VInt 711360; VInt 22].
Proof. exact example_sustain_lemma. Qed.
Print Assumptions example_sustain.

(* codecs, unbounded *)
Theorem int_text_rt : forall z, parse_Z (print_Z z) = Some z.
Proof. exact parse_print_Z. Qed.
Print Assumptions int_text_rt.

Theorem int_codec_rt : forall tab z, field_rt tab CInt (VInt z).
Proof. exact int_codec_rt_lemma. Qed.
Print Assumptions int_codec_rt.

Theorem oct_codec_rt : forall tab z, field_rt tab COct (VInt z) /\ field_rt tab COct VNone.
Proof. exact oct_codec_rt_lemma. Qed.
Print Assumptions oct_codec_rt.

(* attribute lists of any length, including the empty list *)
Theorem list_codec_rt : forall tab l, items_ok l ->
  field_rt tab CListIn (VList l) /\ field_rt tab CList (VList l).
Proof. exact list_codec_rt_lemma. Qed.
Print Assumptions list_codec_rt.

(* key signatures: all 30 keys in every spelling (0: [en,major]  1: E Maj  3: E), with and without
   an alternative key -- the model's codec over the reflected name table ... *)
Theorem keysig_codec_rt : forall fmt f mi,
  In fmt [0; 1; 3] -> -7 <= f <= 7 -> field_rt key_tab (CKey fmt false) (VKey ((f, mi), None) []).
Proof. exact keysig_codec_rt_lemma. Qed.
Print Assumptions keysig_codec_rt.

Theorem keysig_alt_codec_rt : forall fmt f mi f2 mi2,
  In fmt [1; 3] -> -7 <= f <= 7 -> -7 <= f2 <= 7 ->
  field_rt key_tab (CKey fmt false) (VKey ((f, mi), Some (f2, mi2)) []).
Proof. exact keysig_alt_codec_rt_lemma. Qed.
Print Assumptions keysig_alt_codec_rt.

(* ... and the implementation itself: key_rows is the graph of MatchKeySignature (write, then read)
   on the whole domain; every key comes back as itself *)
Theorem keysig_bijection_30 : forall fmt f mi,
  In fmt [0; 1; 3] -> -7 <= f <= 7 -> exists t, In (fmt, f, mi, Some t, Some (f, mi)) key_rows.
Proof. exact keysig_bijection_30_lemma. Qed.
Print Assumptions keysig_bijection_30.

(* O4 durations: addition is exact while the lcm form stays within bound_integers' bound ... *)
Theorem frac_add_exact : forall f g,
  let d1 := fden f * tdiv (ftd f) in
  let d2 := fden g * tdiv (ftd g) in
  0 < d1 -> 0 < d2 ->
  Z.lcm d1 d2 <= frac_bound ->
  (Z.lcm d1 d2 / d1) * fnum f + (Z.lcm d1 d2 / d2) * fnum g <= frac_bound ->
  (frac_value (frac_add f g) == frac_value f + frac_value g)%Q.
Proof. exact frac_add_exact_lemma. Qed.
Print Assumptions frac_add_exact.

Theorem frac_add_components : forall f g,
  fcomps (frac_add f g) =
  Some (filter (fun c : triple => negb (fst (fst c) =? 0)) (frac_comps f ++ frac_comps g)).
Proof. exact frac_add_components_lemma. Qed.
Print Assumptions frac_add_components.

(* ... and only then: above the bound the sum's numeric value is merely approximated (1/1000 + 1/999) *)
Theorem frac_add_inexact_above_bound :
  exists f g, fnum f <= frac_bound /\ fden f <= frac_bound /\ fnum g <= frac_bound /\ fden g <= frac_bound /\
    ~ (frac_value (frac_add f g) == frac_value f + frac_value g)%Q.
Proof. exact frac_add_inexact_above_bound_lemma. Qed.
Print Assumptions frac_add_inexact_above_bound.

Theorem frac_bound_noop : forall n d, n <= frac_bound -> d <= frac_bound -> bound_pair n d = (n, d).
Proof. exact bound_pair_noop. Qed.
Print Assumptions frac_bound_noop.

(* three computed instances of what bound_integers does above the bound (the value is approximated) *)
Theorem frac_bound_examples :
  bound_pair 1025 1023 = (2, 2) /\ bound_pair 2048 4 = (1024, 2) /\ bound_pair 3 2048 = (1, 128).
Proof. exact frac_bound_partial_lemma. Qed.
Print Assumptions frac_bound_examples.

(* ---------------------------------------------------------------- codecs proved for ALL values (Proofs/C07_codec.v) *)

(* d-decimal fixed point (f"{x:.4f}", .5f, .2f / float): +-m/10^d written and read gives +-m/10^d ... *)
Theorem fix_codec_rt : forall tab d neg m, 0 <= m -> field_rt tab (CFix d) (VDec neg m).
Proof. exact fix_codec_rt_lemma. Qed.
Print Assumptions fix_codec_rt.

(* ... and an arbitrary float +-q comes back as its round-half-even d-decimal rounding (then a fixpoint) *)
Theorem fix_codec_float_rt : forall tab d neg q, (0 <= q)%Q -> field_rt tab (CFix d) (VQ neg q).
Proof. exact fix_codec_float_rt_lemma. Qed.
Print Assumptions fix_codec_float_rt.

(* FractionalSymbolicDuration text, plain form a, a/b, a/b/c within the constructor's bound: the same object *)
Theorem frac_codec_rt : forall n d td,
  triple_ok (n, d, td) -> parse_frac (print_frac (mkfrac n d td None)) = Some (mkfrac n d td None).
Proof. exact frac_codec_rt_simple_lemma. Qed.
Print Assumptions frac_codec_rt.

(* a sum text c1+c2+...+ck (k >= 2, any k) is read as the left-to-right sum of its components *)
Theorem frac_sum_text_parse : forall cs,
  (2 <= List.length cs)%nat -> Forall triple_ok cs ->
  parse_frac (join "+" (map print_triple cs)) = Some (frac_of_comps cs).
Proof. exact frac_sum_text_parse_lemma. Qed.
Print Assumptions frac_sum_text_parse.

(* O2 for durations with additive components: whatever bound_integers did to the numeric fields, the
   text is read back as an object that prints the identical text and holds the same components *)
Theorem frac_text_fixpoint : forall f cs,
  fcomps f = Some cs -> (2 <= List.length cs)%nat -> Forall triple_ok cs -> filter nz cs = cs ->
  exists g, parse_frac (print_frac f) = Some g /\ print_frac g = print_frac f /\ fcomps g = Some cs.
Proof. exact frac_text_fixpoint_lemma. Qed.
Print Assumptions frac_text_fixpoint.

(* exact addition keeps "numeric value = sum of the printed components" (frac_inv); plain durations have it *)
Theorem frac_inv_add : forall f g, frac_inv f -> frac_inv g -> add_within f g -> frac_inv (frac_add f g).
Proof. exact frac_inv_add_lemma. Qed.
Print Assumptions frac_inv_add.

Theorem frac_inv_plain : forall f, fcomps f = None -> frac_inv f.
Proof. exact frac_inv_simple. Qed.
Print Assumptions frac_inv_plain.

(* O4: a duration with additive components keeps its VALUE through its text while the partial sums
   of the re-reading stay within the bound (fold_within) *)
Theorem frac_text_value_rt : forall f cs,
  fcomps f = Some cs -> (2 <= List.length cs)%nat -> Forall triple_ok cs -> filter nz cs = cs ->
  frac_inv f -> fold_within frac_zero (map frac_of_triple cs) ->
  exists g, parse_frac (print_frac f) = Some g /\ (frac_value g == frac_value f)%Q /\
            print_frac g = print_frac f.
Proof. exact frac_text_value_rt_lemma. Qed.
Print Assumptions frac_text_value_rt.

Theorem frac_text_value_hyps_satisfiable :
  let cs := [(1, 4, None); (1, 16, None); (1, 8, Some 3)] in
  let f := frac_of_comps cs in
  fcomps f = Some cs /\ Forall triple_ok cs /\ filter nz cs = cs /\ frac_inv f /\
  fold_within frac_zero (map frac_of_triple cs) /\ print_frac f = "1/4+1/16+1/8/3".
Proof. exact frac_text_value_example. Qed.
Print Assumptions frac_text_value_hyps_satisfiable.

(* time signatures n/d within the bound, also in the old list form with beat components *)
Theorem timesig_codec_rt : forall tab n d,
  0 <= n <= frac_bound -> 0 <= d <= frac_bound -> field_rt tab (CTime false) (VTime n d []).
Proof. exact timesig_codec_rt_lemma. Qed.
Print Assumptions timesig_codec_rt.

Theorem timesig_list_codec_rt : forall tab n d others,
  0 <= n <= frac_bound -> 0 <= d <= frac_bound -> Forall simple_ok others ->
  field_rt tab (CTime true) (VTime n d others).
Proof. exact timesig_list_codec_rt_lemma. Qed.
Print Assumptions timesig_list_codec_rt.

(* the boundary: a time signature above the bound is NOT kept (2048/4 is read back as 1024/2) *)
Theorem timesig_above_bound_refuted : forall tab,
  exists t, enc tab (CTime false) (VTime 2048 4 []) = Some t /\ dec tab (CTime false) t = Some (VTime 1024 2 []).
Proof. exact timesig_above_bound_lemma. Qed.
Print Assumptions timesig_above_bound_refuted.

(* ---------------------------------------------------------------- histories (Proofs/C07_hist.v) *)

(* whatever a program of duration operations does later (additions on either side, int +, radd, sum,
   parsing, comparisons), an object that exists keeps its fields -- the model's operations are pure
   functions of the operands' values; the implementation is held to this after every step (prog_check) *)
Theorem prog_run_keeps : forall prog env env' i f,
  prog_run env prog = Some env' -> nth_error env i = Some f ->
  nth_error env' i = Some f.
Proof. exact prog_run_keeps_lemma. Qed.
Print Assumptions prog_run_keeps.

Theorem frac_sum_py_is_left_sum : forall x r, frac_sum_py (x :: r) = Some (frac_sum (x :: r)).
Proof. exact frac_sum_py_spec. Qed.
Print Assumptions frac_sum_py_is_left_sum.

Theorem prog_hyps_satisfiable :
  exists env, prog_run [] [SParse "1/4+1/16"; SNew 1 32 None; SAdd 0 1; SNew 1 8 (Some 3); SAdd 0 3; SNop; SSum [0%nat; 0%nat]] = Some env /\
    map print_frac env = ["1/4+1/16"; "1/32"; "1/4+1/16+1/32"; "1/8/3"; "1/4+1/16+1/8/3"; "1/4+1/16+1/4+1/16"].
Proof. exact prog_example. Qed.
Print Assumptions prog_hyps_satisfiable.

(* every object created by a program whose additions stay within the bound (step_within: the lcm form
   of every addition, of every partial sum of sum() and of from_string) stands for the sum of the
   components it prints; with frac_text_value_rt it keeps its value through its text *)
Theorem prog_inv : forall prog env env',
  Forall frac_inv env -> prog_within env prog -> prog_run env prog = Some env' -> Forall frac_inv env'.
Proof. exact prog_inv_lemma. Qed.
Print Assumptions prog_inv.

Theorem prog_within_satisfiable :
  prog_within [] [SParse "1/4+1/16"; SNew 1 32 None; SAdd 0 1; SSum [0%nat; 2%nat]].
Proof. exact prog_inv_example. Qed.
Print Assumptions prog_within_satisfiable.

(* known finding C07-K1, the exact boundary of "durations keep their value through strings" in the model
   that carries the behaviour: 0/4 + 0/8 prints as the empty text, which is not read back *)
Theorem frac_zero_sum_text_refuted :
  print_frac (frac_add (mk_frac 0 4 None None) (mk_frac 0 8 None None)) = "" /\ parse_frac "" = None.
Proof. exact frac_zero_sum_text_lemma. Qed.
Print Assumptions frac_zero_sum_text_refuted.

(* ---------------------------------------------------------------- O3: to_v1 keeps the musical content *)

(* a performed note: id and velocity kept, pitch = 12 (octave + 1) + pitch class + alteration, ticks
   kept (rounded to the nearest tick when the old version stored a float), channel 1, track 0 *)
Theorem to_v1_note_content : forall id step alt oct on off vel out adj,
  note_to_v1 (match adj with
              | Some a => [VStr id; VStr step; alt; VInt oct; on; off; a; vel]
              | None => [VStr id; VStr step; alt; VInt oct; on; off; vel]
              end) = Some out ->
  exists a p on' off',
    alter_of alt = Some a /\ midi_pitch step a oct = Some p /\
    tick_to_v1 on = Some on' /\ tick_to_v1 off = Some off' /\
    out = [VStr id; VInt p; on'; off'; vel; VInt 1; VInt 0].
Proof. exact note_to_v1_content. Qed.
Print Assumptions to_v1_note_content.

Theorem to_v1_pitch : forall step a oct p, midi_pitch step a oct = Some p ->
  exists b, step_pc step = Some b /\ p = 12 * (oct + 1) + b + a.
Proof. exact midi_pitch_spec. Qed.
Print Assumptions to_v1_pitch.

Theorem to_v1_tick_int : forall z, tick_to_v1 (VInt z) = Some (VInt z).
Proof. exact tick_to_v1_int. Qed.
Print Assumptions to_v1_tick_int.

Theorem to_v1_tick_nearest : forall neg q t, tick_to_v1 (VQ neg q) = Some (VInt t) ->
  (Qabs ((if neg then - q else q) - inject_Z t) <= 1 # 2)%Q.
Proof. exact tick_to_v1_near. Qed.
Print Assumptions to_v1_tick_nearest.

(* the score note of a pair (anchor, spelling, measure, beat, offset, duration, beat times, attributes) *)
Theorem to_v1_snote_kept : forall sn no out,
  List.length sn = snote_len -> line_to_v1 KSnoteNote (sn ++ no)%list = Some out ->
  exists no', note_to_v1 no = Some no' /\ out = (sn ++ no')%list.
Proof. exact to_v1_keeps_snote. Qed.
Print Assumptions to_v1_snote_kept.

(* deletions (all three old kinds) and pedal lines: every field kept *)
Theorem to_v1_deletion_pedal_kept : forall vs,
  line_to_v1 KSnoteOnly vs = Some vs /\ line_to_v1 KPedal vs = Some vs.
Proof. exact to_v1_keeps_deletion_and_pedal. Qed.
Print Assumptions to_v1_deletion_pedal_kept.

Theorem to_v1_trill_anchor : forall anchor no out,
  line_to_v1 KTrill (anchor :: no) = Some out ->
  exists no', note_to_v1 no = Some no' /\ out = anchor :: VList ["trill"] :: no'.
Proof. exact to_v1_trill. Qed.
Print Assumptions to_v1_trill_anchor.

(* ---------------------------------------------------------------- line dispatch and version detection (Model/C07_Disp.v, Proofs/C07_disp.v) *)

(* the backtracking matcher [bt] (greedy groups, as re.match) finds only decompositions of the text ... *)
Theorem regex_match_sound : forall pat s gs rest, bt pat s = Some (gs, rest) -> rmatch pat s gs rest.
Proof. exact bt_sound_lemma. Qed.
Print Assumptions regex_match_sound.

(* ... finds one whenever there is one ... *)
Theorem regex_match_complete : forall pat s gs rest, rmatch pat s gs rest -> bt pat s <> None.
Proof. exact bt_complete_lemma. Qed.
Print Assumptions regex_match_complete.

(* ... and gives the first group the longest text with which the rest of the pattern still matches *)
Theorem regex_group_greedy : forall cl m r s g gs rest,
  bt (RGrp cl m :: r) s = Some (g :: gs, rest) ->
  forall g' s', s = g' ++ s' -> all_chars (rc_in cl) g' = true ->
                (String.length g < String.length g')%nat -> bt r s' = None.
Proof. exact bt_greedy_lemma. Qed.
Print Assumptions regex_group_greedy.

(* re.search: the match at the leftmost position that has one *)
Theorem regex_search_leftmost : forall pat s j gs rest,
  re_search pat s = Some (j, gs, rest) ->
  exists pre mid, s = pre ++ mid /\ j = String.length pre /\ bt pat mid = Some (gs, rest) /\
    (forall pre' mid', s = pre' ++ mid' -> (String.length pre' < String.length pre)%nat -> bt pat mid' = None).
Proof.
  intros pat s j gs rest H. unfold re_search in H. apply search_from_some in H as (pre & mid & H1 & H2 & H3 & H4).
  exists pre, mid. auto.
Qed.
Print Assumptions regex_search_leftmost.

(* importmatch.parse_matchline: the first method of the ordered list that reads the line; all before it fail *)
Theorem dispatch_first : forall tab ps s j gs vs,
  dispatch tab ps s = Some (j, gs, vs) ->
  exists p, nth_error ps j = Some p /\ run_parser tab p s = Some (gs, vs) /\
            (forall k' p', (k' < j)%nat -> nth_error ps k' = Some p' -> run_parser tab p' s = None).
Proof. exact dispatch_first_lemma. Qed.
Print Assumptions dispatch_first.

(* for EVERY text: a method that reads the line found every literal of its patterns in it, and the line
   starts with the literal of a pattern it matches at the start (the identifier of an insertion) *)
Theorem parser_needs_literals : forall tab p s r,
  run_parser tab p s = Some r ->
  (forall st l, In st (lp_steps p) -> In l (step_lits st) -> occurs l s) /\
  (forall h q, In (PMatch (RLit h :: q)) (lp_steps p) -> starts_with h s).
Proof. exact parser_needs_literals_lemma. Qed.
Print Assumptions parser_needs_literals.

(* for EVERY text and every format version: no line is read by two different methods of the insertion
   family (insertion / hammer bounce / trailing played note: the identifier starts the line) nor by two of the
   deletion family (deletion / trailing score note / no played note: the identifier follows the score note);
   so no identifier inside the line and no order of these methods can change the kind within a family.
   The parser lists are the ones reflected from FROM_MATCHLINE_METHODS on this run. *)
Theorem reflected_families_exclusive : forall v ps p1 p2 s,
  In (v, ps) parser_table -> In p1 ps -> In p2 ps -> lp_name p1 <> lp_name p2 ->
  (head_of p1 <> None /\ head_of p2 <> None) \/ (tail_of p1 <> None /\ tail_of p2 <> None) ->
  run_parser key_tab p1 s <> None -> run_parser key_tab p2 s = None.
Proof. exact reflected_families_exclusive_lemma. Qed.
Print Assumptions reflected_families_exclusive.

(* the families are not empty: the identifiers as reflected (0.5.0 and 1.0.0) *)
Theorem reflected_family_markers :
  forallb (has_head parsers_v0_5_0) ["insertion-"; "hammer_bounce-"; "trailing_played_note-"] = true /\
  forallb (has_tail parsers_v0_5_0) ["-deletion."; "-trailing_score_note."; "-no_played_note."] = true /\
  has_head parsers_v1_0_0 "insertion-" = true /\ has_tail parsers_v1_0_0 "-deletion." = true.
Proof. exact family_markers_example. Qed.
Print Assumptions reflected_family_markers.

(* computed instances: identifiers holding the identifier of another kind (the lines that were read as the wrong
   kind before the repair 855e606), a 1.0.0 file has no info(keySignature,..) line *)
Theorem dispatch_marker_examples :
  disp_kind parsers_v0_5_0 "trill(insertion-1)-note(1,[C,n],4,1,2,5,3)." = Some "MatchTrillNote" /\
  disp_kind parsers_v0_5_0 "snote(x-deletion.,[C,n],4,1:1,0,1/4,0.0,1.0,[v1])-trailing_score_note." = Some "MatchSnoteTrailingScore" /\
  disp_kind parsers_v0_5_0 "trailing_played_note-note(hammer_bounce-2,[C,n],4,1,2,5,3)." = Some "MatchTrailingPlayedNote" /\
  disp_kind parsers_v0_1_0 "hammer_bounce-note(insertion-1,[c,n],4,1.00,2.00,3)." = Some "MatchHammerBounceNote" /\
  disp_kind parsers_v1_0_0 "ornament(insertion-1,[trill])-note(n1,60,1,2,3,1,0)." = Some "MatchOrnamentNote" /\
  disp_kind parsers_v1_0_0 "snote(n1,[C,n],4,1:1,0,1/4,0.0000,1.0000,[v1])-note(n1,60,1,2,3,1,0)." = Some "MatchSnoteNote" /\
  disp_kind parsers_v1_0_0 "snote(n1,[C,n],4,1:1,0,1/4,0.0000,1.0000,[v1])-deletion." = Some "MatchSnoteDeletion" /\
  disp_kind parsers_v1_0_0 "scoreprop(keySignature,E/C#m,1:1,0,0.0000)." = Some "MatchScoreProp" /\
  disp_kind parsers_v1_0_0 "info(keySignature,E)." = None.
Proof. exact dispatch_examples. Qed.
Print Assumptions dispatch_marker_examples.

(* interpret_version: "major.minor.patch" for all numbers, whatever follows that is no digit ... *)
Theorem interpret_version_canonical : forall a b c t,
  0 <= a -> 0 <= b -> 0 <= c -> nondigit_start t ->
  interpret_version version_pat old_version_pat
    (print_N a ++ "." ++ print_N b ++ "." ++ print_N c ++ t) = Some (a, b, c).
Proof. exact interpret_version_canonical_lemma. Qed.
Print Assumptions interpret_version_canonical.

(* ... and the spelling of the versions before 1.0.0, "minor.patch" = 0.minor.patch *)
Theorem interpret_version_old_form : forall b c t,
  0 <= b -> 0 <= c -> nondigit_start t -> count_char "."%char t = O ->
  interpret_version version_pat old_version_pat (print_N b ++ "." ++ print_N c ++ t) = Some (0, b, c).
Proof. exact interpret_version_old_lemma. Qed.
Print Assumptions interpret_version_old_form.

(* get_version: a version line gives the version it states, for all numbers (so a written file is read back
   with the parsers of its own version) ... *)
Theorem get_version_version_line : forall a b c,
  0 <= a -> 0 <= b -> 0 <= c ->
  get_version version_pat old_version_pat version_infos
    ("info(matchFileVersion," ++ print_N a ++ "." ++ print_N b ++ "." ++ print_N c ++ ").") = (a, b, c).
Proof. exact get_version_version_line_lemma. Qed.
Print Assumptions get_version_version_line.

Theorem get_version_old_version_line : forall b c,
  0 <= b -> 0 <= c ->
  get_version version_pat old_version_pat version_infos
    ("info(matchFileVersion," ++ print_N b ++ "." ++ print_N c ++ ").") = (0, b, c).
Proof. exact get_version_old_version_line_lemma. Qed.
Print Assumptions get_version_old_version_line.

(* ... and any other first line (no info line, or another attribute) means 0.1.0 *)
Theorem get_version_default : forall s,
  (re_search info_pat s = None \/
   exists i a v rest, re_search info_pat s = Some (i, [a; v], rest) /\ a <> "matchFileVersion") ->
  get_version version_pat old_version_pat version_infos s = (0, 1, 0).
Proof. exact get_version_default_lemma. Qed.
Print Assumptions get_version_default.

Theorem get_version_no_info : forall s,
  ~ occurs "info(" s -> get_version version_pat old_version_pat version_infos s = (0, 1, 0).
Proof. exact get_version_no_info_lemma. Qed.
Print Assumptions get_version_no_info.

(* load_matchfile looks at every distinct line exactly once *)
Theorem file_lines_once : forall l,
  NoDup (dedup_first [] l) /\ forall x, In x (dedup_first [] l) <-> In x l.
Proof. exact dedup_first_spec_lemma. Qed.
Print Assumptions file_lines_once.

Theorem load_file_example :
  let '(v, res) := load_lines key_tab version_pat old_version_pat version_infos parser_table
                     ["info(matchFileVersion,0.5.0)."; "sustain(1,2)."; ""; "sustain(1,2)."; "soft(3,4)."; "nonsense"] in
  v = (0, 5, 0) /\ kept_names parsers_v0_5_0 res = ["MatchInfo"; "MatchSustainPedal"; "MatchSoftPedal"].
Proof. exact load_lines_example. Qed.
Print Assumptions load_file_example.

(* the whole chain for one family of lines and ALL field values: the text the library writes for a sustain / soft
   pedal object (format_line on the schema reflected from the pedal class of each version) ... *)
Theorem pedal_lines_written : forall t val,
  Forall (fun sch => format_line key_tab sch [VInt t; VInt val] = Some ("sustain(" ++ print_Z t ++ "," ++ print_Z val ++ ")."))
         [sch_sustain_v0_1_0; sch_sustain_v0_2_0; sch_sustain_v0_3_0; sch_sustain_v0_4_0; sch_sustain_v0_5_0; sch_sustain_v1_0_0] /\
  Forall (fun sch => format_line key_tab sch [VInt t; VInt val] = Some ("soft(" ++ print_Z t ++ "," ++ print_Z val ++ ")."))
         [sch_soft_v0_1_0; sch_soft_v0_2_0; sch_soft_v0_3_0; sch_soft_v0_4_0; sch_soft_v0_5_0; sch_soft_v1_0_0].
Proof. exact pedal_lines_written_lemma. Qed.
Print Assumptions pedal_lines_written.

(* ... is read by parse_matchline over the ordered parser list of every format version (regular expressions as
   written, searched anywhere in the line; every method before the pedal method fails) as the same kind with
   the same field values *)
Theorem dispatch_pedal_lines : forall v ps t val,
  In (v, ps) parser_table ->
  disp_result ps ("sustain(" ++ print_Z t ++ "," ++ print_Z val ++ ").") = Some ("MatchSustainPedal", [VInt t; VInt val]) /\
  disp_result ps ("soft(" ++ print_Z t ++ "," ++ print_Z val ++ ").") = Some ("MatchSoftPedal", [VInt t; VInt val]).
Proof. exact dispatch_pedal_lines_lemma. Qed.
Print Assumptions dispatch_pedal_lines.

(* ---------------------------------------------------------------- O3 for info and meta lines (Model/C07_Up.v, Proofs/C07_up.v) *)

(* the converted line is a 1.0.0 info line or score property whose attribute is the old one after renaming
   and is an attribute of that kind of line in 1.0.0 (any attribute tables) *)
Theorem to_v1_info_attr : forall t a v l,
  info_to_v1 t a v = Some l ->
  (is_info l = true /\ line_attr l = rename (ut_ieq t) a /\ mem_s (line_attr l) (ut_info1 t) = true) \/
  (is_info l = false /\ line_attr l = rename (ut_speq t) a /\ mem_s (line_attr l) (ut_sp1 t) = true).
Proof. exact info_to_v1_attr_lemma. Qed.
Print Assumptions to_v1_info_attr.

(* every value is carried over unchanged (all values), except the word lists of subtitle and tempoIndication *)
Theorem to_v1_info_value_kept : forall t a v l,
  info_to_v1 t a v = Some l ->
  line_attr l <> "subtitle" -> line_attr l <> "tempoIndication" -> line_value l = Some v.
Proof. exact info_to_v1_value_lemma. Qed.
Print Assumptions to_v1_info_value_kept.

Theorem to_v1_info_scalar_kept : forall t a v l,
  info_to_v1 t a v = Some l -> (forall ws, v <> VList ws) -> line_value l = Some v.
Proof. exact info_to_v1_scalar_lemma. Qed.
Print Assumptions to_v1_info_scalar_kept.

(* a meta line becomes the score property of the same value, measure and time *)
Theorem to_v1_meta_content : forall t a v me ti l,
  meta_to_v1 t a v me ti = Some l -> line_attr l <> "tempoIndication" ->
  l = L1ScoreProp (rename (ut_speq t) a) (Some v) me 1 frac_zero ti /\ mem_s (line_attr l) (ut_sp1 t) = true.
Proof. exact meta_to_v1_content_lemma. Qed.
Print Assumptions to_v1_meta_content.

(* on the attribute tables reflected on this run: every info attribute of 0.1.0-0.5.0 keeps its name up to the
   two documented renamings; the only ones without a 1.0.0 form are partSequence and mergedFrom *)
Theorem to_v1_old_info_attrs : forall ver attrs a v,
  In (ver, attrs) old_info_attrs -> In a attrs ->
  match info_to_v1 up_tabs a v with
  | Some l => line_attr l = a \/ (a = "midiFilename" /\ line_attr l = "midiFileName")
              \/ (a = "beatSubdivision" /\ line_attr l = "beatSubDivision")
  | None => a = "partSequence" \/ a = "mergedFrom"
  end.
Proof. exact old_info_attrs_dest_lemma. Qed.
Print Assumptions to_v1_old_info_attrs.

Theorem to_v1_old_meta_attrs :
  forallb (fun va : version * list string =>
             forallb (fun a => match meta_to_v1 up_tabs a VNone 0 VNone with
                               | Some l => String.eqb (line_attr l) a
                               | None => false end) (snd va)) old_meta_attrs = true.
Proof. exact old_meta_attrs_ok. Qed.
Print Assumptions to_v1_old_meta_attrs.

(* the words of a pre-1.0 tempo indication are joined by blanks *)
Theorem to_v1_tempo_words : forall ws,
  info_to_v1 up_tabs "tempoIndication" (VList ws) =
  Some (L1ScoreProp "tempoIndication" (Some (VStr (join sp ws))) 1 1 frac_zero float_zero).
Proof. exact tempo_words_lemma. Qed.
Print Assumptions to_v1_tempo_words.

(* ------------------------------------------------------------------ histories of parses and in-place edits
   (Model/C07_Hist.v): "the parsed fields are a function of the text and of the version only" *)

(* whatever was parsed, edited in place, assigned or converted before: parsing the text of a line gives
   parse_line of that text as a new line object, and nothing else changes *)
Theorem hist_parse_function_of_text : forall tab ls h st w sch t,
  pure_run tab ls [] h = Some st -> nth_error ls w = Some (sch, t) ->
  pure_run tab ls [] (h ++ [HParse w])%list = option_map (fun vs => (st ++ [vs])%list) (parse_line tab sch t).
Proof. exact hist_parse_function_of_text. Qed.
Print Assumptions hist_parse_function_of_text.

(* a line object parsed at any point of any history holds, after any later steps that do not edit IT (parses of the
   same or of other texts, edits of other line objects -- also of objects parsed from the same text), what its text says *)
Theorem hist_object_own_text : forall tab ls h1 h2 st st' w sch t vs,
  pure_run tab ls [] h1 = Some st -> nth_error ls w = Some (sch, t) -> parse_line tab sch t = Some vs ->
  names (List.length st) h2 = false ->
  pure_run tab ls [] (h1 ++ HParse w :: h2)%list = Some st' ->
  nth_error st' (List.length st) = Some vs.
Proof. exact hist_object_own_text. Qed.
Print Assumptions hist_object_own_text.

(* an edit of line object i is seen through no other line object *)
Theorem hist_edit_local : forall i f v st j, i <> j -> nth_error (upd_obj i f v st) j = nth_error st j.
Proof. exact hist_edit_local. Qed.
Print Assumptions hist_edit_local.

(* refinement, all histories: an implementation with references (field values in heap cells, in-place edits write into
   the cell, assignments make a new cell) whose decoders allocate a fresh cell for every field of every parse shows
   exactly what the pure machine shows -- including failure *)
Theorem hist_heap_refines_pure : forall tab ls h,
  option_map observe (heap_run tab no_memo ls hinit h) = pure_run tab ls [] h.
Proof. exact heap_refines_pure. Qed.
Print Assumptions hist_heap_refines_pure.

(* non-vacuity: two notes with the same attribute list, the list of the first is appended to in place *)
Theorem hist_example :
  pure_run [] ex_lines [] ex_hist =
  Some [[VStr "n1"; VList ["v1"; "staff1"; "fermata"]]; [VStr "n2"; VList ["v1"; "staff1"]]; [VStr "n2"; VList ["v1"; "staff1"]]]
  /\ option_map observe (heap_run [] no_memo ex_lines hinit ex_hist) = pure_run [] ex_lines [] ex_hist.
Proof. exact hist_example. Qed.
Print Assumptions hist_example.

(* the statement is not vacuous: with the list decoder memoised on the field text (one shared cell per text) the edit
   shows up in the EARLIER and in the LATER parse of the other note *)
Theorem hist_memo_refuted :
  option_map observe (heap_run [] memo_lists ex_lines hinit ex_hist) =
  Some [[VStr "n1"; VList ["v1"; "staff1"; "fermata"]]; [VStr "n2"; VList ["v1"; "staff1"; "fermata"]]; [VStr "n2"; VList ["v1"; "staff1"; "fermata"]]]
  /\ option_map observe (heap_run [] memo_lists ex_lines hinit ex_hist) <> pure_run [] ex_lines [] ex_hist.
Proof. exact hist_memo_refuted. Qed.
Print Assumptions hist_memo_refuted.

(* ... and it needs the in-place edit: assigning a new list to the field is harmless even for the memoising parser *)
Theorem hist_memo_needs_inplace :
  option_map observe (heap_run [] memo_lists ex_lines hinit [HParse 0; HParse 1; HSet 0 1 (VList ["x"]); HParse 1]) =
  pure_run [] ex_lines [] [HParse 0; HParse 1; HSet 0 1 (VList ["x"]); HParse 1].
Proof. exact hist_memo_needs_inplace. Qed.
Print Assumptions hist_memo_needs_inplace.

(* ------------------------------------------------------------------ round j: key signatures as the code reads and writes them *)
(* Model/C07_Key.v models the ALGORITHM (the theorems keysig_* above go through the tabulated name table): MAJOR_KEYS / MINOR_KEYS
   indexed by fifths + 7 and the three spellings (key_str); key_name_to_fifths_mode as arithmetic on the circle of fifths (kn2fm);
   _parse_key_signature = plain 1.0.0 names first, then the regular expression of the older formats searched with backtracking, then
   the upper-case fallback (parse_key_with, the list of plain names a parameter); from_string = interpret_as_list + the 0.1.0 form
   recognised by its second item (key_from_string).  key_cfg (the two key lists, the three regular expressions) is reflected from
   the library on every run (Gen/C07_KeyCfg.v). *)
From PV Require Import Model.C07_Key Gen.C07_KeyCfg Proofs.C07_key.

(* every key of the domain, every spelling (0: [en,major]  1: E Maj  3: E): the text the writer makes is read back as the same key *)
Theorem key_code_roundtrip : forall fmt f mi,
  In fmt [0; 1; 3] -> -7 <= f <= 7 ->
  exists t, key_str key_cfg fmt false ((f, mi), None) [] = Some t /\
            key_from_string key_cfg t = Some (((f, mi), None), []).
Proof. exact key_code_roundtrip_lemma. Qed.
Print Assumptions key_code_roundtrip.

(* ... with an alternative key, plain and as a one-element list *)
Theorem key_code_alt_roundtrip : forall fmt isl f mi f2 mi2,
  In fmt [1; 3] -> -7 <= f <= 7 -> -7 <= f2 <= 7 ->
  exists t, key_str key_cfg fmt isl ((f, mi), Some (f2, mi2)) [] = Some t /\
            key_from_string key_cfg t = Some (((f, mi), Some (f2, mi2)), []).
Proof. exact key_code_alt_roundtrip_lemma. Qed.
Print Assumptions key_code_alt_roundtrip.

(* unbounded: the list spelling of 0.3.0 - 0.5.0 with ANY number of further components, each with or without alternative *)
Theorem key_list_roundtrip : forall k others,
  key1_in_range k -> Forall key1_in_range others ->
  exists t, key_str key_cfg 1 true k others = Some t /\ key_from_string key_cfg t = Some (k, others).
Proof. exact key_list_roundtrip_lemma. Qed.
Print Assumptions key_list_roundtrip.

Theorem key_list_example :
  key_str key_cfg 1 true ((-4, false), Some (-4, true)) [((0, false), None); ((3, true), Some (1, false)); ((7, true), None)]
    = Some "[Ab Maj/F min,C Maj,F# min/G Maj,A# min]" /\
  key_from_string key_cfg "[Ab Maj/F min,C Maj,F# min/G Maj,A# min]"
    = Some (((-4, false), Some (-4, true)), [((0, false), None); ((3, true), Some (1, false)); ((7, true), None)]).
Proof. exact key_list_example. Qed.
Print Assumptions key_list_example.

(* unbounded, ALL texts: if every "/"-part (one or two) of a text, blanks around it dropped, is a plain 1.0.0 key name, the text is
   read as exactly those keys (fifths within -7..7), whatever the regular expression of the older formats would make of it, and
   the 1.0.0 spelling of what was read is the text without the blanks (formatting is a fixpoint after one round) *)
Theorem key_v1_text_fixpoint : forall s,
  let names := map strip_ws (split_on "/" s) in
  (List.length names = 1 \/ List.length names = 2)%nat ->
  forallb (fun x => mem_str x (valid_v1_names key_cfg)) names = true ->
  exists k, parse_key key_cfg s = Some k /\
            key_str1 key_cfg 3 k = Some (join "/" names) /\
            -7 <= fst (fst k) <= 7.
Proof. exact key_v1_text_fixpoint_lemma. Qed.
Print Assumptions key_v1_text_fixpoint.

Theorem key_v1_text_example :
  let s := " Ab / F#m  " in
  forallb (fun x => mem_str x (valid_v1_names key_cfg)) (map strip_ws (split_on "/" s)) = true /\
  parse_key key_cfg s = Some ((-4, false), Some (3, true)) /\
  key_str1 key_cfg 3 ((-4, false), Some (3, true)) = Some "Ab/F#m".
Proof. exact key_v1_text_example. Qed.
Print Assumptions key_v1_text_example.

(* the statements discriminate: the list of plain names built over range(-7, 7) (seven sharps missing) -- A# minor, written
   "A#m", falls through to the older pattern and comes back as ten sharps major *)
Theorem key_names_range_refuted :
  key_str key_cfg 3 false ((7, true), None) [] = Some "A#m" /\
  key_from_string key_cfg "A#m" = Some (((7, true), None), []) /\
  key_from_string_with key_cfg names_without_seven_sharps "A#m" = Some (((10, false), None), []) /\
  key_from_string_with key_cfg names_without_seven_sharps "C#/A#m" <> Some (((7, false), Some (7, true)), []).
Proof. exact key_names_range_refuted. Qed.
Print Assumptions key_names_range_refuted.

(* ... and the older pattern consulted first (no plain names known): the flat sign of "Ab" is taken for the mode word *)
Theorem key_old_pattern_first_refuted :
  key_str key_cfg 3 false ((-4, false), None) [] = Some "Ab" /\
  key_from_string key_cfg "Ab" = Some (((-4, false), None), []) /\
  key_from_string_with key_cfg [] "Ab" = Some (((3, false), None), []).
Proof. exact key_old_pattern_first_refuted. Qed.
Print Assumptions key_old_pattern_first_refuted.

(* the 0.1.0 form is recognised by the SECOND item of a two-item list being a mode word: the side condition of
   key_list_roundtrip "no written key text is a mode word" is needed *)
Theorem key_v01_form_by_second_item :
  key_from_string key_cfg "[f#,minor]" = Some (((3, true), None), []) /\
  map_opt (parse_key key_cfg) (interp_list key_cfg "[f#,minor]") = None /\
  key_from_string key_cfg "[F# min,Maj]" = Some (((6, false), None), []).
Proof. exact key_v01_form_by_second_item. Qed.
Print Assumptions key_v01_form_by_second_item.

(* unbounded: every key of the domain, ANY runs of blanks (blank, tab, ...) before and after its plain 1.0.0 name ... *)
Theorem key_v1_blanks_single : forall k n w1 w2,
  -7 <= fst k <= 7 -> fm2kn_v1 key_cfg k = Some n ->
  all_chars py_space w1 = true -> all_chars py_space w2 = true ->
  parse_key key_cfg (w1 ++ n ++ w2) = Some (k, None).
Proof. exact key_v1_blanks_single_lemma. Qed.
Print Assumptions key_v1_blanks_single.

(* ... and every pair of keys, blanks before and after both names and around the "/": read as exactly the two keys *)
Theorem key_v1_blanks_pair : forall k k2 n n2 w1 w2 w3 w4,
  -7 <= fst k <= 7 -> -7 <= fst k2 <= 7 -> fm2kn_v1 key_cfg k = Some n -> fm2kn_v1 key_cfg k2 = Some n2 ->
  all_chars py_space w1 = true -> all_chars py_space w2 = true ->
  all_chars py_space w3 = true -> all_chars py_space w4 = true ->
  parse_key key_cfg ((w1 ++ n ++ w2) ++ "/" ++ (w3 ++ n2 ++ w4)) = Some (k, Some k2).
Proof. exact key_v1_blanks_pair_lemma. Qed.
Print Assumptions key_v1_blanks_pair.

(* the names looked up as they stand between the separators (no strip): the same text is not read as the two keys *)
Theorem key_v1_blanks_nostrip_refuted :
  parse_key key_cfg "Ab / F#m" = Some ((-4, false), Some (3, true)) /\
  parse_key_nostrip "Ab / F#m" <> Some ((-4, false), Some (3, true)).
Proof. exact key_v1_blanks_nostrip_refuted. Qed.
Print Assumptions key_v1_blanks_nostrip_refuted.
