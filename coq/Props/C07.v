(* C07 -- property theorems.  Statements + `exact` only; proofs live in Proofs/C07.v, Proofs/C07_lib.v.
   The model (Model/C07.v) is a schema-driven line codec; the schemas sch_* and the key-name table
   key_tab / key_rows (Gen/C07_Schemas.v) are reflected / tabulated from the real line classes on every
   run.  [fields_ok tab sch vs] = "every field value its format version allows": each value survives its
   own codec (field_rt, proved per codec below) and its text fits the character class of the pattern. *)
From PV Require Import Lib.Base Model.C07 Gen.C07_Schemas Proofs.C07_lib Proofs.C07.
From Coq Require Import QArith Ascii.
#[local] Open Scope string_scope.
#[local] Open Scope Z_scope.

(* O1, all schemas, all field values, unbounded: the scanner inverts out_pattern.format *)
Theorem scan_fill : forall sch ts s,
  schema_wf sch = true -> texts_ok sch ts = true -> fill sch ts = Some s -> scan sch s = Some ts.
Proof. exact scan_fill_lemma. Qed.
Print Assumptions scan_fill.

(* O1: writing a line and parsing the text gives the same field values (a float of a fixed-point
   field comes back as its d-decimal rounding: norm_line) *)
Theorem line_roundtrip : forall tab sch vs,
  schema_wf sch = true -> fields_ok tab sch vs ->
  exists s, format_line tab sch vs = Some s /\ parse_line tab sch s = Some (norm_line (codecs sch) vs).
Proof. exact line_roundtrip_lemma. Qed.
Print Assumptions line_roundtrip.

(* O2: writing the parsed object again gives the identical text *)
Theorem line_fixpoint : forall tab sch vs,
  schema_wf sch = true -> fields_ok tab sch vs ->
  exists s vs', format_line tab sch vs = Some s /\ parse_line tab sch s = Some vs' /\
                format_line tab sch vs' = Some s.
Proof. exact line_fixpoint_lemma. Qed.
Print Assumptions line_fixpoint.

(* every schema reflected from the live classes (all classes x versions x attributes) satisfies the
   side condition of the two theorems above *)
Theorem reflected_schemas_wellformed : forallb (fun p => schema_wf (snd p)) all_schemas = true.
Proof. exact reflected_schemas_wellformed_lemma. Qed.
Print Assumptions reflected_schemas_wellformed.

(* the hypotheses are satisfiable: sustain(711360,22). on the reflected 1.0.0 schema *)
Theorem example_sustain :
  exists s, format_line key_tab sch_sustain_v1_0_0 [VInt 711360; VInt 22] = Some s /\
            parse_line key_tab sch_sustain_v1_0_0 s = Some [VInt 711360; VInt 22].
Proof. exact example_sustain_lemma. Qed.
Print Assumptions example_sustain.

(* codecs, unbounded *)
Theorem int_text_rt : forall z, parse_Z (print_Z z) = Some z.
Proof. exact parse_print_Z. Qed.
Print Assumptions int_text_rt.

Theorem int_codec_rt : forall tab z, field_rt tab CInt (VInt z).
Proof. exact int_codec_rt_lemma. Qed.
Print Assumptions int_codec_rt.

Theorem oct_codec_rt : forall tab z, field_rt tab COct (VInt z) /\ field_rt tab COct VNone.
Proof. exact oct_codec_rt_lemma. Qed.
Print Assumptions oct_codec_rt.

(* attribute lists of any length, including the empty list *)
Theorem list_codec_rt : forall tab l, items_ok l ->
  field_rt tab CListIn (VList l) /\ field_rt tab CList (VList l).
Proof. exact list_codec_rt_lemma. Qed.
Print Assumptions list_codec_rt.

(* key signatures: all 30 keys in every spelling (0: [en,major]  1: E Maj  3: E), with and without
   an alternative key -- the model's codec over the reflected name table ... *)
Theorem keysig_codec_rt : forall fmt f mi,
  In fmt [0; 1; 3] -> -7 <= f <= 7 -> field_rt key_tab (CKey fmt false) (VKey ((f, mi), None) []).
Proof. exact keysig_codec_rt_lemma. Qed.
Print Assumptions keysig_codec_rt.

Theorem keysig_alt_codec_rt : forall fmt f mi f2 mi2,
  In fmt [1; 3] -> -7 <= f <= 7 -> -7 <= f2 <= 7 ->
  field_rt key_tab (CKey fmt false) (VKey ((f, mi), Some (f2, mi2)) []).
Proof. exact keysig_alt_codec_rt_lemma. Qed.
Print Assumptions keysig_alt_codec_rt.

(* ... and the implementation itself: key_rows is the graph of MatchKeySignature (write, then read)
   on the whole domain; every key comes back as itself *)
Theorem keysig_bijection_30 : forall fmt f mi,
  In fmt [0; 1; 3] -> -7 <= f <= 7 -> exists t, In (fmt, f, mi, Some t, Some (f, mi)) key_rows.
Proof. exact keysig_bijection_30_lemma. Qed.
Print Assumptions keysig_bijection_30.

(* O4 durations: addition is exact while the lcm form stays within bound_integers' bound ... *)
Theorem frac_add_exact : forall f g,
  let d1 := fden f * tdiv (ftd f) in
  let d2 := fden g * tdiv (ftd g) in
  0 < d1 -> 0 < d2 ->
  Z.lcm d1 d2 <= frac_bound ->
  (Z.lcm d1 d2 / d1) * fnum f + (Z.lcm d1 d2 / d2) * fnum g <= frac_bound ->
  (frac_value (frac_add f g) == frac_value f + frac_value g)%Q.
Proof. exact frac_add_exact_lemma. Qed.
Print Assumptions frac_add_exact.

Theorem frac_add_components : forall f g,
  fcomps (frac_add f g) =
  Some (filter (fun c : triple => negb (fst (fst c) =? 0)) (frac_comps f ++ frac_comps g)).
Proof. exact frac_add_components_lemma. Qed.
Print Assumptions frac_add_components.

(* ... and only then: above the bound the sum's numeric value is merely approximated (1/1000 + 1/999) *)
Theorem frac_add_inexact_above_bound :
  exists f g, fnum f <= frac_bound /\ fden f <= frac_bound /\ fnum g <= frac_bound /\ fden g <= frac_bound /\
    ~ (frac_value (frac_add f g) == frac_value f + frac_value g)%Q.
Proof. exact frac_add_inexact_above_bound_lemma. Qed.
Print Assumptions frac_add_inexact_above_bound.

Theorem frac_bound_noop : forall n d, n <= frac_bound -> d <= frac_bound -> bound_pair n d = (n, d).
Proof. exact bound_pair_noop. Qed.
Print Assumptions frac_bound_noop.

Theorem frac_bound_partial :
  bound_pair 1025 1023 = (2, 2) /\ bound_pair 2048 4 = (1024, 2) /\ bound_pair 3 2048 = (1, 128).
Proof. exact frac_bound_partial_lemma. Qed.
Print Assumptions frac_bound_partial.
