(* C11 -- property theorems.  Statements + `exact` only; proofs live in Proofs/C11*.v. *)
From PV Require Import Lib.Base Lib.Round Gen.C11_Tables Model.C11 Proofs.C11.
From Coq Require Import QArith Qabs.
#[local] Open Scope Z_scope.

Theorem split_sum : forall cuts s e, total_dur (pieces s cuts e) = e - s.
Proof. exact total_dur_pieces. Qed.
Print Assumptions split_sum.
