(* C11 -- adding measures and tying notes normalise notation without changing what sounds:
   property theorems.  Statements + `exact` only; proofs live in Proofs/C11*.v.
   Every theorem quantifies over all inputs (any number of signatures, measures, notes, any
   divisions); the only finite-domain statements are the `_refuted` witnesses and the examples.
   The model (Model/C11.v) is tied to partitura's code by the correspondence run of
   harness/props/c11.py on every check (same definitions, evaluated by vm_compute). *)
From PV Require Import Lib.Base Lib.Round Gen.C11_Tables Model.C11 Model.C11_Spec Model.C11_Norm
  Model.C11_Hist Model.C11_Pipe
  Proofs.C11_lib Proofs.C11_meas Proofs.C11_est Proofs.C11 Proofs.C11_norm Proofs.C11_tup Proofs.C11_slur Proofs.C11_hist Proofs.C11_pipe.
From Coq Require Import QArith Qabs Sorting.Sorted.
#[local] Open Scope Z_scope.

(* ------------------------------------------------------------------ O1: add_measures *)

(* the model's fuel always suffices *)
Theorem add_measures_total : forall div tsigs first last ex,
  pre tsigs first last ex -> exists ms, add_measures div tsigs first last ex = Some ms.
Proof. exact add_measures_total_lemma. Qed.
Print Assumptions add_measures_total.

(* the measures afterwards, in the order the loop meets or makes them, run from the first to the
   last point without gap or overlap, each non-empty *)
Theorem measures_tile : forall div tsigs first last ex ms,
  pre tsigs first last ex -> add_measures div tsigs first last ex = Some ms ->
  chain_from first (spans ms) last.
Proof. exact measures_tile_lemma. Qed.
Print Assumptions measures_tile.

(* ... so every time of [first, last) lies in exactly one measure *)
Theorem measures_partition : forall div tsigs first last ex ms,
  pre tsigs first last ex -> add_measures div tsigs first last ex = Some ms ->
  forall x, first <= x < last ->
    exists m, In m (spans ms) /\ fst m <= x < snd m
              /\ forall m', In m' (spans ms) -> fst m' <= x < snd m' -> m' = m.
Proof. exact measures_partition_lemma. Qed.
Print Assumptions measures_partition.

(* existing measures are left in place: each is among the measures afterwards with its extent
   (also one that runs across a signature change) *)
Theorem existing_measures_kept : forall div tsigs first last ex ms,
  pre tsigs first last ex -> ex_sorted ex ->
  add_measures div tsigs first last ex = Some ms ->
  forall x, In x ex -> exists m, In m ms /\ m_old m = true /\ span m = x.
Proof. exact existing_kept_lemma. Qed.
Print Assumptions existing_measures_kept.

(* ... and nothing else is passed off as an existing measure *)
Theorem old_measures_are_existing : forall div tsigs first last ex ms,
  pre tsigs first last ex -> add_measures div tsigs first last ex = Some ms ->
  forall m, In m ms -> m_old m = true -> In (span m) ex.
Proof. exact measures_old_lemma. Qed.
Print Assumptions old_measures_are_existing.

(* all measures, old and new, are numbered 1, 2, 3, ... in time order *)
Theorem measures_numbered : forall div tsigs first last ex ms,
  pre tsigs first last ex -> add_measures div tsigs first last ex = Some ms ->
  map m_num ms = zrange 1 (List.length ms).
Proof. exact measures_numbered_lemma. Qed.
Print Assumptions measures_numbered.

(* a new measure lies in the stretch of one signature (no other signature starts strictly inside
   that stretch), and ends where a full bar of that signature ends (nearest division, at least
   one division, not beyond the last point or the stretch) -- or earlier, exactly at the start
   of an existing measure *)
Theorem new_measure_length : forall div tsigs first last ex ms,
  pre tsigs first last ex -> add_measures div tsigs first last ex = Some ms ->
  forall m, In m ms -> m_old m = false ->
  exists s, In s (stretches div tsigs first last)
            /\ stretch_in_force div (ts_rows tsigs first) s
            /\ fst (st_span s) <= m_start m < snd (st_span s) /\ snd (st_span s) <= last
            /\ new_ok ex (st_bl s) last (snd (st_span s)) m.
Proof. exact new_measure_length_full. Qed.
Print Assumptions new_measure_length.

(* for a bar that is a whole number B of divisions: a new measure is B long, or it is shorter
   and ends at the next signature / the last point / the start of an existing measure *)
Theorem new_measure_length_integral : forall div tsigs first last ex ms,
  pre tsigs first last ex -> add_measures div tsigs first last ex = Some ms ->
  forall m, In m ms -> m_old m = false ->
  exists s, In s (stretches div tsigs first last)
    /\ stretch_in_force div (ts_rows tsigs first) s
    /\ fst (st_span s) <= m_start m < snd (st_span s)
    /\ forall B, 1 <= B -> (st_bl s == inject_Z B)%Q ->
         m_end m - m_start m = B
         \/ (m_end m - m_start m < B
             /\ (m_end m = snd (st_span s) \/ m_end m = last \/ exists x, In x ex /\ fst x = m_end m)).
Proof. exact new_measure_length_integral_lemma. Qed.
Print Assumptions new_measure_length_integral.

(* the hypotheses are satisfiable: two signatures, two existing measures (one running across the
   signature change), new measures cut by an existing measure and by the last point *)
Example measures_example :
  (pre ex_tsigs 0 40 ex_existing /\ ex_sorted ex_existing) /\
  add_measures 4 ex_tsigs 0 40 ex_existing
  = Some [(0, 5, 1, false); (5, 9, 2, true); (9, 21, 3, false); (21, 22, 4, false);
          (22, 30, 5, true); (30, 38, 6, false); (38, 40, 7, false)].
Proof. exact (conj ex_pre ex_result). Qed.
Print Assumptions measures_example.

(* ------------------------------------------------------------------ O2/O3: tie_notes *)

(* splitting [s, e) at any cut points keeps the summed duration *)
Theorem split_sum : forall cuts s e, total_dur (pieces s cuts e) = e - s.
Proof. exact total_dur_pieces. Qed.
Print Assumptions split_sum.

(* both stages of tie_notes keep what sounds (pitch, voice, staff, onset, summed duration) of
   every chain -- including chains that were tied before (several input pieces) *)
Theorem tie_preserves_sounding : forall bars div c, sounding (tie_chain bars div c) = sounding c.
Proof. exact tie_sounding. Qed.
Print Assumptions tie_preserves_sounding.

(* with measures tiling [a, b) and every input piece inside [a, b]: afterwards every piece is
   non-empty and lies within one measure *)
Theorem tie_within_measure : forall ms a b bars div ps,
  0 < div -> chain_from a ms b -> bars = map fst ms ->
  Forall (fun p => a <= fst p /\ fst p < snd p /\ snd p <= b) ps ->
  Forall (fun q => within_one ms q /\ fst q < snd q) (tie_pieces bars div ps).
Proof. exact tie_pieces_wf_lemma. Qed.
Print Assumptions tie_within_measure.

(* a contiguous chain stays contiguous *)
Theorem tie_chain_contiguous : forall bars div ps, contiguous ps -> contiguous (tie_pieces bars div ps).
Proof. exact tie_contiguous. Qed.
Print Assumptions tie_chain_contiguous.

(* ... and keeps its one pitch, voice and staff *)
Theorem tie_chain_identity : forall bars div p v st ps,
  exists ps', tie_chain bars div (p, v, st, ps) = (p, v, st, ps').
Proof. exact tie_chain_identity_lemma. Qed.
Print Assumptions tie_chain_identity.

(* candidate split points lie strictly inside the note on the grid of the smallest unit *)
Theorem order_splits_on_grid : forall s e u x,
  0 < u -> In x (order_splits s e u) -> s < x < e /\ (u | x).
Proof. exact order_splits_on_grid_lemma. Qed.
Print Assumptions order_splits_on_grid.

(* a split found by find_tie_split tiles [s, e) with at most four non-empty pieces, each of
   which has a single notated value *)
Theorem find_tie_split_sound : forall s e div cuts,
  0 < div -> s < e -> find_tie_split s e div = Some (Some cuts) ->
  chain_from s (pieces s cuts e) e
  /\ Forall (fun p => has_sym (estimate (snd p - fst p) div) = true) (pieces s cuts e)
  /\ (List.length cuts <= 3)%nat.
Proof. exact find_tie_split_sound_lemma. Qed.
Print Assumptions find_tie_split_sound.

(* after tie_notes a piece has a notated value, or it is a stage-1 piece the splitter could not
   split (or the model's fuel ran out on it) *)
Theorem tie_outcome : forall bars div ps q,
  0 < div -> StronglySorted Z.lt bars -> Forall (fun p => fst p < snd p) ps ->
  In q (tie_pieces bars div ps) ->
  has_sym (piece_sym div q) = true
  \/ (In q (stage1_pieces bars ps)
      /\ ((forall cuts, find_tie_split (fst q) (snd q) div <> Some (Some cuts))
          \/ estimate (snd q - fst q) div = EFuel)).
Proof. exact tie_outcome_lemma. Qed.
Print Assumptions tie_outcome.

(* the symbolic duration a piece carries evaluates to its numeric duration -- when the estimator
   hit the value exactly; the eps tolerance is delimited below *)
Theorem assigned_symbolic_exact : forall div q sd,
  0 < div -> fst q < snd q -> piece_sym div q = ESome sd -> exact_hit (snd q - fst q) div = true ->
  exists v, sym_to_num sd div = Some v /\ (v == inject_Z (snd q - fst q))%Q.
Proof. exact assigned_symbolic_exact_lemma. Qed.
Print Assumptions assigned_symbolic_exact.

Example tie_example :
  tie_chain [0; 5; 9; 21; 22; 30; 38] 4 (60, 1, 1, [(3, 35)])
  = (60, 1, 1, [(3, 5); (5, 9); (9, 21); (21, 22); (22, 30); (30, 32); (32, 35)]).
Proof. exact ex_tie. Qed.
Print Assumptions tie_example.

(* ------------------------------------------------------------------ O4: the estimator *)

(* estimate then convert back returns the numeric duration, for every d and every divisions
   value, whenever the estimator's match was exact *)
Theorem estimate_exact : forall d div sd,
  0 < d -> 0 < div -> estimate d div = ESome sd -> exact_hit d div = true ->
  exists v, sym_to_num sd div = Some v /\ (v == inject_Z d)%Q.
Proof. exact estimate_exact_lemma. Qed.
Print Assumptions estimate_exact.

(* the boundary of the tolerance: a table value is reported only within eps (a quarter) of d/div,
   and converts back to div * that table value *)
Theorem estimate_table_within_eps : forall d div ty dots,
  estimate d div = ESome (ty, dots, None) ->
  exists tv v, table_value (ty, dots, None) = Some tv
    /\ (Qabs (inject_Z d / inject_Z div - tv) < eps_default)%Q
    /\ sym_to_num (ty, dots, None) div = Some v /\ (v == inject_Z div * tv)%Q.
Proof. exact estimate_table_within_eps_lemma. Qed.
Print Assumptions estimate_table_within_eps.

(* ... and a tuplet n : a only when n * S / (d/div) is within eps of the integer a *)
Theorem estimate_tuplet_within_eps : forall d div ty dots a n,
  estimate d div = ESome (ty, dots, Some (a, n)) ->
  dots = 0 /\ n >= 2 /\
  exists S, S = qnth straight_durs (count_lt straight_durs (inject_Z d / inject_Z div))
    /\ a = round_half_even (inject_Z n * S / (inject_Z d / inject_Z div))
    /\ (Qabs (inject_Z n * S / (inject_Z d / inject_Z div) - inject_Z a) <= eps_default)%Q.
Proof. exact estimate_tuplet_within_eps_lemma. Qed.
Print Assumptions estimate_tuplet_within_eps.

(* the strict reading of O4 fails inside divisions 1..960 (known findings C11-K1, C11-K2):
   (15, 950) -> 256th and (1007, 480) -> whole 143:75 do not convert back *)
Theorem estimate_eps_refuted :
  exists d div sd v, 1 <= div <= 960 /\ 0 < d /\ estimate d div = ESome sd /\ sym_to_num sd div = Some v
                     /\ Qeq_bool v (inject_Z d) = false.
Proof. exact estimate_eps_refuted_lemma. Qed.
Print Assumptions estimate_eps_refuted.

Theorem estimate_tuplet_eps_refuted :
  exists d div sd v, 1 <= div <= 960 /\ 0 < d /\ estimate d div = ESome sd /\ sym_to_num sd div = Some v
                     /\ Qeq_bool v (inject_Z d) = false.
Proof. exact estimate_tuplet_eps_refuted_lemma. Qed.
Print Assumptions estimate_tuplet_eps_refuted.

(* the reflected tables agree with each other: SYM_DURS[i] denotes DURS[i] through LABEL_DURS and
   DOT_MULTIPLIERS, SYM_STRAIGHT_DURS[k] denotes STRAIGHT_DURS[k] (complete tables, recomputed
   from the source on every run) *)
Theorem tables_consistent : table_consistent = true /\ straight_consistent = true.
Proof. exact (conj table_consistent_ok straight_consistent_ok). Qed.
Print Assumptions tables_consistent.

(* the judgement of a sweep row (Model.C11.classify_row: 0 none, 1 converts back exactly, 2/3 the
   known inexact-within-eps hits, 4 violation) depends on d/div and the answer only; the harness
   therefore sends a row (k*d, k*div) whose answer equals that of (d, div) as a skip marker *)
Theorem sweep_row_judgement_scale_invariant : forall k d div obs,
  0 < k -> 0 < div -> classify_row (k * d) (k * div) obs = classify_row d div obs.
Proof. exact classify_row_scale_lemma. Qed.
Print Assumptions sweep_row_judgement_scale_invariant.

(* the boundary of the known finding K1 as the sweep judges it: an answer naming a table value that does not convert
   back counts as the known inexact hit only STRICTLY within 1/1000 quarter (the documented eps) of that value *)
Theorem known_table_hit_strictly_within_eps : forall d div ty dots,
  classify_row d div (Some (ty, dots, None)) = 2 ->
  exists tv, table_value (ty, dots, None) = Some tv
    /\ (Qabs (inject_Z d / inject_Z div - tv) < 1 # 1000)%Q.
Proof. exact known_table_hit_strictly_within_eps_lemma. Qed.
Print Assumptions known_table_hit_strictly_within_eps.

(* both sides inhabited: a known hit; one division off a dotted whole / a long with three dots at 960 divisions
   (1/960 quarter) is a violation and not what the model of the code answers; exactly 1/1000 away is class 5 *)
Theorem one_division_off_is_a_violation :
  classify_row 15 950 (Some ("256th"%string, 0, None)) = 2
  /\ classify_row 5761 960 (Some ("whole"%string, 1, None)) = 4
  /\ classify_row 5759 960 (Some ("whole"%string, 1, None)) = 4
  /\ classify_row 28801 960 (Some ("long"%string, 3, None)) = 4
  /\ classify_row 469 250 (Some ("quarter"%string, 3, None)) = 5
  /\ estimate 5761 960 = ENone /\ estimate 28801 960 = ENone
  /\ estimate 5760 960 = ESome ("whole"%string, 1, None).
Proof. exact one_division_off_is_a_violation_lemma. Qed.
Print Assumptions one_division_off_is_a_violation.

(* ------------------------------------------------------------------ O3 under a changing divisions value *)
(* Model.C11_Norm: tie_notes on a part whose divisions value changes (Part.set_quarter_duration);
   dm lists (time, divisions); div_at dm t is the value in force at t.  The correspondence of
   every run evaluates these definitions (chk_tie_dm). *)

Theorem tie_preserves_sounding_dm : forall bars dm c, sounding (tie_chain_dm bars dm c) = sounding c.
Proof. exact tie_sounding_dm. Qed.
Print Assumptions tie_preserves_sounding_dm.

Theorem tie_within_measure_dm : forall ms a b bars dm ps,
  Forall (fun e => 0 < snd e) dm -> chain_from a ms b -> bars = map fst ms ->
  Forall (fun p => a <= fst p /\ fst p < snd p /\ snd p <= b) ps ->
  Forall (fun q => within_one ms q /\ fst q < snd q) (tie_pieces_dm bars dm ps).
Proof. exact tie_pieces_wf_dm. Qed.
Print Assumptions tie_within_measure_dm.

Theorem tie_chain_contiguous_dm : forall bars dm ps, contiguous ps -> contiguous (tie_pieces_dm bars dm ps).
Proof. exact tie_contiguous_dm. Qed.
Print Assumptions tie_chain_contiguous_dm.

Theorem tie_chain_identity_dm : forall bars dm p v st ps,
  exists ps', tie_chain_dm bars dm (p, v, st, ps) = (p, v, st, ps').
Proof. exact tie_chain_identity_dm. Qed.
Print Assumptions tie_chain_identity_dm.

(* the symbolic durations are listed for exactly the pieces of the result *)
Theorem tie_symbols_of_the_pieces : forall bars dm ps,
  map fst (tie_pieces_sym_dm bars dm ps) = tie_pieces_dm bars dm ps.
Proof. exact tie_pieces_sym_fst. Qed.
Print Assumptions tie_symbols_of_the_pieces.

(* with one divisions value this is the model of the theorems above *)
Theorem tie_one_divisions_value : forall bars t0 div ps,
  tie_pieces_dm bars [(t0, div)] ps = tie_pieces bars div ps
  /\ forall q e, In (q, e) (tie_pieces_sym_dm bars [(t0, div)] ps) -> e = piece_sym div q.
Proof. exact tie_one_divisions_lemma. Qed.
Print Assumptions tie_one_divisions_value.

(* every symbolic duration assigned evaluates to the piece's numeric duration under the divisions in force
   at the piece's own start -- when every change of the divisions value is at a bar line (and the estimator
   hit its value exactly) *)
Theorem tie_symbolic_under_divisions_in_force : forall bars dm ps q sd,
  StronglySorted Z.lt bars -> Forall (fun e => 0 < snd e) dm ->
  Forall (fun e => In (fst e) bars) (tl dm) ->
  Forall (fun p => fst p < snd p) ps ->
  In (q, ESome sd) (tie_pieces_sym_dm bars dm ps) ->
  exact_hit (snd q - fst q) (div_at dm (fst q)) = true ->
  exists v, sym_to_num sd (div_at dm (fst q)) = Some v /\ (v == inject_Z (snd q - fst q))%Q.
Proof. exact tie_symbolic_in_force_lemma. Qed.
Print Assumptions tie_symbolic_under_divisions_in_force.

(* ... and not otherwise (known finding C11-K4): 4 divisions, 8 from time 2 on, no bar line there; the note
   (0, 10) is split at 8 and the piece (8, 10) carries "eighth" = 4 divisions at 8 per quarter *)
Theorem tie_mixed_units_refuted :
  exists bars dm ps q sd v,
    In (q, ESome sd) (tie_pieces_sym_dm bars dm ps)
    /\ exact_hit (snd q - fst q) (div_at dm (fst q)) = true
    /\ sym_to_num sd (div_at dm (fst q)) = Some v /\ Qeq_bool v (inject_Z (snd q - fst q)) = false.
Proof. exact tie_mixed_units_refuted_lemma. Qed.
Print Assumptions tie_mixed_units_refuted.

Theorem tie_outcome_dm : forall bars dm ps q e,
  Forall (fun x => 0 < snd x) dm -> StronglySorted Z.lt bars -> Forall (fun p => fst p < snd p) ps ->
  In (q, e) (tie_pieces_sym_dm bars dm ps) ->
  has_sym e = true
  \/ (In q (stage1_pieces bars ps)
      /\ ((forall cuts, find_tie_split (fst q) (snd q) (div_at dm (fst q)) <> Some (Some cuts))
          \/ estimate (snd q - fst q) (div_at dm (fst q)) = EFuel)).
Proof. exact tie_outcome_dm_lemma. Qed.
Print Assumptions tie_outcome_dm.

(* the divisions change at the bar line 16 (4 -> 8) under a note (12, 24): a quarter before the bar line, a
   quarter (8 divisions) after it *)
Example tie_divisions_change_example :
  tie_pieces_sym_dm [0; 16] [(0, 4); (16, 8)] [(12, 24)]
  = [((12, 16), ESome ("quarter"%string, 0, None)); ((16, 24), ESome ("quarter"%string, 0, None))].
Proof. exact ex_tie_dm. Qed.
Print Assumptions tie_divisions_change_example.

(* the slurs that stopped at a note stop, afterwards, at a piece that ends where that note ended *)
Theorem slur_stop_ends_with_note : forall bars dm ps j d,
  (j < List.length ps)%nat ->
  snd (nth (slur_stop_pos bars dm ps j) (tie_pieces_dm bars dm ps) (d, d)) = snd (nth j ps (d, d)).
Proof. exact slur_stop_end_lemma. Qed.
Print Assumptions slur_stop_ends_with_note.

(* ------------------------------------------------------------------ O2: sanitize_part *)

(* of a sequence of grace notes exactly those members are removed that are visited before the first
   member for which a note of its voice starts at its time -- none when the sequence has a main note *)
Theorem sanitize_grace_removed_exactly : forall notes ms lnk,
  fst (san_members notes ms lnk)
  = match lnk with
    | Some _ => []
    | None => map gm_id (take_while (fun m => is_none (cand_at notes (gm_t m) (gm_v m))) ms)
    end.
Proof. exact san_removed_spec. Qed.
Print Assumptions sanitize_grace_removed_exactly.

(* the main note afterwards: the one the sequence had, else the candidate of that first member *)
Theorem sanitize_grace_main_note : forall notes ms lnk,
  snd (san_members notes ms lnk)
  = match lnk with
    | Some n => Some n
    | None => match drop_while (fun m => is_none (cand_at notes (gm_t m) (gm_v m))) ms with
              | [] => None
              | m :: _ => cand_at notes (gm_t m) (gm_v m)
              end
    end.
Proof. exact san_link_spec. Qed.
Print Assumptions sanitize_grace_main_note.

(* a candidate is a note of that voice starting at that time *)
Theorem sanitize_candidate_is_note : forall notes t v i,
  cand_at notes t v = Some i -> exists n, In n notes /\ fst (fst n) = i /\ snd (fst n) = t /\ snd n = v.
Proof. exact cand_at_spec. Qed.
Print Assumptions sanitize_candidate_is_note.

(* sanitising keeps the note-array rows of all grace notes when every sequence has a main note or can be
   given one *)
Theorem sanitize_keeps_grace_rows : forall notes seqs,
  Forall (linkable notes) seqs -> grace_rows_after notes seqs = grace_rows seqs.
Proof. exact sanitize_grace_rows_lemma. Qed.
Print Assumptions sanitize_keeps_grace_rows.

(* ... and not otherwise (known finding C11-K3) *)
Theorem sanitize_orphan_refuted : exists notes seqs, grace_rows_after notes seqs <> grace_rows seqs.
Proof. exact sanitize_orphan_refuted_lemma. Qed.
Print Assumptions sanitize_orphan_refuted.

Example sanitize_chain_of_two : san_members [(7, 4, 1)] [(0, 4, 1); (1, 4, 1)] None = ([], Some 7).
Proof. exact sanitize_chain_of_two_example. Qed.
Print Assumptions sanitize_chain_of_two.

(* a contiguous tie chain is kept, whatever the tolerance *)
Theorem sanitize_keeps_contiguous_chains : forall tol cs,
  0 <= tol -> Forall (fun c => contiguous (snd c)) cs -> sanitize_chains tol cs = cs.
Proof. exact sanitize_chains_rows_lemma. Qed.
Print Assumptions sanitize_keeps_contiguous_chains.

Theorem sanitize_after_tie : forall tol bars dm p v st ps,
  0 <= tol -> contiguous ps ->
  sanitize_chain tol (tie_chain_dm bars dm (p, v, st, ps)) = [tie_chain_dm bars dm (p, v, st, ps)].
Proof. exact sanitize_after_tie_lemma. Qed.
Print Assumptions sanitize_after_tie.

(* afterwards: single notes, and chains whose extent is their summed duration up to the tolerance *)
Theorem sanitize_chain_result : forall tol c c',
  In c' (sanitize_chain tol c) -> (List.length (snd c') <= 1)%nat \/ chain_span_ok tol (snd c') = true.
Proof. exact sanitize_chain_result_lemma. Qed.
Print Assumptions sanitize_chain_result.

(* ------------------------------------------------------------------ O2/O3: find_tuplets *)

(* every assignment is made to k untyped notes of one duration d, k in {9, 7, 5, 3}; the type is the
   estimate of k*d/2 under the divisions at the first of them -- a value of the table without dots -- and
   the ratio k:2; whenever that estimate is exact the symbolic duration evaluates to d *)
Theorem find_tuplets_assigned_exact : forall dm ns idxs sd,
  Forall (fun e => 0 < snd e) dm -> Forall (fun n => tn_s n < tn_e n) ns ->
  In (idxs, sd) (find_tuplets dm ns) ->
  exists ty k d i0 n0,
    sd = (ty, 0, Some (Z.of_nat k, 2)) /\ In k tuplet_sizes /\ List.length idxs = k
    /\ hd_error idxs = Some i0 /\ nth_error ns i0 = Some n0
    /\ (forall i, In i idxs -> exists n, nth_error ns i = Some n /\ tn_u n = true /\ tn_e n - tn_s n = d)
    /\ (Z.of_nat k * d) mod 2 = 0
    /\ estimate (Z.of_nat k * d / 2) (div_at dm (tn_s n0)) = ESome (ty, 0, None)
    /\ (exact_hit (Z.of_nat k * d / 2) (div_at dm (tn_s n0)) = true ->
        exists v, sym_to_num sd (div_at dm (tn_s n0)) = Some v /\ (v == inject_Z d)%Q).
Proof. exact find_tuplets_assigned_lemma. Qed.
Print Assumptions find_tuplets_assigned_exact.

(* the symbolic duration a note carries afterwards comes from an assignment that names it *)
Theorem find_tuplets_assignment_named : forall asg i sd,
  assigned_to asg i = Some sd -> exists idxs, In (idxs, sd) asg /\ In i idxs.
Proof. exact assigned_to_in. Qed.
Print Assumptions find_tuplets_assignment_named.

(* notes that report a symbolic duration (all notes of the library's own classes) get nothing assigned *)
Theorem find_tuplets_noop_on_typed : forall dm ns,
  (forall n, In n ns -> tn_u n = false) -> find_tuplets dm ns = [].
Proof. exact find_tuplets_typed_lemma. Qed.
Print Assumptions find_tuplets_noop_on_typed.

Example find_tuplets_example :
  find_tuplets [(0, 6)] [(0, 4, true); (4, 8, true); (8, 12, true); (12, 18, false)]
  = [([0; 1; 2]%nat, ("quarter"%string, 0, Some (3, 2)))].
Proof. exact ex_find_tuplets. Qed.
Print Assumptions find_tuplets_example.

(* ------------------------------------------------------------------ O4: composite answers *)

Theorem composite_table_consistent : composite_consistent = true.
Proof. exact composite_consistent_ok. Qed.
Print Assumptions composite_table_consistent.

(* estimate_symbolic_duration(d, div, return_com_durations=True) answers with several tied values only
   within eps (a quarter) of a composite value, and the values sum to it (up to 1e-12) *)
Theorem estimate_composite_within_eps : forall d div sds,
  estimate_composite d div = Some sds ->
  exists c v, In c composite_durs /\ sum_sym sds 1 = Some v
    /\ (Qabs (inject_Z d / inject_Z div - c) < eps_default)%Q /\ (Qabs (v - c) <= tiny)%Q.
Proof. exact estimate_composite_lemma. Qed.
Print Assumptions estimate_composite_within_eps.

(* ------------------------------------------------------------------ state carried between calls *)
(* Model/C11_Hist.v: the divisions table (Part.set_quarter_duration), the quarter attribute every time point
   carries, and the symbolic duration a note that holds none reports (an estimate from its duration and
   start.quarter).  Histories = any list of set_quarter_duration / a point is made / a point goes / a read. *)

(* "that value takes effect until the time of the next quarter duration": after set_quarter_duration(t, q) the
   table's value is q on [t, t_next) and what it was everywhere else (an entry that would repeat the value in
   force is not recorded, an entry at t is replaced) *)
Theorem set_quarter_takes_effect_until_next : forall s t q x,
  table_ok (fst s) -> 0 <= t -> 0 <= x ->
  div_at (fst (set_quarter s t q)) x
  = if in_range t (next_time (fst (set_quarter s t q)) t) x then q else div_at (fst s) x.
Proof. exact set_quarter_div_at. Qed.
Print Assumptions set_quarter_takes_effect_until_next.

Theorem set_quarter_keeps_table_sorted : forall s t q,
  table_ok (fst s) -> 0 <= t -> table_ok (fst (set_quarter s t q)).
Proof. exact set_quarter_table_ok. Qed.
Print Assumptions set_quarter_keeps_table_sorted.

(* through EVERY history the quarter attribute of every time point is the value the table holds at its time
   (it is written when the point is made and rewritten by set_quarter_duration over exactly [t, t_next)) *)
Theorem time_points_follow_divisions_table : forall h s,
  table_ok (fst s) -> consistent s -> Forall event_ok h ->
  table_ok (fst (run s h)) /\ consistent (run s h).
Proof. exact run_ok. Qed.
Print Assumptions time_points_follow_divisions_table.

(* forall history: every read of a symbolic duration returns the estimate under the divisions the table holds
   at the note's start AT THE MOMENT OF THE READ -- observation = f (current state) *)
Theorem reads_return_current_state : forall h s,
  table_ok (fst s) -> consistent s -> Forall event_ok h -> run_obs s h = spec_obs s h.
Proof. exact run_obs_spec. Qed.
Print Assumptions reads_return_current_state.

(* reads leave no trace: the state after a history is the state after the history without its reads ... *)
Theorem reads_leave_no_trace : forall h s, run s h = run s (filter (fun e => negb (is_read e)) h).
Proof. exact run_without_reads. Qed.
Print Assumptions reads_leave_no_trace.

(* ... so a read answers the same whatever was read before it (the judgement of the harness's history stream:
   the same view of a freshly built part taken through the same edits without the earlier reads) *)
Theorem read_independent_of_earlier_reads : forall h s a b,
  observe (run s h) a b = observe (run s (filter (fun e => negb (is_read e)) h)) a b.
Proof. exact read_independent_of_reads. Qed.
Print Assumptions read_independent_of_earlier_reads.

(* not vacuous: a getter that keeps its estimate per (start, end) fails the statement on the history
   look / correct the divisions at 0 / look again (a note of 5 divisions, 10 -> 4 per quarter: "eighth" twice,
   where the code answers "eighth" and then "no single value") -- vm_compute on the witness *)
Theorem memoised_getter_refuted :
  table_ok (fst ex_state) /\ consistent ex_state /\ Forall event_ok ex_history
  /\ run_obs ex_state ex_history = spec_obs ex_state ex_history
  /\ run_obs_memo ex_state [] ex_history <> spec_obs ex_state ex_history.
Proof. exact memo_refuted_lemma. Qed.
Print Assumptions memoised_getter_refuted.

Example set_quarter_example :
  run ([(0, 12)], [(0, 12); (3, 12); (15, 12); (63, 12); (71, 12)]) [ESetQ 3 6; ESetQ 63 6; ESetQ 15 13; EAddPoint 70]
  = ([(0, 12); (3, 6); (15, 13)], [(0, 12); (3, 6); (15, 13); (63, 13); (70, 13); (71, 13)]).
Proof. exact ex_set_quarter. Qed.
Print Assumptions set_quarter_example.

(* ------------------------------------------------------------------ the operations chained (Model/C11_Pipe.v) *)
(* state = (measures, tie chains); add_measures reads the measures present as its existing ones and replaces
   them, tie_notes splits at the starts of the measures present NOW, sanitize_part inspects the chains as they
   are now; find_tuplets / fill_rests do not touch a Note of a chain. *)

(* under `pre` EVERY sequence of operations runs through: the fuel of the add_measures model suffices also
   when it reads the measures an earlier add_measures made *)
Theorem pipeline_total : forall E ops st,
  pre (pe_tsigs E) (pe_first E) (pe_last E) (fst st) -> exists st', prun E ops st = Some st'.
Proof. exact pipeline_total_lemma. Qed.
Print Assumptions pipeline_total.

(* the note array (pitch, voice, staff, onset, summed duration of every chain, in order) is the same after
   EVERY sequence of add_measures / tie_notes / sanitize_part(tie_tolerance >= 0) / find_tuplets / fill_rests,
   in any order and any number of times, on any measures -- and the chains are contiguous again *)
Theorem pipeline_keeps_note_array : forall E ops st st',
  Forall tol_ok ops -> all_contiguous (snd st) -> prun E ops st = Some st' ->
  map sounding (snd st') = map sounding (snd st) /\ all_contiguous (snd st').
Proof. exact pipeline_note_array_lemma. Qed.
Print Assumptions pipeline_keeps_note_array.

(* "afterwards": whatever ran before (anything but tie_notes, add_measures any number of times), then
   add_measures, then tie_notes, then any operations that are neither (sanitize_part with any tolerance >= 0,
   find_tuplets, fill_rests, any number of times): the measures the part holds at the end tile [first, last),
   every piece of every chain is non-empty and within ONE of them, and the note array is that of the beginning *)
Theorem pipeline_pieces_within_measures : forall E ops1 ops2 ms0 cs0,
  pre (pe_tsigs E) (pe_first E) (pe_last E) ms0 ->
  Forall (fun e => 0 < snd e) (pe_dm E) ->
  all_contiguous cs0 -> pieces_inside (pe_first E) (pe_last E) cs0 ->
  Forall tol_ok ops1 -> Forall not_tie ops1 -> Forall quiet ops2 ->
  exists ms cs, prun E (ops1 ++ PAdd :: PTie :: ops2) (ms0, cs0) = Some (ms, cs)
    /\ chain_from (pe_first E) ms (pe_last E) /\ pieces_in_measures ms cs
    /\ map sounding cs = map sounding cs0.
Proof. exact pipeline_within_lemma. Qed.
Print Assumptions pipeline_pieces_within_measures.

(* "covers exactly the stretches not already inside a measure": when the measures present already tile
   [first, last) add_measures returns exactly them -- nothing added, nothing moved (all signatures, all tilings) *)
Theorem add_measures_on_covered_timeline_adds_nothing : forall div tsigs first last ex ms,
  pre tsigs first last ex -> chain_from first ex last ->
  add_measures div tsigs first last ex = Some ms -> spans ms = ex.
Proof. exact add_measures_covered_lemma. Qed.
Print Assumptions add_measures_on_covered_timeline_adds_nothing.

(* ... so add_measures directly after add_measures changes nothing, whatever follows (the second call reads the
   measures the first one made; pipeline_example runs this situation) *)
Theorem add_measures_twice_is_add_measures_once : forall E ops st,
  pre (pe_tsigs E) (pe_first E) (pe_last E) (fst st) ->
  prun E (PAdd :: PAdd :: ops) st = prun E (PAdd :: ops) st.
Proof. exact pipeline_add_twice_lemma. Qed.
Print Assumptions add_measures_twice_is_add_measures_once.

(* discriminating: with sanitize_part comparing `>=` instead of `>` (every contiguous chain is taken apart at
   tie_tolerance 0) the note array changes on add_measures / tie_notes / sanitize_part -- vm_compute *)
Theorem pipeline_strict_tolerance_refuted :
  exists E ops st st', Forall tol_ok ops /\ all_contiguous (snd st)
    /\ prun_with sanitize_chains_ge E ops st = Some st'
    /\ map sounding (snd st') <> map sounding (snd st).
Proof. exact pipeline_ge_refuted_lemma. Qed.
Print Assumptions pipeline_strict_tolerance_refuted.

(* ... and add_measures is needed: tie_notes on measures with a gap leaves a piece outside every measure *)
Theorem pipeline_without_add_measures_refuted :
  exists ms cs, prun pex_env [PRests; PTie; PSan 0] (pex_ms0, pex_cs0) = Some (ms, cs)
    /\ pieces_in_measuresb ms cs = false.
Proof. exact pipeline_no_add_refuted_lemma. Qed.
Print Assumptions pipeline_without_add_measures_refuted.

(* hypotheses satisfiable: 4/4 then 3/4 at 32, one existing measure (16, 32), a note (3, 35) and a pre-tied chain;
   fill_rests, sanitize_part(1), add_measures, add_measures AGAIN, tie_notes, find_tuplets, sanitize_part, fill_rests *)
Example pipeline_example :
  prun pex_env (pex_ops1 ++ PAdd :: PTie :: pex_ops2) (pex_ms0, pex_cs0)
  = Some ([(0, 16); (16, 32); (32, 44); (44, 56)],
          [(60, 1, 1, [(3, 4); (4, 16); (16, 32); (32, 35)]); (64, 2, 1, [(8, 16); (16, 20); (20, 21)])])
  /\ pre (pe_tsigs pex_env) (pe_first pex_env) (pe_last pex_env) pex_ms0
  /\ Forall (fun e => 0 < snd e) (pe_dm pex_env) /\ all_contiguous pex_cs0
  /\ pieces_inside (pe_first pex_env) (pe_last pex_env) pex_cs0
  /\ Forall tol_ok pex_ops1 /\ Forall not_tie pex_ops1 /\ Forall quiet pex_ops2.
Proof. exact (conj pex_result (conj pex_pre pex_hyps)). Qed.
Print Assumptions pipeline_example.
