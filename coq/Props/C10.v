(* C10 -- signature, clef and measure maps return what is in force at the queried time.
   Statements + `exact` only; proofs live in Proofs/C10.v (lookup lemmas in Proofs/C02_lib.v).
   The model (Model/C10.v) is Part.time_signature_map / key_signature_map / clef_map / measure_map /
   measure_number_map / metrical_position_map of partitura/score.py; the same definitions are evaluated
   on every generated part by the correspondence check.
   in_force tbl t v  :=  (k, v) is the entry of tbl with the greatest start k <= t  (Model/C02.v). *)
From PV Require Import Lib.Base Lib.Round Model.C02 Model.C10 Model.C10_Impl Gen.C10_Tab Proofs.C02_lib Model.C10_Hist Model.C10_Obj Model.C10_NA Proofs.C10 Proofs.C10_Impl Proofs.C10_Bar Proofs.C10_Hist Proofs.C10_Obj Proofs.C10_NA.
From Coq Require Import QArith.
#[local] Open Scope Z_scope.

(* --- the lookup shared by the three "previous" maps: latest element starting at or before t,
   the first element before it, the default when there is none *)
Theorem lookup_spec : forall (A : Type) first (tbl : list (Z * A)) d t, keys_incr tbl ->
  (tbl = [] -> lookup_bf first tbl d t = d) /\
  (forall v, in_force tbl t v -> lookup_bf first tbl d t = v) /\
  (forall t0 v0 r, tbl = (t0, v0) :: r -> (forall k v, In (k, v) tbl -> t < k) -> lookup_bf first tbl d t = v0).
Proof. exact @Proofs.C10.lookup_bf_spec. Qed.
Print Assumptions lookup_spec.

(* the scan used by every map returns the entry in force (unique for strictly increasing starts) *)
Theorem prev_lookup_spec : forall (A : Type) (tbl : list (Z * A)) t d k v,
  keys_incr tbl -> In (k, v) tbl -> k <= t -> in_force tbl t (prev_lookup tbl t d).
Proof. exact @Proofs.C02_lib.prev_lookup_in_force. Qed.
Print Assumptions prev_lookup_spec.

Theorem in_force_unique : forall (A : Type) (tbl : list (Z * A)) t v1 v2,
  keys_incr tbl -> in_force tbl t v1 -> in_force tbl t v2 -> v1 = v2.
Proof. exact @Proofs.C02_lib.in_force_unique. Qed.
Print Assumptions in_force_unique.

(* --- O1 time signature (beats, beat_type, musical_beats); 4/4 when there is none *)
Theorem ts_map_spec : forall cp t, keys_incr (ts_tbl cp) ->
  (ts_tbl cp = [] -> ts_map cp t = (4, 4, 4)) /\
  (forall v, in_force (ts_tbl cp) t v -> ts_map cp t = v) /\
  (forall t0 v0 r, ts_tbl cp = (t0, v0) :: r -> (forall k v, In (k, v) (ts_tbl cp) -> t < k) -> ts_map cp t = v0).
Proof. exact Proofs.C10.ts_map_spec. Qed.
Print Assumptions ts_map_spec.

(* key signature (fifths, mode); C major when there is none *)
Theorem ks_map_spec : forall cp t, keys_incr (c_kss cp) ->
  (c_kss cp = [] -> ks_map cp t = (0, 1)) /\
  (forall v, in_force (c_kss cp) t v -> ks_map cp t = v) /\
  (forall t0 v0 r, c_kss cp = (t0, v0) :: r -> (forall k v, In (k, v) (c_kss cp) -> t < k) -> ks_map cp t = v0).
Proof. exact Proofs.C10.ks_map_spec. Qed.
Print Assumptions ks_map_spec.

(* clefs, per staff: a staff without clef gives the "none" clef (s, 6, 0, 0) *)
Theorem clef_map_spec : forall cp s t, keys_incr (staff_tbl cp s) ->
  (staff_tbl cp s = [] -> clef_staff cp s t = (s, 6, 0, 0)) /\
  (forall v, in_force (staff_tbl cp s) t v -> clef_staff cp s t = v) /\
  (forall t0 v0 r, staff_tbl cp s = (t0, v0) :: r -> (forall k v, In (k, v) (staff_tbl cp s) -> t < k) -> clef_staff cp s t = v0).
Proof. exact Proofs.C10.clef_staff_spec. Qed.
Print Assumptions clef_map_spec.

Theorem clef_map_rows : forall cp t,
  List.length (clef_map cp t) = Z.to_nat (c_nstaves cp) /\
  forall s, 1 <= s <= c_nstaves cp -> nth (Z.to_nat (s - 1)) (clef_map cp t) (clef_staff cp 0 t) = clef_staff cp s t.
Proof. exact (fun cp t => conj (clef_map_length cp t) (clef_map_row cp t)). Qed.
Print Assumptions clef_map_rows.

Theorem staff_table : forall cp s k st sg ln oc,
  In (k, (st, sg, ln, oc)) (staff_tbl cp s) <-> In (k, (st, sg, ln, oc)) (c_clefs cp) /\ st = s.
Proof. exact Proofs.C10.staff_tbl_In. Qed.
Print Assumptions staff_table.

(* --- O2 measures.  The table the maps look into is the list of measures, except that a first
   measure shorter than beats * divisions-per-beat (both taken at its start) starts a full bar
   before its end (pickup treated as ending a full bar) *)
Theorem measure_table : forall cp,
  meas_tbl cp = c_meas cp \/
  exists s0 x e0 n0 r fb, c_meas cp = (s0, (x, e0, n0)) :: r /\ full_bar cp s0 = Some fb /\
    (inject_Z (e0 - s0) < fb)%Q /\
    meas_tbl cp = (e0 - round_half_even fb, (e0 - round_half_even fb, e0, n0)) :: r.
Proof. exact Proofs.C10.meas_tbl_cases. Qed.
Print Assumptions measure_table.

Theorem measure_maps_spec : forall cp t s e n, keys_incr (meas_tbl cp) ->
  in_force (meas_tbl cp) t (s, e, n) ->
  measure_map cp t = Some (s, e) /\ measure_number_map cp t = n.
Proof. exact Proofs.C10.measure_maps_spec. Qed.
Print Assumptions measure_maps_spec.

(* the length the pickup is extended to: the rounded full bar, exactly when the first measure is shorter *)
Theorem pickup_length : forall cp len,
  pickup_len cp = Some len <->
  exists s0 x e0 n0 r fb, c_meas cp = (s0, (x, e0, n0)) :: r /\ full_bar cp s0 = Some fb /\
    (inject_Z (e0 - s0) < fb)%Q /\ len = round_half_even fb.
Proof. exact Proofs.C10.pickup_len_cases. Qed.
Print Assumptions pickup_length.

(* well-formed (each measure non-empty, keyed by its start, none starting before the previous one ends) and
   contiguous lists stay so under the pickup correction *)
Theorem measure_table_wf : forall cp,
  (meas_wf (c_meas cp) -> meas_wf (meas_tbl cp)) /\ (meas_contig (c_meas cp) -> meas_contig (meas_tbl cp)).
Proof. exact (fun cp => conj (meas_tbl_wf cp) (meas_tbl_contig cp)). Qed.
Print Assumptions measure_table_wf.

(* the measure CONTAINING t: its extent and its number *)
Theorem measure_containing : forall cp t k s e n, meas_wf (meas_tbl cp) ->
  In (k, (s, e, n)) (meas_tbl cp) -> s <= t < e ->
  measure_map cp t = Some (s, e) /\ measure_number_map cp t = n.
Proof. exact Proofs.C10.measure_containing. Qed.
Print Assumptions measure_containing.

(* ... and the distance of t from its start together with its length (two or more contiguous measures) *)
Theorem metpos_containing : forall cp t k s e n m1 m2 r, meas_tbl cp = m1 :: m2 :: r ->
  meas_wf (meas_tbl cp) -> meas_contig (meas_tbl cp) ->
  In (k, (s, e, n)) (meas_tbl cp) -> s <= t < e ->
  metpos cp t = (t - s, e - s).
Proof. exact Proofs.C10.metpos_containing. Qed.
Print Assumptions metpos_containing.

(* the statement on the measures AS WRITTEN.  A measure after the first: its own extent and number, position
   counted from its own start, whatever happened to the first measure *)
Theorem later_measure_spec : forall cp t m0 r k s e n, c_meas cp = m0 :: r -> meas_wf (c_meas cp) ->
  In (k, (s, e, n)) r -> s <= t < e ->
  measure_map cp t = Some (s, e) /\ measure_number_map cp t = n /\
  (meas_contig (c_meas cp) -> metpos cp t = (t - s, e - s)).
Proof. exact Proofs.C10.later_measure_spec. Qed.
Print Assumptions later_measure_spec.

(* the first measure: as written unless it is shorter than a full bar; a pickup is treated as ending a full
   bar: it starts len = round(beats * divisions per beat) before its end, which is at or before its written start *)
Theorem first_measure_spec : forall cp t s0 e0 n0 r, c_meas cp = (s0, (s0, e0, n0)) :: r -> meas_wf (c_meas cp) ->
  s0 <= t < e0 ->
  (pickup_len cp = None ->
     measure_map cp t = Some (s0, e0) /\ measure_number_map cp t = n0 /\
     (r <> [] -> meas_contig (c_meas cp) -> metpos cp t = (t - s0, e0 - s0))) /\
  (forall len, pickup_len cp = Some len ->
     e0 - s0 <= len /\
     measure_map cp t = Some (e0 - len, e0) /\ measure_number_map cp t = n0 /\
     (r <> [] -> meas_contig (c_meas cp) -> metpos cp t = (t - (e0 - len), len))).
Proof. exact Proofs.C10.first_measure_spec. Qed.
Print Assumptions first_measure_spec.

(* measure numbers as the map uses them: a numbered measure (0, negative, repeated numbers included) keeps its
   number; an un-numbered one takes the number as written of the measure before it *)
Theorem measure_numbers_spec : forall l i,
  List.length (eff_nums l) = List.length l /\
  (forall n, nth_error l i = Some (Some n) -> nth_error (eff_nums l) i = Some (Some n)) /\
  (forall j y, i = S j -> nth_error l i = Some None -> nth_error l j = Some y ->
     nth_error (eff_nums l) i = Some y).
Proof. exact Proofs.C10.measure_numbers_spec. Qed.
Print Assumptions measure_numbers_spec.

(* metrical position = (distance from the barline in force, distance to the next barline) *)
Theorem metpos_spec : forall cp t b d m1 m2 r, meas_tbl cp = m1 :: m2 :: r ->
  keys_incr (bar_tbl (barlines cp)) -> in_force (bar_tbl (barlines cp)) t (b, d) ->
  metpos cp t = (t - b, d).
Proof. exact Proofs.C10.metpos_spec. Qed.
Print Assumptions metpos_spec.

Theorem bar_table : forall bl b b' d, In (b, (b', d)) (bar_tbl bl) ->
  b' = b /\ exists l1 b1 l2, bl = l1 ++ b :: b1 :: l2 /\ d = b1 - b.
Proof. exact Proofs.C10.bar_tbl_In. Qed.
Print Assumptions bar_table.

(* fewer than two measures: (0, 0) everywhere -- so the full statement fails for a single measure
   (known finding C10-K1, documented upstream by a warning) *)
Theorem metpos_few : forall cp t, (List.length (meas_tbl cp) < 2)%nat -> metpos cp t = (0, 0).
Proof. exact Proofs.C10.metpos_few. Qed.
Print Assumptions metpos_few.

Theorem metpos_single_measure_refuted :
  exists cp t s e n, c_meas cp = [(s, (s, e, n))] /\ s <= t < e /\ metpos cp t <> (t - s, e - s).
Proof. exact Proofs.C10.metpos_single_measure_refuted. Qed.
Print Assumptions metpos_single_measure_refuted.

(* --- O3 the optional note-array / rest-array columns are the map values at the onset; is_downbeat = 1 exactly
   at position 0 of the bar *)
Theorem na_columns_spec : forall cp t,
  na_ts cp t = ts_map cp t /\ na_ks cp t = ks_map cp t /\
  (let '(down, pos, len) := na_metrical cp t in (pos, len) = metpos cp t /\ (down = 1 <-> pos = 0) /\ (down = 0 \/ down = 1)).
Proof. exact Proofs.C10.na_columns_spec. Qed.
Print Assumptions na_columns_spec.

(* a table with a single element is constant (interp1d's single-sample branch) *)
Theorem lookup_single : forall (A : Type) first (t0 : Z) (v0 d : A) t, lookup_bf first [(t0, v0)] d t = v0.
Proof. exact @Proofs.C10.lookup_single. Qed.
Print Assumptions lookup_single.

(* --- codes (tables regenerated from the source on every run) *)
Theorem impl_mode_codes : forall sp, 0 <= sp <= 5 ->
  In (sp, Some (mode_code sp), Some (mode_name (mode_code sp))) tab_mode.
Proof. exact Proofs.C10.impl_mode_codes. Qed.
Print Assumptions impl_mode_codes.

Theorem impl_clef_codes : forall i s, nth_error clef_signs i = Some s ->
  In (s, Some (Z.of_nat i), Some s) tab_clef.
Proof. exact Proofs.C10.impl_clef_codes. Qed.
Print Assumptions impl_clef_codes.

(* --- a worked part: pickup of one quarter in 4/4, two key signatures, a clef change, a staff without clef *)
Theorem example_part :
  measure_map ex10 2 = Some (-12, 4) /\ measure_number_map ex10 2 = Some 0 /\ metpos ex10 2 = (14, 16) /\
  measure_map ex10 25 = Some (20, 36) /\ metpos ex10 25 = (5, 16) /\
  ts_map ex10 25 = (4, 4, 4) /\ ks_map ex10 19 = (-3, -1) /\ ks_map ex10 20 = (2, 1) /\
  clef_map ex10 25 = [(1, 1, 4, 0); (2, 6, 0, 0)].
Proof. exact Proofs.C10.ex10_values. Qed.
Print Assumptions example_part.

(* the hypotheses of the measure theorems hold for it (pickup extended to 16 divisions; numbers 0, 1, 1) *)
Theorem example_part_hyps :
  meas_wf (c_meas ex10) /\ meas_contig (c_meas ex10) /\ pickup_len ex10 = Some 16 /\
  measure_number_map ex10 25 = Some 1 /\ measure_number_map ex10 0 = Some 0.
Proof. exact Proofs.C10.ex10_hyps. Qed.
Print Assumptions example_part_hyps.

Theorem measure_numbers_example :
  eff_nums [Some 0; None; Some 7; None; None] = [Some 0; Some 0; Some 7; Some 7; None] /\
  eff_nums [None; Some 3; Some (-2)] = [Some (-2); Some 3; Some (-2)].
Proof. exact Proofs.C10.eff_nums_example. Qed.
Print Assumptions measure_numbers_example.

(* ======================================================================================================
   The maps AS THE CODE BUILDS THEM (Model/C10_Impl.v: the interp1d wrapper of utils/generic.py with its
   single-sample branch, the sample tables with default rows / doubled single rows / back-fill row, the clef
   collator, the barline lookups and the Iterable dispatch of metrical_position_map, compute_number_of_staves).
   query = QScalar t | QVec positions;  result = RScalar v | RVec (one v per position);  None = nan;
   lift f q = the result with value f t at every position t of q. *)

(* --- the wrapper: for EVERY sample table, a vector query (any length -- also one position --, any order) returns
   one value per position, the value of the scalar query there; a scalar query returns one value *)
Theorem wrapper_scalar_vector : forall (A : Type) (tbl : list (Z * A)),
  (forall l, wrap_prev tbl (QVec l) = RVec (map (scalar_of (wrap_prev tbl)) l)) /\
  (forall t, exists a, wrap_prev tbl (QScalar t) = RScalar a).
Proof. exact @Proofs.C10_Impl.wrap_prev_vector. Qed.
Print Assumptions wrapper_scalar_vector.

(* --- "scalar and array queries agree", all six maps, every part, every vector of positions *)
Theorem query_shapes_agree : forall cp l,
  impl_ts cp (QVec l) = RVec (map (scalar_of (impl_ts cp)) l) /\
  impl_ks cp (QVec l) = RVec (map (scalar_of (impl_ks cp)) l) /\
  impl_clef cp (QVec l) =
    map (fun s => RVec (map (scalar_of (wrap_prev (clef_rows cp s))) l)) (zrange 1 (Z.to_nat (c_nstaves cp))) /\
  impl_measure cp (QVec l) = RVec (map (scalar_of (impl_measure cp)) l) /\
  impl_number cp (QVec l) = RVec (map (scalar_of (impl_number cp)) l) /\
  impl_metpos cp (QVec l) = RVec (map (scalar_of (impl_metpos cp)) l).
Proof. exact Proofs.C10_Impl.query_shapes_agree. Qed.
Print Assumptions query_shapes_agree.

(* --- the tables as built + the wrapper compute the lookup maps of the theorems above (ts_map_spec, ks_map_spec,
   clef_map_spec, ...), for scalar and vector queries on the timeline (positions at or after the first point) *)
Theorem impl_ts_spec : forall cp q, q_ge (c_first cp) q -> impl_ts cp q = lift (ts_map cp) q.
Proof. exact Proofs.C10_Impl.impl_ts_spec. Qed.
Print Assumptions impl_ts_spec.

Theorem impl_ks_spec : forall cp q, q_ge (c_first cp) q -> impl_ks cp q = lift (ks_map cp) q.
Proof. exact Proofs.C10_Impl.impl_ks_spec. Qed.
Print Assumptions impl_ks_spec.

(* one result per staff 1..number_of_staves, each the lookup in that staff's clefs *)
Theorem impl_clef_spec : forall cp q, q_ge (c_first cp) q ->
  impl_clef cp q = map (fun s => lift (clef_staff cp s) q) (zrange 1 (Z.to_nat (c_nstaves cp))).
Proof. exact Proofs.C10_Impl.impl_clef_spec. Qed.
Print Assumptions impl_clef_spec.

Theorem impl_clef_scalar : forall cp t, c_first cp <= t ->
  impl_clef cp (QScalar t) = map (fun row => RScalar (Some row)) (clef_map cp t).
Proof. exact Proofs.C10_Impl.impl_clef_scalar. Qed.
Print Assumptions impl_clef_scalar.

(* measure maps: positions at or after the (corrected) start of the first measure; before it scipy gives nan *)
Theorem impl_measure_spec : forall cp q k0 v0 r, meas_tbl cp = (k0, v0) :: r -> q_ge k0 q ->
  impl_measure cp q = lift_opt (measure_map cp) q.
Proof. exact Proofs.C10_Impl.impl_measure_spec. Qed.
Print Assumptions impl_measure_spec.

Theorem impl_number_spec : forall cp q k0 v0 r, meas_tbl cp = (k0, v0) :: r -> q_ge k0 q ->
  impl_number cp q = lift (measure_number_map cp) q.
Proof. exact Proofs.C10_Impl.impl_number_spec. Qed.
Print Assumptions impl_number_spec.

(* metrical position: the barlines the code looks up through measure_map at the written measure starts are the
   barlines of the model, PPoly + np.diff + the Iterable dispatch give (t - barline, bar length) *)
Theorem impl_metpos_spec : forall cp q k0 v0 r, meas_wf (c_meas cp) -> meas_tbl cp = (k0, v0) :: r -> q_ge k0 q ->
  impl_metpos cp q = lift (metpos cp) q.
Proof. exact Proofs.C10_Impl.impl_metpos_spec. Qed.
Print Assumptions impl_metpos_spec.

(* --- THE STATEMENT AT CODE LEVEL: what the code (tables as built + wrapper) returns for a scalar query t on the
   timeline -- the value of the latest element starting at or before t, of the first one before it, the default *)
Theorem code_ts_in_force : forall cp t, keys_incr (ts_tbl cp) -> c_first cp <= t ->
  (ts_tbl cp = [] -> impl_ts cp (QScalar t) = RScalar (Some (4, 4, 4))) /\
  (forall v, in_force (ts_tbl cp) t v -> impl_ts cp (QScalar t) = RScalar (Some v)) /\
  (forall t0 v0 r, ts_tbl cp = (t0, v0) :: r -> t < t0 -> impl_ts cp (QScalar t) = RScalar (Some v0)).
Proof. exact Proofs.C10_Impl.code_ts_in_force. Qed.
Print Assumptions code_ts_in_force.

Theorem code_ks_in_force : forall cp t, keys_incr (c_kss cp) -> c_first cp <= t ->
  (c_kss cp = [] -> impl_ks cp (QScalar t) = RScalar (Some (0, 1))) /\
  (forall v, in_force (c_kss cp) t v -> impl_ks cp (QScalar t) = RScalar (Some v)) /\
  (forall t0 v0 r, c_kss cp = (t0, v0) :: r -> t < t0 -> impl_ks cp (QScalar t) = RScalar (Some v0)).
Proof. exact Proofs.C10_Impl.code_ks_in_force. Qed.
Print Assumptions code_ks_in_force.

(* row s - 1 of the stacked clef_map result is staff s; a staff without clef gives the "none" clef *)
Theorem code_clef_in_force : forall cp s t, keys_incr (staff_tbl cp s) -> c_first cp <= t -> 1 <= s <= c_nstaves cp ->
  let row := nth (Z.to_nat (s - 1)) (impl_clef cp (QScalar t)) (RScalar None) in
  (staff_tbl cp s = [] -> row = RScalar (Some (s, 6, 0, 0))) /\
  (forall v, in_force (staff_tbl cp s) t v -> row = RScalar (Some v)) /\
  (forall t0 v0 r, staff_tbl cp s = (t0, v0) :: r -> t < t0 -> row = RScalar (Some v0)).
Proof. exact Proofs.C10_Impl.code_clef_in_force. Qed.
Print Assumptions code_clef_in_force.

(* extent, number and position of the measure CONTAINING t (rows after the pickup correction; first_measure_spec /
   later_measure_spec say which rows those are) *)
Theorem code_measure_containing : forall cp t k s e n, meas_wf (c_meas cp) ->
  In (k, (s, e, n)) (meas_tbl cp) -> s <= t < e ->
  impl_measure cp (QScalar t) = RScalar (Some (s, e)) /\
  impl_number cp (QScalar t) = RScalar (Some n) /\
  ((2 <= List.length (c_meas cp))%nat -> meas_contig (c_meas cp) ->
   impl_metpos cp (QScalar t) = RScalar (Some (t - s, e - s))).
Proof. exact Proofs.C10_Impl.code_measure_containing. Qed.
Print Assumptions code_measure_containing.

(* --- number_of_staves: at least 1, at least every staff number carried by a note/rest, clef, direction or words
   element, and attained by one of them (or 1) -- so clef_map has a row for every staff anything is written on *)
Theorem nstaves_spec : forall notes clefs dirs words,
  let n := nstaves_impl notes clefs dirs words in
  1 <= n /\ (forall s, In (Some s) (notes ++ clefs ++ dirs ++ words) -> s <= n) /\
  (n = 1 \/ In (Some n) (notes ++ clefs ++ dirs ++ words)).
Proof. exact Proofs.C10_Impl.nstaves_spec. Qed.
Print Assumptions nstaves_spec.

(* --- "a pickup is treated as ending a FULL BAR": full_bar (the length pickup_length / first_measure_spec round)
   is the number of beats of the signature in force (musical beats in musical-beat mode) times the length of
   the first beat after s0, whenever that beat is a whole number d of divisions inside the timeline;
   beats_between is C02's exact beat count (sum over the divisions of beat_type/4 (x musical/notated beats) / q) *)
Theorem full_bar_whole_beat : forall cp s0 d, wf (c_part cp) ->
  p_first (c_part cp) <= s0 -> 0 <= d -> s0 + d <= p_last (c_part cp) ->
  (beats_between (bmode cp) (c_part cp) s0 (s0 + d) == 1)%Q ->
  exists fb, full_bar cp s0 = Some fb /\ (fb == inject_Z (bar_beats cp s0) * inject_Z d)%Q.
Proof. exact Proofs.C10_Bar.full_bar_whole_beat. Qed.
Print Assumptions full_bar_whole_beat.

Theorem full_bar_constant_meter : forall cp s0 d q f, wf (c_part cp) ->
  p_first (c_part cp) <= s0 -> 0 <= d -> s0 + d <= p_last (c_part cp) -> 0 < q ->
  (forall k, s0 <= k < s0 + d -> div_at (c_part cp) k = q /\ (bt_at (bmode cp) (c_part cp) k == f)%Q) ->
  (inject_Z d / inject_Z q * f == 1)%Q ->
  exists fb, full_bar cp s0 = Some fb /\ (fb == inject_Z (bar_beats cp s0) * inject_Z d)%Q.
Proof. exact Proofs.C10_Bar.full_bar_constant_meter. Qed.
Print Assumptions full_bar_constant_meter.

(* --- non-vacuity: the worked part queried with a permuted vector with a repeated position, one-element vectors,
   a single-measure part through the single-sample branch, staff numbers with gaps and missing staffs;
   its hypotheses for full_bar_whole_beat hold and give 4 x 4 = 16 divisions *)
Theorem example_queries :
  impl_ts ex10 (QVec [25; 0; 25]) = RVec [Some (4, 4, 4); Some (4, 4, 4); Some (4, 4, 4)] /\
  impl_ks ex10 (QVec [20; 19]) = RVec [Some (2, 1); Some (-3, -1)] /\
  impl_ks ex10 (QScalar 19) = RScalar (Some (-3, -1)) /\
  impl_clef ex10 (QVec [25]) = [RVec [Some (1, 1, 4, 0)]; RVec [Some (2, 6, 0, 0)]] /\
  impl_measure ex10 (QVec [2; 25]) = RVec [Some (-12, 4); Some (20, 36)] /\
  impl_number ex10 (QVec [25]) = RVec [Some (Some 1)] /\
  impl_metpos ex10 (QVec [25; 2]) = RVec [Some (5, 16); Some (14, 16)] /\
  impl_metpos ex10 (QScalar 2) = RScalar (Some (14, 16)) /\
  impl_measure ex10_single (QVec [3]) = RVec [Some (0, 16)] /\
  nstaves_impl [Some 1; None] [Some 2] [] [Some 4; None] = 4.
Proof. exact Proofs.C10_Impl.ex10_queries. Qed.
Print Assumptions example_queries.

Theorem example_full_bar :
  wf (c_part ex10) /\ (beats_between (bmode ex10) (c_part ex10) 0 (0 + 4) == 1)%Q /\ bar_beats ex10 0 = 4 /\
  exists fb, full_bar ex10 0 = Some fb /\ (fb == 16)%Q.
Proof. exact Proofs.C10_Bar.ex10_full_bar. Qed.
Print Assumptions example_full_bar.

(* --- histories (state carried between calls; Model/C10_Hist.v): a caller keeps map objects, queries them with scalars
   and vectors, overwrites the arrays it got back in place, edits the part, requests maps again.  For ANY such history
   (rows = the table built from the part on access: ts_rows, ks_rows, meas_xy/num_xy of meas_tbl, a staff's clef_rows)
   the observations are those of `hspec`: a query through map object i = the wrapper over the table of the part as it
   was when object i was requested -- earlier queries, writes into returned arrays, other map objects and later edits
   do not matter *)
Theorem history_spec : forall (P A : Type) (rows : P -> list (Z * A)) p ops,
  hrun rows false false (hinit p) ops = hspec rows p [] ops.
Proof. exact @Proofs.C10_Hist.history_spec. Qed.
Print Assumptions history_spec.

(* observation = f (current state): after any history, the map requested now answers for the part as it is now *)
Theorem history_current : forall (P A : Type) (rows : P -> list (Z * A)) p ops q,
  hrun rows false false (hinit p) (ops ++ [HGet; HQuery (hgets ops) q]) =
  hrun rows false false (hinit p) ops ++ [wrap_prev (rows (hcur p ops)) q].
Proof. exact @Proofs.C10_Hist.history_current. Qed.
Print Assumptions history_current.

Theorem history_ks_current : forall cp ops q, q_ge (c_first (hcur cp ops)) q ->
  hrun ks_rows false false (hinit cp) (ops ++ [HGet; HQuery (hgets ops) q]) =
  hrun ks_rows false false (hinit cp) ops ++ [lift (ks_map (hcur cp ops)) q].
Proof. exact Proofs.C10_Hist.history_ks_current. Qed.
Print Assumptions history_ks_current.

Theorem history_ts_current : forall cp ops q, q_ge (c_first (hcur cp ops)) q ->
  hrun ts_rows false false (hinit cp) (ops ++ [HGet; HQuery (hgets ops) q]) =
  hrun ts_rows false false (hinit cp) ops ++ [lift (ts_map (hcur cp ops)) q].
Proof. exact Proofs.C10_Hist.history_ts_current. Qed.
Print Assumptions history_ts_current.

(* the two ways such code goes wrong are expressible and refuted: the scalar result of the single-sample branch as a
   writable view of the map object's sample row (alias), the table cached on the part at the first access (memo) *)
Theorem history_alias_refuted :
  let ops := [HGet; HQuery 0 (QScalar 0); HWrite 0 (-1, 1); HQuery 0 (QScalar 5); HQuery 0 (QVec [7; 2])] in
  hrun ks_rows false true (hinit ex10_oneks) ops =
    [RScalar (Some (-3, -1)); RScalar (Some (-1, 1)); RVec [Some (-1, 1); Some (-1, 1)]] /\
  hspec ks_rows ex10_oneks [] ops =
    [RScalar (Some (-3, -1)); RScalar (Some (-3, -1)); RVec [Some (-3, -1); Some (-3, -1)]] /\
  hrun ks_rows false false (hinit ex10_oneks) ops = hspec ks_rows ex10_oneks [] ops.
Proof. exact Proofs.C10_Hist.history_alias_refuted. Qed.
Print Assumptions history_alias_refuted.

Theorem history_memo_refuted :
  let ops := [HGet; HQuery 0 (QScalar 3); HEdit ex10_otherks; HGet; HQuery 1 (QScalar 3)] in
  hrun ks_rows true false (hinit ex10_oneks) ops = [RScalar (Some (-3, -1)); RScalar (Some (-3, -1))] /\
  hspec ks_rows ex10_oneks [] ops = [RScalar (Some (-3, -1)); RScalar (Some (4, 1))] /\
  hrun ks_rows false false (hinit ex10_oneks) ops = hspec ks_rows ex10_oneks [] ops.
Proof. exact Proofs.C10_Hist.history_memo_refuted. Qed.
Print Assumptions history_memo_refuted.

(* ======================================================================================================
   HISTORIES OF THE COMPOSITE MAP OBJECTS (Model/C10_Obj.v): clef_map's collator (captures the list of per-staff
   interpolators, hence the number of staves) and metrical_position_map's int_interp1d (captures the barlines, or nothing
   with fewer than two measures).  build = what the access computes from the part, ans = one call of the closure, wr = the
   caller's in-place write; returned arrays live in output buffers.  For ANY history of edits, map requests, calls and writes:
   (1) a call through map object i returns what the closure built from the part as it was when object i was requested
       returns; (2) the arrays the caller holds at the end are independent values: array k = the result of call k with the
       caller's own writes into k applied (ospec_held) -- no later call, write elsewhere, edit or other map object changes it *)
Theorem obj_history_spec : forall (P T R V : Type) (build : P -> T) (ans : T -> query -> R) (wr : V -> R -> R)
    (same_shape : R -> R -> bool) p ops,
  orun build ans wr same_shape false false (oinit p) ops = ospec_obs build ans p [] ops /\
  oheld (oend build ans wr same_shape false false (oinit p) ops) = map Some (ospec_held build ans wr p [] [] ops).
Proof. exact @Proofs.C10_Obj.obj_history_spec. Qed.
Print Assumptions obj_history_spec.

(* observation = f (current state): a map requested now and called now = the closure built from the part as it is now *)
Theorem obj_history_current : forall (P T R V : Type) (build : P -> T) (ans : T -> query -> R) (wr : V -> R -> R)
    (same_shape : R -> R -> bool) p ops q,
  orun build ans wr same_shape false false (oinit p) (ops ++ [OGet; OQuery (ogets ops) q]) =
  orun build ans wr same_shape false false (oinit p) ops ++ [ans (build (ocur p ops)) q].
Proof. exact @Proofs.C10_Obj.obj_history_current. Qed.
Print Assumptions obj_history_current.

(* without writes by the caller every held array is, at the end, exactly what its call returned *)
Theorem obj_held_unchanged : forall (P T R V : Type) (build : P -> T) (ans : T -> query -> R) (wr : V -> R -> R)
    (same_shape : R -> R -> bool) p ops, no_writes ops = true ->
  oheld (oend build ans wr same_shape false false (oinit p) ops) =
  map Some (orun build ans wr same_shape false false (oinit p) ops).
Proof. exact @Proofs.C10_Obj.obj_held_unchanged. Qed.
Print Assumptions obj_held_unchanged.

(* composed with impl_clef_spec / impl_metpos_spec: after ANY history the clef map requested now has one result per staff
   1..number_of_staves of the part AS IT IS NOW, each the clef in force on that staff; the metrical position map requested
   now gives (t - barline, bar length) of the part as it is now -- scalar and vector queries *)
Theorem clef_history_current : forall cp ops q, q_ge (c_first (ocur cp ops)) q ->
  orun clef_build clef_ans clef_wr clef_shape false false (oinit cp) (ops ++ [OGet; OQuery (ogets ops) q]) =
  orun clef_build clef_ans clef_wr clef_shape false false (oinit cp) ops ++
    [map (fun s => lift (clef_staff (ocur cp ops) s) q) (zrange 1 (Z.to_nat (c_nstaves (ocur cp ops))))].
Proof. exact Proofs.C10_Obj.clef_history_current. Qed.
Print Assumptions clef_history_current.

Theorem metpos_history_current : forall cp ops q k0 v0 r, meas_wf (c_meas (ocur cp ops)) ->
  meas_tbl (ocur cp ops) = (k0, v0) :: r -> q_ge k0 q ->
  orun mp_build mp_ans mp_wr res_same_shape false false (oinit cp) (ops ++ [OGet; OQuery (ogets ops) q]) =
  orun mp_build mp_ans mp_wr res_same_shape false false (oinit cp) ops ++ [lift (metpos (ocur cp ops)) q].
Proof. exact Proofs.C10_Obj.metpos_history_current. Qed.
Print Assumptions metpos_history_current.

(* non-vacuity: a history with every kind of step on the worked part *)
Theorem obj_history_example :
  let ops := [OGet; OQuery 0 (QScalar 2); OQuery 0 (QVec [25; 2]); OWrite 0 (-7); OEdit ex10_3staves; OGet;
              OQuery 1 (QScalar 2); OQuery 0 (QScalar 2)] in
  orun clef_build clef_ans clef_wr clef_shape false false (oinit ex10) ops =
    [[RScalar (Some (1, 0, 2, 0)); RScalar (Some (2, 6, 0, 0))];
     [RVec [Some (1, 1, 4, 0); Some (1, 0, 2, 0)]; RVec [Some (2, 6, 0, 0); Some (2, 6, 0, 0)]];
     [RScalar (Some (1, 0, 2, 0)); RScalar (Some (2, 6, 0, 0)); RScalar (Some (3, 6, 0, 0))];
     [RScalar (Some (1, 0, 2, 0)); RScalar (Some (2, 6, 0, 0))]] /\
  nth 0 (oheld (oend clef_build clef_ans clef_wr clef_shape false false (oinit ex10) ops)) None =
    Some [RScalar (Some (-7, -7, -7, -7)); RScalar (Some (-7, -7, -7, -7))] /\
  orun mp_build mp_ans mp_wr res_same_shape false false (oinit ex10) [OGet; OQuery 0 (QScalar 2); OQuery 0 (QVec [25; 2])] =
    [RScalar (Some (14, 16)); RVec [Some (5, 16); Some (14, 16)]].
Proof. exact Proofs.C10_Obj.obj_history_example. Qed.
Print Assumptions obj_history_example.

(* the two ways such code goes wrong are expressible and refuted: one output buffer per result shape handed out again
   (share: the second scalar call overwrites the array the caller got from the first), the captured state cached on the
   part (memo: still two rows after a third staff appeared) *)
Theorem obj_share_refuted :
  let ops := [OGet; OQuery 0 (QScalar 2); OQuery 0 (QScalar 25)] in
  no_writes ops = true /\
  orun clef_build clef_ans clef_wr clef_shape false true (oinit ex10) ops =
    [[RScalar (Some (1, 0, 2, 0)); RScalar (Some (2, 6, 0, 0))]; [RScalar (Some (1, 1, 4, 0)); RScalar (Some (2, 6, 0, 0))]] /\
  oheld (oend clef_build clef_ans clef_wr clef_shape false true (oinit ex10) ops) =
    [Some [RScalar (Some (1, 1, 4, 0)); RScalar (Some (2, 6, 0, 0))]; Some [RScalar (Some (1, 1, 4, 0)); RScalar (Some (2, 6, 0, 0))]] /\
  oheld (oend clef_build clef_ans clef_wr clef_shape false false (oinit ex10) ops) =
    map Some (orun clef_build clef_ans clef_wr clef_shape false false (oinit ex10) ops).
Proof. exact Proofs.C10_Obj.obj_share_refuted. Qed.
Print Assumptions obj_share_refuted.

Theorem obj_memo_refuted :
  let ops := [OGet; OQuery 0 (QScalar 2); OEdit ex10_3staves; OGet; OQuery 1 (QScalar 2)] in
  nth 1 (orun clef_build clef_ans clef_wr clef_shape true false (oinit ex10) ops) [] =
    [RScalar (Some (1, 0, 2, 0)); RScalar (Some (2, 6, 0, 0))] /\
  nth 1 (ospec_obs clef_build clef_ans ex10 [] ops) [] =
    [RScalar (Some (1, 0, 2, 0)); RScalar (Some (2, 6, 0, 0)); RScalar (Some (3, 6, 0, 0))] /\
  orun clef_build clef_ans clef_wr clef_shape false false (oinit ex10) ops = ospec_obs clef_build clef_ans ex10 [] ops.
Proof. exact Proofs.C10_Obj.obj_memo_refuted. Qed.
Print Assumptions obj_memo_refuted.

(* ======================================================================================================
   "THE MAPS AGREE WITH THE OPTIONAL NOTE-ARRAY COLUMNS DERIVED FROM THEM", at code level (Model/C10_NA.v: the loop of
   note_array_from_note_list / rest_array_from_rest_list calls the map OBJECTS handed in with the scalar onset and unpacks
   the results; is_downbeat = 1 if rel_onset_div == 0 else 0).  For the objects the code builds from ANY parts c1, c2, c3 (one
   part for Part.note_array; objects a caller kept answer for the part as it was when they were requested: history_spec,
   obj_history_spec) and ANY notes with onsets on the timeline, not before the first (corrected) measure start: the loop
   succeeds; row i = (time signature in force at onset i, key signature in force, (is_downbeat, position, bar length)) *)
Theorem code_na_columns : forall c1 c2 c3 (notes : list (Z * Z)) k0 v0 r, meas_wf (c_meas c3) -> meas_tbl c3 = (k0, v0) :: r ->
  Forall (fun n => c_first c1 <= fst n /\ c_first c2 <= fst n /\ k0 <= fst n) notes ->
  na_loop false (impl_ts c1) (impl_ks c2) (impl_metpos c3) notes =
  Some (map (fun n => (na_ts c1 (fst n), na_ks c2 (fst n), na_metrical c3 (fst n))) notes).
Proof. exact Proofs.C10_NA.code_na_columns. Qed.
Print Assumptions code_na_columns.

Theorem code_na_signatures : forall c1 c2 t, c_first c1 <= t -> c_first c2 <= t ->
  unpack (impl_ts c1 (QScalar t)) = Some (ts_map c1 t) /\ unpack (impl_ks c2 (QScalar t)) = Some (ks_map c2 t).
Proof. exact Proofs.C10_NA.code_na_signatures. Qed.
Print Assumptions code_na_signatures.

Theorem na_example :
  meas_wf (c_meas ex10) /\ (exists v0 r, meas_tbl ex10 = (-12, v0) :: r) /\
  na_loop false (impl_ts ex10) (impl_ks ex10) (impl_metpos ex10) [(2, 3); (19, 1); (20, 4)] =
    Some [((4, 4, 4), (-3, -1), (0, 14, 16)); ((4, 4, 4), (-3, -1), (0, 15, 16)); ((4, 4, 4), (2, 1), (1, 0, 16))].
Proof. exact Proofs.C10_NA.na_example. Qed.
Print Assumptions na_example.

(* the statement discriminates: columns looked up at the END of the note give the key after the change for a note ending on
   it; a map object called with a one-element vector cannot be unpacked *)
Theorem na_at_end_refuted :
  na_loop true (impl_ts ex10) (impl_ks ex10) (impl_metpos ex10) [(19, 1)] = Some [((4, 4, 4), (2, 1), (1, 0, 16))] /\
  na_loop false (impl_ts ex10) (impl_ks ex10) (impl_metpos ex10) [(19, 1)] = Some [((4, 4, 4), (-3, -1), (0, 15, 16))] /\
  na_row_q (impl_ts ex10) (impl_ks ex10) (impl_metpos ex10) (QVec [19]) = None.
Proof. exact Proofs.C10_NA.na_at_end_refuted. Qed.
Print Assumptions na_at_end_refuted.

(* --- the four simple maps (time / key signature, measure, measure number) are objects of the same machine: the history
   machine of Model/C10_Hist.v and the object machine (build = the sample table, ans = the interp1d wrapper, wr = fill) return
   the same on EVERY history, so the held-array statements above hold for all six maps *)
Theorem hist_machines_agree : forall (P A : Type) (rows : P -> list (Z * A)) (shape : res (option A) -> res (option A) -> bool) p ops,
  hrun rows false false (hinit p) ops =
  orun rows (@wrap_prev A) (@fill A) shape false false (oinit p) (map hop_oop ops).
Proof. exact Proofs.C10_Obj.hist_machines_agree. Qed.
Print Assumptions hist_machines_agree.

Theorem simple_held_unchanged : forall (P A : Type) (rows : P -> list (Z * A)) shape p (ops : list (hop P A)),
  no_writes (map hop_oop ops) = true ->
  oheld (oend rows (@wrap_prev A) (@fill A) shape false false (oinit p) (map hop_oop ops)) =
  map Some (hrun rows false false (hinit p) ops).
Proof. exact Proofs.C10_Obj.simple_held_unchanged. Qed.
Print Assumptions simple_held_unchanged.
