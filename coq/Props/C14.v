(* C14 -- performed notes sound until release or later, exactly as the pedal dictates.
   Statements + `exact` only; proofs are in Proofs/C14*.v.  The model (Model/C14.v) is tied to
   partitura/performance.py by the correspondence run by harness/props/c14.py on every check;
   the specification (Model/C14_Spec.v) is defined directly over the unsorted control stream. *)
From PV Require Import Lib.Base Lib.Round Model.C12 Model.C14 Model.C14_Spec
  Proofs.C14_so Proofs.C14_spec Proofs.C14 Proofs.C14_hist.
From Coq Require Import QArith Qminmax Qabs.
#[local] Open Scope Q_scope.

(* O2a  every note sounds at least until its release -- all note lists, control streams, thresholds *)
Theorem sound_off_ge_release : forall thr ns cs,
  Forall2 (fun n so => n_off n <= so) ns (sound_offs thr ns cs).
Proof. exact sound_off_ge_release_lemma. Qed.
Print Assumptions sound_off_ge_release.

(* O1  building a part from notes that pass the field checks (0 <= onset <= release, pitch and
   velocity in 0..127) never fails, whatever the controls and the threshold *)
Theorem construction_total : forall thr ns cs,
  forallb valid_note ns = true -> construct thr ns cs = Some (sound_offs thr ns cs).
Proof. exact construction_total_lemma. Qed.
Print Assumptions construction_total.

(* O2b  the computed sounding end is the specified one: the release when the pedal is up then,
   otherwise the first moment at or after the release with a pedal value <= threshold, the closing
   moment, or another strike of the same pitch.  Hypotheses: pedal events at distinct times and no
   zero-length note sharing its onset with another note of its pitch (numpy leaves the order of
   equal sort keys open), onset <= release. *)
Theorem sound_off_is_spec : forall thr ns cs,
  distinct_pedal_times cs -> no_zero_length_tie ns -> released_after_onset ns ->
  forall i n, nth_error ns i = Some n ->
  exists s, nth_error (sound_offs thr ns cs) i = Some s /\ sounding_end thr ns cs i n s.
Proof. exact sound_off_is_spec_lemma. Qed.
Print Assumptions sound_off_is_spec.

(* the hypotheses are satisfiable by a state in which the pedal extends notes (to a re-strike, to
   the pedal release) and a higher threshold does not *)
Theorem sound_off_example :
  sound_offs 64 ex_notes ex_ctrls = [3; 5; 6] /\ sound_offs 100 ex_notes ex_ctrls = [1; 4; 6] /\
  distinct_pedal_times ex_ctrls /\ no_zero_length_tie ex_notes /\ released_after_onset ex_notes.
Proof. exact example_lemma. Qed.
Print Assumptions sound_off_example.

(* O2c  identity without sustain-pedal events *)
Theorem no_pedal_identity : forall thr ns cs,
  pedal_events cs = [] -> sound_offs thr ns cs = map n_off ns.
Proof. exact no_pedal_identity_lemma. Qed.
Print Assumptions no_pedal_identity.

(* O2d  identity when no controller value exceeds the threshold (MIDI values <= 127, threshold 127) *)
Theorem thr127_identity : forall thr ns cs,
  (forall c, In c cs -> (c_val c <= thr)%Z) ->
  Forall2 (fun n so => so == n_off n) ns (sound_offs thr ns cs).
Proof. exact thr127_identity_lemma. Qed.
Print Assumptions thr127_identity.

(* O3a  raising the threshold never lengthens a note -- no hypotheses *)
Theorem threshold_monotone : forall thr thr' ns cs,
  (thr <= thr')%Z ->
  Forall2 (fun so so' => so' <= so) (sound_offs thr ns cs) (sound_offs thr' ns cs).
Proof. exact threshold_monotone_lemma. Qed.
Print Assumptions threshold_monotone.

(* O3b  setting the threshold recomputes every note: after any history of assignments ending
   with t the sound_off column is the one of a part freshly built with threshold t *)
Theorem setter_recomputes : forall thr0 ns cs ts t,
  let p := fold_left set_threshold (ts ++ [t]) (new_part thr0 ns cs) in
  p_so p = sound_offs t ns cs /\ p_thr p = t /\ p_notes p = ns /\ p_ctrls p = cs.
Proof. exact setter_recomputes_lemma. Qed.
Print Assumptions setter_recomputes.

(* O3c  history independence.  From any part (whatever sound_off values its notes carry), after
   any history of steps -- threshold assignments, controls replaced / pruned / extended followed by
   an assignment, notes edited / added / deleted followed by an assignment, a part rebuilt from the
   notes of the part (which carry their sounding ends), from_note_array(note_array()) -- the
   sound_off column is sound_offs of the CURRENT notes, controls and threshold, nothing else *)
Theorem history_independent : forall p ss s,
  List.length (p_so p) = List.length (p_notes p) ->
  let q := run_history p (ss ++ [s]) in
  p_so q = sound_offs (p_thr q) (p_notes q) (p_ctrls q).
Proof. exact history_independent_lemma. Qed.
Print Assumptions history_independent.

(* O3d  two histories, from two parts, that arrive at the same notes, controls and threshold
   leave the same sounding ends *)
Theorem histories_agree : forall p p' ss ss' s s',
  List.length (p_so p) = List.length (p_notes p) ->
  List.length (p_so p') = List.length (p_notes p') ->
  let q := run_history p (ss ++ [s]) in
  let q' := run_history p' (ss' ++ [s']) in
  p_notes q = p_notes q' -> p_ctrls q = p_ctrls q' -> p_thr q = p_thr q' -> p_so q = p_so q'.
Proof. exact histories_agree_lemma. Qed.
Print Assumptions histories_agree.

(* O2c'  after any history that leaves no sustain-pedal event in the controls every note ends
   at its release (pedal events removed after they extended notes, then the threshold assigned) *)
Theorem no_pedal_after_history : forall p ss s,
  List.length (p_so p) = List.length (p_notes p) ->
  let q := run_history p (ss ++ [s]) in
  pedal_events (p_ctrls q) = [] -> p_so q = map n_off (p_notes q).
Proof. exact no_pedal_after_history_lemma. Qed.
Print Assumptions no_pedal_after_history.

(* O1'  building a part from notes that already carry a sound_off (copied from a pedalled part,
   or arbitrary) gives the part built from the bare notes: the carried values are ignored *)
Theorem carried_sound_off_ignored : forall thr ns so0 cs,
  List.length so0 = List.length ns ->
  new_part_carrying thr ns so0 cs = new_part thr ns cs /\
  p_so (new_part_carrying thr ns so0 cs) = sound_offs thr ns cs.
Proof. exact carried_sound_off_ignored_lemma. Qed.
Print Assumptions carried_sound_off_ignored.

(* O3e  the recomputation ignores the previous sound_off column and threshold, and is idempotent *)
Theorem recompute_ignores_sound_off : forall ns cs thr thr' so so' t,
  List.length so = List.length ns -> List.length so' = List.length ns ->
  p_so (set_threshold (mkPart ns cs thr so) t) = p_so (set_threshold (mkPart ns cs thr' so') t).
Proof. exact recompute_ignores_sound_off_lemma. Qed.
Print Assumptions recompute_ignores_sound_off.

Theorem recompute_idempotent : forall p t,
  set_threshold (set_threshold p t) t = set_threshold p t.
Proof. exact recompute_idempotent_lemma. Qed.
Print Assumptions recompute_idempotent.

(* a non-trivial history: the pedal extends two notes; removing the pedal events (another
   controller stays) and assigning the same threshold, or rebuilding a part without pedal from
   the notes that carry the extended ends, brings every note back to its release; putting the
   pedal events back extends them again *)
Theorem history_example :
  let p := new_part 64 hx_notes hx_pedal in
  p_so p = [3; 3; 5] /\
  p_so (run_history p [SetCtrls hx_other 64]) = [1; 3#2; 5] /\
  p_so (run_history p [Rebuild hx_other 64]) = [1; 3#2; 5] /\
  p_so (run_history p [SetCtrls hx_other 64; SetCtrls hx_pedal 64]) = [3; 3; 5] /\
  p_so (new_part_carrying 64 hx_notes [3; 3; 5] hx_other) = [1; 3#2; 5].
Proof. exact history_example_lemma. Qed.
Print Assumptions history_example.

(* O4a  note array: onset in seconds and in ticks agree (nearest tick) for all ppq, mpq *)
Theorem onset_tick_agrees : forall ppq mpq x,
  Qabs (inject_Z (1000000 * ppq) * r_on (na_row ppq mpq x) / inject_Z mpq
        - inject_Z (r_on_tick (na_row ppq mpq x))) <= 1 # 2.
Proof. exact onset_tick_agrees_lemma. Qed.
Print Assumptions onset_tick_agrees.

(* O4b  duration in ticks agrees with the duration in seconds (two roundings: within one tick)
   whenever no pedal extends the note *)
Theorem duration_tick_agrees : forall ppq mpq x,
  snd x == n_off (fst x) ->
  Qabs (inject_Z (1000000 * ppq) * r_dur (na_row ppq mpq x) / inject_Z mpq
        - inject_Z (r_dur_tick (na_row ppq mpq x))) <= 1.
Proof. exact duration_tick_agrees_lemma. Qed.
Print Assumptions duration_tick_agrees.

(* O4c  a part rebuilt from its own note array has the same pitches, velocities, onsets and
   sounding ends *)
Theorem from_note_array_roundtrip : forall ppq mpq p,
  List.length (p_notes p) = List.length (p_so p) ->
  let q := from_note_array (note_array ppq mpq p) in
  Forall2 (fun n m => n_pitch m = n_pitch n /\ n_vel m = n_vel n /\ n_on m = n_on n) (p_notes p) (p_notes q) /\
  Forall2 (fun so so' => so' == so) (p_so p) (p_so q).
Proof. exact from_note_array_roundtrip_lemma. Qed.
Print Assumptions from_note_array_roundtrip.

(* O5  track renumbering: every (part, track) pair gets a number (one number per pair, so events
   of one part that shared a track still share one), and two pairs get the same number only if
   they are the same pair (no number is used by two parts, tracks of one part are not merged).
   Which numbers are used is not part of the property. *)
Theorem track_renumber_injective : forall pairs,
  (forall a, In a pairs -> exists k, track_map pairs a = Some k) /\
  (forall a b k, track_map pairs a = Some k -> track_map pairs b = Some k -> a = b).
Proof. exact track_renumber_total_injective. Qed.
Print Assumptions track_renumber_injective.
