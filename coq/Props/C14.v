(* C14 -- performed notes sound until release or later, exactly as the pedal dictates.
   Statements + `exact` only; proofs are in Proofs/C14*.v.  The model (Model/C14.v) is tied to
   partitura/performance.py by the correspondence run by harness/props/c14.py on every check;
   the specification (Model/C14_Spec.v) is defined directly over the unsorted control stream. *)
From PV Require Import Lib.Base Lib.Round Model.C12 Model.C14 Model.C14_Spec Model.C14_Note Model.C14_Trk Model.C14_State Model.C14_Strike
  Proofs.C14_so Proofs.C14_spec Proofs.C14 Proofs.C14_hist Proofs.C14_note Proofs.C14_trk Proofs.C14_perm Proofs.C14_state Proofs.C14_repr Proofs.C14_order Proofs.C14_lib Proofs.C14_strike.
From Coq Require Import QArith Qminmax Qabs Permutation ZArith List.
#[local] Open Scope Q_scope.

(* O2a  every note sounds at least until its release -- all note lists, control streams, thresholds *)
Theorem sound_off_ge_release : forall thr ns cs,
  Forall2 (fun n so => n_off n <= so) ns (sound_offs thr ns cs).
Proof. exact sound_off_ge_release_lemma. Qed.
Print Assumptions sound_off_ge_release.

(* O1  building a part from notes that pass the field checks (0 <= onset <= release, pitch and
   velocity in 0..127) never fails, whatever the controls and the threshold *)
Theorem construction_total : forall thr ns cs,
  forallb valid_note ns = true -> construct thr ns cs = Some (sound_offs thr ns cs).
Proof. exact construction_total_lemma. Qed.
Print Assumptions construction_total.

(* O2b  the computed sounding end is the specified one: the release when the pedal is up then,
   otherwise the first moment at or after the release with a pedal value <= threshold, the closing
   moment, or another strike of the same pitch.  Hypotheses: pedal events at distinct times and no
   zero-length note sharing its onset with another note of its pitch (numpy leaves the order of
   equal sort keys open), onset <= release. *)
Theorem sound_off_is_spec : forall thr ns cs,
  distinct_pedal_times cs -> no_zero_length_tie ns -> released_after_onset ns ->
  forall i n, nth_error ns i = Some n ->
  exists s, nth_error (sound_offs thr ns cs) i = Some s /\ sounding_end thr ns cs i n s.
Proof. exact sound_off_is_spec_lemma. Qed.
Print Assumptions sound_off_is_spec.

(* the hypotheses are satisfiable by a state in which the pedal extends notes (to a re-strike, to
   the pedal release) and a higher threshold does not *)
Theorem sound_off_example :
  sound_offs 64 ex_notes ex_ctrls = [3; 5; 6] /\ sound_offs 100 ex_notes ex_ctrls = [1; 4; 6] /\
  distinct_pedal_times ex_ctrls /\ no_zero_length_tie ex_notes /\ released_after_onset ex_notes.
Proof. exact example_lemma. Qed.
Print Assumptions sound_off_example.

(* O2c  identity without sustain-pedal events *)
Theorem no_pedal_identity : forall thr ns cs,
  pedal_events cs = [] -> sound_offs thr ns cs = map n_off ns.
Proof. exact no_pedal_identity_lemma. Qed.
Print Assumptions no_pedal_identity.

(* O2d  identity when no controller value exceeds the threshold (MIDI values <= 127, threshold 127) *)
Theorem thr127_identity : forall thr ns cs,
  (forall c, In c cs -> (c_val c <= thr)%Z) ->
  Forall2 (fun n so => so == n_off n) ns (sound_offs thr ns cs).
Proof. exact thr127_identity_lemma. Qed.
Print Assumptions thr127_identity.

(* O3a  raising the threshold never lengthens a note -- no hypotheses *)
Theorem threshold_monotone : forall thr thr' ns cs,
  (thr <= thr')%Z ->
  Forall2 (fun so so' => so' <= so) (sound_offs thr ns cs) (sound_offs thr' ns cs).
Proof. exact threshold_monotone_lemma. Qed.
Print Assumptions threshold_monotone.

(* O3b  setting the threshold recomputes every note: after any history of assignments ending
   with t the sound_off column is the one of a part freshly built with threshold t *)
Theorem setter_recomputes : forall thr0 ns cs ts t,
  let p := fold_left set_threshold (ts ++ [t]) (new_part thr0 ns cs) in
  p_so p = sound_offs t ns cs /\ p_thr p = t /\ p_notes p = ns /\ p_ctrls p = cs.
Proof. exact setter_recomputes_lemma. Qed.
Print Assumptions setter_recomputes.

(* O3c  history independence.  From any part (whatever sound_off values its notes carry), after
   any history of steps -- threshold assignments, controls replaced / pruned / extended followed by
   an assignment, notes edited / added / deleted followed by an assignment, a part rebuilt from the
   notes of the part (which carry their sounding ends), from_note_array(note_array()) -- the
   sound_off column is sound_offs of the CURRENT notes, controls and threshold, nothing else *)
Theorem history_independent : forall p ss s,
  List.length (p_so p) = List.length (p_notes p) ->
  let q := run_history p (ss ++ [s]) in
  p_so q = sound_offs (p_thr q) (p_notes q) (p_ctrls q).
Proof. exact history_independent_lemma. Qed.
Print Assumptions history_independent.

(* O3d  two histories, from two parts, that arrive at the same notes, controls and threshold
   leave the same sounding ends *)
Theorem histories_agree : forall p p' ss ss' s s',
  List.length (p_so p) = List.length (p_notes p) ->
  List.length (p_so p') = List.length (p_notes p') ->
  let q := run_history p (ss ++ [s]) in
  let q' := run_history p' (ss' ++ [s']) in
  p_notes q = p_notes q' -> p_ctrls q = p_ctrls q' -> p_thr q = p_thr q' -> p_so q = p_so q'.
Proof. exact histories_agree_lemma. Qed.
Print Assumptions histories_agree.

(* O2c'  after any history that leaves no sustain-pedal event in the controls every note ends
   at its release (pedal events removed after they extended notes, then the threshold assigned) *)
Theorem no_pedal_after_history : forall p ss s,
  List.length (p_so p) = List.length (p_notes p) ->
  let q := run_history p (ss ++ [s]) in
  pedal_events (p_ctrls q) = [] -> p_so q = map n_off (p_notes q).
Proof. exact no_pedal_after_history_lemma. Qed.
Print Assumptions no_pedal_after_history.

(* O1'  building a part from notes that already carry a sound_off (copied from a pedalled part,
   or arbitrary) gives the part built from the bare notes: the carried values are ignored *)
Theorem carried_sound_off_ignored : forall thr ns so0 cs,
  List.length so0 = List.length ns ->
  new_part_carrying thr ns so0 cs = new_part thr ns cs /\
  p_so (new_part_carrying thr ns so0 cs) = sound_offs thr ns cs.
Proof. exact carried_sound_off_ignored_lemma. Qed.
Print Assumptions carried_sound_off_ignored.

(* O3e  the recomputation ignores the previous sound_off column and threshold, and is idempotent *)
Theorem recompute_ignores_sound_off : forall ns cs thr thr' so so' t,
  List.length so = List.length ns -> List.length so' = List.length ns ->
  p_so (set_threshold (mkPart ns cs thr so) t) = p_so (set_threshold (mkPart ns cs thr' so') t).
Proof. exact recompute_ignores_sound_off_lemma. Qed.
Print Assumptions recompute_ignores_sound_off.

Theorem recompute_idempotent : forall p t,
  set_threshold (set_threshold p t) t = set_threshold p t.
Proof. exact recompute_idempotent_lemma. Qed.
Print Assumptions recompute_idempotent.

(* a non-trivial history: the pedal extends two notes; removing the pedal events (another
   controller stays) and assigning the same threshold, or rebuilding a part without pedal from
   the notes that carry the extended ends, brings every note back to its release; putting the
   pedal events back extends them again *)
Theorem history_example :
  let p := new_part 64 hx_notes hx_pedal in
  p_so p = [3; 3; 5] /\
  p_so (run_history p [SetCtrls hx_other 64]) = [1; 3#2; 5] /\
  p_so (run_history p [Rebuild hx_other 64]) = [1; 3#2; 5] /\
  p_so (run_history p [SetCtrls hx_other 64; SetCtrls hx_pedal 64]) = [3; 3; 5] /\
  p_so (new_part_carrying 64 hx_notes [3; 3; 5] hx_other) = [1; 3#2; 5].
Proof. exact history_example_lemma. Qed.
Print Assumptions history_example.

(* O4a  note array: onset in seconds and in ticks agree (nearest tick) for all ppq, mpq *)
Theorem onset_tick_agrees : forall ppq mpq x,
  Qabs (inject_Z (1000000 * ppq) * r_on (na_row ppq mpq x) / inject_Z mpq
        - inject_Z (r_on_tick (na_row ppq mpq x))) <= 1 # 2.
Proof. exact onset_tick_agrees_lemma. Qed.
Print Assumptions onset_tick_agrees.

(* O4b  duration in ticks agrees with the duration in seconds (two roundings: within one tick)
   whenever no pedal extends the note *)
Theorem duration_tick_agrees : forall ppq mpq x,
  snd x == n_off (fst x) ->
  Qabs (inject_Z (1000000 * ppq) * r_dur (na_row ppq mpq x) / inject_Z mpq
        - inject_Z (r_dur_tick (na_row ppq mpq x))) <= 1.
Proof. exact duration_tick_agrees_lemma. Qed.
Print Assumptions duration_tick_agrees.

(* O4c  a part rebuilt from its own note array has the same pitches, velocities, onsets and
   sounding ends *)
Theorem from_note_array_roundtrip : forall ppq mpq p,
  List.length (p_notes p) = List.length (p_so p) ->
  let q := from_note_array (note_array ppq mpq p) in
  Forall2 (fun n m => n_pitch m = n_pitch n /\ n_vel m = n_vel n /\ n_on m = n_on n) (p_notes p) (p_notes q) /\
  Forall2 (fun so so' => so' == so) (p_so p) (p_so q).
Proof. exact from_note_array_roundtrip_lemma. Qed.
Print Assumptions from_note_array_roundtrip.

(* O5  track renumbering: every (part, track) pair gets a number (one number per pair, so events
   of one part that shared a track still share one), and two pairs get the same number only if
   they are the same pair (no number is used by two parts, tracks of one part are not merged).
   Which numbers are used is not part of the property. *)
Theorem track_renumber_injective : forall pairs,
  (forall a, In a pairs -> exists k, track_map pairs a = Some k) /\
  (forall a b k, track_map pairs a = Some k -> track_map pairs b = Some k -> a = b).
Proof. exact track_renumber_total_injective. Qed.
Print Assumptions track_renumber_injective.

(* ===== field validation of performed notes (PerformedNote._validate_*, Model/C14_Note.v) ===== *)

(* V1  PerformedNote(dict) succeeds exactly for the dicts the statement is about: pitch and velocity
   MIDI values (velocity may be absent), onset and release present with 0 <= onset <= release, a
   carried sounding end not before the release, stored ticks non-negative and ordered -- all dicts *)
Theorem note_accepted_iff_valid : forall d, (exists n, pn_new d = Some n) <-> valid_dict d.
Proof. exact pn_new_accepts_iff. Qed.
Print Assumptions note_accepted_iff_valid.

(* V2  what an accepted dict stores: the given fields, the release as sounding end and velocity 60
   where absent; the stored note satisfies 0 <= onset <= release <= sounding end *)
Theorem note_stored_fields : forall d n, pn_new d = Some n ->
  pn_pitch n = d_pitch d /\ d_on d = Some (pn_on n) /\ d_off d = Some (pn_off n) /\
  pn_so n = dflt (d_so d) (pn_off n) /\ pn_vel n = dflt (d_vel d) 60%Z /\
  pn_ontick n = d_ontick d /\ pn_offtick n = d_offtick d /\ wf_note n.
Proof. exact pn_new_fields. Qed.
Print Assumptions note_stored_fields.

(* V3  note["sound_off"] = v is accepted exactly when v is not before the release *)
Theorem sound_off_assignment_accepted_iff : forall n v, 0 <= pn_off n ->
  ((exists n', pn_set n (ESo v) = Some n') <-> pn_off n <= v).
Proof. exact pn_set_so_iff. Qed.
Print Assumptions sound_off_assignment_accepted_iff.

(* V4  the recomputation (threshold setter) writes the computed ends back through the validated
   assignment and never raises, whatever sounding ends the notes held before -- also ends BELOW
   the release, left behind when a release was moved later -- for all notes with 0 <= onset <=
   release, all control streams and thresholds; afterwards every note is well formed and the column
   is sound_offs of the current notes *)
Theorem recompute_never_raises : forall thr ns cs, Forall timed ns ->
  exists ns', recompute thr ns cs = Some ns' /\ map pn_so ns' = sound_offs thr (map to_note ns) cs /\
              map to_note ns' = map to_note ns /\ Forall wf_note ns' /\ map pn_ontick ns' = map pn_ontick ns.
Proof. exact recompute_total_lemma. Qed.
Print Assumptions recompute_never_raises.

(* O1 at the level of note dicts: building a part from dicts the statement is about (optional keys
   absent, carrying a sounding end, carrying stored ticks) never fails and gives the column of
   sound_offs; and a part is built only if every dict passes the field checks *)
Theorem part_from_dicts_total : forall thr ds cs, Forall valid_dict ds ->
  exists ns, pp_new thr ds cs = Some ns /\
             map pn_so ns = sound_offs thr (map to_note ns) cs /\ Forall wf_note ns /\
             Forall2 (fun d n => pn_pitch n = d_pitch d /\ d_on d = Some (pn_on n) /\ d_off d = Some (pn_off n) /\
                                 pn_vel n = dflt (d_vel d) 60%Z /\ pn_ontick n = d_ontick d) ds ns.
Proof. exact pp_new_total_lemma. Qed.
Print Assumptions part_from_dicts_total.

Theorem part_from_dicts_only_valid : forall thr ds cs ns, pp_new thr ds cs = Some ns -> Forall valid_dict ds.
Proof. exact pp_new_some_valid. Qed.
Print Assumptions part_from_dicts_only_valid.

(* V5  moving the release of a note of a well-formed part to any v >= onset is accepted (also
   beyond the stored sounding end, which is then stale and below the release); the next threshold
   assignment never raises and leaves every note well formed with the recomputed column *)
Theorem release_edit_repaired : forall thr ns cs i n v,
  Forall wf_note ns -> nth_error ns i = Some n -> pn_on n <= v ->
  exists n', pn_set n (EOff v) = Some n' /\
  let ns1 := firstn i ns ++ n' :: skipn (S i) ns in
  exists ns', recompute thr ns1 cs = Some ns' /\ Forall wf_note ns' /\
              map pn_so ns' = sound_offs thr (map to_note ns1) cs.
Proof. exact release_edit_repaired_lemma. Qed.
Print Assumptions release_edit_repaired.

(* non-vacuity: a release moved past the stored end gives a note that is NOT well formed; the
   recomputation under a held pedal repairs it; dicts with stored ticks / a sounding end below the
   release / a zero-length note with velocity 0 are accepted, rejected, accepted *)
Theorem release_edit_and_validation_example :
  pn_set ex_stale (EOff 5) = Some (mkPN 60 1 5 3 64 None None) /\
  ~ wf_note (mkPN 60 1 5 3 64 None None) /\
  recompute 64 [mkPN 60 1 5 3 64 None None] [mkCtrl 64 0 127; mkCtrl 64 7 0] = Some [mkPN 60 1 5 7 64 None None] /\
  pn_new (mkND 60 (Some 1) (Some 2) (Some 3) None (Some 480%Z) (Some 960%Z)) = Some (mkPN 60 1 2 3 60 (Some 480%Z) (Some 960%Z)) /\
  pn_new (mkND 60 (Some 1) (Some 2) (Some (3#2)) None None None) = None /\
  pn_new (mkND 60 (Some 2) (Some 2) None (Some 0%Z) None None) = Some (mkPN 60 2 2 2 0 None None).
Proof. exact release_edit_example. Qed.
Print Assumptions release_edit_and_validation_example.

(* ===== tabular view of notes with stored ticks, and its inverse through the dict constructor ===== *)

(* O4a'  a note whose stored onset tick is the conversion of its onset under the part's ppq / mpq
   (or that stores none) has the row of the plain note: the stored tick changes nothing *)
Theorem stored_ticks_row : forall ppq mpq n, ticks_consistent ppq mpq n ->
  na_row_n ppq mpq n = na_row ppq mpq (to_note n, pn_so n).
Proof. exact na_row_n_plain. Qed.
Print Assumptions stored_ticks_row.

Theorem onset_tick_agrees_stored : forall ppq mpq n, ticks_consistent ppq mpq n ->
  Qabs (inject_Z (1000000 * ppq) * r_on (na_row_n ppq mpq n) / inject_Z mpq
        - inject_Z (r_on_tick (na_row_n ppq mpq n))) <= 1 # 2.
Proof. exact onset_tick_agrees_n_lemma. Qed.
Print Assumptions onset_tick_agrees_stored.

Theorem duration_tick_agrees_stored : forall ppq mpq n, ticks_consistent ppq mpq n -> pn_so n == pn_off n ->
  Qabs (inject_Z (1000000 * ppq) * r_dur (na_row_n ppq mpq n) / inject_Z mpq
        - inject_Z (r_dur_tick (na_row_n ppq mpq n))) <= 1.
Proof. exact duration_tick_agrees_n_lemma. Qed.
Print Assumptions duration_tick_agrees_stored.

(* O4b'  the duration in seconds reaches the sounding end, stored ticks or not *)
Theorem duration_sec_is_sounding_end : forall ppq mpq n,
  r_on (na_row_n ppq mpq n) + r_dur (na_row_n ppq mpq n) == pn_so n.
Proof. exact duration_sec_is_sounding_end_lemma. Qed.
Print Assumptions duration_sec_is_sounding_end.

(* O4c'  from_note_array(note_array()) through the dict constructor (every row becomes a dict that
   carries note_off = sound_off = onset + duration and passes the field checks): never fails on a
   well-formed part with MIDI pitches and velocities, and gives back pitches, velocities, onsets
   and sounding ends (the new releases are the old sounding ends) *)
Theorem roundtrip_through_dicts_total : forall ppq mpq ns,
  Forall wf_note ns -> Forall (fun n => (0 <= pn_pitch n <= 127)%Z /\ (0 <= pn_vel n <= 127)%Z) ns ->
  exists ns', from_note_array_n (note_array_n ppq mpq ns) = Some ns' /\
              Forall2 (fun n m => pn_pitch m = pn_pitch n /\ pn_vel m = pn_vel n /\ pn_on m = pn_on n /\
                                  pn_so m == pn_so n /\ pn_off m == pn_so n) ns ns'.
Proof. exact roundtrip_n_lemma. Qed.
Print Assumptions roundtrip_through_dicts_total.

(* ===== track renumbering as the code does it (Model/C14_Trk.v) ===== *)

(* O5a  every part keeps its numbers of notes, controls and program changes *)
Theorem sanitize_shape : forall ps, map shape (sanitize ps) = map shape ps.
Proof. exact sanitize_shape_lemma. Qed.
Print Assumptions sanitize_shape.

(* O5b  two events (note, control or program change, at positions k1, k2 in the order part by
   part) get the same new number exactly when they are events of the same part that had the same
   track before (an absent key reads as -1): unique across parts, nothing mixed, nothing split *)
Theorem sanitize_partition : forall ps k1 k2 a b x y,
  nth_error (all_pairs 0 ps) k1 = Some a -> nth_error (all_pairs 0 ps) k2 = Some b ->
  nth_error (new_numbers ps) k1 = Some x -> nth_error (new_numbers ps) k2 = Some y ->
  (x = y <-> a = b).
Proof. exact sanitize_partition_lemma. Qed.
Print Assumptions sanitize_partition.

Theorem sanitize_unique_across_parts : forall ps k1 k2 a b x y,
  nth_error (all_pairs 0 ps) k1 = Some a -> nth_error (all_pairs 0 ps) k2 = Some b ->
  nth_error (new_numbers ps) k1 = Some x -> nth_error (new_numbers ps) k2 = Some y ->
  fst a <> fst b -> x <> y.
Proof. exact sanitize_unique_across_parts_lemma. Qed.
Print Assumptions sanitize_unique_across_parts.

(* O5c  renumbering the renumbered parts again keeps the partition *)
Theorem sanitize_again_partition : forall ps k1 k2 a b x y,
  nth_error (all_pairs 0 ps) k1 = Some a -> nth_error (all_pairs 0 ps) k2 = Some b ->
  nth_error (new_numbers (sanitize ps)) k1 = Some x -> nth_error (new_numbers (sanitize ps)) k2 = Some y ->
  (x = y <-> a = b).
Proof. exact sanitize_again_partition_lemma. Qed.
Print Assumptions sanitize_again_partition.

(* O5d  every new number lies in 0 .. num_tracks - 1 (the track_map lookup cannot fail) *)
Theorem new_numbers_range : forall ps x, In x (new_numbers ps) -> (0 <= x < num_tracks ps)%Z.
Proof. exact new_numbers_range_lemma. Qed.
Print Assumptions new_numbers_range.

Theorem sanitize_worked_example :
  sanitize ex_parts = [([Some 1; Some 2; Some 0], [Some 0; Some 1], [Some 3]); ([Some 4; Some 6], [Some 5], [])]%Z /\
  sanitize (sanitize ex_parts) = sanitize ex_parts /\ num_tracks ex_parts = 7%Z.
Proof. exact sanitize_example. Qed.
Print Assumptions sanitize_worked_example.

(* ===== control streams in which other controllers are interleaved ===== *)

(* O2e  only controller 64 matters: the sounding ends computed from a control stream are those
   computed from its sustain-pedal events alone, so two streams with the same pedal events (other
   controllers interleaved anywhere, in any number) give the same column -- all streams *)
Theorem other_controllers_ignored : forall thr ns cs,
  sound_offs thr ns cs = sound_offs thr ns (pedal_events cs).
Proof. exact other_controllers_ignored_lemma. Qed.
Print Assumptions other_controllers_ignored.

Theorem other_controllers_interleaved : forall thr ns cs cs',
  pedal_events cs = pedal_events cs' -> sound_offs thr ns cs = sound_offs thr ns cs'.
Proof. exact other_controllers_interleaved_lemma. Qed.
Print Assumptions other_controllers_interleaved.

(* O2f  control streams in arbitrary (unsorted) order: listing the same control events in another
   order gives the same sounding ends, provided the pedal events have pairwise distinct times
   (numpy leaves the order of equal sort keys open) -- all permutations *)
Theorem control_order_irrelevant : forall thr ns cs cs',
  Permutation cs cs' -> distinct_pedal_times cs -> sound_offs thr ns cs = sound_offs thr ns cs'.
Proof. exact control_order_irrelevant_lemma. Qed.
Print Assumptions control_order_irrelevant.

Theorem control_order_worked_example :
  let cs := [mkCtrl 64 5 0; mkCtrl 7 2 100; mkCtrl 64 (1#2) 100] in
  let cs' := [mkCtrl 64 (1#2) 100; mkCtrl 64 5 0; mkCtrl 7 2 100] in
  Permutation cs cs' /\ distinct_pedal_times cs /\ sound_offs 64 ex_notes cs' = [3; 5; 6].
Proof. exact control_order_example. Qed.
Print Assumptions control_order_worked_example.

(* ===== state carried between calls (Model/C14_State.v, Proofs/C14_state.v) ===== *)
#[local] Open Scope Z_scope.

(* H1  what a caller sees of a part after ANY history of operations ending in a recomputation -- the
   sound_off column and the rows of note_array() -- is a function of the notes, controls and threshold
   the part has NOW *)
Theorem observation_after_history : forall ppq mpq p ss s,
  List.length (p_so p) = List.length (p_notes p) ->
  let q := run_history p (ss ++ [s]) in
  let so := sound_offs (p_thr q) (p_notes q) (p_ctrls q) in
  observe ppq mpq q = (so, map (na_row ppq mpq) (combine (p_notes q) so)).
Proof. exact observation_after_history_lemma. Qed.
Print Assumptions observation_after_history.

(* H2  two parts with different pasts that hold the same notes, controls and threshold show the same *)
Theorem observations_agree : forall ppq mpq p p' ss ss' s s',
  List.length (p_so p) = List.length (p_notes p) ->
  List.length (p_so p') = List.length (p_notes p') ->
  let q := run_history p (ss ++ [s]) in
  let q' := run_history p' (ss' ++ [s']) in
  p_notes q = p_notes q' -> p_ctrls q = p_ctrls q' -> p_thr q = p_thr q' ->
  observe ppq mpq q = observe ppq mpq q'.
Proof. exact observations_agree_lemma. Qed.
Print Assumptions observations_agree.

(* H3  not vacuous: a setter that returns early on an unchanged value, and a part that reads its pedal
   events once, both end a history with a column that is NOT the one of the current state *)
Theorem memo_setter_refuted :
  exists p ss s, List.length (p_so p) = List.length (p_notes p) /\
    let q := fold_left apply_step_memo (ss ++ [s]) p in
    p_so q <> sound_offs (p_thr q) (p_notes q) (p_ctrls q).
Proof. exact memo_setter_refuted_lemma. Qed.
Print Assumptions memo_setter_refuted.

Theorem cached_pedal_refuted :
  exists p ss s, List.length (p_so p) = List.length (p_notes p) /\
    let q := fold_left (apply_step_cached (p_ctrls p)) (ss ++ [s]) p in
    p_so q <> sound_offs (p_thr q) (p_notes q) (p_ctrls q).
Proof. exact cached_pedal_refuted_lemma. Qed.
Print Assumptions cached_pedal_refuted.

(* H4  releases that are all whole numbers: an array of them that keeps an integer dtype truncates the
   sounding ends (2.5 -> 2, 1.5 -> 1); the model's column is the untruncated one *)
Theorem int_dtype_refuted :
  forallb valid_note ix_notes = true /\
  sound_offs 64 ix_notes ix_ctrls = [5#2; 3#2; 3]%Q /\
  sound_offs_intdtype 64 ix_notes ix_ctrls = [2; 1; 3]%Q /\
  sound_offs_intdtype 64 ix_notes ix_ctrls <> sound_offs 64 ix_notes ix_ctrls.
Proof. exact int_dtype_refuted_lemma. Qed.
Print Assumptions int_dtype_refuted.

(* H5  a Performance after ANY history of edits (parts replaced, appended, deleted, notes added, track keys
   changed in place, earlier renumberings): sanitize_track_numbers() keeps every part's shape and gives two
   events the same number exactly when they are events of one part that hold the same track NOW; events of
   different parts never share a number *)
Theorem perf_history_sanitize : forall ps ss, prun ps (ss ++ [PSanitize]) = sanitize (prun ps ss).
Proof. exact perf_history_sanitize_lemma. Qed.
Print Assumptions perf_history_sanitize.

Theorem perf_history_partition : forall ps ss k1 k2 a b x y,
  let cur := prun ps ss in
  let fin := prun ps (ss ++ [PSanitize]) in
  nth_error (all_pairs 0 cur) k1 = Some a -> nth_error (all_pairs 0 cur) k2 = Some b ->
  nth_error (map snd (all_pairs 0 fin)) k1 = Some x -> nth_error (map snd (all_pairs 0 fin)) k2 = Some y ->
  map shape fin = map shape cur /\ (x = y <-> a = b) /\ (fst a <> fst b -> x <> y).
Proof. exact perf_history_partition_lemma. Qed.
Print Assumptions perf_history_partition.

(* H6  not vacuous: a performance that makes its track map once, at construction, cannot number a part
   appended later (the lookup fails, -1), the real one numbers it 2, 4, 3 *)
Theorem perf_memo_refuted :
  let ps := sanitize px_parts in
  let ids := usort (all_pairs 0 px_parts) in
  map snd (all_pairs 0 (prun ps [PAppend px_new; PSanitize])) = [0; 1; 0; 2; 4; 3] /\
  map snd (all_pairs 0 (fold_left (papply_memo ids) [PAppend px_new; PSanitize] ps)) = [0; 1; 0; -1; -1; -1].
Proof. exact perf_memo_refuted_lemma. Qed.
Print Assumptions perf_memo_refuted.

(* O5e  num_tracks (the number of distinct (part, track) pairs) is not changed by sanitising, and it is
   the number of distinct track numbers in use afterwards -- all performances *)
Theorem num_tracks_sanitize : forall ps, num_tracks (sanitize ps) = num_tracks ps.
Proof. exact num_tracks_sanitize_lemma. Qed.
Print Assumptions num_tracks_sanitize.

Theorem num_tracks_counts_new_numbers : forall ps,
  num_tracks ps = Z.of_nat (List.length (nodup Z.eq_dec (new_numbers ps))).
Proof. exact num_tracks_counts_new_numbers_lemma. Qed.
Print Assumptions num_tracks_counts_new_numbers.

(* ===== the way a time is written, the order the notes are listed in ===== *)
#[local] Open Scope Q_scope.

(* R1  note lists and control streams whose times are equal as rationals (1 and 2/2; in the code: int 1,
   float 1.0, numpy scalars of any dtype) and whose pitches, velocities, controller numbers and values are
   the same give equal sounding ends -- nothing depends on the representation of a number *)
Theorem representation_irrelevant : forall thr ns ns' cs cs',
  Forall2 note_eqv ns ns' -> Forall2 ctrl_eqv cs cs' ->
  Forall2 Qeq (sound_offs thr ns cs) (sound_offs thr ns' cs').
Proof. exact representation_irrelevant_lemma. Qed.
Print Assumptions representation_irrelevant.

Theorem representation_example :
  let ns := [mkNote 60 64 0 2; mkNote 62 64 0 1; mkNote 62 64 (3#2) 3] in
  let ns' := [mkNote 60 64 (0#5) (4#2); mkNote 62 64 0 (3#3); mkNote 62 64 (6#4) (9#3)] in
  let cs := [mkCtrl 64 (1#2) 100; mkCtrl 64 (5#2) 0] in
  let cs' := [mkCtrl 64 (2#4) 100; mkCtrl 64 (10#4) 0] in
  Forall2 note_eqv ns ns' /\ Forall2 ctrl_eqv cs cs' /\ ns <> ns' /\
  sound_offs 64 ns cs = [5#2; 3#2; 3] /\ Forall2 Qeq (sound_offs 64 ns' cs') [5#2; 3#2; 3].
Proof. exact representation_example_lemma. Qed.
Print Assumptions representation_example.

(* R2  in ANY permutation of the note list every note keeps its sounding end (quantifier: unsorted order);
   hypotheses as for sound_off_is_spec (numpy's order of equal sort keys) *)
Theorem note_order_irrelevant : forall thr ns ns' cs,
  Permutation ns ns' -> distinct_pedal_times cs ->
  no_zero_length_tie ns -> no_zero_length_tie ns' -> released_after_onset ns ->
  forall i i' n s s', nth_error ns i = Some n -> nth_error ns' i' = Some n ->
  nth_error (sound_offs thr ns cs) i = Some s -> nth_error (sound_offs thr ns' cs) i' = Some s' -> s == s'.
Proof. exact note_order_irrelevant_lemma. Qed.
Print Assumptions note_order_irrelevant.

Theorem note_order_example :
  Permutation ex_notes (rev ex_notes) /\ no_zero_length_tie (rev ex_notes) /\
  sound_offs 64 ex_notes ex_ctrls = [3; 5; 6] /\ sound_offs 64 (rev ex_notes) ex_ctrls = [6; 5; 3].
Proof. exact note_order_example_lemma. Qed.
Print Assumptions note_order_example.

(* ===== round j: the re-strike clipping AS CODED (Model/C14_Strike.v, Proofs/C14_strike.v) =====
   np.unique over the pitches, per pitch the gathers a[sorted_indices], the index arithmetic
   np.maximum(np.searchsorted(sorted_note_ons, note_offs[sorted_indices]), arange(1, n + 1)), has_next / np.minimum, and the
   in-place scatter offs[sorted_indices] = ... into the ONE array carried from pitch to pitch *)

(* S1  the function on arrays and indices computes the column of sound_offs -- all note lists (repeated and
   overlapping notes of a pitch, zero-length notes, any order), control streams, thresholds; so every theorem
   above about sound_offs is a theorem about the array-level algorithm *)
Theorem code_level_refines_model : forall thr ns cs, sound_offs_code thr ns cs = sound_offs thr ns cs.
Proof. exact sound_offs_code_eq. Qed.
Print Assumptions code_level_refines_model.

(* S2  the index arithmetic, per group: in ANY group sorted by onset with distinct note positions the index
   max(searchsorted_left(onsets, release_k), k + 1) addresses exactly the first strike at or after the release
   among the notes later in onset order -- and lies past the end (has_next false) exactly when there is none *)
Theorem strike_index_is_first_later_strike : forall g k i n,
  sorted_by_key on_key g -> NoDup (map fst g) -> nth_error g k = Some (i, n) ->
  nth_error g (idx_code (map on_key g) k (n_off n)) =
  find (fun e => Qle_bool (n_off n) (n_on (snd e))) (after i g).
Proof. exact strike_index_lemma. Qed.
Print Assumptions strike_index_is_first_later_strike.

(* S3  the loop over the pitches with its in-place scatter, started on ANY array of one entry per note: entry i
   ends as offs[i] clipped by the next strike of note i, untouched by the passes of the other pitches *)
Theorem restrike_loop_pointwise : forall ns offs, List.length offs = List.length ns ->
  restrike_loop ns offs =
  map (fun e => clip (nth (fst e) offs 0) (next_strike ns (fst e) (snd e))) (indexed ns).
Proof. exact restrike_loop_char. Qed.
Print Assumptions restrike_loop_pointwise.

(* S3'  the order of the passes does not matter, nor do passes for pitches no note has: the loop over ANY
   duplicate-free list of pitches containing every pitch of the part gives the array of the loop over np.unique *)
Theorem restrike_pass_order_irrelevant : forall ns ps offs,
  NoDup ps -> (forall n, In n ns -> In (n_pitch n) ps) -> List.length offs = List.length ns ->
  fold_left (restrike_pitch ns) ps offs = restrike_loop ns offs.
Proof. exact pass_order_lemma. Qed.
Print Assumptions restrike_pass_order_irrelevant.

(* S4  the statement's clauses at the level of the code: never before the release; the specified sounding end *)
Theorem code_level_ge_release : forall thr ns cs,
  Forall2 (fun n so => n_off n <= so) ns (sound_offs_code thr ns cs).
Proof. exact code_ge_release. Qed.
Print Assumptions code_level_ge_release.

Theorem code_level_is_spec : forall thr ns cs,
  distinct_pedal_times cs -> no_zero_length_tie ns -> released_after_onset ns ->
  forall i n, nth_error ns i = Some n ->
  exists s, nth_error (sound_offs_code thr ns cs) i = Some s /\ sounding_end thr ns cs i n s.
Proof. exact code_is_spec. Qed.
Print Assumptions code_level_is_spec.

(* non-vacuity: repeated pitches out of onset order, a zero-length note, a strike exactly at a release, a held
   note struck again by a note the pedal does not hold *)
Theorem strike_worked_example :
  sound_offs_code 64 sx_notes sx_ctrls = [5; 5; 2; 2; 5; 2; 6] /\
  unique_pitches sx_notes = [60; 62; 64; 65]%Z /\
  sorted_indices sx_notes 60 = [2; 0]%nat /\
  next_strike_idx idx_code [0; 2] [1; 3] = [1; 2]%nat.
Proof. exact strike_example_lemma. Qed.
Print Assumptions strike_worked_example.

(* the statements discriminate: the same algorithm without np.maximum(.., arange) (a zero-length note clips
   itself: seed b), with searchsorted side="right" (a strike exactly at the release no longer clips), with groups
   made of the pedal-held notes only (seed i) computes another column on that input *)
Theorem strike_without_arange_refuted :
  sound_offs_with idx_nomax 64 sx_notes sx_ctrls = [5; 1; 2; 2; 5; 2; 6] /\
  sound_offs_with idx_nomax 64 sx_notes sx_ctrls <> sound_offs 64 sx_notes sx_ctrls.
Proof. exact nomax_refuted_lemma. Qed.
Print Assumptions strike_without_arange_refuted.

Theorem strike_side_right_refuted :
  sound_offs_with idx_right 64 sx_notes sx_ctrls = [5; 5; 2; 5; 5; 2; 6] /\
  sound_offs_with idx_right 64 sx_notes sx_ctrls <> sound_offs 64 sx_notes sx_ctrls.
Proof. exact side_right_refuted_lemma. Qed.
Print Assumptions strike_side_right_refuted.

Theorem strike_sustained_groups_refuted :
  sound_offs_sustained 64 sx_notes sx_ctrls = [5; 5; 2; 2; 5; 5; 6] /\
  sound_offs_sustained 64 sx_notes sx_ctrls <> sound_offs 64 sx_notes sx_ctrls.
Proof. exact sustained_only_refuted_lemma. Qed.
Print Assumptions strike_sustained_groups_refuted.
