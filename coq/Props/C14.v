(* C14 -- property theorems (statements + exact only; proofs in Proofs/C14.v). *)
From PV Require Import Lib.Base Lib.Round Model.C12 Model.C14 Proofs.C14.
From Coq Require Import QArith Qminmax Qabs.
#[local] Open Scope Q_scope.

Theorem no_pedal_identity : forall thr ns cs,
  pedal_events cs = [] -> sound_offs thr ns cs = map n_off ns.
Proof. exact no_pedal_identity_lemma. Qed.
Print Assumptions no_pedal_identity.
