(* C19 -- property theorems.  Statements + `exact` only; proofs live in Proofs/C19.v.
   The definitions are those of Model/C19.v, which the correspondence of harness/props/c19.py
   evaluates on every generated document next to load_mei / load_kern (check_doc, check_kern_pitch). *)
From PV Require Import Lib.Base Model.C19 Proofs.C19 Proofs.C19_export Proofs.C19_spine.
From Coq Require Import QArith Qround Ascii.
#[local] Open Scope Z_scope.

(* kern: harmonic addition of the dot values equals the dotted value, for any reciprocal value and any
   number of dots: 4/dot_function r d = (4/r) * (2 - 2^-d) *)
Theorem kern_dot_function : forall (r : Q) (d : nat), (0 < r)%Q ->
  (4 / dot_function r d == (4 / r) * (2 - 1 / qpow 2 d))%Q.
Proof. exact kern_dot_function_lemma. Qed.
Print Assumptions kern_dot_function.

(* kern: a written value v under tuplet ratio num:base, encoded as reciprocal v*num/base with d dots
   (12 = triplet eighth), lasts what the notation denotes *)
Theorem kern_dur_denotes : forall v num base (d : nat), 0 < v -> 0 < num -> 0 < base ->
  (kern_quarters (kern_recip v num base) d == den_dur v d num base)%Q.
Proof. exact kern_dur_denotes_lemma. Qed.
Print Assumptions kern_dur_denotes.

(* kern pitch letters, any repetition count n+1: lower case c.. = octave 4+n, upper case = octave 3-n *)
Theorem kern_pitch_octave : forall (c : ascii) (st : Z) (lower : bool) (n : nat),
  letter_step c = Some (st, lower) ->
  kern_pitch (repeat_char c (S n)) = Some (st, if lower then 4 + Z.of_nat n else 3 - Z.of_nat n).
Proof. exact kern_pitch_octave_lemma. Qed.
Print Assumptions kern_pitch_octave.

(* MEI: the loader's tick duration is divs times the denoted duration; an accepted (integral) tick count
   represents it exactly; grace notes have no duration *)
Theorem mei_duration_denotes : forall divs v (d : nat) num base, 0 < v -> 0 < num ->
  (mei_duration divs v d num base == inject_Z divs * den_dur v d num base)%Q.
Proof. exact mei_duration_denotes_lemma. Qed.
Print Assumptions mei_duration_denotes.

Theorem mei_ticks_exact : forall divs e k, 0 < e_val e -> 0 < e_num e ->
  mei_ticks divs e = Some k ->
  (inject_Z k == inject_Z divs * (if e_grace e then 0 else den_dur (e_val e) (e_dots e) (e_num e) (e_base e)))%Q.
Proof. exact mei_ticks_exact_lemma. Qed.
Print Assumptions mei_ticks_exact.

(* MEI: the inferred divisions (lcm rule of _find_ppq) make EVERY written duration of the document a whole
   number of divisions -- any value, any number of dots, any tuplet ratio (dotted tuplets included) ... *)
Theorem mei_ppq_exact : forall units evs e,
  In e evs -> 0 < e_val e -> 0 < e_num e -> 0 < e_base e ->
  exists k : Z, (inject_Z (find_ppq units evs) * den_dur (e_val e) (e_dots e) (e_num e) (e_base e) == inject_Z k)%Q.
Proof. exact mei_ppq_exact_lemma. Qed.
Print Assumptions mei_ppq_exact.

(* ... and every measure rest of a declared meter c/u *)
Theorem mei_ppq_mrest_exact : forall units evs u c, In u units -> 0 < u ->
  exists k : Z, (inject_Z (find_ppq units evs) * (4 * inject_Z c / inject_Z u) == inject_Z k)%Q.
Proof. exact mei_ppq_mrest_lemma. Qed.
Print Assumptions mei_ppq_mrest_exact.

(* kern: the divisions chosen for a spine (and any multiple: the lcm over spines and parts) represent every
   reciprocal value of the spine exactly; then the loader's ceil is the identity *)
Theorem kern_divs_exact : forall fuel rs D, kern_spine_divs fuel rs = Some D ->
  forall r, In r rs -> (0 < r)%Q -> forall M, (D | M) ->
  exists t : Z, (4 / r * inject_Z M == inject_Z t)%Q.
Proof. exact kern_divs_exact_lemma. Qed.
Print Assumptions kern_divs_exact.

Theorem kern_ticks_exact : forall divs recip (d : nat) t,
  (kern_quarters recip d * inject_Z divs == inject_Z t)%Q -> kern_ticks divs recip d = t.
Proof. exact kern_ticks_exact_lemma. Qed.
Print Assumptions kern_ticks_exact.

(* the rule used before the repair (max (lcm) 4 instead of a common multiple) misses a case: findings C19 fixed 9b9ba16 *)
Theorem kern_divs_max_rule_refuted :
  exists rs r, In r rs /\ 0 < r /\ ~ exists t : Z, (4 / inject_Z r * inject_Z (old_kern_divs rs) == inject_Z t)%Q.
Proof. exact kern_divs_max_rule_refuted_lemma. Qed.
Print Assumptions kern_divs_max_rule_refuted.

(* position from the order within the layer: the i-th onset is the measure start plus the durations before it *)
Theorem onsets_prefix_sums : forall mlen evs t i o e,
  nth_error (layer_onsets mlen t evs) i = Some (o, e) ->
  (o == t + sum_dur mlen (firstn i evs))%Q /\ nth_error evs i = Some e.
Proof. exact onsets_prefix_sums_lemma. Qed.
Print Assumptions onsets_prefix_sums.

(* the next measure starts at the maximum end over all layers of all staves (or at its own start if empty) *)
Theorem measure_start_max : forall t m,
  (t <= measure_end t m)%Q /\
  (forall evs, In evs (List.concat (m_staves m)) -> (layer_end (m_len m) t evs <= measure_end t m)%Q) /\
  (measure_end t m = t \/ exists evs, In evs (List.concat (m_staves m)) /\ measure_end t m = layer_end (m_len m) t evs).
Proof. exact measure_start_max_lemma. Qed.
Print Assumptions measure_start_max.

(* ties: a chain of tied notes is one joined note from the head's onset lasting the sum; untied notes stay;
   joining conserves the total sounding time *)
Theorem ties_join_sum : forall o0 d0 chain o d r,
  (forall x, In x chain -> snd x = true) ->
  join_ties None ((o0, d0, true) :: chain ++ (o, d, false) :: r)
  = (o0, fold_left Qplus (map row_dur (chain ++ [(o, d, false)])) d0) :: join_ties None r.
Proof. exact ties_join_sum_lemma. Qed.
Print Assumptions ties_join_sum.

Theorem ties_join_total : forall l, (qsum (map snd (join_ties None l)) == qsum (map row_dur l))%Q.
Proof. exact ties_join_total_lemma. Qed.
Print Assumptions ties_join_total.

(* grace notes: no duration, and the following element starts at the grace note's onset *)
Theorem grace_zero : forall mlen e, e_grace e = true -> ev_dur mlen e = 0%Q.
Proof. exact grace_zero_lemma. Qed.
Print Assumptions grace_zero.

Theorem grace_next_onset : forall mlen t g e r, e_grace g = true ->
  exists o, nth_error (layer_onsets mlen t (g :: e :: r)) 1 = Some (o, e) /\ (o == t)%Q.
Proof. exact grace_next_onset_lemma. Qed.
Print Assumptions grace_next_onset.

(* ---------------------------------------------------------------- export -> load (O4) *)

(* load_mei resolves the staff of a note as note@staff, else chord@staff, else n of the enclosing <staff>: a note
   exported with its own @staff (what save_mei writes), or without any where the enclosing staff is its own, comes
   back on its staff whatever layer, chord, beam or tuplet it is nested in *)
Theorem export_staff_preserved : forall (s : Z) (na ca : option Z) (en : Z),
  na = Some s \/ (na = None /\ ca = Some s) \/ (na = None /\ ca = None /\ en = s) -> imp_staff na ca en = s.
Proof. exact export_staff_preserved_lemma. Qed.
Print Assumptions export_staff_preserved.

(* ... whereas omitting it because the staff equals the number of the enclosing LAYER (the voice) is not sound *)
Theorem export_staff_vs_layer_refuted : exists (s layer_n en : Z), s = layer_n /\ imp_staff None None en <> s.
Proof. exact export_staff_vs_layer_refuted_lemma. Qed.
Print Assumptions export_staff_vs_layer_refuted.

(* both loaders place an element where the previous one of its layer / spine ends (position from order): the
   onsets of the model's layer are exactly the onsets re-derived from the durations ... *)
Theorem onsets_from_durs_layer : forall mlen evs t,
  map fst (layer_onsets mlen t evs) = onsets_from_durs t (map (ev_dur mlen) evs).
Proof. exact onsets_from_durs_layer_lemma. Qed.
Print Assumptions onsets_from_durs_layer.

(* ... so a voice written as one layer / spine gets its original onsets back if and only if it has no hole
   (the boundary of known finding C19-K2) *)
Theorem reload_onsets_iff_gapless : forall rows t,
  gapless t rows = true <-> Forall2 Qeq (map fst rows) (onsets_from_durs t (map snd rows)).
Proof. exact reload_onsets_iff_gapless_lemma. Qed.
Print Assumptions reload_onsets_iff_gapless.

Theorem hole_shifts : forall t d o2 d2 r, ~ (o2 == t + d)%Q ->
  ~ Forall2 Qeq (map fst ((t, d) :: (o2, d2) :: r)) (onsets_from_durs t (map snd ((t, d) :: (o2, d2) :: r))).
Proof. exact hole_shifts_lemma. Qed.
Print Assumptions hole_shifts.

(* a note whose tick duration t (at D divisions) is what its written value denotes is re-loaded, at whatever
   divisions the loader chooses, with the same duration in quarters: MEI (accepted integral ticks) ... *)
Theorem mei_roundtrip_duration : forall (D t divs' : Z) e k,
  0 < D -> 0 < divs' -> 0 < e_val e -> 0 < e_num e -> e_grace e = false ->
  (inject_Z t == inject_Z D * den_dur (e_val e) (e_dots e) (e_num e) (e_base e))%Q ->
  mei_ticks divs' e = Some k ->
  (inject_Z k / inject_Z divs' == inject_Z t / inject_Z D)%Q.
Proof. exact mei_roundtrip_duration_lemma. Qed.
Print Assumptions mei_roundtrip_duration.

(* ... and kern (reciprocal value v*num/base with d dots; exact divisions, which kern_divs_exact provides) *)
Theorem kern_roundtrip_duration : forall (D t divs' v num base : Z) (d : nat) (k : Z),
  0 < D -> 0 < divs' -> 0 < v -> 0 < num -> 0 < base ->
  (inject_Z t == inject_Z D * den_dur v d num base)%Q ->
  (kern_quarters (kern_recip v num base) d * inject_Z divs' == inject_Z k)%Q ->
  kern_ticks divs' (kern_recip v num base) d = k /\ (inject_Z k / inject_Z divs' == inject_Z t / inject_Z D)%Q.
Proof. exact kern_roundtrip_duration_lemma. Qed.
Print Assumptions kern_roundtrip_duration.

(* ---------------------------------------------------------------- kern spine splits *)

(* the loader's line-by-line count of sub-spines agrees with what "*^" / "*v" denote on every line that holds the
   spine's w cells with at most one split, no split together with a merge, and merges only in adjacent pairs
   (the shape of all documents generated from abstract scores with up to two layers per staff) ... *)
Theorem step_width_correct : forall w line,
  Z.of_nat (List.length line) = w ->
  count_tok is_split line <= 1 ->
  (count_tok is_split line = 1 -> count_tok is_merge line = 0) ->
  Forall (fun n => n = 2%nat) (merge_runs O line) ->
  step_width w line = humdrum_width w line.
Proof. exact step_width_correct_lemma. Qed.
Print Assumptions step_width_correct.

(* ... and not beyond: two splits of one spine on the same line, or a merge of three sub-spines, are miscounted *)
Theorem step_width_two_splits_refuted :
  exists w line, Z.of_nat (List.length line) = w /\ step_width w line <> humdrum_width w line.
Proof. exact step_width_two_splits_refuted_lemma. Qed.
Print Assumptions step_width_two_splits_refuted.

Theorem step_width_triple_merge_refuted :
  exists w line, Z.of_nat (List.length line) = w /\ count_tok is_split line = 0 /\ step_width w line <> humdrum_width w line.
Proof. exact step_width_triple_merge_refuted_lemma. Qed.
Print Assumptions step_width_triple_merge_refuted.
