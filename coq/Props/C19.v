(* C19 -- property theorems.  Statements + `exact` only; proofs live in Proofs/C19.v.
   The definitions are those of Model/C19.v, which the correspondence of harness/props/c19.py
   evaluates on every generated document next to load_mei / load_kern (check_doc, check_kern_pitch). *)
From PV Require Import Lib.Base Model.C19 Model.C19_mei Model.C19_disp Model.C19_kern Proofs.C19 Proofs.C19_export Proofs.C19_spine Proofs.C19_mei Proofs.C19_disp Proofs.C19_kern Model.C19_hist Proofs.C19_hist Gen.C19_tables Model.C19_attr Proofs.C19_attr.
From Coq Require Import QArith Qround Ascii.
#[local] Open Scope Z_scope.

(* kern: harmonic addition of the dot values equals the dotted value, for any reciprocal value and any
   number of dots: 4/dot_function r d = (4/r) * (2 - 2^-d) *)
Theorem kern_dot_function : forall (r : Q) (d : nat), (0 < r)%Q ->
  (4 / dot_function r d == (4 / r) * (2 - 1 / qpow 2 d))%Q.
Proof. exact kern_dot_function_lemma. Qed.
Print Assumptions kern_dot_function.

(* kern: a written value v under tuplet ratio num:base, encoded as reciprocal v*num/base with d dots
   (12 = triplet eighth), lasts what the notation denotes *)
Theorem kern_dur_denotes : forall v num base (d : nat), 0 < v -> 0 < num -> 0 < base ->
  (kern_quarters (kern_recip v num base) d == den_dur v d num base)%Q.
Proof. exact kern_dur_denotes_lemma. Qed.
Print Assumptions kern_dur_denotes.

(* kern pitch letters, any repetition count n+1: lower case c.. = octave 4+n, upper case = octave 3-n *)
Theorem kern_pitch_octave : forall (c : ascii) (st : Z) (lower : bool) (n : nat),
  letter_step c = Some (st, lower) ->
  kern_pitch (repeat_char c (S n)) = Some (st, if lower then 4 + Z.of_nat n else 3 - Z.of_nat n).
Proof. exact kern_pitch_octave_lemma. Qed.
Print Assumptions kern_pitch_octave.

(* MEI: the loader's tick duration is divs times the denoted duration; an accepted (integral) tick count
   represents it exactly; grace notes have no duration *)
Theorem mei_duration_denotes : forall divs v (d : nat) num base, 0 < v -> 0 < num ->
  (mei_duration divs v d num base == inject_Z divs * den_dur v d num base)%Q.
Proof. exact mei_duration_denotes_lemma. Qed.
Print Assumptions mei_duration_denotes.

Theorem mei_ticks_exact : forall divs e k, 0 < e_val e -> 0 < e_num e ->
  mei_ticks divs e = Some k ->
  (inject_Z k == inject_Z divs * (if e_grace e then 0 else den_dur (e_val e) (e_dots e) (e_num e) (e_base e)))%Q.
Proof. exact mei_ticks_exact_lemma. Qed.
Print Assumptions mei_ticks_exact.

(* MEI: the inferred divisions (lcm rule of _find_ppq) make EVERY written duration of the document a whole
   number of divisions -- any value, any number of dots, any tuplet ratio (dotted tuplets included) ... *)
Theorem mei_ppq_exact : forall units evs e,
  In e evs -> 0 < e_val e -> 0 < e_num e -> 0 < e_base e ->
  exists k : Z, (inject_Z (find_ppq units evs) * den_dur (e_val e) (e_dots e) (e_num e) (e_base e) == inject_Z k)%Q.
Proof. exact mei_ppq_exact_lemma. Qed.
Print Assumptions mei_ppq_exact.

(* ... and every measure rest of a declared meter c/u *)
Theorem mei_ppq_mrest_exact : forall units evs u c, In u units -> 0 < u ->
  exists k : Z, (inject_Z (find_ppq units evs) * (4 * inject_Z c / inject_Z u) == inject_Z k)%Q.
Proof. exact mei_ppq_mrest_lemma. Qed.
Print Assumptions mei_ppq_mrest_exact.

(* kern: the divisions chosen for a spine (and any multiple: the lcm over spines and parts) represent every
   reciprocal value of the spine exactly; then the loader's ceil is the identity *)
Theorem kern_divs_exact : forall fuel rs D, kern_spine_divs fuel rs = Some D ->
  forall r, In r rs -> (0 < r)%Q -> forall M, (D | M) ->
  exists t : Z, (4 / r * inject_Z M == inject_Z t)%Q.
Proof. exact kern_divs_exact_lemma. Qed.
Print Assumptions kern_divs_exact.

Theorem kern_ticks_exact : forall divs recip (d : nat) t,
  (kern_quarters recip d * inject_Z divs == inject_Z t)%Q -> kern_ticks divs recip d = t.
Proof. exact kern_ticks_exact_lemma. Qed.
Print Assumptions kern_ticks_exact.

(* the rule used before the repair (max (lcm) 4 instead of a common multiple) misses a case: findings C19 fixed 9b9ba16 *)
Theorem kern_divs_max_rule_refuted :
  exists rs r, In r rs /\ 0 < r /\ ~ exists t : Z, (4 / inject_Z r * inject_Z (old_kern_divs rs) == inject_Z t)%Q.
Proof. exact kern_divs_max_rule_refuted_lemma. Qed.
Print Assumptions kern_divs_max_rule_refuted.

(* position from the order within the layer: the i-th onset is the measure start plus the durations before it *)
Theorem onsets_prefix_sums : forall mlen evs t i o e,
  nth_error (layer_onsets mlen t evs) i = Some (o, e) ->
  (o == t + sum_dur mlen (firstn i evs))%Q /\ nth_error evs i = Some e.
Proof. exact onsets_prefix_sums_lemma. Qed.
Print Assumptions onsets_prefix_sums.

(* the next measure starts at the maximum end over all layers of all staves (or at its own start if empty) *)
Theorem measure_start_max : forall t m,
  (t <= measure_end t m)%Q /\
  (forall evs, In evs (List.concat (m_staves m)) -> (layer_end (m_len m) t evs <= measure_end t m)%Q) /\
  (measure_end t m = t \/ exists evs, In evs (List.concat (m_staves m)) /\ measure_end t m = layer_end (m_len m) t evs).
Proof. exact measure_start_max_lemma. Qed.
Print Assumptions measure_start_max.

(* ties: a chain of tied notes is one joined note from the head's onset lasting the sum; untied notes stay;
   joining conserves the total sounding time *)
Theorem ties_join_sum : forall o0 d0 chain o d r,
  (forall x, In x chain -> snd x = true) ->
  join_ties None ((o0, d0, true) :: chain ++ (o, d, false) :: r)
  = (o0, fold_left Qplus (map row_dur (chain ++ [(o, d, false)])) d0) :: join_ties None r.
Proof. exact ties_join_sum_lemma. Qed.
Print Assumptions ties_join_sum.

Theorem ties_join_total : forall l, (qsum (map snd (join_ties None l)) == qsum (map row_dur l))%Q.
Proof. exact ties_join_total_lemma. Qed.
Print Assumptions ties_join_total.

(* grace notes: no duration, and the following element starts at the grace note's onset *)
Theorem grace_zero : forall mlen e, e_grace e = true -> ev_dur mlen e = 0%Q.
Proof. exact grace_zero_lemma. Qed.
Print Assumptions grace_zero.

Theorem grace_next_onset : forall mlen t g e r, e_grace g = true ->
  exists o, nth_error (layer_onsets mlen t (g :: e :: r)) 1 = Some (o, e) /\ (o == t)%Q.
Proof. exact grace_next_onset_lemma. Qed.
Print Assumptions grace_next_onset.

(* ---------------------------------------------------------------- export -> load (O4) *)

(* load_mei resolves the staff of a note as note@staff, else chord@staff, else n of the enclosing <staff>: a note
   exported with its own @staff (what save_mei writes), or without any where the enclosing staff is its own, comes
   back on its staff whatever layer, chord, beam or tuplet it is nested in *)
Theorem export_staff_preserved : forall (s : Z) (na ca : option Z) (en : Z),
  na = Some s \/ (na = None /\ ca = Some s) \/ (na = None /\ ca = None /\ en = s) -> imp_staff na ca en = s.
Proof. exact export_staff_preserved_lemma. Qed.
Print Assumptions export_staff_preserved.

(* ... whereas omitting it because the staff equals the number of the enclosing LAYER (the voice) is not sound *)
Theorem export_staff_vs_layer_refuted : exists (s layer_n en : Z), s = layer_n /\ imp_staff None None en <> s.
Proof. exact export_staff_vs_layer_refuted_lemma. Qed.
Print Assumptions export_staff_vs_layer_refuted.

(* both loaders place an element where the previous one of its layer / spine ends (position from order): the
   onsets of the model's layer are exactly the onsets re-derived from the durations ... *)
Theorem onsets_from_durs_layer : forall mlen evs t,
  map fst (layer_onsets mlen t evs) = onsets_from_durs t (map (ev_dur mlen) evs).
Proof. exact onsets_from_durs_layer_lemma. Qed.
Print Assumptions onsets_from_durs_layer.

(* ... so a voice written as one layer / spine gets its original onsets back if and only if it has no hole
   (the boundary of known finding C19-K2) *)
Theorem reload_onsets_iff_gapless : forall rows t,
  gapless t rows = true <-> Forall2 Qeq (map fst rows) (onsets_from_durs t (map snd rows)).
Proof. exact reload_onsets_iff_gapless_lemma. Qed.
Print Assumptions reload_onsets_iff_gapless.

Theorem hole_shifts : forall t d o2 d2 r, ~ (o2 == t + d)%Q ->
  ~ Forall2 Qeq (map fst ((t, d) :: (o2, d2) :: r)) (onsets_from_durs t (map snd ((t, d) :: (o2, d2) :: r))).
Proof. exact hole_shifts_lemma. Qed.
Print Assumptions hole_shifts.

(* a note whose tick duration t (at D divisions) is what its written value denotes is re-loaded, at whatever
   divisions the loader chooses, with the same duration in quarters: MEI (accepted integral ticks) ... *)
Theorem mei_roundtrip_duration : forall (D t divs' : Z) e k,
  0 < D -> 0 < divs' -> 0 < e_val e -> 0 < e_num e -> e_grace e = false ->
  (inject_Z t == inject_Z D * den_dur (e_val e) (e_dots e) (e_num e) (e_base e))%Q ->
  mei_ticks divs' e = Some k ->
  (inject_Z k / inject_Z divs' == inject_Z t / inject_Z D)%Q.
Proof. exact mei_roundtrip_duration_lemma. Qed.
Print Assumptions mei_roundtrip_duration.

(* ... and kern (reciprocal value v*num/base with d dots; exact divisions, which kern_divs_exact provides) *)
Theorem kern_roundtrip_duration : forall (D t divs' v num base : Z) (d : nat) (k : Z),
  0 < D -> 0 < divs' -> 0 < v -> 0 < num -> 0 < base ->
  (inject_Z t == inject_Z D * den_dur v d num base)%Q ->
  (kern_quarters (kern_recip v num base) d * inject_Z divs' == inject_Z k)%Q ->
  kern_ticks divs' (kern_recip v num base) d = k /\ (inject_Z k / inject_Z divs' == inject_Z t / inject_Z D)%Q.
Proof. exact kern_roundtrip_duration_lemma. Qed.
Print Assumptions kern_roundtrip_duration.

(* ---------------------------------------------------------------- kern spine splits *)

(* the loader's line-by-line count of sub-spines agrees with what "*^" / "*v" denote on every line that holds the
   spine's w cells with at most one split, no split together with a merge, and merges only in adjacent pairs
   (the shape of all documents generated from abstract scores with up to two layers per staff) ... *)
Theorem step_width_correct : forall w line,
  Z.of_nat (List.length line) = w ->
  count_tok is_split line <= 1 ->
  (count_tok is_split line = 1 -> count_tok is_merge line = 0) ->
  Forall (fun n => n = 2%nat) (merge_runs O line) ->
  step_width w line = humdrum_width w line.
Proof. exact step_width_correct_lemma. Qed.
Print Assumptions step_width_correct.

(* ... and not beyond: two splits of one spine on the same line, or a merge of three sub-spines, are miscounted *)
Theorem step_width_two_splits_refuted :
  exists w line, Z.of_nat (List.length line) = w /\ step_width w line <> humdrum_width w line.
Proof. exact step_width_two_splits_refuted_lemma. Qed.
Print Assumptions step_width_two_splits_refuted.

Theorem step_width_triple_merge_refuted :
  exists w line, Z.of_nat (List.length line) = w /\ count_tok is_split line = 0 /\ step_width w line <> humdrum_width w line.
Proof. exact step_width_triple_merge_refuted_lemma. Qed.
Print Assumptions step_width_triple_merge_refuted.

(* ---------------------------------------------------------------- the MEI loader's traversal (Model/C19_mei.v) *)

(* REFINEMENT.  The loader's traversal in divisions -- section items in document order, the time signatures of every
   part as state, a measure rest as long as the measure of the part's LAST time signature, every element placed where
   the previous one of its layer ends, the measure of a part ending at the max over its layers, the next measure
   starting at the max over the parts -- computes, for every document, divs x what the notation denotes: every measure
   starts at the encoded barline (measure_starts), every element of every layer of every part has the denoted onset
   and duration (denote_layer; the meter in force in a measure = the last one declared before it in the document,
   resolve), whatever the nesting, the number of meter changes, measure rests, spaces and grace notes. *)
Theorem mei_load_refines : forall divs c0 u0 init items out,
  0 < divs -> wf_meter divs c0 u0 ->
  Forall (fun i => fst (fst i) = c0 /\ snd (fst i) = u0) init ->
  Forall (wf_item divs) items ->
  mei_load divs init items = Some out ->
  Forall2 (repr divs) (map fst (o_meas out)) (measure_starts 0 (resolve c0 u0 items))
  /\ (forall s l, Forall2 (row_rel divs) (part_layer_rows s l (o_meas out))
                   (filter (fun r => visible (snd r)) (denote_layer s l 0 (resolve c0 u0 items))))
  /\ repr divs (o_end out) (fold_left measure_end (resolve c0 u0 items) 0%Q).
Proof. exact mei_load_refines_lemma. Qed.
Print Assumptions mei_load_refines.

(* the loader's `assert duration == int(duration)` never fires when every written value is a whole number of
   divisions and every measure lists one <staff> per part ... *)
Theorem mei_load_total : forall divs init items, Forall (item_total divs (List.length init)) items ->
  exists out, mei_load divs init items = Some out.
Proof. exact mei_load_total_lemma. Qed.
Print Assumptions mei_load_total.

(* ... which the inferred divisions (lcm rule of _find_ppq) guarantee for every element with @dur of the document and
   for the measure of every declared meter (the hypotheses wf_meter / exact_mel of the two theorems above) *)
Theorem mei_inferred_divisions_exact : forall units evs m,
  In (ml_ev m) evs -> 0 < e_val (ml_ev m) -> 0 < e_num (ml_ev m) -> 0 < e_base (ml_ev m) ->
  exact_mel (find_ppq units evs) m.
Proof. exact find_ppq_exact_mel. Qed.
Print Assumptions mei_inferred_divisions_exact.

Theorem mei_inferred_divisions_meter : forall units evs c u, In u units -> 0 < u -> wf_meter (find_ppq units evs) c u.
Proof. exact find_ppq_wf_meter. Qed.
Print Assumptions mei_inferred_divisions_meter.

(* the state matters: a measure rest that keeps the length computed under an earlier time signature of the part
   (the class of seeded change d) does not represent the measure of the meter in force *)
Theorem mrest_cached_refuted :
  exists divs ts c u, last_meter (ts ++ [(8, c, u)]) = (c, u) /\ wf_meter divs c u /\
    ~ repr divs (mrest_ticks divs ts) (4 * inject_Z c / inject_Z u)%Q.
Proof. exact mrest_cached_refuted_lemma. Qed.
Print Assumptions mrest_cached_refuted.

(* ---------------------------------------------------------------- dispatch by extension (Model/C19_disp.v) *)

(* load_score picks the reader from the LAST extension of the file name, lower-cased, whatever the rest of the path
   holds -- several dots, the extension of another reader before the last dot, dots in directory names -- provided the
   name itself (last path component of the stem) has a character other than '.' *)
Theorem dispatch_last_extension : forall (stem e : string), plain_name e = true -> scan_seen false stem = true ->
  load_score_reader (stem ++ String "."%char e) = reader_of_ext (lower (String "."%char e)).
Proof. exact dispatch_last_extension_lemma. Qed.
Print Assumptions dispatch_last_extension.

Theorem dispatch_mei_kern : forall stem : string, scan_seen false stem = true ->
  load_score_reader (stem ++ ".mei") = Some RMei /\ load_score_reader (stem ++ ".krn") = Some RKern /\
  load_score_reader (stem ++ ".kern") = Some RKern /\ load_score_reader (stem ++ ".MEI") = Some RMei /\
  load_score_reader (stem ++ ".Krn") = Some RKern /\ load_score_reader (stem ++ ".txt") = None /\
  load_score_reader (stem ++ ".meix") = None.
Proof. exact dispatch_mei_kern_lemma. Qed.
Print Assumptions dispatch_mei_kern.

(* a name that consists of an "extension" only (a hidden file ".mei") has none and is rejected, in any directory *)
Theorem dispatch_hidden_name_rejected : forall (dir e : string), plain_name e = true ->
  load_score_reader (dir ++ String "/"%char (String "."%char e)) = None.
Proof. exact hidden_name_rejected_lemma. Qed.
Print Assumptions dispatch_hidden_name_rejected.

(* ---------------------------------------------------------------- kern tokens as text (Model/C19_kern.v part 1) *)

(* load_kern's regular-expression searches decode EVERY note token of the shape
     decorations  digits  dots  letter x (k+1)  accidental  decorations
   (decorations: any characters that are neither pitch nor duration characters: ties [ ] _, beams L J, slurs, fermata,
   stems, the grace marker q ...) to the digits' reciprocal value, the number of dots, the letter's step, the octave
   4 + k (lower case) / 3 - k (upper case), the accidental's alteration, grace iff a 'q' occurs, tied to the previous
   note iff ']' or '_' occurs *)
Theorem kern_token_sound : forall (pre digits acc post : string) (nd k : nat) (c : ascii) (st : Z) (lower : bool),
  str_forall neutral pre = true -> str_forall neutral post = true ->
  digits <> ""%string -> str_forall is_digit digits = true ->
  letter_step c = Some (st, lower) -> good_acc acc ->
  parse_note_token (pre ++ (digits ++ repeat_char "."%char nd) ++ (repeat_char c (S k) ++ acc) ++ post) =
  KT false (has_char "q"%char pre || has_char "q"%char post) (digits_value digits) nd
     (Some (st, if lower then 4 + Z.of_nat k else 3 - Z.of_nat k)) (Some (acc_alter acc))
     ((has_char "]"%char pre || has_char "]"%char post) || (has_char "_"%char pre || has_char "_"%char post)).
Proof. exact kern_token_sound_lemma. Qed.
Print Assumptions kern_token_sound.

Theorem kern_rest_token : forall (pre digits post : string) (nd : nat),
  str_forall neutral pre = true -> str_forall neutral post = true -> digits <> ""%string -> str_forall is_digit digits = true ->
  parse_note_token (pre ++ (digits ++ repeat_char "."%char nd) ++ "r" ++ post) =
  KT true (has_char "q"%char pre || has_char "q"%char post) (digits_value digits) nd None (Some None)
     ((has_char "]"%char pre || has_char "]"%char post) || (has_char "_"%char pre || has_char "_"%char post)).
Proof. exact kern_rest_token_lemma. Qed.
Print Assumptions kern_rest_token.

(* WRITER -> LOADER.  Whatever note save_kern writes -- any step, accidental, octave (the letter repeated as often as
   the octave demands, unbounded), note value, number of dots, tuplet ratio with an integral reciprocal value, tie marks --
   load_kern's token parser reads the token back to the same step, octave, accidental, value, dots and tie ... *)
Theorem kern_write_parse : forall st alter oct v dots a n tprev tnext tok,
  0 <= st <= 6 -> alter_ok alter -> 0 < v -> 0 <= a -> 0 <= n ->
  kern_write_token st alter oct v dots a n tprev tnext = Some tok ->
  parse_note_token tok = KT false false (Some (written_recip v a n)) dots (Some (st, oct)) (Some alter) tprev.
Proof. exact kern_write_parse_lemma. Qed.
Print Assumptions kern_write_parse.

(* ... whose duration is what the note's written value denotes *)
Theorem kern_written_duration : forall v dots a n, 0 < v -> 0 < a -> 0 < n -> (v * a) mod n = 0 ->
  (kern_quarters (inject_Z (written_recip v a n)) dots == den_dur v dots a n)%Q.
Proof. exact kern_written_duration_lemma. Qed.
Print Assumptions kern_written_duration.

(* the written value load_kern gives a reciprocal value r (note value b, ratio a : n; what the writers export) denotes
   the duration of r, for every r -- and the rule used before commit cd703a5 did not *)
Theorem kern_symbolic_denotes : forall r b a n, 0 < r -> kern_symbolic r = (b, a, n) ->
  0 < b /\ ((a = 0 /\ n = 0 /\ b = r) \/ (0 < a /\ 0 < n /\ b * a = r * n)).
Proof. exact kern_symbolic_denotes_lemma. Qed.
Print Assumptions kern_symbolic_denotes.

Theorem kern_symbolic_old_rule_refuted : exists r b a n, old_kern_symbolic r = (b, a, n) /\ b * a <> r * n.
Proof. exact kern_symbolic_old_rule_refuted_lemma. Qed.
Print Assumptions kern_symbolic_old_rule_refuted.

(* ---------------------------------------------------------------- kern timeline placement (Model/C19_kern.v part 3) *)

(* element_parsing with the shared table line -> position: whenever the table and the measure starts a spine inherits
   agree with the spine's own durations, every note is placed by the order within its own spine *)
Theorem kern_spine_run_aligned : forall divs same sub mstarts cells pos nbar tbl,
  aligned divs same sub mstarts cells pos nbar tbl ->
  fst (fst (spine_run divs same sub mstarts cells pos nbar tbl)) = spine_own divs cells pos.
Proof. exact spine_run_aligned_lemma. Qed.
Print Assumptions kern_spine_run_aligned.

(* the spine that creates the part (one token per document line), at exact divisions: divs x the denoted positions *)
Theorem kern_first_spine_placement : forall divs cells, NoDup (map fst cells) -> Forall (exact_cell divs) cells ->
  Forall2 (krow_rel divs) (fst (fst (spine_run divs false false [] cells 0 O []))) (spine_den cells 0%Q).
Proof. exact kern_first_spine_lemma. Qed.
Print Assumptions kern_first_spine_placement.

(* every later spine or sub-spine of the part whose inherited table agrees with it *)
Theorem kern_later_spine_placement : forall divs sub mstarts tbl cells,
  aligned divs true sub mstarts cells 0 O tbl -> Forall (exact_cell divs) cells ->
  Forall2 (krow_rel divs) (fst (fst (spine_run divs true sub mstarts cells 0 O tbl))) (spine_den cells 0%Q).
Proof. exact kern_later_spine_lemma. Qed.
Print Assumptions kern_later_spine_placement.

(* and a table that contradicts the spine (filled at other divisions, or from a misaligned line) moves its notes *)
Theorem kern_misaligned_moves :
  exists divs tbl cells, fst (fst (spine_run divs true true [0] cells 0 O tbl)) <> spine_own divs cells 0.
Proof. exact kern_misaligned_moves_lemma. Qed.
Print Assumptions kern_misaligned_moves.

(* the lookup on EVERY line used before commit 89ae5ce: the position recorded for an interpretation line while the
   first spine's note is sounding is that note's end, not the time of the line *)
Theorem kern_tandem_lookup_refuted :
  exists tbl line pos, tbl_get line tbl <> None /\ old_lookup_pos tbl line pos <> pos /\
    tbl = snd (spine_run 6 false false [] (firstn 6 ex_sp1) 0 O []) /\ line = 6 /\ pos = 12.
Proof. exact kern_tandem_lookup_refuted_lemma. Qed.
Print Assumptions kern_tandem_lookup_refuted.

(* ---------------------------------------------------------------- state carried between calls (Model/C19_hist.v) *)

(* a live part exported, edited, exported again (save_kern, note tokens): whatever earlier exports left in the part
   (filled rests, added measures), the exports of EVERY history are the exports of freshly built parts holding the
   notes the part has at that moment *)
Theorem history_exports_fresh : forall ops s, h_run s ops = h_ref (h_notes s) ops.
Proof. exact h_run_ref_lemma. Qed.
Print Assumptions history_exports_fresh.

Theorem history_state_independent : forall ops s1 s2, h_notes s1 = h_notes s2 -> h_run s1 ops = h_run s2 ops.
Proof. exact h_run_state_independent_lemma. Qed.
Print Assumptions history_state_independent.

(* observation = f (current state): the export that ends any history writes the tokens of the current notes *)
Theorem history_observation_current : forall pre keeps s,
  last (h_run s (pre ++ [HSave keeps])) [] = h_view (h_notes_after (h_notes s) pre).
Proof. exact h_obs_current_lemma. Qed.
Print Assumptions history_observation_current.

Theorem history_save_idempotent : forall k1 k2 s pre,
  h_run s (pre ++ [HSave k1; HSave k2]) = h_run s (pre ++ [HSave k1]) ++ [last (h_run s (pre ++ [HSave k1])) []].
Proof. exact h_save_idempotent_lemma. Qed.
Print Assumptions history_save_idempotent.

(* a writer that memoises its first export on the part contradicts it (witness: export, pitch edit, export) *)
Theorem history_memo_refuted : exists notes ops, m_run None (HS notes [] false) ops <> h_run (HS notes [] false) ops.
Proof. exact m_run_refuted_lemma. Qed.
Print Assumptions history_memo_refuted.

(* a token cache keyed by the position of the note only: right on every single export of a fresh part, wrong in a history *)
Theorem history_position_cache_single_ok : forall notes keeps,
  k_run [] (HS notes [] false) [HSave keeps] = h_run (HS notes [] false) [HSave keeps].
Proof. exact k_run_single_ok_lemma. Qed.
Print Assumptions history_position_cache_single_ok.

Theorem history_position_cache_refuted : exists notes ops, k_run [] (HS notes [] false) ops <> h_run (HS notes [] false) ops.
Proof. exact k_run_refuted_lemma. Qed.
Print Assumptions history_position_cache_refuted.

(* ---------------------------------------------------------------- attribute-level decoding of one MEI element (Model/C19_attr.v, round j) *)

(* tuplet ratio: an element takes the ratio of the ONE <tuplet> among its ancestors at whatever depth -- any number of
   beams or other containers between the tuplet and the element (pre) and around the tuplet (post) *)
Theorem mei_tuplet_any_depth : forall self children pre post t d ty dots r,
  attr "dur" self = Some d -> slookup d mei_durs_to_symbolic = Some ty -> dots_attr self = Some dots ->
  Forall (fun n => is_tuplet n = false) pre -> Forall (fun n => is_tuplet n = false) post ->
  is_tuplet t = true -> tuplet_ratio t = Some r ->
  get_symbolic_duration (El self children (pre ++ t :: post)) = Some (SD ty dots (Some r)).
Proof. exact mei_tuplet_any_depth_lemma. Qed.
Print Assumptions mei_tuplet_any_depth.

(* ... no ratio without a tuplet ancestor ... *)
Theorem mei_no_tuplet : forall self children anc d ty dots,
  attr "dur" self = Some d -> slookup d mei_durs_to_symbolic = Some ty -> dots_attr self = Some dots ->
  Forall (fun n => is_tuplet n = false) anc ->
  get_symbolic_duration (El self children anc) = Some (SD ty dots None).
Proof. exact mei_no_tuplet_lemma. Qed.
Print Assumptions mei_no_tuplet.

(* ... and two tuplet ancestors anywhere in the chain are rejected (the loader raises; outside the supported subset) *)
Theorem mei_nested_tuplets_rejected : forall self children a t1 b t2 c,
  is_tuplet t1 = true -> is_tuplet t2 = true ->
  get_symbolic_duration (El self children (a ++ t1 :: b ++ t2 :: c)) = None.
Proof. exact mei_nested_tuplets_rejected_lemma. Qed.
Print Assumptions mei_nested_tuplets_rejected.

(* the lookup on the direct parent only (seeded change b) contradicts mei_tuplet_any_depth: tuplet > beam > note *)
Theorem mei_tuplet_parent_only_refuted :
  exists self children pre post t d ty dots r,
    attr "dur" self = Some d /\ slookup d mei_durs_to_symbolic = Some ty /\ dots_attr self = Some dots /\
    Forall (fun n => is_tuplet n = false) pre /\ Forall (fun n => is_tuplet n = false) post /\
    is_tuplet t = true /\ tuplet_ratio t = Some r /\
    get_symbolic_duration_parent_only (El self children (pre ++ t :: post)) <> Some (SD ty dots (Some r)).
Proof. exact mei_tuplet_parent_only_refuted_lemma. Qed.
Print Assumptions mei_tuplet_parent_only_refuted.

(* _duration_info on the ATTRIBUTES: whatever tick count the loader accepts for an element that is no grace note and
   carries no @dur.ppq is divs x the duration its @dur, @dots and enclosing tuplet denote -- for the integral values ... *)
Theorem mei_attr_duration_denotes : forall divs e k sd v,
  duration_info divs e = Some (k, sd) -> attr "grace" (el_self e) = None -> attr "dur.ppq" (el_self e) = None ->
  slookup (sd_type sd) symbolic_to_int_durs = Some (inject_Z v) -> 0 < v -> 0 < sd_actual sd ->
  (inject_Z k == inject_Z divs * den_dur v (sd_dots0 sd) (sd_actual sd) (sd_normal sd))%Q.
Proof. exact mei_attr_duration_denotes_lemma. Qed.
Print Assumptions mei_attr_duration_denotes.

(* ... and for any positive table value q (breve = 1/2, long = 1/4 of the reciprocal scale) *)
Theorem mei_attr_duration_denotes_q : forall divs e k sd q,
  duration_info divs e = Some (k, sd) -> attr "grace" (el_self e) = None -> attr "dur.ppq" (el_self e) = None ->
  slookup (sd_type sd) symbolic_to_int_durs = Some q -> (0 < q)%Q -> 0 < sd_actual sd ->
  (inject_Z k == inject_Z divs *
     ((4 / q) * dot_factor (sd_dots0 sd) * (inject_Z (sd_normal sd) / inject_Z (sd_actual sd))))%Q.
Proof. exact mei_attr_duration_denotes_q_lemma. Qed.
Print Assumptions mei_attr_duration_denotes_q.

(* an element with @grace (any value) lasts no time, whatever else it carries *)
Theorem mei_attr_grace_zero : forall divs e k sd g,
  attr "grace" (el_self e) = Some g -> duration_info divs e = Some (k, sd) -> k = 0.
Proof. exact mei_attr_grace_zero_lemma. Qed.
Print Assumptions mei_attr_grace_zero.

(* the tables as the loader holds them NOW (reflected at every run): every @dur value of mei_dur_spec is decoded to the
   reciprocal value it denotes, every accidental of mei_accid_spec to its alteration (complete finite domains) *)
Theorem mei_dur_values_denote :
  forallb (fun p : string * Q =>
             match (ty <- slookup (fst p) mei_durs_to_symbolic ;; slookup ty symbolic_to_int_durs) with
             | Some q => Qeq_bool q (snd p) | None => false end) mei_dur_spec = true.
Proof. exact mei_dur_values_denote_lemma. Qed.
Print Assumptions mei_dur_values_denote.

Theorem mei_accid_values_denote :
  forallb (fun p : string * Z => match sign_alter (fst p) with Some (Some a) => a =? snd p | _ => false end)
          mei_accid_spec = true.
Proof. exact mei_accid_values_denote_lemma. Qed.
Print Assumptions mei_accid_values_denote.

(* spelling: wherever the accidental s is written -- @accid, @accid.ges, @accid or @accid.ges of an <accid> child that
   may follow other children -- and however often, as long as the places agree, the note gets the alteration of s *)
Theorem mei_accid_wherever_written : forall e s a,
  sign_alter s = Some a -> accid_sources e <> [] -> Forall (eq s) (accid_sources e) -> accid_int e = Some a.
Proof. exact mei_accid_wherever_written_lemma. Qed.
Print Assumptions mei_accid_wherever_written.

(* ... and a note without any of them has no alteration (None, not an error) *)
Theorem mei_no_accid : forall e,
  attr "accid" (el_self e) = None -> attr "accid.ges" (el_self e) = None -> find is_accid (el_children e) = None ->
  accid_int e = Some None.
Proof. exact mei_no_accid_lemma. Qed.
Print Assumptions mei_no_accid.

(* dropping the inner test (the child's @accid only) contradicts it: <note><artic/><accid accid.ges="f"/></note> *)
Theorem mei_accid_child_written_only_refuted :
  exists e s a, sign_alter s = Some a /\ accid_sources e <> [] /\ Forall (eq s) (accid_sources e) /\
                accid_int_child_written_only e <> Some a.
Proof. exact mei_accid_child_written_only_refuted_lemma. Qed.
Print Assumptions mei_accid_child_written_only_refuted.

(* GLUE.  A layer given as its XML elements with @dur (notes, chords, rests, spaces; flattened in document order, each
   with its own ancestors) run through _duration_info on the ATTRIBUTES is the layer run of the traversal model on the
   abstract elements the attributes stand for (mels_of): mei_load_refines therefore speaks about the file's attributes *)
Theorem mei_layer_attr_refines : forall divs mr es ms pos,
  mels_of es = Some ms -> layer_run_attr divs pos es = layer_run divs mr pos ms.
Proof. exact layer_run_attr_refines. Qed.
Print Assumptions mei_layer_attr_refines.

(* ... and, chained with the refinement proof of the traversal: every element of such a layer (no @dur.ppq) starts and
   lasts divs x what @dur, @dots, the tuplet among its ancestors and @grace denote, position from the order *)
Theorem mei_layer_attr_denotes : forall divs mr mlen es ms pos t rows pos',
  0 < divs -> repr divs mr mlen -> mels_of es = Some ms ->
  Forall (fun e => attr "dur.ppq" (el_self e) = None) es -> repr divs pos t ->
  layer_run_attr divs pos es = Some (rows, pos') ->
  Forall2 (row_rel divs) rows (den_rows mlen t (map ml_ev ms)) /\ repr divs pos' (layer_end mlen t (map ml_ev ms)).
Proof. exact mei_layer_attr_denotes_lemma. Qed.
Print Assumptions mei_layer_attr_denotes.
