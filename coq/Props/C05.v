(* C05 -- the note array is a faithful table of the score: property theorems.
   Statements + `exact` only; proofs live in Proofs/C05*.v.  All theorems quantify over every
   input (lists of notes of any length, arbitrary maps, any divisions); none is a finite sample.
   The model (Model/C05.v) is tied to partitura's code by the correspondence run of
   harness/props/c05.py on every check. *)
From PV Require Import Lib.Base Lib.Round Model.C05 Model.C05_Spec Model.C05_Ext Model.C05_Inv Model.C05_Disp Model.C05_Voice Model.C05_Hist Model.C05_Sel Model.C05_Shift Proofs.C05_lib Proofs.C05_ties Proofs.C05 Proofs.C05_ext Proofs.C05_inv Proofs.C05_disp Proofs.C05_voice Proofs.C05_hist Proofs.C05_sel Proofs.C05_shift.
From Coq Require Import QArith Sorting.Sorted Permutation.
#[local] Open Scope Z_scope.

(* O1: exactly one row per chain head among the sounding (non-rest) notes, carrying its id, onset,
   tied duration and spelled pitch (as multisets) *)
Theorem rows_are_chain_heads : forall ns mp divs rows,
  note_array ns mp divs = Some rows ->
  Permutation (map r_core rows) (map (head_core ns) (notes_tied (sounding ns))).
Proof. exact rows_are_chain_heads_lemma. Qed.
Print Assumptions rows_are_chain_heads.

(* O1: the duration of a row is the sum of the durations along the tie chain of its head *)
Theorem row_duration_is_chain_sum : forall ns fuel n d,
  duration_tied ns fuel n = Some d -> exists l, tie_chain ns n l /\ d = sum_dur l.
Proof. exact row_duration_is_chain_sum_lemma. Qed.
Print Assumptions row_duration_is_chain_sum.

(* with well-formed (acyclic, mutually inverse) tie links the chain exists and the fuel suffices *)
Theorem duration_tied_total : forall ns, wf_ties ns -> forall n, In n ns ->
  exists l, tie_chain ns n l /\ duration_tied ns (List.length ns) n = Some (sum_dur l).
Proof. exact duration_tied_total_lemma. Qed.
Print Assumptions duration_tied_total.

Theorem note_array_total : forall ns mp divs, wf_ties ns -> exists rows, note_array ns mp divs = Some rows.
Proof. exact note_array_total_lemma. Qed.
Print Assumptions note_array_total.

(* O1: a tie chain is one row -- every note lies in the chain of exactly one chain head *)
Theorem every_note_in_exactly_one_chain : forall ns, wf_ties ns -> forall m, In m ns ->
  exists h, (In h ns /\ is_head h = true /\ exists l, tie_chain ns h l /\ In m l) /\
            forall h', (In h' ns /\ is_head h' = true /\ exists l, tie_chain ns h' l /\ In m l) -> h' = h.
Proof. exact every_note_in_exactly_one_chain_lemma. Qed.
Print Assumptions every_note_in_exactly_one_chain.

(* the hypotheses are satisfiable by a non-trivial part (tie chain + grace note) *)
Theorem wf_ties_satisfiable : wf_ties ex_notes /\
  option_map (map (fun r => (r_core r, r_voice r, r_staff r, r_is_grace r)))
             (note_array ex_notes (maps_of [] [] []) 4)
  = Some [ (("a", 0, 12, 60), 1, 0, false); (("c", 4, 2, 63), 2, 2, true) ]%string.
Proof. exact (conj ex_notes_wf ex_note_array). Qed.
Print Assumptions wf_ties_satisfiable.

(* O4: rows ordered by onset, then pitch *)
Theorem rows_sorted : forall ns mp divs rows,
  note_array ns mp divs = Some rows -> StronglySorted lexle rows.
Proof. exact rows_sorted_lemma. Qed.
Print Assumptions rows_sorted.

(* ... for ANY first pass that returns a pitch-sorted permutation (numpy's default argsort is not
   stable), followed by the stable sort by onset *)
Theorem two_pass_sort_any_first_pass : forall l l1,
  Permutation l l1 -> StronglySorted pitchle l1 ->
  StronglySorted lexle (isort_by r_onset l1) /\ Permutation l (isort_by r_onset l1).
Proof. exact two_pass_any_first_pass. Qed.
Print Assumptions two_pass_sort_any_first_pass.

(* O2, O3: every column of a row says what the score / the part's maps say at the onset of the
   chain head it stands for; a stated voice is copied, voice-less notes get a number above all
   stated voices *)
Theorem optional_columns_spec : forall ns mp divs rows,
  note_array ns mp divs = Some rows ->
  forall r, In r rows ->
  exists h d, In h (notes_tied (sounding ns)) /\ duration_tied ns (List.length ns) h = Some d /\
              row_matches mp divs h d r /\ voice_ok (notes_tied (sounding ns)) h r.
Proof. exact columns_spec_lemma. Qed.
Print Assumptions optional_columns_spec.

(* O6: the rest array obeys the same rules for the rests *)
Theorem rest_array_spec : forall ns mp divs rows,
  rest_array ns mp divs = Some rows ->
  (Permutation (map r_core rows) (map (head_core ns) (filter n_rest ns)) /\
   forall r, In r rows ->
   exists h d, In h (filter n_rest ns) /\ duration_tied ns (List.length ns) h = Some d /\
               row_matches mp divs h d r /\ voice_ok (filter n_rest ns) h r) /\
  StronglySorted lexle rows.
Proof. exact (fun ns mp divs rows H => conj (rest_rows_lemma ns mp divs rows H) (rest_rows_sorted_lemma ns mp divs rows H)). Qed.
Print Assumptions rest_array_spec.

(* O5: the score array is the union of the prepared part arrays, ordered by onset then pitch *)
Theorem score_rows_union : forall uniq parts,
  let u := uniq && (1 <? Z.of_nat (List.length parts)) in
  Permutation (score_array uniq parts) (List.concat (prep_parts u (score_lcm parts) 0 parts)) /\
  StronglySorted lexle (score_array uniq parts).
Proof. exact score_rows_union_lemma. Qed.
Print Assumptions score_rows_union.

(* O5: each row of the score array is the row of one part array with the same pitch and voice, all
   rows carry the lcm as divisions, quarter positions and durations are preserved exactly, and the id
   is prefixed with the part number exactly when asked for and the score has several parts *)
Theorem score_rows_origin : forall uniq parts,
  Forall (fun p => exists d, 0 < d /\ Forall (fun r => r_divs r = d) p) parts ->
  forall r, In r (score_array uniq parts) ->
  exists j p r0 d, nth_error parts j = Some p /\ In r0 p /\ r_divs r0 = d /\ 0 < d /\
    r_divs r = score_lcm parts /\ (d | score_lcm parts) /\
    beat_of_div (r_divs r) (r_onset r) == beat_of_div d (r_onset r0) /\
    beat_of_div (r_divs r) (r_dur r) == beat_of_div d (r_dur r0) /\
    r_pitch r = r_pitch r0 /\ r_voice r = r_voice r0 /\
    r_id r = (if uniq && (1 <? Z.of_nat (List.length parts))
              then (part_prefix (Z.of_nat j) ++ r_id r0)%string else r_id r0).
Proof. exact score_rows_origin_lemma. Qed.
Print Assumptions score_rows_origin.

Theorem rescale_preserves_quarters : forall d L t,
  0 < d -> 0 < L -> (d | L) -> beat_of_div L (t * (L / d)) == beat_of_div d t.
Proof. exact rescale_preserves_quarters_lemma. Qed.
Print Assumptions rescale_preserves_quarters.

(* the lcm is a common multiple of all divisions, and the least one *)
Theorem score_lcm_is_lcm : forall l,
  (forall d, In d l -> (d | lcm_list l)) /\ (forall m, Forall (fun d => (d | m)) l -> (lcm_list l | m)).
Proof. exact (fun l => conj (lcm_list_divides l) (lcm_list_least l)). Qed.
Print Assumptions score_lcm_is_lcm.

(* part prefixes P00_ .. P99_ keep ids of different parts apart *)
Theorem prefix_injective : forall i j s t, 0 <= i < 100 -> 0 <= j < 100 ->
  (part_prefix i ++ s = part_prefix j ++ t)%string -> i = j /\ s = t.
Proof. exact prefix_injective_lemma. Qed.
Print Assumptions prefix_injective.

(* O7: divisions = lcm of the denominators of ALL onsets and durations make every one of them an
   exact integer number of divisions, and converting back returns the same value *)
Theorem divs_from_beats_exact : forall onsets durs q,
  In q (onsets ++ durs) ->
  inject_Z (to_div (divs_from_beats onsets durs) q) == q * inject_Z (divs_from_beats onsets durs).
Proof. exact divs_from_beats_exact_lemma. Qed.
Print Assumptions divs_from_beats_exact.

Theorem divs_roundtrip : forall onsets durs q,
  In q (onsets ++ durs) ->
  beat_of_div (divs_from_beats onsets durs) (to_div (divs_from_beats onsets durs) q) == q.
Proof. exact divs_roundtrip_lemma. Qed.
Print Assumptions divs_roundtrip.

(* the repaired defect D10: the duration denominators alone do not suffice (onset 1/3, duration 1/2) *)
Theorem divs_from_durations_only_insufficient :
  exists onsets durs q, In q onsets /\
    ~ inject_Z (to_div (lcm_list (map qden durs)) q) == q * inject_Z (lcm_list (map qden durs)).
Proof. exact divs_from_durations_only_insufficient_lemma. Qed.
Print Assumptions divs_from_durations_only_insufficient.

(* ---------------------------------------------------------------------------------------------
   added in the hardening round (Model/C05_Ext.v, Proofs/C05_ext.v)
   --------------------------------------------------------------------------------------------- *)

(* O1: a tie chain whose notes follow each other without a gap (ties over several measures) is one
   row lasting from the onset of its first note to the end of its last note *)
Theorem chain_contiguous_span : forall ns n l, tie_chain ns n l -> contiguous l ->
  sum_dur l = n_end (last l n) - n_start n.
Proof. exact chain_contiguous_span_lemma. Qed.
Print Assumptions chain_contiguous_span.

Theorem row_duration_contiguous : forall ns fuel n d, duration_tied ns fuel n = Some d ->
  exists l, tie_chain ns n l /\ (contiguous l -> d = n_end (last l n) - n_start n).
Proof. exact row_duration_contiguous_lemma. Qed.
Print Assumptions row_duration_contiguous.

(* O3: the view through which the correspondence compares voices (a voice that is not one of the stated
   voices of the array is shown as -1) keeps every stated voice, shows exactly the notes without voice
   as -1 and leaves every other column as optional_columns_spec describes it *)
Theorem norm_voice_spec : forall ns mp divs rows, note_array_n ns mp divs = Some rows ->
  forall r, In r rows ->
  exists h d, In h (notes_tied (sounding ns)) /\ duration_tied ns (List.length ns) h = Some d /\
    row_matches mp divs h d r /\
    (forall v, n_voice h = Some v -> v <> -1 -> r_voice r = v) /\
    (n_voice h = None -> r_voice r = -1).
Proof. exact norm_voice_spec_lemma. Qed.
Print Assumptions norm_voice_spec.

Theorem norm_voice_rest_spec : forall ns mp divs rows, rest_array_n ns mp divs = Some rows ->
  forall r, In r rows ->
  exists h d, In h (filter n_rest ns) /\ duration_tied ns (List.length ns) h = Some d /\
    row_matches mp divs h d r /\
    (forall v, n_voice h = Some v -> v <> -1 -> r_voice r = v) /\
    (n_voice h = None -> r_voice r = -1).
Proof. exact norm_voice_rest_spec_lemma. Qed.
Print Assumptions norm_voice_rest_spec.

(* O5: the score array has exactly the rows of the part arrays *)
Theorem score_row_count : forall uniq parts,
  List.length (score_array uniq parts) = List.length (List.concat parts).
Proof. exact score_row_count_lemma. Qed.
Print Assumptions score_row_count.

(* O5: with unique_id_per_part the ids of the score array are pairwise different as soon as they are
   within each part (fewer than 100 parts: the two-digit format is in the statement) *)
Theorem score_ids_unique : forall parts, (List.length parts < 100)%nat ->
  Forall (fun p => NoDup (map r_id p)) parts ->
  NoDup (map r_id (score_array true parts)).
Proof. exact score_ids_unique_lemma. Qed.
Print Assumptions score_ids_unique.

(* ... and so does ANY prefix scheme in which no prefix is the beginning of another (what the direct
   oracle demands of the implementation's prefixes, whatever their format) *)
Theorem prefix_free_ids_distinct : forall a b s t,
  ~ is_prefix a b -> ~ is_prefix b a -> (a ++ s)%string <> (b ++ t)%string.
Proof. exact prefix_free_ids_distinct_lemma. Qed.
Print Assumptions prefix_free_ids_distinct.

(* O5, nested PartGroups (note_array_from_part_list calls itself on the children of a group and treats
   the result as one member of the outer list), any depth: all rows carry one positive number of
   divisions; every row comes from a row of one part with its position and duration in quarters preserved
   exactly, the same pitch and voice, the part's divisions dividing the final ones, and an id that is the
   part's id behind a (possibly empty; empty when no prefix was asked for) prefix; the final divisions
   divide every common multiple of the parts' divisions (they are the least one); no row is lost or added *)
Theorem nested_groups_spec : forall uniq t, Forall uniform (leaves t) ->
  uniform (tree_array uniq t) /\
  (forall r, In r (tree_array uniq t) -> exists p r0, In p (leaves t) /\ In r0 p /\ from_leaf_row uniq r r0) /\
  (forall M, Forall (fun p => forall r0, In r0 p -> (r_divs r0 | M)) (leaves t) ->
             forall r, In r (tree_array uniq t) -> (r_divs r | M)) /\
  List.length (tree_array uniq t) = List.length (List.concat (leaves t)).
Proof. exact tree_rows_lemma. Qed.
Print Assumptions nested_groups_spec.

(* the hypothesis is satisfiable: divisions 4, (6, -, 10) -> 60, prefixes P00_, P01_P00_, P01_P02_ *)
Theorem nested_groups_example :
  Forall uniform (leaves ex_tree) /\
  map (fun r => (r_onset r, r_dur r, r_pitch r, r_id r, r_divs r)) (tree_array true ex_tree)
  = [ (30, 30, 64, "P01_P00_n0", 60); (30, 60, 67, "P01_P02_n0", 60); (60, 30, 60, "P00_n0", 60) ]%string.
Proof. exact ex_tree_array. Qed.
Print Assumptions nested_groups_example.

(* O7: ANY positive multiple of the lcm of all denominators makes every onset and duration an exact
   number of divisions and converts back to the same value (the round trip needs no more than that) *)
Theorem divs_multiple_exact : forall onsets durs d q,
  (divs_from_beats onsets durs | d) -> In q (onsets ++ durs) ->
  inject_Z (to_div d q) == q * inject_Z d.
Proof. exact divs_multiple_exact_lemma. Qed.
Print Assumptions divs_multiple_exact.

Theorem divs_multiple_roundtrip : forall onsets durs d q,
  0 < d -> (divs_from_beats onsets durs | d) -> In q (onsets ++ durs) ->
  beat_of_div d (to_div d q) == q.
Proof. exact divs_multiple_roundtrip_lemma. Qed.
Print Assumptions divs_multiple_roundtrip.

(* the checker of the create_divs_from_beats correspondence accepts exactly such divisions *)
Theorem inverse_checker_sound : forall onsets durs d o du,
  inverse_case_ok_m onsets durs (d, o, du) = true ->
  0 < d /\ (divs_from_beats onsets durs | d) /\ du = map (to_div d) durs /\
  o = shift_nonneg (map (to_div d) onsets).
Proof. exact inverse_case_ok_m_sound. Qed.
Print Assumptions inverse_checker_sound.

(* ------------------------------------------------------------------ second hardening round: the inverse
   direction as the code does it (Model/C05_Inv.v: lexsort, inferred divisions, pickup measure,
   create_part, tie_notes cutting notes into tied pieces) composed with the forward direction *)

(* O7: building a score from a note array (one note per row, a grace note when the duration is 0, every note
   cut into a chain of tied pieces at ANY list of cut points -- whatever tie_notes / split_note choose) and
   taking its note array is defined and returns exactly the rows' ids, onsets, durations and spelled
   pitches, ordered by onset then pitch -- for every array, every cut points, every divisions and maps *)
Theorem inverse_roundtrip : forall l divs A bt,
  exists out, roundtrip l divs A bt = Some out /\
              Permutation (map r_core out) (map i_core l) /\ StronglySorted lexle out.
Proof. exact inverse_roundtrip_lemma. Qed.
Print Assumptions inverse_roundtrip.

(* ... hence the same onsets, durations and pitches, provided the spelling chosen for each row has the
   row's pitch (estimate_spelling is not modelled; the checker compares i_midi with the pitch column) *)
Theorem inverse_roundtrip_pitch : forall l divs A bt,
  Forall (fun r => i_midi r = i_pitch r) l ->
  exists out, roundtrip l divs A bt = Some out /\
              Permutation (map (fun r => (r_onset r, r_dur r, r_pitch r)) out)
                          (map (fun r => (i_on r, i_dur r, i_pitch r)) l).
Proof. exact inverse_roundtrip_pitch_lemma. Qed.
Print Assumptions inverse_roundtrip_pitch.

(* the lexsort at the beginning of note_array_to_score: a permutation ordered by (onset, pitch, duration) *)
Theorem inv_sort_spec : forall l, Permutation l (inv_sort l) /\ StronglySorted key_le (inv_sort l).
Proof. intros l. exact (conj (inv_sort_perm l) (inv_sort_sorted l)). Qed.
Print Assumptions inv_sort_spec.

(* the pickup measure: for an array on a metrical grid (beat 0 at division P, divs * 4 / bt divisions per
   beat, every beat value off by less than half a division: any float rounding) that has a note before
   beat 0 -- wherever the FIRST note is, e.g. after a rest -- the measure (0, anacrusis_divs) ends at P *)
Theorem anacrusis_exact : forall l divs bt P,
  0 < divs -> 0 < bt ->
  Forall (fun r => on_grid (beat_unit divs bt) P r /\ bt_of r = bt) l ->
  (exists r, In r l /\ (i_onb r < 0)%Q) ->
  anacrusis_divs l divs = P.
Proof. exact anacrusis_exact_lemma. Qed.
Print Assumptions anacrusis_exact.

(* ... and the beat map of the rebuilt part gives every row the beat position it came with *)
Theorem metrical_roundtrip : forall l divs bt P,
  0 < divs -> 0 < bt ->
  Forall (fun r => (i_onb r * beat_unit divs bt == inject_Z (i_on r - P))%Q /\ bt_of r = bt) l ->
  (exists r, In r l /\ (i_onb r < 0)%Q) \/ (P = 0 /\ Forall (fun r => (0 <= i_onb r)%Q) l) ->
  anacrusis_divs l divs = P /\
  forall r, In r l -> (m_beat (rebuilt_maps divs (anacrusis_divs l divs) bt) (i_on r) == i_onb r)%Q.
Proof. exact metrical_roundtrip_lemma. Qed.
Print Assumptions metrical_roundtrip.

(* the divisions inferred for an array with beat AND division columns: a beat duration b of the first
   sounding row within the band (2d-1) b u < 2k < (2d+1) b u around k / (d u), u = 4 / beat type (1 without
   time signature columns), gives d (the band contains every float32 rounding of k / (d u) for d < 2^22) *)
Theorem divs_inference_exact : forall l r d,
  first_nonzero l = Some r -> (0 < i_durb r)%Q -> 0 < bt_of r ->
  ((2 * inject_Z d - 1) * (i_durb r * q4 (bt_of r)) < 2 * inject_Z (i_dur r))%Q ->
  (2 * inject_Z (i_dur r) < (2 * inject_Z d + 1) * (i_durb r * q4 (bt_of r)))%Q ->
  infer_divs l = Some d.
Proof. exact divs_inference_exact_lemma. Qed.
Print Assumptions divs_inference_exact.

(* hypotheses satisfiable: 6/8 at 6 divisions, pickup of 5 divisions that begins with a rest of 2, a note cut
   at the barline: divisions 6, pickup 5, the three rows come back with their beats -1, 0, 3 *)
Theorem inverse_example :
  (infer_divs (inv_sort ex_inv) = Some 6 /\ anacrusis_divs (inv_sort ex_inv) 6 = 5 /\
   option_map (map (fun r => (r_core r, Qred (r_onb r)))) (roundtrip ex_inv 6 5 8)
   = Some [ (("a"%string, 2, 3, 60), (-1 # 1)%Q); (("b"%string, 5, 9, 64), (0 # 1)%Q); (("c"%string, 14, 12, 62), (3 # 1)%Q) ]) /\
  (Forall (fun r => (i_onb r * beat_unit 6 8 == inject_Z (i_on r - 5))%Q /\ bt_of r = 8) ex_inv /\
   (exists r, In r ex_inv /\ (i_onb r < 0)%Q)).
Proof. exact (conj ex_inv_values ex_inv_on_grid). Qed.
Print Assumptions inverse_example.

(* the time signatures note_array_to_score reads from the ts_beats / ts_beat_type columns (one entry where the
   columns change along the sorted rows, the first moved to time 0): looked up at the onset of ANY row they give
   back that row's signature -- for every array whose signature is a function of the onset; also when a
   signature returns (4/4, 3/4, 4/4) *)
Theorem ts_segments_lookup : forall l dflt,
  StronglySorted key_le l ->
  (forall a b, In a l -> In b l -> i_on a = i_on b -> i_ts a = i_ts b) ->
  (forall r, In r l -> exists ts, i_ts r = Some ts) ->
  (forall r, In r l -> 0 <= i_on r) ->
  forall r, In r l -> i_ts r = Some (ts_at (ts_segments l) dflt (i_on r)).
Proof. exact ts_segments_lookup_lemma. Qed.
Print Assumptions ts_segments_lookup.

(* dispatch on the input type (ensure_notearray / the note_array methods): a structured array is returned as it
   is, a part gives its own array, a list and a PartGroup give the array of their (nested) members, and a Score
   -- which keeps the parts of its groups as one flat list -- gives an array built from the SAME part arrays
   in the same order as the nested list would (so nested_groups_spec speaks about the same parts) *)
Theorem dispatch_spec : forall uniq,
  (forall rows, ensure_notearray_m uniq (InArray rows) = Some rows) /\
  (forall ns mp d, ensure_notearray_m uniq (InPart ns mp d) = note_array_n ns mp d) /\
  (forall ms, ensure_notearray_m uniq (InMany CList ms) = ensure_notearray_m uniq (InMany CGroup ms) /\
              ensure_notearray_m uniq (InMany CList ms) = option_map (tree_array uniq) (build_tree (IGroup ms))) /\
  (forall ms t, build_tree (IGroup (dispatch_members CScore ms)) = Some t ->
                ensure_notearray_m uniq (InMany CScore ms) = Some (tree_array uniq t) /\
                exists t', build_tree (IGroup ms) = Some t' /\ leaves t = leaves t').
Proof. exact dispatch_spec_lemma. Qed.
Print Assumptions dispatch_spec.

(* ------------------------------------------------------------------ third hardening round: the voice column
   written out (Model/C05_Voice.v).  [n_voice : option Z]; the loop writes the stated voice, or -1 for a
   note without voice, and "Sanitize voice information" replaces every -1 by the maximum of the column + 1 *)

(* O3: the voice column equals what the score states -- for EVERY stated voice v other than the code's own
   marker -1: 0 (0-based numbering), a number after a gap, a negative number; a note WITHOUT voice gets the
   documented replacement max + 1, the maximum taken over the raw column (stated voices, -1 for the missing
   ones) of the notes that have a row; the stated voice -1 is replaced as well (known finding C05-K1) *)
Theorem voice_column_spec : forall ns mp divs rows,
  note_array ns mp divs = Some rows ->
  forall r, In r rows ->
  exists h d, In h (notes_tied (sounding ns)) /\ duration_tied ns (List.length ns) h = Some d /\
              row_matches mp divs h d r /\
              (forall v, n_voice h = Some v -> v <> -1 -> r_voice r = v) /\
              (n_voice h = None -> r_voice r = zmax_of (map raw_voice (notes_tied (sounding ns))) + 1) /\
              (n_voice h = Some (-1) -> r_voice r = zmax_of (map raw_voice (notes_tied (sounding ns))) + 1).
Proof. exact voice_column_spec_lemma. Qed.
Print Assumptions voice_column_spec.

(* O6: the same for the rests (the maximum is taken over the rests) *)
Theorem voice_column_rest_spec : forall ns mp divs rows,
  rest_array ns mp divs = Some rows ->
  forall r, In r rows ->
  exists h d, In h (filter n_rest ns) /\ duration_tied ns (List.length ns) h = Some d /\
              row_matches mp divs h d r /\ voice_column (filter n_rest ns) h r.
Proof. exact voice_column_rest_spec_lemma. Qed.
Print Assumptions voice_column_rest_spec.

(* the maximum is the largest member of a non-empty column, and the replacement number lies above every
   voice the score states for a note of the array (it is never a stated voice) *)
Theorem voice_replacement_spec :
  (forall l, l <> [] -> In (zmax_of l) l /\ forall x, In x l -> x <= zmax_of l) /\
  (forall sel h v, In h sel -> n_voice h = Some v -> v < zmax_of (map raw_voice sel) + 1).
Proof. exact (conj zmax_of_spec_lemma replacement_above_stated_lemma). Qed.
Print Assumptions voice_replacement_spec.

(* O7/O3: the score that note_array_to_score builds is a score like any other -- the voice column of its
   note array states the voices of the notes created for the rows (0 for a 0-based voice column) *)
Theorem rebuilt_voice_column : forall l divs A bt out, roundtrip l divs A bt = Some out ->
  forall r, In r out ->
  exists h d, In h (notes_tied (sounding (rebuild 0 (inv_sort l)))) /\
              duration_tied (rebuild 0 (inv_sort l)) (List.length (rebuild 0 (inv_sort l))) h = Some d /\
              row_matches (rebuilt_maps divs A bt) divs h d r /\
              voice_column (notes_tied (sounding (rebuild 0 (inv_sort l)))) h r.
Proof. exact rebuilt_voice_column_lemma. Qed.
Print Assumptions rebuilt_voice_column.

(* not vacuous: voices 0, 1, none, 0 give the column 0, 1, 2, 0 (staff 0 is staff 0); a rest in voice 0 next
   to a rest without voice gives 0, 1; voices 0, 5, -3, none give 0, 5, -3, 6 *)
Theorem voice_column_example :
  option_map (map vview) (note_array ex_voices (maps_of [] [] []) 4)
    = Some [ ("a", 0, 0); ("b", 1, 0); ("c", 2, 0); ("d", 0, 0) ]%string /\
  option_map (map vview) (rest_array ex_voices (maps_of [] [] []) 4)
    = Some [ ("r", 0, 0); ("s", 1, 0) ]%string /\
  option_map (map vview) (note_array ex_voices_gap (maps_of [] [] []) 4)
    = Some [ ("a", 0, 0); ("b", 5, 0); ("c", -3, 0); ("d", 6, 0) ]%string.
Proof. exact ex_voices_values. Qed.
Print Assumptions voice_column_example.

(* C05-K1, the boundary of voice_column_spec: the clause "the voice equals what the score states" fails for the
   stated voice -1 (voices -1, 2: the note in voice -1 is reported in voice 3) *)
Theorem voice_minus_one_refuted :
  exists ns rows h r, note_array ns (maps_of [] [] []) 4 = Some rows /\
    In h (notes_tied (sounding ns)) /\ In r rows /\ r_id r = n_id h /\
    n_voice h = Some (-1) /\ r_voice r = 3.
Proof. exact ex_voices_k1_values. Qed.
Print Assumptions voice_minus_one_refuted.

(* ---------------------------------------------------------------- state carried between calls (fourth round)
   Model/C05_Hist.v: parts are objects; a Score holds two lists of references (parts / part_structure), a list and a
   PartGroup one; operations: edit a part in place, score[i] = part, members[i] = part, append, score = unfold_part_*(score). *)

(* after ANY history the array read from a Score is the array of the parts it holds NOW, each with what it holds now;
   "now" is stated on the history read from its end (the last write to a position / to an object wins) *)
Theorem score_history_current : forall s ops uniq,
  read uniq (run s ops) VScore
    = ensure_notearray_m uniq (InMany CScore (map (content_rev (s_store s) (rev ops)) (s_parts (run s ops))))
  /\ forall i, nth_error (s_parts (run s ops)) i = part_at_rev (s_parts s) (rev ops) i.
Proof. exact score_history_current_lemma. Qed.
Print Assumptions score_history_current.

(* ... equivalently: it is what a Score freshly built from the current parts gives (part_structure and the past do not matter) *)
Theorem read_equals_fresh_copy : forall s ops uniq,
  read uniq (run s ops) VScore
    = read uniq (init_score (s_store (run s ops)) (map RLeaf (s_parts (run s ops)))) VScore.
Proof. exact read_equals_fresh_copy_lemma. Qed.
Print Assumptions read_equals_fresh_copy.

(* two histories (two scores) that end in the same parts holding the same give the same array *)
Theorem read_depends_on_current_only : forall s1 ops1 s2 ops2 uniq,
  s_parts (run s1 ops1) = s_parts (run s2 ops2) ->
  (forall o, In o (s_parts (run s1 ops1)) -> content (s_store (run s1 ops1)) o = content (s_store (run s2 ops2)) o) ->
  read uniq (run s1 ops1) VScore = read uniq (run s2 ops2) VScore.
Proof. exact read_depends_on_current_only_lemma. Qed.
Print Assumptions read_depends_on_current_only.

(* a Score, a list and a PartGroup given the same parts give the same array *)
Theorem views_agree : forall s uniq,
  Forall is_leaf (map (content (s_store s)) (s_parts s)) ->
  read uniq s VScore = read uniq s (VParts CList) /\ read uniq s (VParts CList) = read uniq s (VParts CGroup).
Proof. exact views_agree_lemma. Qed.
Print Assumptions views_agree.

(* the statement is not vacuous: a Score.note_array that reads part_structure differs after score[0] = part ... *)
Theorem stale_structure_refuted : exists s ops uniq, read_struct uniq (run s ops) <> read uniq (run s ops) VScore.
Proof. exact stale_structure_refuted_lemma. Qed.
Print Assumptions stale_structure_refuted.

(* ... and a result kept on the object differs after a part was edited in place *)
Theorem memo_refuted : exists s x uniq v,
  let c1 := snd (read_memo uniq None s v) in
  fst (read_memo uniq c1 (step s x) v) <> read uniq (step s x) v.
Proof. exact memo_refuted_lemma. Qed.
Print Assumptions memo_refuted.

(* a history with an edit in place, an item assignment and an unfolding: parts [3; 2], part_structure still [0]; [1] *)
Theorem history_example :
  let ops := [OPut 0 hA'; OPut 2 hZ; OSetPart 1 2; OPut 3 hB; OUnfold [3; 2]; OPut 3 hA] in
  s_parts (run h0 ops) = [3; 2] /\
  content (s_store (run h0 ops)) 3 = hA /\
  keys (read false (run h0 ops) VScore)
    = Some [("a0", 0, 60); ("z0", 0, 81); ("a1", 2, 62); ("z1", 2, 83); ("z2", 4, 84)]%string /\
  map rleaves (s_struct (run h0 ops)) = [[0]; [1]].
Proof. exact history_example_values. Qed.
Print Assumptions history_example.

(* ---------------------------------------------------------------- selection of the maps for the optional columns (round j)
   Model/C05_Sel.v: note_array_from_part / rest_array_from_part hand a map of the part (or the divisions) to the row
   construction exactly when the include_* option asks for it, else None; note_array_from_note_list puts every tuple
   together group by group ("if key_signature_map is not None"), sanitises the voices and sorts the table THAT WAS BUILT. *)

(* for EVERY part and EVERY one of the 2^7 option sets the table Part.note_array returns is the full table of the part
   (all maps, the part's divisions: the [note_array] the theorems above speak about) seen through the options: a column
   group is there exactly when it was asked for and says what the full row says; row order and voice replacement do not
   depend on which columns were built; the divisions column is only ever built for a part with ONE entry of divisions *)
Theorem entry_is_view : forall o p t, note_array_from_part_m o p = Table t ->
  exists rows, note_array (p_notes p) (p_maps p) (first_divs p) = Some rows /\ t = map (view o) rows /\
               (o_divs o = true -> exists t0, p_qd p = [(t0, first_divs p)]).
Proof. exact entry_is_view_lemma. Qed.
Print Assumptions entry_is_view.

(* O6: the same for Part.rest_array (no divisions column; it never refuses) *)
Theorem rest_entry_is_view : forall o p,
  match rest_array_from_part_m o p with
  | Table t => exists rows, rest_array (p_notes p) (p_maps p) (first_divs p) = Some rows /\
                            t = map (view (rest_opts o)) rows
  | Broken => rest_array (p_notes p) (p_maps p) (first_divs p) = None
  | Refused => False
  end.
Proof. exact rest_entry_is_view_lemma. Qed.
Print Assumptions rest_entry_is_view.

(* the error branch: the declared exception is raised exactly when include_divs_per_quarter is set AND the part does not
   have exactly one entry of divisions; with well-formed tie links every other call returns a table *)
Theorem entry_refuses_exactly : forall o p,
  (note_array_from_part_m o p = Refused <-> o_divs o = true /\ List.length (p_qd p) <> 1%nat) /\
  (wf_ties (p_notes p) -> note_array_from_part_m o p <> Broken).
Proof. exact entry_refuses_exactly_lemma. Qed.
Print Assumptions entry_refuses_exactly.

(* O2, O3 at the entry point: every row of the returned table is the view of a row that says, in every column, what the
   score / the part's maps state at the onset of the chain head it stands for *)
Theorem entry_columns_spec : forall o p t, note_array_from_part_m o p = Table t ->
  forall x, In x t ->
  exists h d r, In h (notes_tied (sounding (p_notes p))) /\
                duration_tied (p_notes p) (List.length (p_notes p)) h = Some d /\
                row_matches (p_maps p) (first_divs p) h d r /\
                voice_ok (notes_tied (sounding (p_notes p))) h r /\ x = view o r.
Proof. exact entry_columns_lemma. Qed.
Print Assumptions entry_columns_spec.

(* "all combinations of the include_* options": the options are independent -- what two option sets have in common is the
   same in both tables, row by row in the same order; in particular onset, duration, pitch, voice and id never depend on
   an option *)
Theorem options_independent : forall o1 o2 p t1 t2,
  note_array_from_part_m o1 p = Table t1 -> note_array_from_part_m o2 p = Table t2 ->
  map (restrict o2) t1 = map (restrict o1) t2.
Proof. exact options_independent_lemma. Qed.
Print Assumptions options_independent.

(* not vacuous: a part with a key change read without options, with the key signature alone, with every option; the same
   notes with two entries of divisions are refused with every option and read with the key signature alone *)
Theorem selection_example :
  wf_ties (p_notes ex_sel_part) /\
  note_array_from_part_m opts_none ex_sel_part
    = Table [ (0, 4, 60, 1, "a", None, None, None, None, None, None, None);
              (4, 4, 64, 2, "b", None, None, None, None, None, None, None) ]%string /\
  note_array_from_part_m opts_ks ex_sel_part
    = Table [ (0, 4, 60, 1, "a", None, None, Some (2, 1), None, None, None, None);
              (4, 4, 64, 2, "b", None, None, Some (-3, 0), None, None, None, None) ]%string /\
  note_array_from_part_m opts_all ex_sel_part
    = Table [ (0, 4, 60, 1, "a", Some ("C", 0, 4), Some (false, ""), Some (2, 1), Some (3, 4, 3), Some (1, 0, 12), Some 1, Some 4);
              (4, 4, 64, 2, "b", Some ("E", 0, 4), Some (false, ""), Some (-3, 0), Some (3, 4, 3), Some (0, 4, 12), Some 1, Some 4) ]%string /\
  note_array_from_part_m opts_all ex_sel_part2 = Refused /\
  (exists t, note_array_from_part_m opts_ks ex_sel_part2 = Table t).
Proof. exact ex_sel_values. Qed.
Print Assumptions selection_example.

(* the statements discriminate: with the condition of one "if include_...:" block copied to the next one (the key
   signature map handed over when the TIME signature is asked for) entry_is_view fails ... *)
Theorem copied_condition_refuted :
  ~ (forall o p t, entry_with select_part_copied o p = Table t ->
       exists rows, note_array (p_notes p) (p_maps p) (first_divs p) = Some rows /\ t = map (view o) rows).
Proof. exact copied_condition_refuted_lemma. Qed.
Print Assumptions copied_condition_refuted.

(* ... and with the divisions read from the first entry without looking at the others entry_refuses_exactly fails *)
Theorem first_entry_refuted :
  ~ (forall o p, entry_with select_part_first o p = Refused <-> o_divs o = true /\ List.length (p_qd p) <> 1%nat).
Proof. exact first_entry_refuted_lemma. Qed.
Print Assumptions first_entry_refuted.

(* ---------------------------------------------------------------- the onset column of create_divs_from_beats (round j)
   O7 for arrays with beat columns only: for ANY admissible number of divisions (the lcm of all denominators or a multiple)
   the WHOLE onset column -- after the shift the code applies when the smallest onset is negative -- converts back to the
   input onsets up to ONE constant k; k is zero unless an onset is negative (an excerpt that begins at beat 5 stays at
   beat 5); no entry is negative; a shifted column begins at 0 *)
Theorem onset_column_roundtrip : forall onsets durs d,
  0 < d -> (divs_from_beats onsets durs | d) ->
  onset_column_ok d onsets (fst (divs_columns_at d onsets durs)).
Proof. exact onset_column_lemma. Qed.
Print Assumptions onset_column_roundtrip.

(* the shift itself: by one constant c <= 0 that is 0 when no entry is negative *)
Theorem shift_nonneg_is_conditional : forall l, exists c,
  shift_nonneg l = map (fun v => v - c) l /\ c <= 0 /\
  (Forall (fun v => 0 <= v) l -> c = 0) /\
  Forall (fun v => 0 <= v) (shift_nonneg l) /\
  (c = 0 \/ In 0 (shift_nonneg l)).
Proof. exact shift_nonneg_spec. Qed.
Print Assumptions shift_nonneg_is_conditional.

(* not vacuous: onsets 5, 6.5, 8 at 2 divisions stay 10, 13, 16; the pickup -0.5, 0, 1.5 becomes 0, 1, 4 *)
Theorem onset_column_example :
  divs_from_beats ex_shift_late [1 # 2]%Q = 2 /\ onset_column 2 ex_shift_late = [10; 13; 16] /\
  onset_column 2 ex_shift_pickup = [0; 1; 4].
Proof. exact ex_shift_values. Qed.
Print Assumptions onset_column_example.

(* the statement discriminates: a column shifted whatever the sign of its minimum ("the timeline starts with the first
   onset": seed h) does not satisfy it *)
Theorem shift_always_refuted :
  ~ (forall onsets durs d, 0 < d -> (divs_from_beats onsets durs | d) ->
       onset_column_ok d onsets (shift_always (map (to_div d) onsets))).
Proof. exact shift_always_refuted_lemma. Qed.
Print Assumptions shift_always_refuted.
