(* C15 -- merging parts keeps every note at the same musical time in disjoint voices: property
   theorems.  Statements + `exact` only; proofs live in Proofs/C15*.v.  All theorems quantify over
   every input (any number of parts, any positive divisions, any elements, voices and staves, any
   nesting of groups); none is a finite sample.  The model (Model/C15.v) is tied to partitura's
   merge_parts by the correspondence run of harness/props/c15.py on every check.
   Output elements are tagged with the index of the part they come from: In (j, e') out. *)
From PV Require Import Lib.Base Model.C05 Model.C05_Spec Model.C15 Model.C15_Spec
     Proofs.C05_lib Proofs.C15 Proofs.C15_link Proofs.C15_ex Proofs.C15_ext.
From Coq Require Import Permutation.
#[local] Open Scope Z_scope.

(* O1: the merged part counts in the lcm of the divisions, and every element of it stands at the
   same musical time as the input element it is: start'/L = start/d and end'/L = end/d exactly
   (cross-multiplied integers; needs only d | L), identity, class, pitch and tie links unchanged *)
Theorem merge_time_preserved : forall m ts L out,
  merge_parts m ts = RMerged L out -> divs_pos (flat_map flatten ts) ->
  L = lcm_list (divs_of (flat_map flatten ts)) /\ 0 < L /\
  forall j e', In (j, e') out ->
  exists es d e, nth_error (flat_map flatten ts) j = Some (es, d) /\ In e es /\ core e' = core e /\
                 (d | L) /\ same_time L d e e'.
Proof. exact merge_time_preserved_lemma. Qed.
Print Assumptions merge_time_preserved.

(* O1: as a multiset the merged part holds exactly the kept elements: all of part 0, and of the
   later parts everything whose class is not in el_to_discard *)
Theorem merge_contains_all : forall m ts L out, merge_parts m ts = RMerged L out ->
  Permutation (map tag_core out) (map tag_core (kept_from m 0 (flat_map flatten ts))).
Proof. exact merge_contains_all_lemma. Qed.
Print Assumptions merge_contains_all.

(* ... so every element of the first part, and every note, rest and element of a non-discarded
   class of any part, is in the merged part *)
Theorem merge_keeps : forall m ts L out j es d e,
  merge_parts m ts = RMerged L out -> nth_error (flat_map flatten ts) j = Some (es, d) -> In e es ->
  (j = 0%nat \/ discard m (e_kind e) = false) ->
  exists e', In (j, e') out /\ core e' = core e.
Proof. exact merge_keeps_lemma. Qed.
Print Assumptions merge_keeps.

(* O2, "voice" mode: notes and rests of different inputs never share a voice ... *)
Theorem voices_disjoint : forall ts L out, merge_parts MVoice ts = RMerged L out ->
  parts_good voices_ok (flat_map flatten ts) ->
  forall j1 j2 e1 e2, In (j1, e1) out -> In (j2, e2) out -> j1 <> j2 -> generic e1 -> generic e2 ->
  e_voice e1 <> e_voice e2.
Proof. exact voices_disjoint_lemma. Qed.
Print Assumptions voices_disjoint.

(* ... while two of the same input share a voice afterwards iff they did before *)
Theorem voices_coherent : forall ts L out, merge_parts MVoice ts = RMerged L out ->
  parts_good voices_ok (flat_map flatten ts) ->
  forall j e1' e2', In (j, e1') out -> In (j, e2') out -> generic e1' -> generic e2' ->
  exists es d e1 e2, nth_error (flat_map flatten ts) j = Some (es, d) /\ In e1 es /\ In e2 es /\
    core e1' = core e1 /\ core e2' = core e2 /\ (e_voice e1' = e_voice e2' <-> e_voice e1 = e_voice e2).
Proof. exact voices_coherent_lemma. Qed.
Print Assumptions voices_coherent.

(* O2, "staff" mode, a missing staff counted as staff 1: every element that carries a staff
   (notes, rests, words, directions, clefs) *)
Theorem staves_disjoint : forall ts L out, merge_parts MStaff ts = RMerged L out ->
  parts_good staves_ok (flat_map flatten ts) ->
  forall j1 j2 e1 e2, In (j1, e1) out -> In (j2, e2) out -> j1 <> j2 -> staffed e1 -> staffed e2 ->
  e_staff e1 <> e_staff e2.
Proof. exact staves_disjoint_lemma. Qed.
Print Assumptions staves_disjoint.

Theorem staves_coherent : forall ts L out, merge_parts MStaff ts = RMerged L out ->
  parts_good staves_ok (flat_map flatten ts) ->
  forall j e1' e2', In (j, e1') out -> In (j, e2') out -> staffed e1' -> staffed e2' ->
  exists es d e1 e2, nth_error (flat_map flatten ts) j = Some (es, d) /\ In e1 es /\ In e2 es /\
    core e1' = core e1 /\ core e2' = core e2 /\ (e_staff e1' = e_staff e2' <-> staff1 e1 = staff1 e2).
Proof. exact staves_coherent_lemma. Qed.
Print Assumptions staves_coherent.

(* O2, "auto" mode: staves of different inputs are always disjoint; voices are disjoint when no
   input has more than four voices per staff (the documented numbering scheme) *)
Theorem auto_mode_disjoint : forall ts L out, merge_parts MAuto ts = RMerged L out ->
  (forall j1 j2 e1 e2, In (j1, e1) out -> In (j2, e2) out -> j1 <> j2 -> staffed e1 -> staffed e2 ->
     e_staff e1 <> e_staff e2) /\
  (parts_good four_per_staff (flat_map flatten ts) ->
   forall j1 j2 e1 e2, In (j1, e1) out -> In (j2, e2) out -> j1 <> j2 -> generic e1 -> generic e2 ->
     e_voice e1 <> e_voice e2).
Proof. exact (fun ts L out H => conj (auto_staves_disjoint_lemma ts L out H) (auto_voices_disjoint_lemma ts L out H)). Qed.
Print Assumptions auto_mode_disjoint.

Theorem auto_mode_coherent : forall ts L out, merge_parts MAuto ts = RMerged L out ->
  (forall j e1' e2', In (j, e1') out -> In (j, e2') out -> staffed e1' -> staffed e2' ->
   exists es d e1 e2, nth_error (flat_map flatten ts) j = Some (es, d) /\ In e1 es /\ In e2 es /\
     core e1' = core e1 /\ core e2' = core e2 /\ (e_staff e1' = e_staff e2' <-> staff1 e1 = staff1 e2)) /\
  (forall j e1' e2', In (j, e1') out -> In (j, e2') out -> generic e1' -> generic e2' ->
   exists es d e1 e2, nth_error (flat_map flatten ts) j = Some (es, d) /\ In e1 es /\ In e2 es /\
     core e1' = core e1 /\ core e2' = core e2 /\ (e_voice e1' = e_voice e2' <-> e_voice e1 = e_voice e2)).
Proof. exact (fun ts L out H => conj (auto_staves_coherent_lemma ts L out H) (auto_voices_coherent_lemma ts L out H)). Qed.
Print Assumptions auto_mode_coherent.

(* the exact boundary of the "auto" voices (known finding C15-K1): with five voices on one staff
   two notes of different inputs share a voice, although voices and staves are well formed *)
Theorem auto_voices_overflow_refuted :
  exists ts L out j1 j2 e1 e2,
    merge_parts MAuto ts = RMerged L out /\ parts_good voices_ok (flat_map flatten ts) /\
    parts_good staves_ok (flat_map flatten ts) /\
    In (j1, e1) out /\ In (j2, e2) out /\ j1 <> j2 /\ generic e1 /\ generic e2 /\
    e_voice e1 = e_voice e2.
Proof. exact auto_voices_overflow_lemma. Qed.
Print Assumptions auto_voices_overflow_refuted.

(* O3: an element of a class of el_to_discard in the merged part comes from the first part; the
   documented classes are all discarded (the Clef in "voice" mode only: the other modes keep the
   staves apart, each with its clef); nothing else is discarded but DaCapo, Fine, Fermata, Ending,
   Tempo *)
Theorem structural_from_first :
  (forall m ts L out j e', merge_parts m ts = RMerged L out -> In (j, e') out ->
     discard m (e_kind e') = true -> j = 0%nat) /\
  (forall m k, doc_structural k = true -> discard m k = true \/ (k = KClef /\ m <> MVoice)) /\
  (forall m k, discard m k = true ->
     doc_structural k = true \/ In k [KDaCapo; KFine; KFermata; KEnding; KTempo]).
Proof. exact (conj structural_from_first_lemma (conj doc_structural_discarded_lemma discard_classes_lemma)). Qed.
Print Assumptions structural_from_first.

(* the boundary of "contains every non-structural element" (known finding C15-K2): a Fermata of a
   later part, not among the documented classes, is not in the merged part *)
Theorem undocumented_drop_refuted :
  exists m ts L out e,
    merge_parts m ts = RMerged L out /\ In e (fst ex_p1) /\ nth_error (flat_map flatten ts) 1 = Some ex_p1 /\
    doc_structural (e_kind e) = false /\ forall j e', In (j, e') out -> core e' <> core e.
Proof. exact undocumented_drop_lemma. Qed.
Print Assumptions undocumented_drop_refuted.

(* O4: one part -- alone, in a list, in a group, in nested groups -- is returned as it is *)
Theorem single_identity : forall m ts p, flat_map flatten ts = [p] -> merge_parts m ts = RSingle p.
Proof. exact single_identity_lemma. Qed.
Print Assumptions single_identity.

Theorem single_identity_shapes : forall m p,
  merge_parts m [TPart p] = RSingle p /\ merge_parts m [TGroup [TPart p]] = RSingle p /\
  merge_parts m [TGroup [TGroup [TPart p]]] = RSingle p /\ merge_parts m [TGroup []; TPart p] = RSingle p.
Proof. exact (fun m p => conj eq_refl (conj eq_refl (conj eq_refl eq_refl))). Qed.
Print Assumptions single_identity_shapes.

(* with two or more parts the merge is defined (never raises) when every note and rest carries a
   voice -- and always in "staff" mode *)
Theorem merge_total : forall m ts, (2 <= List.length (flat_map flatten ts))%nat ->
  (m = MStaff \/ forall p e, In p (flat_map flatten ts) -> In e (fst p) -> generic e -> e_voice e <> None) ->
  exists out, merge_parts m ts = RMerged (merge_lcm (flat_map flatten ts)) out.
Proof. exact merge_total_lemma. Qed.
Print Assumptions merge_total.

(* O5: the note array of the merged part and the score-level note array (C05's score_array over
   the parts' arrays, lcm taken over the parts that have notes) hold the same sounding notes:
   equal multisets of (onset, duration, pitch), onsets and durations compared in quarters as
   cross-multiplied integers; both arrays are defined *)
Theorem merge_eq_score_array : forall m ts L out,
  merge_parts m ts = RMerged L out ->
  divs_pos (flat_map flatten ts) -> ties_ok (flat_map flatten ts) ->
  exists rows arrs,
    merged_rows L out = Some rows /\ parts_rows (flat_map flatten ts) = Some arrs /\
    Permutation (map (qkey (score_lcm arrs)) rows) (map (qkey L) (score_array false arrs)).
Proof. exact merge_eq_score_array_lemma. Qed.
Print Assumptions merge_eq_score_array.

(* the hypotheses are satisfiable by a non-trivial input: divisions 4, 6, 10 (lcm 60 above all),
   a group inside a list, tied notes, a rest in a voice of its own, missing and stated staves *)
Theorem hypotheses_satisfiable :
  flat_map flatten ex_ts = ex_ps /\ divs_pos ex_ps /\
  parts_good voices_ok ex_ps /\ parts_good staves_ok ex_ps /\ parts_good four_per_staff ex_ps /\
  ties_ok ex_ps.
Proof. exact ex_hypotheses. Qed.
Print Assumptions hypotheses_satisfiable.

Theorem example_results :
  (exists out, merge_parts MVoice ex_ts = RMerged 60 out /\
     map (fun x => (Z.of_nat (fst x), e_oid (snd x), e_start (snd x), e_voice (snd x))) (filter (fun x => is_generic (e_kind (snd x))) out)
     = [(0, 3, 15, Some 1); (0, 4, 45, Some 1); (0, 5, 120, Some 2);
        (1, 12, 10, Some 3); (1, 13, 70, Some 5); (2, 21, 18, Some 6); (2, 22, 18, Some 6)]) /\
  (exists out, merge_parts MStaff ex_ts = RMerged 60 out /\
     map (fun x => (Z.of_nat (fst x), e_oid (snd x), e_staff (snd x))) (filter (fun x => is_staffed (e_kind (snd x))) out)
     = [(0, 3, Some 1); (0, 4, Some 1); (0, 5, Some 2); (0, 6, Some 2);
        (1, 12, Some 3); (1, 13, Some 4); (1, 14, Some 3); (2, 21, Some 5); (2, 22, Some 5)]) /\
  (exists out, merge_parts MAuto ex_ts = RMerged 60 out /\
     map (fun x => (Z.of_nat (fst x), e_oid (snd x), e_voice (snd x), e_staff (snd x))) (filter (fun x => is_generic (e_kind (snd x))) out)
     = [(0, 3, Some 1, Some 1); (0, 4, Some 1, Some 1); (0, 5, Some 2, Some 2);
        (1, 12, Some 9, Some 3); (1, 13, Some 10, Some 4); (2, 21, Some 17, Some 5); (2, 22, Some 17, Some 5)]).
Proof. exact ex_results. Qed.
Print Assumptions example_results.

(* ---------------------------------------------------------------------------------------------
   The argument: scores, part groups, lists and tuples (flattening: iter_parts, Score.__init__) *)

(* the result depends on the flattened part list only ... *)
Theorem container_irrelevant : forall m ts1 ts2,
  flat_map flatten ts1 = flat_map flatten ts2 -> merge_parts m ts1 = merge_parts m ts2.
Proof. exact container_irrelevant_lemma. Qed.
Print Assumptions container_irrelevant.

(* ... so a Score built from the parts and groups, a list / tuple of them, a PartGroup holding them and
   a Score holding that group give the same merged part; a single Part is returned as it is *)
Theorem dispatch_same_result : forall m ts,
  merge_parts_arg m (AScore ts) = merge_parts_arg m (ASeq ts) /\
  merge_parts_arg m (AOne (TGroup ts)) = merge_parts_arg m (ASeq ts) /\
  merge_parts_arg m (AScore [TGroup ts]) = merge_parts_arg m (ASeq ts) /\
  (forall p, merge_parts_arg m (AOne (TPart p)) = RSingle p).
Proof. exact dispatch_same_result_lemma. Qed.
Print Assumptions dispatch_same_result.

(* O3 at the observation point "measures / signatures of the merged part": the elements of the
   discarded classes in the merged part are, in order, exactly those of the first input, at the same
   musical time (start and end multiplied by L / d0), everything else unchanged *)
Theorem structural_exactly_first : forall m ts L out es0 d0 rest,
  merge_parts m ts = RMerged L out -> flat_map flatten ts = (es0, d0) :: rest ->
  map snd (filter (fun x : nat * elem => discard m (e_kind (snd x))) out) =
  map (rescale_elem (L / d0)) (filter (fun e => discard m (e_kind e)) es0).
Proof. exact structural_exactly_first_lemma. Qed.
Print Assumptions structural_exactly_first.

(* the state "voice / staff offsets": every element of input j is renumbered with the offsets that
   are the running sums over the inputs before it (maximum_voices, maximum_staves, number of staves) *)
Theorem offsets_are_running_sums : forall m ts L out j e',
  merge_parts m ts = RMerged L out -> In (j, e') out ->
  (exists es d e, nth_error (flat_map flatten ts) j = Some (es, d) /\ In e es /\
     renumber m (offs_at (flat_map flatten ts) j) (uniq (voices_of es)) (uniq (staves_of es))
              (rescale_elem (L / d) e) = Some e' /\ core e' = core e) /\
  o_voice (offs_at (flat_map flatten ts) j) = zsum (map maxv (map fst (firstn j (flat_map flatten ts)))) /\
  o_staff (offs_at (flat_map flatten ts) j) = zsum (map maxs (map fst (firstn j (flat_map flatten ts)))) /\
  o_nstaves (offs_at (flat_map flatten ts) j) = zsum (map nstaves (map fst (firstn j (flat_map flatten ts)))).
Proof. exact (fun m ts L out j e' H Hin => conj (offsets_running_sums_lemma m ts L out j e' H Hin) (offs_at_sums _ j)). Qed.
Print Assumptions offsets_are_running_sums.

(* the new numbers written out for the three modes *)
Theorem renumbering_formulas : forall m ts L out j e',
  merge_parts m ts = RMerged L out -> In (j, e') out ->
  let before := map fst (firstn j (flat_map flatten ts)) in
  exists es d e, nth_error (flat_map flatten ts) j = Some (es, d) /\ In e es /\ core e' = core e /\
    match m with
    | MVoice => (generic e -> exists v, e_voice e = Some v /\ e_voice e' = Some (v + zsum (map maxv before))) /\
                e_staff e' = e_staff e
    | MStaff => (staffed e -> e_staff e' = Some (staff1 e + zsum (map maxs before))) /\
                e_voice e' = e_voice e
    | MAuto => (staffed e -> e_staff e' = Some (zsum (map nstaves before) + 1 + rank (staff1 e) (uniq (staves_of es)))) /\
               (generic e -> exists v, e_voice e = Some v /\
                  e_voice e' = Some (4 * zsum (map nstaves before) + 1 + rank v (uniq (voices_of es))))
    end.
Proof. exact renumbering_formulas_lemma. Qed.
Print Assumptions renumbering_formulas.

(* exactly when the merge of two or more parts raises: "voice" / "auto" mode and a note or rest
   without a voice (outside the quantifier of the property; "staff" mode never raises) *)
Theorem merge_raises_iff : forall m ts, (2 <= List.length (flat_map flatten ts))%nat ->
  (merge_parts m ts = RRaise <-> m <> MStaff /\ all_voiced (flat_map flatten ts) = false).
Proof. exact merge_raises_iff_lemma. Qed.
Print Assumptions merge_raises_iff.

(* history: a merged part merged again with further parts -- the result counts in the lcm of ALL
   original divisions and every element stands at the musical time it had in its ORIGINAL part *)
Theorem merge_twice_time_preserved : forall m1 m2 ts1 L1 out1 ts2 L2 out2,
  merge_parts m1 ts1 = RMerged L1 out1 ->
  merge_parts m2 (TPart (map snd out1, L1) :: ts2) = RMerged L2 out2 ->
  divs_pos (flat_map flatten ts1) -> divs_pos (flat_map flatten ts2) ->
  L2 = lcm_list (divs_of (flat_map flatten ts1 ++ flat_map flatten ts2)) /\ 0 < L2 /\
  (forall e'', In (0%nat, e'') out2 ->
     exists j es d e, nth_error (flat_map flatten ts1) j = Some (es, d) /\ In e es /\
                      core e'' = core e /\ (d | L2) /\ same_time L2 d e e'') /\
  (forall j e'', In (S j, e'') out2 ->
     exists es d e, nth_error (flat_map flatten ts2) j = Some (es, d) /\ In e es /\
                    core e'' = core e /\ (d | L2) /\ same_time L2 d e e'').
Proof. exact merge_twice_lemma. Qed.
Print Assumptions merge_twice_time_preserved.

(* O2 at the observation point "note array (with staff) of the merged part": every row stands for a
   Note / GraceNote element of the merged part with that onset, pitch, voice and staff ... *)
Theorem merged_array_rows_are_elements : forall m ts L out rows,
  merge_parts m ts = RMerged L out -> merged_rows L out = Some rows ->
  forall r, In r rows -> exists j e', In (j, e') out /\ row_of_elem r e'.
Proof. exact (fun m ts L out rows _ MR => merged_array_rows_lemma L out rows MR). Qed.
Print Assumptions merged_array_rows_are_elements.

(* ... and two rows that share a voice ("voice" mode) / a staff ("staff" mode) come from the same
   input *)
Theorem merged_array_voice_mode_disjoint : forall ts L out rows, merge_parts MVoice ts = RMerged L out ->
  parts_good voices_ok (flat_map flatten ts) -> merged_rows L out = Some rows ->
  forall r1 r2, In r1 rows -> In r2 rows -> r_voice r1 = r_voice r2 ->
  exists j e1 e2, In (j, e1) out /\ In (j, e2) out /\ row_of_elem r1 e1 /\ row_of_elem r2 e2.
Proof. exact merged_array_voice_mode_lemma. Qed.
Print Assumptions merged_array_voice_mode_disjoint.

Theorem merged_array_staff_mode_disjoint : forall ts L out rows, merge_parts MStaff ts = RMerged L out ->
  parts_good staves_ok (flat_map flatten ts) -> merged_rows L out = Some rows ->
  forall r1 r2, In r1 rows -> In r2 rows -> r_staff r1 = r_staff r2 ->
  exists j e1 e2, In (j, e1) out /\ In (j, e2) out /\ row_of_elem r1 e1 /\ row_of_elem r2 e2.
Proof. exact merged_array_staff_mode_lemma. Qed.
Print Assumptions merged_array_staff_mode_disjoint.

Theorem merged_array_auto_mode_disjoint : forall ts L out rows, merge_parts MAuto ts = RMerged L out ->
  merged_rows L out = Some rows ->
  (forall r1 r2, In r1 rows -> In r2 rows -> r_staff r1 = r_staff r2 ->
     exists j e1 e2, In (j, e1) out /\ In (j, e2) out /\ row_of_elem r1 e1 /\ row_of_elem r2 e2) /\
  (parts_good four_per_staff (flat_map flatten ts) ->
   forall r1 r2, In r1 rows -> In r2 rows -> r_voice r1 = r_voice r2 ->
     exists j e1 e2, In (j, e1) out /\ In (j, e2) out /\ row_of_elem r1 e1 /\ row_of_elem r2 e2).
Proof. exact merged_array_auto_mode_lemma. Qed.
Print Assumptions merged_array_auto_mode_disjoint.

(* the convenience loader: merge_parts in "voice" mode on the flat part list of the loaded score (so
   every theorem above applies to it); a score with one part gives that part *)
Theorem loader_is_voice_merge : forall parts,
  load_as_part parts = merge_parts MVoice (map TPart parts) /\
  flat_map flatten (map TPart parts) = parts /\
  (forall p, parts = [p] -> load_as_part parts = RSingle p).
Proof. exact load_as_part_lemma. Qed.
Print Assumptions loader_is_voice_merge.

(* non-vacuity of the extensions: percussion (unpitched notes in a voice and on a staff of their own
   are counted; they are no rows of the note array), the shapes of the argument, a rest without voice
   (raises in "voice" / "auto" only), a merged part merged again, the offsets, the loader *)
Theorem extension_examples :
  (exists out, merge_parts_arg MVoice (ASeq [TPart px_p0; TPart px_p1]) = RMerged 4 out /\
     gen_view out = [(0, 2, 0, Some 1, Some 1); (0, 3, 0, Some 2, Some 2); (0, 4, 4, Some 2, Some 2);
                     (1, 12, 4, Some 3, Some 1); (1, 13, 8, Some 4, Some 2)] /\
     map (fun x => e_oid (snd x)) (filter (fun x => discard MVoice (e_kind (snd x))) out) = [1] /\
     option_map (map nrow_of) (merged_rows 4 out) = Some [(0, 4, 60, 1, 1); (4, 4, 67, 3, 1); (8, 4, 69, 4, 2)]) /\
  (exists out, merge_parts_arg MAuto (AScore [TGroup [TPart px_p0; TPart px_p1]]) = RMerged 4 out /\
     gen_view out = [(0, 2, 0, Some 1, Some 1); (0, 3, 0, Some 2, Some 2); (0, 4, 4, Some 2, Some 2);
                     (1, 12, 4, Some 9, Some 3); (1, 13, 8, Some 10, Some 4)]) /\
  merge_parts_arg MStaff (AOne (TGroup [TPart px_p0; TPart px_p1])) = merge_parts_arg MStaff (ASeq [TPart px_p0; TPart px_p1]) /\
  merge_parts_arg MVoice (ASeq [TPart px_p0; TPart px_p2]) = RRaise /\
  merge_parts_arg MAuto (ASeq [TPart px_p0; TPart px_p2]) = RRaise /\
  (exists out, merge_parts_arg MStaff (ASeq [TPart px_p0; TPart px_p2]) = RMerged 12 out) /\
  all_voiced [px_p0; px_p2] = false /\ all_voiced [px_p0; px_p1] = true /\
  (exists out1 out2, merge_parts MStaff [TPart px_p0; TPart px_p1] = RMerged 4 out1 /\
     merge_parts MStaff [TPart (map snd out1, 4); TPart px_p2] = RMerged 12 out2 /\
     map (fun x => (Z.of_nat (fst x), e_oid (snd x), e_start (snd x), e_end (snd x))) out2 =
       [(0, 1, 0, Some 48); (0, 2, 0, Some 12); (0, 3, 0, Some 12); (0, 4, 12, Some 24);
        (0, 12, 12, Some 24); (0, 13, 24, Some 36); (1, 21, 0, Some 12)]) /\
  offs_at [px_p0; px_p1; px_p2] 1 = mkOffs 2 2 2 /\ offs_at [px_p0; px_p1; px_p2] 2 = mkOffs 4 4 4 /\
  load_as_part [px_p0; px_p1] = merge_parts MVoice [TPart px_p0; TPart px_p1] /\ load_as_part [px_p1] = RSingle px_p1.
Proof. exact ext_examples. Qed.
Print Assumptions extension_examples.
