(* C15 -- merging parts keeps every note at the same musical time in disjoint voices: property
   theorems.  Statements + `exact` only; proofs live in Proofs/C15*.v.  All theorems quantify over
   every input (any number of parts, any positive divisions, any elements, voices and staves, any
   nesting of groups); none is a finite sample.  The model (Model/C15.v) is tied to partitura's
   merge_parts by the correspondence run of harness/props/c15.py on every check.
   Output elements are tagged with the index of the part they come from: In (j, e') out. *)
From PV Require Import Lib.Base Model.C05 Model.C05_Spec Model.C15 Model.C15_Spec
     Proofs.C05_lib Proofs.C15 Proofs.C15_link Proofs.C15_ex.
From Coq Require Import Permutation.
#[local] Open Scope Z_scope.

(* O1: the merged part counts in the lcm of the divisions, and every element of it stands at the
   same musical time as the input element it is: start'/L = start/d and end'/L = end/d exactly
   (cross-multiplied integers; needs only d | L), identity, class, pitch and tie links unchanged *)
Theorem merge_time_preserved : forall m ts L out,
  merge_parts m ts = RMerged L out -> divs_pos (flat_map flatten ts) ->
  L = lcm_list (divs_of (flat_map flatten ts)) /\ 0 < L /\
  forall j e', In (j, e') out ->
  exists es d e, nth_error (flat_map flatten ts) j = Some (es, d) /\ In e es /\ core e' = core e /\
                 (d | L) /\ same_time L d e e'.
Proof. exact merge_time_preserved_lemma. Qed.
Print Assumptions merge_time_preserved.

(* O1: as a multiset the merged part holds exactly the kept elements: all of part 0, and of the
   later parts everything whose class is not in el_to_discard *)
Theorem merge_contains_all : forall m ts L out, merge_parts m ts = RMerged L out ->
  Permutation (map tag_core out) (map tag_core (kept_from m 0 (flat_map flatten ts))).
Proof. exact merge_contains_all_lemma. Qed.
Print Assumptions merge_contains_all.

(* ... so every element of the first part, and every note, rest and element of a non-discarded
   class of any part, is in the merged part *)
Theorem merge_keeps : forall m ts L out j es d e,
  merge_parts m ts = RMerged L out -> nth_error (flat_map flatten ts) j = Some (es, d) -> In e es ->
  (j = 0%nat \/ discard m (e_kind e) = false) ->
  exists e', In (j, e') out /\ core e' = core e.
Proof. exact merge_keeps_lemma. Qed.
Print Assumptions merge_keeps.

(* O2, "voice" mode: notes and rests of different inputs never share a voice ... *)
Theorem voices_disjoint : forall ts L out, merge_parts MVoice ts = RMerged L out ->
  parts_good voices_ok (flat_map flatten ts) ->
  forall j1 j2 e1 e2, In (j1, e1) out -> In (j2, e2) out -> j1 <> j2 -> generic e1 -> generic e2 ->
  e_voice e1 <> e_voice e2.
Proof. exact voices_disjoint_lemma. Qed.
Print Assumptions voices_disjoint.

(* ... while two of the same input share a voice afterwards iff they did before *)
Theorem voices_coherent : forall ts L out, merge_parts MVoice ts = RMerged L out ->
  parts_good voices_ok (flat_map flatten ts) ->
  forall j e1' e2', In (j, e1') out -> In (j, e2') out -> generic e1' -> generic e2' ->
  exists es d e1 e2, nth_error (flat_map flatten ts) j = Some (es, d) /\ In e1 es /\ In e2 es /\
    core e1' = core e1 /\ core e2' = core e2 /\ (e_voice e1' = e_voice e2' <-> e_voice e1 = e_voice e2).
Proof. exact voices_coherent_lemma. Qed.
Print Assumptions voices_coherent.

(* O2, "staff" mode, a missing staff counted as staff 1: every element that carries a staff
   (notes, rests, words, directions, clefs) *)
Theorem staves_disjoint : forall ts L out, merge_parts MStaff ts = RMerged L out ->
  parts_good staves_ok (flat_map flatten ts) ->
  forall j1 j2 e1 e2, In (j1, e1) out -> In (j2, e2) out -> j1 <> j2 -> staffed e1 -> staffed e2 ->
  e_staff e1 <> e_staff e2.
Proof. exact staves_disjoint_lemma. Qed.
Print Assumptions staves_disjoint.

Theorem staves_coherent : forall ts L out, merge_parts MStaff ts = RMerged L out ->
  parts_good staves_ok (flat_map flatten ts) ->
  forall j e1' e2', In (j, e1') out -> In (j, e2') out -> staffed e1' -> staffed e2' ->
  exists es d e1 e2, nth_error (flat_map flatten ts) j = Some (es, d) /\ In e1 es /\ In e2 es /\
    core e1' = core e1 /\ core e2' = core e2 /\ (e_staff e1' = e_staff e2' <-> staff1 e1 = staff1 e2).
Proof. exact staves_coherent_lemma. Qed.
Print Assumptions staves_coherent.

(* O2, "auto" mode: staves of different inputs are always disjoint; voices are disjoint when no
   input has more than four voices per staff (the documented numbering scheme) *)
Theorem auto_mode_disjoint : forall ts L out, merge_parts MAuto ts = RMerged L out ->
  (forall j1 j2 e1 e2, In (j1, e1) out -> In (j2, e2) out -> j1 <> j2 -> staffed e1 -> staffed e2 ->
     e_staff e1 <> e_staff e2) /\
  (parts_good four_per_staff (flat_map flatten ts) ->
   forall j1 j2 e1 e2, In (j1, e1) out -> In (j2, e2) out -> j1 <> j2 -> generic e1 -> generic e2 ->
     e_voice e1 <> e_voice e2).
Proof. exact (fun ts L out H => conj (auto_staves_disjoint_lemma ts L out H) (auto_voices_disjoint_lemma ts L out H)). Qed.
Print Assumptions auto_mode_disjoint.

Theorem auto_mode_coherent : forall ts L out, merge_parts MAuto ts = RMerged L out ->
  (forall j e1' e2', In (j, e1') out -> In (j, e2') out -> staffed e1' -> staffed e2' ->
   exists es d e1 e2, nth_error (flat_map flatten ts) j = Some (es, d) /\ In e1 es /\ In e2 es /\
     core e1' = core e1 /\ core e2' = core e2 /\ (e_staff e1' = e_staff e2' <-> staff1 e1 = staff1 e2)) /\
  (forall j e1' e2', In (j, e1') out -> In (j, e2') out -> generic e1' -> generic e2' ->
   exists es d e1 e2, nth_error (flat_map flatten ts) j = Some (es, d) /\ In e1 es /\ In e2 es /\
     core e1' = core e1 /\ core e2' = core e2 /\ (e_voice e1' = e_voice e2' <-> e_voice e1 = e_voice e2)).
Proof. exact (fun ts L out H => conj (auto_staves_coherent_lemma ts L out H) (auto_voices_coherent_lemma ts L out H)). Qed.
Print Assumptions auto_mode_coherent.

(* the exact boundary of the "auto" voices (known finding C15-K1): with five voices on one staff
   two notes of different inputs share a voice, although voices and staves are well formed *)
Theorem auto_voices_overflow_refuted :
  exists ts L out j1 j2 e1 e2,
    merge_parts MAuto ts = RMerged L out /\ parts_good voices_ok (flat_map flatten ts) /\
    parts_good staves_ok (flat_map flatten ts) /\
    In (j1, e1) out /\ In (j2, e2) out /\ j1 <> j2 /\ generic e1 /\ generic e2 /\
    e_voice e1 = e_voice e2.
Proof. exact auto_voices_overflow_lemma. Qed.
Print Assumptions auto_voices_overflow_refuted.

(* O3: an element of a class of el_to_discard in the merged part comes from the first part; the
   documented classes are all discarded (the Clef in "voice" mode only: the other modes keep the
   staves apart, each with its clef); nothing else is discarded but DaCapo, Fine, Fermata, Ending,
   Tempo *)
Theorem structural_from_first :
  (forall m ts L out j e', merge_parts m ts = RMerged L out -> In (j, e') out ->
     discard m (e_kind e') = true -> j = 0%nat) /\
  (forall m k, doc_structural k = true -> discard m k = true \/ (k = KClef /\ m <> MVoice)) /\
  (forall m k, discard m k = true ->
     doc_structural k = true \/ In k [KDaCapo; KFine; KFermata; KEnding; KTempo]).
Proof. exact (conj structural_from_first_lemma (conj doc_structural_discarded_lemma discard_classes_lemma)). Qed.
Print Assumptions structural_from_first.

(* the boundary of "contains every non-structural element" (known finding C15-K2): a Fermata of a
   later part, not among the documented classes, is not in the merged part *)
Theorem undocumented_drop_refuted :
  exists m ts L out e,
    merge_parts m ts = RMerged L out /\ In e (fst ex_p1) /\ nth_error (flat_map flatten ts) 1 = Some ex_p1 /\
    doc_structural (e_kind e) = false /\ forall j e', In (j, e') out -> core e' <> core e.
Proof. exact undocumented_drop_lemma. Qed.
Print Assumptions undocumented_drop_refuted.

(* O4: one part -- alone, in a list, in a group, in nested groups -- is returned as it is *)
Theorem single_identity : forall m ts p, flat_map flatten ts = [p] -> merge_parts m ts = RSingle p.
Proof. exact single_identity_lemma. Qed.
Print Assumptions single_identity.

Theorem single_identity_shapes : forall m p,
  merge_parts m [TPart p] = RSingle p /\ merge_parts m [TGroup [TPart p]] = RSingle p /\
  merge_parts m [TGroup [TGroup [TPart p]]] = RSingle p /\ merge_parts m [TGroup []; TPart p] = RSingle p.
Proof. exact (fun m p => conj eq_refl (conj eq_refl (conj eq_refl eq_refl))). Qed.
Print Assumptions single_identity_shapes.

(* with two or more parts the merge is defined (never raises) when every note and rest carries a
   voice -- and always in "staff" mode *)
Theorem merge_total : forall m ts, (2 <= List.length (flat_map flatten ts))%nat ->
  (m = MStaff \/ forall p e, In p (flat_map flatten ts) -> In e (fst p) -> generic e -> e_voice e <> None) ->
  exists out, merge_parts m ts = RMerged (merge_lcm (flat_map flatten ts)) out.
Proof. exact merge_total_lemma. Qed.
Print Assumptions merge_total.

(* O5: the note array of the merged part and the score-level note array (C05's score_array over
   the parts' arrays, lcm taken over the parts that have notes) hold the same sounding notes:
   equal multisets of (onset, duration, pitch), onsets and durations compared in quarters as
   cross-multiplied integers; both arrays are defined *)
Theorem merge_eq_score_array : forall m ts L out,
  merge_parts m ts = RMerged L out ->
  divs_pos (flat_map flatten ts) -> ties_ok (flat_map flatten ts) ->
  exists rows arrs,
    merged_rows L out = Some rows /\ parts_rows (flat_map flatten ts) = Some arrs /\
    Permutation (map (qkey (score_lcm arrs)) rows) (map (qkey L) (score_array false arrs)).
Proof. exact merge_eq_score_array_lemma. Qed.
Print Assumptions merge_eq_score_array.

(* the hypotheses are satisfiable by a non-trivial input: divisions 4, 6, 10 (lcm 60 above all),
   a group inside a list, tied notes, a rest in a voice of its own, missing and stated staves *)
Theorem hypotheses_satisfiable :
  flat_map flatten ex_ts = ex_ps /\ divs_pos ex_ps /\
  parts_good voices_ok ex_ps /\ parts_good staves_ok ex_ps /\ parts_good four_per_staff ex_ps /\
  ties_ok ex_ps.
Proof. exact ex_hypotheses. Qed.
Print Assumptions hypotheses_satisfiable.

Theorem example_results :
  (exists out, merge_parts MVoice ex_ts = RMerged 60 out /\
     map (fun x => (Z.of_nat (fst x), e_oid (snd x), e_start (snd x), e_voice (snd x))) (filter (fun x => is_generic (e_kind (snd x))) out)
     = [(0, 3, 15, Some 1); (0, 4, 45, Some 1); (0, 5, 120, Some 2);
        (1, 12, 10, Some 3); (1, 13, 70, Some 5); (2, 21, 18, Some 6); (2, 22, 18, Some 6)]) /\
  (exists out, merge_parts MStaff ex_ts = RMerged 60 out /\
     map (fun x => (Z.of_nat (fst x), e_oid (snd x), e_staff (snd x))) (filter (fun x => is_staffed (e_kind (snd x))) out)
     = [(0, 3, Some 1); (0, 4, Some 1); (0, 5, Some 2); (0, 6, Some 2);
        (1, 12, Some 3); (1, 13, Some 4); (1, 14, Some 3); (2, 21, Some 5); (2, 22, Some 5)]) /\
  (exists out, merge_parts MAuto ex_ts = RMerged 60 out /\
     map (fun x => (Z.of_nat (fst x), e_oid (snd x), e_voice (snd x), e_staff (snd x))) (filter (fun x => is_generic (e_kind (snd x))) out)
     = [(0, 3, Some 1, Some 1); (0, 4, Some 1, Some 1); (0, 5, Some 2, Some 2);
        (1, 12, Some 9, Some 3); (1, 13, Some 10, Some 4); (2, 21, Some 17, Some 5); (2, 22, Some 17, Some 5)]).
Proof. exact ex_results. Qed.
Print Assumptions example_results.
