(* C15 -- merging parts keeps every note at the same musical time in disjoint voices: property
   theorems.  Statements + `exact` only; proofs live in Proofs/C15*.v.  All theorems quantify over
   every input (any number of parts, any positive divisions, any elements, voices and staves, any
   nesting of groups); none is a finite sample.  The model (Model/C15.v) is tied to partitura's
   merge_parts by the correspondence run of harness/props/c15.py on every check.
   Output elements are tagged with the index of the part they come from: In (j, e') out. *)
From PV Require Import Lib.Base Model.C05 Model.C05_Spec Model.C15 Model.C15_Spec Model.C15_Hist
     Proofs.C05_lib Proofs.C15 Proofs.C15_link Proofs.C15_ex Proofs.C15_ext Proofs.C15_hist.
From PV Require Import Model.C15_Code Proofs.C15_code Model.C15_Entry Proofs.C15_entry.
From Coq Require Import Permutation Sorted String.
#[local] Open Scope Z_scope.

(* O1: the merged part counts in the lcm of the divisions, and every element of it stands at the
   same musical time as the input element it is: start'/L = start/d and end'/L = end/d exactly
   (cross-multiplied integers; needs only d | L), identity, class, pitch and tie links unchanged *)
Theorem merge_time_preserved : forall m ts L out,
  merge_parts m ts = RMerged L out -> divs_pos (flat_map flatten ts) ->
  L = lcm_list (divs_of (flat_map flatten ts)) /\ 0 < L /\
  forall j e', In (j, e') out ->
  exists es d e, nth_error (flat_map flatten ts) j = Some (es, d) /\ In e es /\ core e' = core e /\
                 (d | L) /\ same_time L d e e'.
Proof. exact merge_time_preserved_lemma. Qed.
Print Assumptions merge_time_preserved.

(* O1: as a multiset the merged part holds exactly the kept elements: all of part 0, and of the
   later parts everything whose class is not in el_to_discard *)
Theorem merge_contains_all : forall m ts L out, merge_parts m ts = RMerged L out ->
  Permutation (map tag_core out) (map tag_core (kept_from m 0 (flat_map flatten ts))).
Proof. exact merge_contains_all_lemma. Qed.
Print Assumptions merge_contains_all.

(* ... so every element of the first part, and every note, rest and element of a non-discarded
   class of any part, is in the merged part *)
Theorem merge_keeps : forall m ts L out j es d e,
  merge_parts m ts = RMerged L out -> nth_error (flat_map flatten ts) j = Some (es, d) -> In e es ->
  (j = 0%nat \/ discard m (e_kind e) = false) ->
  exists e', In (j, e') out /\ core e' = core e.
Proof. exact merge_keeps_lemma. Qed.
Print Assumptions merge_keeps.

(* O2, "voice" mode: notes and rests of different inputs never share a voice ... *)
Theorem voices_disjoint : forall ts L out, merge_parts MVoice ts = RMerged L out ->
  parts_good voices_ok (flat_map flatten ts) ->
  forall j1 j2 e1 e2, In (j1, e1) out -> In (j2, e2) out -> j1 <> j2 -> generic e1 -> generic e2 ->
  e_voice e1 <> e_voice e2.
Proof. exact voices_disjoint_lemma. Qed.
Print Assumptions voices_disjoint.

(* ... while two of the same input share a voice afterwards iff they did before *)
Theorem voices_coherent : forall ts L out, merge_parts MVoice ts = RMerged L out ->
  parts_good voices_ok (flat_map flatten ts) ->
  forall j e1' e2', In (j, e1') out -> In (j, e2') out -> generic e1' -> generic e2' ->
  exists es d e1 e2, nth_error (flat_map flatten ts) j = Some (es, d) /\ In e1 es /\ In e2 es /\
    core e1' = core e1 /\ core e2' = core e2 /\ (e_voice e1' = e_voice e2' <-> e_voice e1 = e_voice e2).
Proof. exact voices_coherent_lemma. Qed.
Print Assumptions voices_coherent.

(* O2, "staff" mode, a missing staff counted as staff 1: every element that carries a staff
   (notes, rests, words, directions, clefs) *)
Theorem staves_disjoint : forall ts L out, merge_parts MStaff ts = RMerged L out ->
  parts_good staves_ok (flat_map flatten ts) ->
  forall j1 j2 e1 e2, In (j1, e1) out -> In (j2, e2) out -> j1 <> j2 -> staffed e1 -> staffed e2 ->
  e_staff e1 <> e_staff e2.
Proof. exact staves_disjoint_lemma. Qed.
Print Assumptions staves_disjoint.

Theorem staves_coherent : forall ts L out, merge_parts MStaff ts = RMerged L out ->
  parts_good staves_ok (flat_map flatten ts) ->
  forall j e1' e2', In (j, e1') out -> In (j, e2') out -> staffed e1' -> staffed e2' ->
  exists es d e1 e2, nth_error (flat_map flatten ts) j = Some (es, d) /\ In e1 es /\ In e2 es /\
    core e1' = core e1 /\ core e2' = core e2 /\ (e_staff e1' = e_staff e2' <-> staff1 e1 = staff1 e2).
Proof. exact staves_coherent_lemma. Qed.
Print Assumptions staves_coherent.

(* O2, "auto" mode: staves of different inputs are always disjoint; voices are disjoint when no
   input has more than four voices per staff (the documented numbering scheme) *)
Theorem auto_mode_disjoint : forall ts L out, merge_parts MAuto ts = RMerged L out ->
  (forall j1 j2 e1 e2, In (j1, e1) out -> In (j2, e2) out -> j1 <> j2 -> staffed e1 -> staffed e2 ->
     e_staff e1 <> e_staff e2) /\
  (parts_good four_per_staff (flat_map flatten ts) ->
   forall j1 j2 e1 e2, In (j1, e1) out -> In (j2, e2) out -> j1 <> j2 -> generic e1 -> generic e2 ->
     e_voice e1 <> e_voice e2).
Proof. exact (fun ts L out H => conj (auto_staves_disjoint_lemma ts L out H) (auto_voices_disjoint_lemma ts L out H)). Qed.
Print Assumptions auto_mode_disjoint.

Theorem auto_mode_coherent : forall ts L out, merge_parts MAuto ts = RMerged L out ->
  (forall j e1' e2', In (j, e1') out -> In (j, e2') out -> staffed e1' -> staffed e2' ->
   exists es d e1 e2, nth_error (flat_map flatten ts) j = Some (es, d) /\ In e1 es /\ In e2 es /\
     core e1' = core e1 /\ core e2' = core e2 /\ (e_staff e1' = e_staff e2' <-> staff1 e1 = staff1 e2)) /\
  (forall j e1' e2', In (j, e1') out -> In (j, e2') out -> generic e1' -> generic e2' ->
   exists es d e1 e2, nth_error (flat_map flatten ts) j = Some (es, d) /\ In e1 es /\ In e2 es /\
     core e1' = core e1 /\ core e2' = core e2 /\ (e_voice e1' = e_voice e2' <-> e_voice e1 = e_voice e2)).
Proof. exact (fun ts L out H => conj (auto_staves_coherent_lemma ts L out H) (auto_voices_coherent_lemma ts L out H)). Qed.
Print Assumptions auto_mode_coherent.

(* the exact boundary of the "auto" voices (known finding C15-K1): with five voices on one staff
   two notes of different inputs share a voice, although voices and staves are well formed *)
Theorem auto_voices_overflow_refuted :
  exists ts L out j1 j2 e1 e2,
    merge_parts MAuto ts = RMerged L out /\ parts_good voices_ok (flat_map flatten ts) /\
    parts_good staves_ok (flat_map flatten ts) /\
    In (j1, e1) out /\ In (j2, e2) out /\ j1 <> j2 /\ generic e1 /\ generic e2 /\
    e_voice e1 = e_voice e2.
Proof. exact auto_voices_overflow_lemma. Qed.
Print Assumptions auto_voices_overflow_refuted.

(* O3: an element of a class of el_to_discard in the merged part comes from the first part; the
   documented classes are all discarded (the Clef in "voice" mode only: the other modes keep the
   staves apart, each with its clef); nothing else is discarded but DaCapo, Fine, Fermata, Ending,
   Tempo *)
Theorem structural_from_first :
  (forall m ts L out j e', merge_parts m ts = RMerged L out -> In (j, e') out ->
     discard m (e_kind e') = true -> j = 0%nat) /\
  (forall m k, doc_structural k = true -> discard m k = true \/ (k = KClef /\ m <> MVoice)) /\
  (forall m k, discard m k = true ->
     doc_structural k = true \/ In k [KDaCapo; KFine; KFermata; KEnding; KTempo]).
Proof. exact (conj structural_from_first_lemma (conj doc_structural_discarded_lemma discard_classes_lemma)). Qed.
Print Assumptions structural_from_first.

(* the boundary of "contains every non-structural element" (known finding C15-K2): a Fermata of a
   later part, not among the documented classes, is not in the merged part *)
Theorem undocumented_drop_refuted :
  exists m ts L out e,
    merge_parts m ts = RMerged L out /\ In e (fst ex_p1) /\ nth_error (flat_map flatten ts) 1 = Some ex_p1 /\
    doc_structural (e_kind e) = false /\ forall j e', In (j, e') out -> core e' <> core e.
Proof. exact undocumented_drop_lemma. Qed.
Print Assumptions undocumented_drop_refuted.

(* O4: one part -- alone, in a list, in a group, in nested groups -- is returned as it is *)
Theorem single_identity : forall m ts p, flat_map flatten ts = [p] -> merge_parts m ts = RSingle p.
Proof. exact single_identity_lemma. Qed.
Print Assumptions single_identity.

Theorem single_identity_shapes : forall m p,
  merge_parts m [TPart p] = RSingle p /\ merge_parts m [TGroup [TPart p]] = RSingle p /\
  merge_parts m [TGroup [TGroup [TPart p]]] = RSingle p /\ merge_parts m [TGroup []; TPart p] = RSingle p.
Proof. exact (fun m p => conj eq_refl (conj eq_refl (conj eq_refl eq_refl))). Qed.
Print Assumptions single_identity_shapes.

(* with two or more parts the merge is defined (never raises) when every note and rest carries a
   voice -- and always in "staff" mode *)
Theorem merge_total : forall m ts, (2 <= List.length (flat_map flatten ts))%nat ->
  (m = MStaff \/ forall p e, In p (flat_map flatten ts) -> In e (fst p) -> generic e -> e_voice e <> None) ->
  exists out, merge_parts m ts = RMerged (merge_lcm (flat_map flatten ts)) out.
Proof. exact merge_total_lemma. Qed.
Print Assumptions merge_total.

(* O5: the note array of the merged part and the score-level note array (C05's score_array over
   the parts' arrays, lcm taken over the parts that have notes) hold the same sounding notes:
   equal multisets of (onset, duration, pitch), onsets and durations compared in quarters as
   cross-multiplied integers; both arrays are defined *)
Theorem merge_eq_score_array : forall m ts L out,
  merge_parts m ts = RMerged L out ->
  divs_pos (flat_map flatten ts) -> ties_ok (flat_map flatten ts) ->
  exists rows arrs,
    merged_rows L out = Some rows /\ parts_rows (flat_map flatten ts) = Some arrs /\
    Permutation (map (qkey (score_lcm arrs)) rows) (map (qkey L) (score_array false arrs)).
Proof. exact merge_eq_score_array_lemma. Qed.
Print Assumptions merge_eq_score_array.

(* the hypotheses are satisfiable by a non-trivial input: divisions 4, 6, 10 (lcm 60 above all),
   a group inside a list, tied notes, a rest in a voice of its own, missing and stated staves *)
Theorem hypotheses_satisfiable :
  flat_map flatten ex_ts = ex_ps /\ divs_pos ex_ps /\
  parts_good voices_ok ex_ps /\ parts_good staves_ok ex_ps /\ parts_good four_per_staff ex_ps /\
  ties_ok ex_ps.
Proof. exact ex_hypotheses. Qed.
Print Assumptions hypotheses_satisfiable.

Theorem example_results :
  (exists out, merge_parts MVoice ex_ts = RMerged 60 out /\
     map (fun x => (Z.of_nat (fst x), e_oid (snd x), e_start (snd x), e_voice (snd x))) (filter (fun x => is_generic (e_kind (snd x))) out)
     = [(0, 3, 15, Some 1); (0, 4, 45, Some 1); (0, 5, 120, Some 2);
        (1, 12, 10, Some 3); (1, 13, 70, Some 5); (2, 21, 18, Some 6); (2, 22, 18, Some 6)]) /\
  (exists out, merge_parts MStaff ex_ts = RMerged 60 out /\
     map (fun x => (Z.of_nat (fst x), e_oid (snd x), e_staff (snd x))) (filter (fun x => is_staffed (e_kind (snd x))) out)
     = [(0, 3, Some 1); (0, 4, Some 1); (0, 5, Some 2); (0, 6, Some 2);
        (1, 12, Some 3); (1, 13, Some 4); (1, 14, Some 3); (2, 21, Some 5); (2, 22, Some 5)]) /\
  (exists out, merge_parts MAuto ex_ts = RMerged 60 out /\
     map (fun x => (Z.of_nat (fst x), e_oid (snd x), e_voice (snd x), e_staff (snd x))) (filter (fun x => is_generic (e_kind (snd x))) out)
     = [(0, 3, Some 1, Some 1); (0, 4, Some 1, Some 1); (0, 5, Some 2, Some 2);
        (1, 12, Some 9, Some 3); (1, 13, Some 10, Some 4); (2, 21, Some 17, Some 5); (2, 22, Some 17, Some 5)]).
Proof. exact ex_results. Qed.
Print Assumptions example_results.

(* ---------------------------------------------------------------------------------------------
   The argument: scores, part groups, lists and tuples (flattening: iter_parts, Score.__init__) *)

(* the result depends on the flattened part list only ... *)
Theorem container_irrelevant : forall m ts1 ts2,
  flat_map flatten ts1 = flat_map flatten ts2 -> merge_parts m ts1 = merge_parts m ts2.
Proof. exact container_irrelevant_lemma. Qed.
Print Assumptions container_irrelevant.

(* ... so a Score built from the parts and groups, a list / tuple of them, a PartGroup holding them and
   a Score holding that group give the same merged part; a single Part is returned as it is *)
Theorem dispatch_same_result : forall m ts,
  merge_parts_arg m (AScore ts) = merge_parts_arg m (ASeq ts) /\
  merge_parts_arg m (AOne (TGroup ts)) = merge_parts_arg m (ASeq ts) /\
  merge_parts_arg m (AScore [TGroup ts]) = merge_parts_arg m (ASeq ts) /\
  (forall p, merge_parts_arg m (AOne (TPart p)) = RSingle p).
Proof. exact dispatch_same_result_lemma. Qed.
Print Assumptions dispatch_same_result.

(* O3 at the observation point "measures / signatures of the merged part": the elements of the
   discarded classes in the merged part are, in order, exactly those of the first input, at the same
   musical time (start and end multiplied by L / d0), everything else unchanged *)
Theorem structural_exactly_first : forall m ts L out es0 d0 rest,
  merge_parts m ts = RMerged L out -> flat_map flatten ts = (es0, d0) :: rest ->
  map snd (filter (fun x : nat * elem => discard m (e_kind (snd x))) out) =
  map (rescale_elem (L / d0)) (filter (fun e => discard m (e_kind e)) es0).
Proof. exact structural_exactly_first_lemma. Qed.
Print Assumptions structural_exactly_first.

(* the state "voice / staff offsets": every element of input j is renumbered with the offsets that
   are the running sums over the inputs before it (maximum_voices, maximum_staves, number of staves) *)
Theorem offsets_are_running_sums : forall m ts L out j e',
  merge_parts m ts = RMerged L out -> In (j, e') out ->
  (exists es d e, nth_error (flat_map flatten ts) j = Some (es, d) /\ In e es /\
     renumber m (offs_at (flat_map flatten ts) j) (uniq (voices_of es)) (uniq (staves_of es))
              (rescale_elem (L / d) e) = Some e' /\ core e' = core e) /\
  o_voice (offs_at (flat_map flatten ts) j) = zsum (map maxv (map fst (firstn j (flat_map flatten ts)))) /\
  o_staff (offs_at (flat_map flatten ts) j) = zsum (map maxs (map fst (firstn j (flat_map flatten ts)))) /\
  o_nstaves (offs_at (flat_map flatten ts) j) = zsum (map nstaves (map fst (firstn j (flat_map flatten ts)))).
Proof. exact (fun m ts L out j e' H Hin => conj (offsets_running_sums_lemma m ts L out j e' H Hin) (offs_at_sums _ j)). Qed.
Print Assumptions offsets_are_running_sums.

(* the new numbers written out for the three modes *)
Theorem renumbering_formulas : forall m ts L out j e',
  merge_parts m ts = RMerged L out -> In (j, e') out ->
  let before := map fst (firstn j (flat_map flatten ts)) in
  exists es d e, nth_error (flat_map flatten ts) j = Some (es, d) /\ In e es /\ core e' = core e /\
    match m with
    | MVoice => (generic e -> exists v, e_voice e = Some v /\ e_voice e' = Some (v + zsum (map maxv before))) /\
                e_staff e' = e_staff e
    | MStaff => (staffed e -> e_staff e' = Some (staff1 e + zsum (map maxs before))) /\
                e_voice e' = e_voice e
    | MAuto => (staffed e -> e_staff e' = Some (zsum (map nstaves before) + 1 + rank (staff1 e) (uniq (staves_of es)))) /\
               (generic e -> exists v, e_voice e = Some v /\
                  e_voice e' = Some (4 * zsum (map nstaves before) + 1 + rank v (uniq (voices_of es))))
    end.
Proof. exact renumbering_formulas_lemma. Qed.
Print Assumptions renumbering_formulas.

(* exactly when the merge of two or more parts raises: "voice" / "auto" mode and a note or rest
   without a voice (outside the quantifier of the property; "staff" mode never raises) *)
Theorem merge_raises_iff : forall m ts, (2 <= List.length (flat_map flatten ts))%nat ->
  (merge_parts m ts = RRaise <-> m <> MStaff /\ all_voiced (flat_map flatten ts) = false).
Proof. exact merge_raises_iff_lemma. Qed.
Print Assumptions merge_raises_iff.

(* history: a merged part merged again with further parts -- the result counts in the lcm of ALL
   original divisions and every element stands at the musical time it had in its ORIGINAL part *)
Theorem merge_twice_time_preserved : forall m1 m2 ts1 L1 out1 ts2 L2 out2,
  merge_parts m1 ts1 = RMerged L1 out1 ->
  merge_parts m2 (TPart (map snd out1, L1) :: ts2) = RMerged L2 out2 ->
  divs_pos (flat_map flatten ts1) -> divs_pos (flat_map flatten ts2) ->
  L2 = lcm_list (divs_of (flat_map flatten ts1 ++ flat_map flatten ts2)) /\ 0 < L2 /\
  (forall e'', In (0%nat, e'') out2 ->
     exists j es d e, nth_error (flat_map flatten ts1) j = Some (es, d) /\ In e es /\
                      core e'' = core e /\ (d | L2) /\ same_time L2 d e e'') /\
  (forall j e'', In (S j, e'') out2 ->
     exists es d e, nth_error (flat_map flatten ts2) j = Some (es, d) /\ In e es /\
                    core e'' = core e /\ (d | L2) /\ same_time L2 d e e'').
Proof. exact merge_twice_lemma. Qed.
Print Assumptions merge_twice_time_preserved.

(* O2 at the observation point "note array (with staff) of the merged part": every row stands for a
   Note / GraceNote element of the merged part with that onset, pitch, voice and staff ... *)
Theorem merged_array_rows_are_elements : forall m ts L out rows,
  merge_parts m ts = RMerged L out -> merged_rows L out = Some rows ->
  forall r, In r rows -> exists j e', In (j, e') out /\ row_of_elem r e'.
Proof. exact (fun m ts L out rows _ MR => merged_array_rows_lemma L out rows MR). Qed.
Print Assumptions merged_array_rows_are_elements.

(* ... and two rows that share a voice ("voice" mode) / a staff ("staff" mode) come from the same
   input *)
Theorem merged_array_voice_mode_disjoint : forall ts L out rows, merge_parts MVoice ts = RMerged L out ->
  parts_good voices_ok (flat_map flatten ts) -> merged_rows L out = Some rows ->
  forall r1 r2, In r1 rows -> In r2 rows -> r_voice r1 = r_voice r2 ->
  exists j e1 e2, In (j, e1) out /\ In (j, e2) out /\ row_of_elem r1 e1 /\ row_of_elem r2 e2.
Proof. exact merged_array_voice_mode_lemma. Qed.
Print Assumptions merged_array_voice_mode_disjoint.

Theorem merged_array_staff_mode_disjoint : forall ts L out rows, merge_parts MStaff ts = RMerged L out ->
  parts_good staves_ok (flat_map flatten ts) -> merged_rows L out = Some rows ->
  forall r1 r2, In r1 rows -> In r2 rows -> r_staff r1 = r_staff r2 ->
  exists j e1 e2, In (j, e1) out /\ In (j, e2) out /\ row_of_elem r1 e1 /\ row_of_elem r2 e2.
Proof. exact merged_array_staff_mode_lemma. Qed.
Print Assumptions merged_array_staff_mode_disjoint.

Theorem merged_array_auto_mode_disjoint : forall ts L out rows, merge_parts MAuto ts = RMerged L out ->
  merged_rows L out = Some rows ->
  (forall r1 r2, In r1 rows -> In r2 rows -> r_staff r1 = r_staff r2 ->
     exists j e1 e2, In (j, e1) out /\ In (j, e2) out /\ row_of_elem r1 e1 /\ row_of_elem r2 e2) /\
  (parts_good four_per_staff (flat_map flatten ts) ->
   forall r1 r2, In r1 rows -> In r2 rows -> r_voice r1 = r_voice r2 ->
     exists j e1 e2, In (j, e1) out /\ In (j, e2) out /\ row_of_elem r1 e1 /\ row_of_elem r2 e2).
Proof. exact merged_array_auto_mode_lemma. Qed.
Print Assumptions merged_array_auto_mode_disjoint.

(* the convenience loader: merge_parts in "voice" mode on the flat part list of the loaded score (so
   every theorem above applies to it); a score with one part gives that part *)
Theorem loader_is_voice_merge : forall parts,
  load_as_part parts = merge_parts MVoice (map TPart parts) /\
  flat_map flatten (map TPart parts) = parts /\
  (forall p, parts = [p] -> load_as_part parts = RSingle p).
Proof. exact load_as_part_lemma. Qed.
Print Assumptions loader_is_voice_merge.

(* non-vacuity of the extensions: percussion (unpitched notes in a voice and on a staff of their own
   are counted; they are no rows of the note array), the shapes of the argument, a rest without voice
   (raises in "voice" / "auto" only), a merged part merged again, the offsets, the loader *)
Theorem extension_examples :
  (exists out, merge_parts_arg MVoice (ASeq [TPart px_p0; TPart px_p1]) = RMerged 4 out /\
     gen_view out = [(0, 2, 0, Some 1, Some 1); (0, 3, 0, Some 2, Some 2); (0, 4, 4, Some 2, Some 2);
                     (1, 12, 4, Some 3, Some 1); (1, 13, 8, Some 4, Some 2)] /\
     map (fun x => e_oid (snd x)) (filter (fun x => discard MVoice (e_kind (snd x))) out) = [1] /\
     option_map (map nrow_of) (merged_rows 4 out) = Some [(0, 4, 60, 1, 1); (4, 4, 67, 3, 1); (8, 4, 69, 4, 2)]) /\
  (exists out, merge_parts_arg MAuto (AScore [TGroup [TPart px_p0; TPart px_p1]]) = RMerged 4 out /\
     gen_view out = [(0, 2, 0, Some 1, Some 1); (0, 3, 0, Some 2, Some 2); (0, 4, 4, Some 2, Some 2);
                     (1, 12, 4, Some 9, Some 3); (1, 13, 8, Some 10, Some 4)]) /\
  merge_parts_arg MStaff (AOne (TGroup [TPart px_p0; TPart px_p1])) = merge_parts_arg MStaff (ASeq [TPart px_p0; TPart px_p1]) /\
  merge_parts_arg MVoice (ASeq [TPart px_p0; TPart px_p2]) = RRaise /\
  merge_parts_arg MAuto (ASeq [TPart px_p0; TPart px_p2]) = RRaise /\
  (exists out, merge_parts_arg MStaff (ASeq [TPart px_p0; TPart px_p2]) = RMerged 12 out) /\
  all_voiced [px_p0; px_p2] = false /\ all_voiced [px_p0; px_p1] = true /\
  (exists out1 out2, merge_parts MStaff [TPart px_p0; TPart px_p1] = RMerged 4 out1 /\
     merge_parts MStaff [TPart (map snd out1, 4); TPart px_p2] = RMerged 12 out2 /\
     map (fun x => (Z.of_nat (fst x), e_oid (snd x), e_start (snd x), e_end (snd x))) out2 =
       [(0, 1, 0, Some 48); (0, 2, 0, Some 12); (0, 3, 0, Some 12); (0, 4, 12, Some 24);
        (0, 12, 12, Some 24); (0, 13, 24, Some 36); (1, 21, 0, Some 12)]) /\
  offs_at [px_p0; px_p1; px_p2] 1 = mkOffs 2 2 2 /\ offs_at [px_p0; px_p1; px_p2] 2 = mkOffs 4 4 4 /\
  load_as_part [px_p0; px_p1] = merge_parts MVoice [TPart px_p0; TPart px_p1] /\ load_as_part [px_p1] = RSingle px_p1.
Proof. exact ext_examples. Qed.
Print Assumptions extension_examples.

(* ------------------------------------------------------------------ state carried between calls *)

(* A Score holds two views of its parts (the flat list `parts`, the nested `part_structure`); item
   assignment, append / pop on the list and the replacement unfold_part_* performs change `parts` only.
   For EVERY history of such operations: the state reached is (the list operations applied to the
   flattened part list, the structure given at construction) ... *)
Theorem score_state_after_history : forall partlist ops s,
  srun ops (score_init partlist) = Some s <->
  (lrun ops (flat_map flatten partlist) = Some (sc_parts s) /\ sc_structure s = partlist).
Proof. exact score_state_lemma. Qed.
Print Assumptions score_state_after_history.

(* ... and what merge_parts(score), score.note_array() and len(score) observe is a function of the
   CURRENT flat part list alone (forall history, observation = f (current state)) *)
Theorem score_history_reads_current : forall m partlist ops,
  option_map (merge_parts_score m) (srun ops (score_init partlist)) =
  option_map (fun l => merge_parts m (map TPart l)) (lrun ops (flat_map flatten partlist)) /\
  option_map score_rows (srun ops (score_init partlist)) =
  option_map (fun l => match parts_rows l with Some arrs => Some (score_array false arrs) | None => None end)
             (lrun ops (flat_map flatten partlist)) /\
  option_map score_len (srun ops (score_init partlist)) =
  option_map (@List.length part) (lrun ops (flat_map flatten partlist)).
Proof. exact score_history_lemma. Qed.
Print Assumptions score_history_reads_current.

(* the structure a score was built from never matters *)
Theorem score_structure_irrelevant : forall m s s', sc_parts s = sc_parts s' ->
  merge_parts_score m s = merge_parts_score m s' /\ score_rows s = score_rows s' /\ score_len s = score_len s'.
Proof. exact score_structure_irrelevant_lemma. Qed.
Print Assumptions score_structure_irrelevant.

(* a score nothing happened to is the Score argument of dispatch_same_result; reads leave no trace *)
Theorem fresh_score_and_reads : 
  (forall m partlist, merge_parts_score m (score_init partlist) = merge_parts_arg m (AScore partlist)) /\
  (forall a b s, srun (a ++ SObserve :: b) s = srun (a ++ b) s).
Proof. split; [exact fresh_score_lemma | exact observe_silent_lemma]. Qed.
Print Assumptions fresh_score_and_reads.

(* score[i] = p: position i holds p, every other position and the length are unchanged; defined exactly
   for the positions the list has *)
Theorem setitem_spec : forall i (p : part) l,
  (forall l', lstep l (SSetItem i p) = Some l' ->
     nth_error l' i = Some p /\ List.length l' = List.length l /\ forall j, j <> i -> nth_error l' j = nth_error l j) /\
  ((i < List.length l)%nat -> exists l', lstep l (SSetItem i p) = Some l') /\
  (forall l', lstep l (SPop i) = Some l' -> l' = firstn i l ++ skipn (S i) l).
Proof.
  intros i p l. split; [intros l'; exact (set_nth_spec i p l l')|].
  split; [exact (set_nth_defined i p l) | intros l'; exact (pop_nth_spec i l l')].
Qed.
Print Assumptions setitem_spec.

(* O1 for a score with a history: the merged part counts in the lcm of the divisions of the parts the score
   holds NOW, and every element of it is an element of one of THOSE parts at the same musical time *)
Theorem score_history_time_preserved : forall m partlist ops s L out,
  srun ops (score_init partlist) = Some s ->
  merge_parts_score m s = RMerged L out -> divs_pos (sc_parts s) ->
  L = lcm_list (divs_of (sc_parts s)) /\ 0 < L /\
  forall j e', In (j, e') out ->
  exists es d e, nth_error (sc_parts s) j = Some (es, d) /\ In e es /\ core e' = core e /\
                 (d | L) /\ same_time L d e e'.
Proof. exact score_history_time_lemma. Qed.
Print Assumptions score_history_time_preserved.

(* ... without any hypothesis on divisions: nothing of a part that was replaced (or of the folded copies an
   unfolded score still holds in its structure) is in the merged part *)
Theorem score_history_only_current : forall m partlist ops s L out,
  srun ops (score_init partlist) = Some s ->
  merge_parts_score m s = RMerged L out ->
  forall j e', In (j, e') out -> exists es d e, nth_error (sc_parts s) j = Some (es, d) /\ In e es /\ core e' = core e.
Proof. exact score_history_only_current_lemma. Qed.
Print Assumptions score_history_only_current.

(* O5 for a score with a history: the sounding notes of the merged part equal those of the note array of
   the SAME score object *)
Theorem score_history_array_link : forall m partlist ops s L out,
  srun ops (score_init partlist) = Some s ->
  merge_parts_score m s = RMerged L out -> divs_pos (sc_parts s) -> ties_ok (sc_parts s) ->
  exists rows arrs,
    merged_rows L out = Some rows /\ parts_rows (sc_parts s) = Some arrs /\
    score_rows s = Some (score_array false arrs) /\
    Permutation (map (qkey (score_lcm arrs)) rows) (map (qkey L) (score_array false arrs)).
Proof. exact score_history_link_lemma. Qed.
Print Assumptions score_history_array_link.

(* non-vacuity: score = Score([a, b]); score[1] = c; a merge walking part_structure merges a and b instead of
   a and c *)
Theorem merge_by_structure_refuted :
  exists m partlist ops s,
    srun ops (score_init partlist) = Some s /\
    merge_parts_score_by_structure m s <> merge_parts_score m s /\
    (exists out, merge_parts_score m s = RMerged 12 out /\ map (fun x => e_oid (snd x)) out = [1; 3; 4]) /\
    (exists out, merge_parts_score_by_structure m s = RMerged 12 out /\ map (fun x => e_oid (snd x)) out = [1; 2]).
Proof. exact by_structure_refuted_lemma. Qed.
Print Assumptions merge_by_structure_refuted.

(* non-vacuity: a read, then score[1] = c: a score memoising its part list at the first read merges stale parts *)
Theorem score_memo_refuted :
  exists m partlist ops s ms,
    srun ops (score_init partlist) = Some s /\
    mrun ops (mkMScore (score_init partlist) None) = Some ms /\ ms_score ms = s /\
    merge_parts_memo m ms <> merge_parts_score m s.
Proof. exact memo_refuted_lemma. Qed.
Print Assumptions score_memo_refuted.

(* parts edited between two calls (elements added / removed, voices / staves / divisions changed): O1 and O2
   hold for the parts as they are when merge_parts is called *)
Theorem edited_parts_time_and_voices : forall ps0 eds,
  (forall m L out, merge_parts m (map TPart (edit_parts eds ps0)) = RMerged L out -> divs_pos (edit_parts eds ps0) ->
     L = lcm_list (divs_of (edit_parts eds ps0)) /\ 0 < L /\
     forall j e', In (j, e') out ->
     exists es d e, nth_error (edit_parts eds ps0) j = Some (es, d) /\ In e es /\ core e' = core e /\
                    (d | L) /\ same_time L d e e') /\
  (forall L out, merge_parts MVoice (map TPart (edit_parts eds ps0)) = RMerged L out ->
     parts_good voices_ok (edit_parts eds ps0) ->
     forall j1 j2 e1 e2, In (j1, e1) out -> In (j2, e2) out -> j1 <> j2 -> generic e1 -> generic e2 ->
     e_voice e1 <> e_voice e2) /\
  (forall j, (forall x, In x eds -> fst x <> j) -> nth_error (edit_parts eds ps0) j = nth_error ps0 j).
Proof.
  intros ps0 eds. split; [intros m L out; exact (edited_time_lemma m ps0 eds L out)|].
  split; [intros L out; exact (edited_voices_disjoint_lemma ps0 eds L out) | exact (edit_parts_untouched eds ps0)].
Qed.
Print Assumptions edited_parts_time_and_voices.

(* non-vacuity: a note in a new voice added to the first input after it was looked at; voice offsets remembered
   from the earlier look make the second input collide with it, the code's offsets do not *)
Theorem edit_memo_refuted :
  exists ps0 eds out e1 e2,
    merge_voice_memo_offsets ps0 (edit_parts eds ps0) = Some out /\
    In (0%nat, e1) out /\ In (1%nat, e2) out /\ generic e1 /\ generic e2 /\ e_voice e1 = e_voice e2 /\
    parts_good voices_ok (edit_parts eds ps0) /\
    exists L out', merge_parts MVoice (map TPart (edit_parts eds ps0)) = RMerged L out' /\
                   map (fun x => (e_oid (snd x), e_voice (snd x))) out' = [(1, Some 1); (5, Some 2); (2, Some 3)].
Proof. exact edit_memo_refuted_lemma. Qed.
Print Assumptions edit_memo_refuted.

(* third hardening -- inputs looked at (number_of_staves, clef_map, exporters, note arrays: no operation of the model) and
   then edited, also IN PLACE (PSetStaff / PSetVoice: nothing tells the part that it changed): the staves of different
   inputs are disjoint in "staff" mode (staves >= 1) and in "auto" mode (no hypothesis) for the parts AS THEY ARE at
   the call *)
Theorem edited_parts_staves : forall ps0 eds,
  (forall L out, merge_parts MStaff (map TPart (edit_parts eds ps0)) = RMerged L out ->
     parts_good staves_ok (edit_parts eds ps0) ->
     forall j1 j2 e1 e2, In (j1, e1) out -> In (j2, e2) out -> j1 <> j2 -> staffed e1 -> staffed e2 ->
     e_staff e1 <> e_staff e2) /\
  (forall L out, merge_parts MAuto (map TPart (edit_parts eds ps0)) = RMerged L out ->
     forall j1 j2 e1 e2, In (j1, e1) out -> In (j2, e2) out -> j1 <> j2 -> staffed e1 -> staffed e2 ->
     e_staff e1 <> e_staff e2).
Proof.
  intros ps0 eds. split; [intros L out; exact (edited_staves_disjoint_lemma ps0 eds L out)|].
  intros L out; exact (edited_auto_staves_disjoint_lemma ps0 eds L out).
Qed.
Print Assumptions edited_parts_staves.

(* non-vacuity (the seeded change h): input 0 = two notes on staff 1, looked at, then note 7 moved to staff 2 in place;
   staff offsets remembered from the look put input 1 on staff 2 as well, the code's offsets give 1, 2 | 3; with
   nothing edited the memoising variant and the code agree *)
Theorem staff_memo_refuted :
  exists ps0 eds out e1 e2,
    eds = [(0%nat, PSetStaff 7 (Some 2))] /\
    merge_memo_offsets MStaff ps0 (edit_parts eds ps0) = Some out /\
    In (0%nat, e1) out /\ In (1%nat, e2) out /\ staffed e1 /\ staffed e2 /\ e_staff e1 = e_staff e2 /\
    parts_good staves_ok (edit_parts eds ps0) /\
    (exists L out', merge_parts MStaff (map TPart (edit_parts eds ps0)) = RMerged L out' /\
                   map (fun x => (fst x, e_oid (snd x), e_staff (snd x))) out' = [(0%nat, 1, Some 1); (0%nat, 7, Some 2); (1%nat, 2, Some 3)]) /\
    (exists L out0, merge_parts MStaff (map TPart ps0) = RMerged L out0 /\ merge_memo_offsets MStaff ps0 ps0 = Some out0).
Proof. exact staff_memo_refuted_lemma. Qed.
Print Assumptions staff_memo_refuted.

(* histories of merges of ANY depth (a merged part merged again, its result merged again, ...; one part given:
   returned as it is): the final part counts in L > 0 and every element of it is an element of one of the parts
   as they were BUILT, at the musical time it had there (start' * d = start * L, end likewise, d | L) *)
Theorem nested_merge_time_preserved : forall t es L,
  meval t = Some (es, L) -> Forall (fun p => 0 < snd p) (leaves t) ->
  0 < L /\
  forall e', In e' es ->
  exists es0 d e, In (es0, d) (leaves t) /\ In e es0 /\ core e' = core e /\ (d | L) /\ same_time L d e e'.
Proof. exact nested_merge_lemma. Qed.
Print Assumptions nested_merge_time_preserved.

(* non-vacuity: ((a + b in "voice" mode) + c in "auto" mode) + d in "staff" mode; divisions 4, 6 -> 12; 12, 3 -> 12;
   12, 5 -> 60 *)
Theorem nested_merge_example :
  exists es, meval hx_tree = Some (es, 60) /\
    map (fun e => (e_oid e, e_start e, e_end e)) es =
      [(1, 0, Some 60); (2, 0, Some 60); (3, 0, Some 60); (4, 60, Some 120); (6, 60, Some 120)] /\
    leaves hx_tree = [hx_a; hx_b; hx_c; hx_d].
Proof. exact nested_example_lemma. Qed.
Print Assumptions nested_merge_example.

(* ------------------------------------------------------------------ round j extension: the tables and
   mappings AS THE CODE BUILDS THEM (Model/C15_Code.v: np.unique = sorted array without duplicates, tables
   indexed by p_ind, sum(maximum_voices[:p_ind]) recomputed, n_previous_staves, dict(zip(unique, base +
   arange(1, n + 1))) with Python's "last pair wins" and zip's truncation, lookups that raise KeyError) *)

(* np.unique: strictly increasing, the same members as the list, as many as the set has, the same maximum *)
Theorem np_unique_spec : forall l,
  StronglySorted Z.lt (np_unique l) /\ (forall x, In x (np_unique l) <-> In x l) /\
  List.length (np_unique l) = List.length (uniq l) /\ zmax_list 1 (np_unique l) = zmax_list 1 l.
Proof. exact np_unique_spec_lemma. Qed.
Print Assumptions np_unique_spec.

(* voice_mapping / staff_mapping: for EVERY list of numbers in use and every base, the dict the code builds
   sends a number in use to base + 1 + (how many smaller numbers are in use) -- the closed form of
   renumbering_formulas -- and raises KeyError exactly for the numbers not in use *)
Theorem mapping_lookup : forall l base v,
  (In v l -> dict_get (dict_zip (np_unique l) (arange1 base (List.length (np_unique l)))) v
             = Some (base + 1 + rank v (uniq l))) /\
  (~ In v l -> dict_get (dict_zip (np_unique l) (arange1 base (List.length (np_unique l)))) v = None).
Proof. exact mapping_lookup_lemma. Qed.
Print Assumptions mapping_lookup.

(* ... its keys are the sorted numbers in use and its values the contiguous window base+1 .. base+n, each once *)
Theorem mapping_window : forall l base,
  map fst (mapping_from (np_unique l) base) = np_unique l /\
  map snd (mapping_from (np_unique l) base) = arange1 base (List.length (uniq l)) /\
  NoDup (map snd (mapping_from (np_unique l) base)).
Proof. exact mapping_window_lemma. Qed.
Print Assumptions mapping_window.

(* the tables indexed by p_ind hold the state the anchors name: the multiplier lcm / d of THAT part, its own
   sorted arrays, and the sums over the parts BEFORE it (maximum_voices, maximum_staves, numbers of staves) *)
Theorem code_tables_are_the_offsets : forall (all pre : list part) (p : part) (rest : list part),
  all = pre ++ p :: rest ->
  let T := tables_of all in
  let i := List.length pre in
  t_lcm T = merge_lcm all /\
  nth i (t_mult T) 0 = merge_lcm all / snd p /\
  nth i (t_uv T) [] = np_unique (voices_of (fst p)) /\
  nth i (t_us T) [] = np_unique (staves_of (fst p)) /\
  zsum (firstn i (t_maxv T)) = zsum (map maxv (map fst pre)) /\
  zsum (firstn i (t_maxs T)) = zsum (map maxs (map fst pre)) /\
  n_prev_staves T i = zsum (map nstaves (map fst pre)).
Proof. exact code_tables_lemma. Qed.
Print Assumptions code_tables_are_the_offsets.

(* refinement: the merge written with the code's tables, dicts and indices IS the model every other theorem
   of this file is about -- for every mode and every argument, including when it raises *)
Theorem code_refines_model : forall m ts, merge_parts_code m ts = merge_parts m ts.
Proof. exact code_refines_lemma. Qed.
Print Assumptions code_refines_model.

(* ... so every statement proved of merge_parts holds of the code-level merge *)
Theorem code_inherits : forall (P : mode -> list tree -> result -> Prop),
  (forall m ts, P m ts (merge_parts m ts)) -> forall m ts, P m ts (merge_parts_code m ts).
Proof. exact code_inherits_lemma. Qed.
Print Assumptions code_inherits.

(* non-vacuity: voices first seen as 5, 2, 5, 1 (unsorted, gap, duplicate), staves None, 3, 1 (None = 1) in
   input 0 (divisions 2), voices 7, 3 on staff 2 in input 1 (divisions 3): the tables and dicts written out,
   and the "auto" merge computed through them *)
Theorem code_examples_hold :
  np_unique [5; 2; 5; 1] = [1; 2; 5] /\
  np_unique (staves_of (fst cx_p0)) = [1; 3] /\
  (let T := tables_of [cx_p0; cx_p1] in
   t_lcm T = 6 /\ t_mult T = [3; 2] /\ t_uv T = [[1; 2; 5]; [3; 7]] /\ t_us T = [[1; 3]; [2]] /\
   t_maxv T = [5; 7] /\ t_maxs T = [3; 2] /\
   voice_mapping T 0 = [(1, 1); (2, 2); (5, 3)] /\ staff_mapping T 0 = [(1, 1); (3, 2)] /\
   voice_mapping T 1 = [(3, 9); (7, 10)] /\ staff_mapping T 1 = [(2, 3)] /\
   dict_get (voice_mapping T 0) 5 = Some 3 /\ dict_get (voice_mapping T 0) 3 = None) /\
  (exists out, merge_parts_code MAuto [TPart cx_p0; TPart cx_p1] = RMerged 6 out /\
     map (fun x : nat * elem => (fst x, e_oid (snd x), e_start (snd x), e_voice (snd x), e_staff (snd x))) out =
     [(0%nat, 1, 0, Some 3, Some 1); (0%nat, 2, 0, Some 2, Some 2); (0%nat, 3, 6, Some 3, Some 1);
      (0%nat, 4, 6, Some 1, Some 2); (1%nat, 5, 0, Some 10, Some 3); (1%nat, 6, 6, Some 9, Some 3)]).
Proof. exact code_examples. Qed.
Print Assumptions code_examples_hold.

(* the statement of mapping_lookup discriminates: it fails for keys that are sorted but not deduplicated
   (the later pair of a repeated key wins; the number even leaves the part's window) ... *)
Theorem mapping_sorted_dups_refuted :
  exists l base v, In v l /\
    dict_get (mapping_from (np_unique l) base) v = Some (base + 1 + rank v (uniq l)) /\
    dict_get (mapping_from (sorted_dups l) base) v <> Some (base + 1 + rank v (uniq l)) /\
    ~ (exists w, dict_get (mapping_from (sorted_dups l) base) v = Some w /\ w <= base + Z.of_nat (List.length (uniq l))).
Proof. exact sorted_dups_refuted. Qed.
Print Assumptions mapping_sorted_dups_refuted.

(* ... for np.arange(1, n) (zip drops the largest key: KeyError for a number in use) ... *)
Theorem mapping_arange_short_refuted :
  exists l base v, In v l /\ dict_get (mapping_short (np_unique l) base) v = None /\
    dict_get (mapping_from (np_unique l) base) v = Some (base + 1 + rank v (uniq l)).
Proof. exact arange_short_refuted. Qed.
Print Assumptions mapping_arange_short_refuted.

(* ... and for keys kept in the order of first appearance *)
Theorem mapping_first_seen_refuted :
  exists l base v, In v l /\ dict_get (mapping_from (first_seen l) base) v <> Some (base + 1 + rank v (uniq l)).
Proof. exact first_seen_refuted. Qed.
Print Assumptions mapping_first_seen_refuted.

(* ------------------------------------------------------------------ round j extension: the head of
   merge_parts (Model/C15_Entry.v) -- the mode as the string given, a part with ALL its quarter durations;
   which inputs are rejected and in which order: (1) the string, (2) flattening, (3) one part: returned as it
   is, (4) a part whose divisions change: documented exception, (5) the merge of Model/C15.v *)

(* (1) ValueError exactly for a string that is none of "voice", "staff", "auto" (the docstring's "both"
   included) -- for EVERY argument, also a single part, which is then NOT returned *)
Theorem entry_value_error_iff : forall s ts,
  merge_parts_entry s ts = XValueError <-> (s <> "voice" /\ s <> "staff" /\ s <> "auto")%string.
Proof. exact entry_value_error_lemma. Qed.
Print Assumptions entry_value_error_iff.

(* (3) with one of the three modes, one part after flattening (alone, in a list, a group, nested groups) is
   returned as it is, whatever its quarter durations are (also when its divisions change) *)
Theorem entry_single_identity : forall s m ts p,
  mode_of_string s = Some m -> flat_map xflatten ts = [p] -> merge_parts_entry s ts = XSingle p.
Proof. exact entry_single_lemma. Qed.
Print Assumptions entry_single_identity.

(* (4) the documented exception exactly when not one part is given and some part has not exactly one quarter
   duration -- in every mode *)
Theorem entry_divisions_error_iff : forall s m ts,
  mode_of_string s = Some m ->
  (merge_parts_entry s ts = XDivisionsError <->
   List.length (flat_map xflatten ts) <> 1%nat /\
   exists p, In p (flat_map xflatten ts) /\ List.length (snd p) <> 1%nat).
Proof. exact entry_divisions_error_lemma. Qed.
Print Assumptions entry_divisions_error_iff.

(* (5) inside the quantifier (one of the three modes, two or more parts, one divisions value each) the call
   IS Model.C15.merge_parts on the flattened parts with that value: the part list all theorems above are about *)
Theorem entry_merges_as_model : forall s m ts,
  mode_of_string s = Some m ->
  List.length (flat_map xflatten ts) <> 1%nat ->
  (forall p, In p (flat_map xflatten ts) -> List.length (snd p) = 1%nat) ->
  merge_parts_entry s ts = XMerge (merge_parts m (map TPart (map the_part (flat_map xflatten ts)))) /\
  flat_map flatten (map TPart (map the_part (flat_map xflatten ts))) = map the_part (flat_map xflatten ts) /\
  (forall p, In p (flat_map xflatten ts) -> snd p = [snd (the_part p)]).
Proof. exact entry_merges_lemma. Qed.
Print Assumptions entry_merges_as_model.

(* the four outcomes exclude each other and cover every call: the order of the checks *)
Theorem entry_order_of_checks : forall s ts,
  match merge_parts_entry s ts with
  | XValueError => mode_of_string s = None
  | XSingle p => mode_of_string s <> None /\ flat_map xflatten ts = [p]
  | XDivisionsError => mode_of_string s <> None /\ List.length (flat_map xflatten ts) <> 1%nat /\
                       forallb one_division (flat_map xflatten ts) = false
  | XMerge r => exists m, mode_of_string s = Some m /\ List.length (flat_map xflatten ts) <> 1%nat /\
                       forallb one_division (flat_map xflatten ts) = true /\
                       r = merge_parts m (map TPart (map the_part (flat_map xflatten ts)))
  end.
Proof. exact entry_order_lemma. Qed.
Print Assumptions entry_order_of_checks.

(* non-vacuity: a part whose divisions change (4, then 8) alone: returned as it is; "both": ValueError for one
   part and for two; that part in a group next to another: the exception; no part: raises; divisions 2 and 3: 6 *)
Theorem entry_examples_hold :
  merge_parts_entry "voice" [XPart en_two] = XSingle en_two /\
  merge_parts_entry "both" [XPart en_two] = XValueError /\
  merge_parts_entry "both" [XPart en_a; XPart en_b] = XValueError /\
  merge_parts_entry "auto" [XGroup [XPart en_a; XPart en_two]] = XDivisionsError /\
  merge_parts_entry "staff" [] = XMerge RRaise /\
  (exists out, merge_parts_entry "voice" [XPart en_a; XGroup [XPart en_b]] = XMerge (RMerged 6 out) /\
     map (fun x : nat * elem => (fst x, e_oid (snd x), e_start (snd x), e_end (snd x), e_voice (snd x))) out =
     [(0%nat, 2, 0, Some 6, Some 1); (1%nat, 3, 0, Some 6, Some 2)]).
Proof. exact entry_examples. Qed.
Print Assumptions entry_examples_hold.

(* entry_value_error_iff discriminates: with the one-part shortcut taken first an unknown mode goes unnoticed *)
Theorem entry_identity_first_refuted :
  exists s ts p, (s <> "voice" /\ s <> "staff" /\ s <> "auto")%string /\
    merge_parts_entry s ts = XValueError /\ entry_identity_first s ts = XSingle p.
Proof. exact identity_first_refuted. Qed.
Print Assumptions entry_identity_first_refuted.

(* entry_divisions_error_iff discriminates: without check (4) a part whose divisions change is merged with its
   first quarter duration *)
Theorem entry_no_divisions_check_refuted :
  exists ts L out, merge_parts_entry "voice" ts = XDivisionsError /\
    entry_no_divisions_check "voice" ts = XMerge (RMerged L out).
Proof. exact no_divisions_check_refuted. Qed.
Print Assumptions entry_no_divisions_check_refuted.
