(* C18 -- property theorems.  Statements + `exact` only; proofs are in Proofs/C18.v (rationals,
   closed) and Proofs/C18_real.v (reals; the only theorems allowed to use the stdlib real axioms).
   The definitions are those of Model/C18.v, the same ones the correspondence evaluates against
   partitura/musicanalysis/performance_codec.py on every run. *)
From Coq Require Import ZArith QArith List Sorting.Sorted Sorting.Permutation Reals.
From PV Require Import Lib.Base Lib.Round Model.C18 Model.C18_Check Proofs.C18 Proofs.C18_real.
Import ListNotations.
#[local] Open Scope Q_scope.

(* O1 onsets.  For ANY normalisation (NP, scale, per-chord mean, rescale) whose rescale inverts scale
   on positives, ANY positive tempo curve bp (tempo_by_average, tempo_by_derivative, user callables),
   any partition G of the notes into score onsets shared by encoder and decoder: there is ONE shift
   such that every decoded onset is the performed onset plus that shift. *)
Theorem decode_encode_onsets :
  forall (NP : Type) (scale : Q -> NP) (pmean : list NP -> NP) (rescale : NP -> Q) (npdefault : NP)
         (log2 exp2 : Q -> Q),
    (forall x k, 0 < x -> rescale (pmean (repeat (scale x) (S k))) == x) ->
  forall (so sd po pd : list Q) (vel : list Z) (G : list (list nat)) (bp : list Q),
    groups_ok G (List.length so) = true ->
    (forall i, (i < List.length G)%nat -> 0 < nthQ bp i) ->
    exists shift : Q, forall j, (j < List.length so)%nat ->
      fst (fst (nth j (decode NP pmean rescale npdefault exp2 so sd G
                         (encode NP scale log2 so sd po pd vel G bp)) (0, 0, 0%Z)))
      == nthQ po j + shift.
Proof. exact decode_encode_onsets_lemma. Qed.
Print Assumptions decode_encode_onsets.

(* O1 durations, for notes with a positive score duration, given 2 ** log2 x = x on positives *)
Theorem decode_encode_duration :
  forall (NP : Type) (scale : Q -> NP) (pmean : list NP -> NP) (rescale : NP -> Q) (npdefault : NP)
         (log2 exp2 : Q -> Q),
    (forall x k, 0 < x -> rescale (pmean (repeat (scale x) (S k))) == x) ->
    (forall x, 0 < x -> exp2 (log2 x) == x) ->
  forall (so sd po pd : list Q) (vel : list Z) (G : list (list nat)) (bp : list Q),
    groups_ok G (List.length so) = true ->
    (forall i, (i < List.length G)%nat -> 0 < nthQ bp i) ->
    forall j, (j < List.length so)%nat -> 0 < nthQ sd j -> 0 < nthQ pd j ->
      snd (fst (nth j (decode NP pmean rescale npdefault exp2 so sd G
                         (encode NP scale log2 so sd po pd vel G bp)) (0, 0, 0%Z)))
      == nthQ pd j.
Proof. exact decode_encode_duration_lemma. Qed.
Print Assumptions decode_encode_duration.

(* boundary of O1 (known finding C18-K1): a note without score duration (grace note) decodes to
   duration 0 whatever was performed -- the full statement "every matched note" is refuted there *)
Theorem decode_grace_duration_refuted :
  forall (NP : Type) (scale : Q -> NP) (pmean : list NP -> NP) (rescale : NP -> Q) (npdefault : NP)
         (log2 exp2 : Q -> Q)
         (so sd po pd : list Q) (vel : list Z) (G : list (list nat)) (bp : list Q) j,
    (j < List.length so)%nat -> nthQ sd j == 0 ->
      snd (fst (nth j (decode NP pmean rescale npdefault exp2 so sd G
                         (encode NP scale log2 so sd po pd vel G bp)) (0, 0, 0%Z))) == 0.
Proof. exact decode_grace_duration_lemma. Qed.
Print Assumptions decode_grace_duration_refuted.

(* boundary of O1 (known finding C18-K2): the matched score holds max(duration, 0.075 s) *)
Theorem matched_duration_floor : forall d,
  (floor_pdur <= d -> Qmaxb d floor_pdur == d) /\ (d < floor_pdur -> Qmaxb d floor_pdur == floor_pdur).
Proof. exact (fun d => conj (floor_pdur_id d) (floor_pdur_short d)). Qed.
Print Assumptions matched_duration_floor.

(* O1 velocity: every MIDI velocity 1..127 survives v/127 -> round(127 p), clipped to 1..127 *)
Theorem decode_encode_velocity :
  (forall v, (1 <= v <= 127)%Z -> dec_vel (enc_vel v) = v) /\
  forall (NP : Type) (scale : Q -> NP) (pmean : list NP -> NP) (rescale : NP -> Q) (npdefault : NP)
         (log2 exp2 : Q -> Q)
         (so sd po pd : list Q) (vel : list Z) (G : list (list nat)) (bp : list Q) j,
    (j < List.length so)%nat ->
    snd (nth j (decode NP pmean rescale npdefault exp2 so sd G
                  (encode NP scale log2 so sd po pd vel G bp)) (0, 0, 0%Z))
    = dec_vel (enc_vel (nth j vel 0%Z)).
Proof. exact (conj dec_enc_vel decode_velocity_row). Qed.
Print Assumptions decode_encode_velocity.

(* the grouping hypothesis of the two theorems above holds for every result of get_unique_onset_idxs
   (stable sort + split at gaps > eps), in particular for the encoder's and the decoder's groups *)
Theorem onset_groups_partition :
  (forall keys eps, groups_ok (groups keys eps) (List.length keys) = true) /\
  (forall so, groups_ok (enc_groups so) (List.length so) = true /\ groups_ok (dec_groups so) (List.length so) = true).
Proof. exact (conj groups_partition codec_groups_partition). Qed.
Print Assumptions onset_groups_partition.

(* the hypotheses are satisfiable: no normalisation and beat_period_ratio are rational instances *)
Theorem normalisation_instances_Q :
  (forall x k, 0 < x -> (fun y : Q => y) (meanQ (repeat (id_scale x) (S k))) == x) /\
  (forall mu x k, ~ mu == 0 -> 0 < x -> ratio_rescale (ratio_pmean (repeat (ratio_scale mu x) (S k))) == x).
Proof. exact (conj norm_inv_id norm_inv_ratio). Qed.
Print Assumptions normalisation_instances_Q.

(* O2 matched-note table = exactly the alignment's matches (label 0) whose ids exist on both
   sides, in alignment order (flat_map); to_matched_score = a permutation of it ordered by
   score onset, then pitch (then position in the score note array) *)
Theorem matched_notes_spec :
  (forall sids pids al i j,
     In (i, j) (matched_idx sids pids al) <->
     exists s p, In (0%Z, s, p) al /\ find_idx s sids = Some i /\ find_idx p pids = Some j) /\
  (forall sids pids al1 al2,
     matched_idx sids pids (al1 ++ al2) = matched_idx sids pids al1 ++ matched_idx sids pids al2) /\
  (forall sna pna al,
     Permutation (matched_sorted sna pna al) (matched_idx (map s_id sna) (map p_id pna) al) /\
     Sorted (fun a b => lex3_leb (key3 sna a) (key3 sna b) = true) (matched_sorted sna pna al)).
Proof. exact (conj matched_idx_spec (conj matched_idx_app matched_sorted_spec)). Qed.
Print Assumptions matched_notes_spec.

Theorem find_idx_spec :
  (forall id ids i, find_idx id ids = Some i ->
     (i < List.length ids)%nat /\ nth i ids (-1)%Z = id /\ forall k, (k < i)%nat -> nth k ids (-1)%Z <> id) /\
  (forall id ids, find_idx id ids = None <-> ~ In id ids).
Proof. exact (conj find_idx_Some find_idx_None). Qed.
Print Assumptions find_idx_spec.

(* O3 time maps: with knots (score onset, mean performed onset) strictly increasing in both
   coordinates, both maps pass through every knot *)
Theorem time_maps_through_knots : forall K,
  StronglySorted fst_lt K -> StronglySorted snd_lt K ->
  forall u p, In (u, p) K -> stime_to_ptime K u == p /\ ptime_to_stime K p == u.
Proof. exact time_maps_lemma. Qed.
Print Assumptions time_maps_through_knots.

(* the laws assumed above of log2 / 2** and the five normalisations hold over the reals *)
Theorem normalisation_inverse_R :
  (forall x : R, (fun y => y) ((fun y => y) x) = x) /\
  (forall x, (0 < x)%R -> exp2R (log2R x) = x) /\
  (forall x mu, mu <> 0%R -> (x / mu * mu)%R = x) /\
  (forall x mu, (0 < x)%R -> (0 < mu)%R -> (exp2R (log2R (x / mu)) * mu)%R = x) /\
  (forall x mu sigma, (sigma = 0%R -> x = mu) -> (standardize mu sigma x * sigma + mu)%R = x).
Proof. exact (conj normalisation_inverse_1 (conj normalisation_inverse_2 (conj normalisation_inverse_3
        (conj normalisation_inverse_4 normalisation_inverse_5)))). Qed.
Print Assumptions normalisation_inverse_R.

Theorem articulation_inverse_R : forall pd bp sd : R, (0 < pd)%R -> (0 < bp)%R -> (0 < sd)%R ->
  (exp2R (log2R (pd / (bp * sd))) * sd * bp)%R = pd.
Proof. exact articulation_inverse. Qed.
Print Assumptions articulation_inverse_R.
