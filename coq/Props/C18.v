(* C18 -- property theorems.  Statements + `exact` only; proofs are in Proofs/C18.v (rationals,
   closed) and Proofs/C18_real.v (reals; the only theorems allowed to use the stdlib real axioms).
   The definitions are those of Model/C18.v, the same ones the correspondence evaluates against
   partitura/musicanalysis/performance_codec.py on every run. *)
From Coq Require Import ZArith QArith Qabs List Sorting.Sorted Sorting.Permutation Reals.
From PV Require Import Lib.Base Lib.Round Model.C18 Model.C18_Check Proofs.C18 Proofs.C18_spec Proofs.C18_tempo Proofs.C18_real Proofs.C18_glue Gen.C18_norm Proofs.C18_norm Model.C18_Hist Proofs.C18_hist Model.C18_Loop Proofs.C18_loop.
Import ListNotations.
#[local] Open Scope Q_scope.

(* O1 onsets.  For ANY normalisation (NP, scale, per-chord mean, rescale) whose rescale inverts scale
   on positives, ANY positive tempo curve bp (tempo_by_average, tempo_by_derivative, user callables),
   any partition G of the notes into score onsets shared by encoder and decoder: there is ONE shift
   such that every decoded onset is the performed onset plus that shift. *)
Theorem decode_encode_onsets :
  forall (NP : Type) (scale : Q -> NP) (pmean : list NP -> NP) (rescale : NP -> Q) (npdefault : NP)
         (log2 exp2 : Q -> Q),
    (forall x k, 0 < x -> rescale (pmean (repeat (scale x) (S k))) == x) ->
  forall (so sd po pd : list Q) (vel : list Z) (G : list (list nat)) (bp : list Q),
    groups_ok G (List.length so) = true ->
    (forall i, (i < List.length G)%nat -> 0 < nthQ bp i) ->
    exists shift : Q, forall j, (j < List.length so)%nat ->
      fst (fst (nth j (decode NP pmean rescale npdefault exp2 so sd G
                         (encode NP scale log2 so sd po pd vel G bp)) (0, 0, 0%Z)))
      == nthQ po j + shift.
Proof. exact decode_encode_onsets_lemma. Qed.
Print Assumptions decode_encode_onsets.

(* O1 durations, for notes with a positive score duration, given 2 ** log2 x = x on positives *)
Theorem decode_encode_duration :
  forall (NP : Type) (scale : Q -> NP) (pmean : list NP -> NP) (rescale : NP -> Q) (npdefault : NP)
         (log2 exp2 : Q -> Q),
    (forall x k, 0 < x -> rescale (pmean (repeat (scale x) (S k))) == x) ->
    (forall x, 0 < x -> exp2 (log2 x) == x) ->
  forall (so sd po pd : list Q) (vel : list Z) (G : list (list nat)) (bp : list Q),
    groups_ok G (List.length so) = true ->
    (forall i, (i < List.length G)%nat -> 0 < nthQ bp i) ->
    forall j, (j < List.length so)%nat -> 0 < nthQ sd j -> 0 < nthQ pd j ->
      snd (fst (nth j (decode NP pmean rescale npdefault exp2 so sd G
                         (encode NP scale log2 so sd po pd vel G bp)) (0, 0, 0%Z)))
      == nthQ pd j.
Proof. exact decode_encode_duration_lemma. Qed.
Print Assumptions decode_encode_duration.

(* boundary of O1 (known finding C18-K1): a note without score duration (grace note) decodes to
   duration 0 whatever was performed -- the full statement "every matched note" is refuted there *)
Theorem decode_grace_duration_refuted :
  forall (NP : Type) (scale : Q -> NP) (pmean : list NP -> NP) (rescale : NP -> Q) (npdefault : NP)
         (log2 exp2 : Q -> Q)
         (so sd po pd : list Q) (vel : list Z) (G : list (list nat)) (bp : list Q) j,
    (j < List.length so)%nat -> nthQ sd j == 0 ->
      snd (fst (nth j (decode NP pmean rescale npdefault exp2 so sd G
                         (encode NP scale log2 so sd po pd vel G bp)) (0, 0, 0%Z))) == 0.
Proof. exact decode_grace_duration_lemma. Qed.
Print Assumptions decode_grace_duration_refuted.

(* boundary of O1 (known finding C18-K2): the matched score holds max(duration, 0.075 s) *)
Theorem matched_duration_floor : forall d,
  (floor_pdur <= d -> Qmaxb d floor_pdur == d) /\ (d < floor_pdur -> Qmaxb d floor_pdur == floor_pdur).
Proof. exact (fun d => conj (floor_pdur_id d) (floor_pdur_short d)). Qed.
Print Assumptions matched_duration_floor.

(* O1 velocity: every MIDI velocity 1..127 survives v/127 -> round(127 p), clipped to 1..127 *)
Theorem decode_encode_velocity :
  (forall v, (1 <= v <= 127)%Z -> dec_vel (enc_vel v) = v) /\
  forall (NP : Type) (scale : Q -> NP) (pmean : list NP -> NP) (rescale : NP -> Q) (npdefault : NP)
         (log2 exp2 : Q -> Q)
         (so sd po pd : list Q) (vel : list Z) (G : list (list nat)) (bp : list Q) j,
    (j < List.length so)%nat ->
    snd (nth j (decode NP pmean rescale npdefault exp2 so sd G
                  (encode NP scale log2 so sd po pd vel G bp)) (0, 0, 0%Z))
    = dec_vel (enc_vel (nth j vel 0%Z)).
Proof. exact (conj dec_enc_vel decode_velocity_row). Qed.
Print Assumptions decode_encode_velocity.

(* the grouping hypothesis of the two theorems above holds for every result of get_unique_onset_idxs
   (stable sort + split at gaps > eps), in particular for the encoder's and the decoder's groups *)
Theorem onset_groups_partition :
  (forall keys eps, groups_ok (groups keys eps) (List.length keys) = true) /\
  (forall so, groups_ok (enc_groups so) (List.length so) = true /\ groups_ok (dec_groups so) (List.length so) = true).
Proof. exact (conj groups_partition codec_groups_partition). Qed.
Print Assumptions onset_groups_partition.

(* the hypotheses are satisfiable: no normalisation and beat_period_ratio are rational instances *)
Theorem normalisation_instances_Q :
  (forall x k, 0 < x -> (fun y : Q => y) (meanQ (repeat (id_scale x) (S k))) == x) /\
  (forall mu x k, ~ mu == 0 -> 0 < x -> ratio_rescale (ratio_pmean (repeat (ratio_scale mu x) (S k))) == x).
Proof. exact (conj norm_inv_id norm_inv_ratio). Qed.
Print Assumptions normalisation_instances_Q.

(* O2 matched-note table = exactly the alignment's matches (label 0) whose ids exist on both
   sides, in alignment order (flat_map); to_matched_score = a permutation of it ordered by
   score onset, then pitch (then position in the score note array) *)
Theorem matched_notes_spec :
  (forall sids pids al i j,
     In (i, j) (matched_idx sids pids al) <->
     exists s p, In (0%Z, s, p) al /\ find_idx s sids = Some i /\ find_idx p pids = Some j) /\
  (forall sids pids al1 al2,
     matched_idx sids pids (al1 ++ al2) = matched_idx sids pids al1 ++ matched_idx sids pids al2) /\
  (forall sna pna al,
     Permutation (matched_sorted sna pna al) (matched_idx (map s_id sna) (map p_id pna) al) /\
     Sorted (fun a b => lex3_leb (key3 sna a) (key3 sna b) = true) (matched_sorted sna pna al)).
Proof. exact (conj matched_idx_spec (conj matched_idx_app matched_sorted_spec)). Qed.
Print Assumptions matched_notes_spec.

Theorem find_idx_spec :
  (forall id ids i, find_idx id ids = Some i ->
     (i < List.length ids)%nat /\ nth i ids (-1)%Z = id /\ forall k, (k < i)%nat -> nth k ids (-1)%Z <> id) /\
  (forall id ids, find_idx id ids = None <-> ~ In id ids).
Proof. exact (conj find_idx_Some find_idx_None). Qed.
Print Assumptions find_idx_spec.

(* O3 time maps: with knots (score onset, mean performed onset) strictly increasing in both
   coordinates, both maps pass through every knot *)
Theorem time_maps_through_knots : forall K,
  StronglySorted fst_lt K -> StronglySorted snd_lt K ->
  forall u p, In (u, p) K -> stime_to_ptime K u == p /\ ptime_to_stime K p == u.
Proof. exact time_maps_lemma. Qed.
Print Assumptions time_maps_through_knots.

(* the laws assumed above of log2 / 2** and the five normalisations hold over the reals *)
Theorem normalisation_inverse_R :
  (forall x : R, (fun y => y) ((fun y => y) x) = x) /\
  (forall x, (0 < x)%R -> exp2R (log2R x) = x) /\
  (forall x mu, mu <> 0%R -> (x / mu * mu)%R = x) /\
  (forall x mu, (0 < x)%R -> (0 < mu)%R -> (exp2R (log2R (x / mu)) * mu)%R = x) /\
  (forall x mu sigma, (sigma = 0%R -> x = mu) -> (standardize mu sigma x * sigma + mu)%R = x).
Proof. exact (conj normalisation_inverse_1 (conj normalisation_inverse_2 (conj normalisation_inverse_3
        (conj normalisation_inverse_4 normalisation_inverse_5)))). Qed.
Print Assumptions normalisation_inverse_R.

Theorem articulation_inverse_R : forall pd bp sd : R, (0 < pd)%R -> (0 < bp)%R -> (0 < sd)%R ->
  (exp2R (log2R (pd / (bp * sd))) * sd * bp)%R = pd.
Proof. exact articulation_inverse. Qed.
Print Assumptions articulation_inverse_R.

(* ---------- hardening round: the specifications the correspondence checks on every run ---------- *)

(* O1 for ANY parameter array (not only the encoder's): if timing_j + performed onset_j - (the decoder's
   equivalent onset of j's score onset) is one common value c for all notes -- the relation the
   correspondence checks on the implementation's parameter array, whatever tempo curve, timing origin and
   normalisation constants produced it -- then the decoded onsets are the performed onsets up to ONE shift;
   and conversely *)
Theorem decode_consistent_onsets :
  forall (NP : Type) (pmean : list NP -> NP) (rescale : NP -> Q) (npdefault : NP) (exp2 : Q -> Q)
         (so sd po : list Q) (G : list (list nat)) (P : list (params NP)),
    (forall c, (forall j, (j < List.length so)%nat -> cons_off NP pmean rescale npdefault so sd po G P j == c) ->
       exists shift, forall j, (j < List.length so)%nat ->
         fst (fst (nth j (decode NP pmean rescale npdefault exp2 so sd G P) (0, 0, 0%Z))) == nthQ po j + shift) /\
    (forall shift, (forall j, (j < List.length so)%nat ->
         fst (fst (nth j (decode NP pmean rescale npdefault exp2 so sd G P) (0, 0, 0%Z))) == nthQ po j + shift) ->
       forall j, (j < List.length so)%nat ->
         cons_off NP pmean rescale npdefault so sd po G P j
         == - shift - minl (dec_raws NP pmean rescale npdefault so sd G P)).
Proof. exact decode_consistent_both. Qed.
Print Assumptions decode_consistent_onsets.

(* the encoder's parameter array is consistent in that sense (c = mean performed onset of the first chord) *)
Theorem encode_consistent :
  forall (NP : Type) (scale : Q -> NP) (pmean : list NP -> NP) (rescale : NP -> Q) (npdefault : NP) (log2 : Q -> Q),
    (forall x k, 0 < x -> rescale (pmean (repeat (scale x) (S k))) == x) ->
  forall (so sd po pd : list Q) (vel : list Z) (G : list (list nat)) (bp : list Q),
    groups_ok G (List.length so) = true ->
    (forall i, (i < List.length G)%nat -> 0 < nthQ bp i) ->
    forall j, (j < List.length so)%nat ->
      cons_off NP pmean rescale npdefault so sd po G (encode NP scale log2 so sd po pd vel G bp) j == enc_first po G.
Proof. exact encode_consistent_lemma. Qed.
Print Assumptions encode_consistent.

(* the normalisations as the correspondence evaluates them (columns as lists, rescale_n, column-wise chord
   mean) satisfy the hypothesis of the round-trip theorems: beat_period, beat_period_ratio (any non-zero
   constant), beat_period_standardized (any constants with x = mean where the deviation is 0) *)
Theorem normalisation_instances_list_Q :
  (forall mu s x k, rescale_n 0 (colmean (repeat (scale_n 0 mu s x) (S k))) == x) /\
  (forall mu s x k, ~ mu == 0 -> rescale_n 2 (colmean (repeat (scale_n 2 mu s x) (S k))) == x) /\
  (forall mu s x k, (s == 0 -> x == mu) -> rescale_n 4 (colmean (repeat (scale_n 4 mu s x) (S k))) == x).
Proof. exact (conj norm_list_inv_0 (conj norm_list_inv_2 norm_list_inv_4)). Qed.
Print Assumptions normalisation_instances_list_Q.

(* O2 as a specification of the implementation's outputs: the checker perm_pairs accepts only permutations
   (matched table, whatever its order); sids_ok accepts exactly ... a permutation of the matched pairs sorted
   by score onset then pitch (whatever the order of notes sharing both); the modelled order is admitted *)
Theorem matched_table_spec :
  (forall a b, perm_pairs a b = true -> Permutation a b) /\
  (forall sna pna al sids, sids_ok sna pna al sids = true ->
     let M := matched_idx (map s_id sna) (map p_id pna) al in
     let M' := pairs_by_ids sna M sids in
     Permutation M' M /\ Sorted (fun a b => lex2_leb (key2 sna a) (key2 sna b) = true) M') /\
  (forall sna pna al,
     Sorted (fun a b => lex2_leb (key2 sna a) (key2 sna b) = true) (matched_sorted sna pna al)).
Proof. exact (conj perm_pairs_perm (conj sids_ok_spec_lemma matched_sorted_admitted)). Qed.
Print Assumptions matched_table_spec.

(* O3 without hypotheses: the knots of the time maps always have strictly increasing score onsets, each knot
   is (a matched score onset, the mean performed onset of the matched notes counted there), and
   stime_to_ptime passes through every knot -- also for performances that are not monotone *)
Theorem time_map_knots_spec : forall sna pna al rmo,
  StronglySorted fst_lt (tm_knots sna pna al rmo) /\
  (forall u p, In (u, p) (tm_knots sna pna al rmo) ->
     stime_to_ptime (tm_knots sna pna al rmo) u == p /\
     let M := matched_idx (map s_id sna) (map p_id pna) al in
     let rows := map (fun m => (nth (fst m) sna sdefault, nth (snd m) pna pdefault_row)) M in
     let sel := filter (fun r => Qeq_bool (s_on (fst r)) u && (negb rmo || negb (Qle_bool (s_dur (fst r)) 0))) rows in
     sel <> [] /\ p = meanQ (map (fun r => p_on (snd r)) sel)).
Proof. exact time_map_knots_both. Qed.
Print Assumptions time_map_knots_spec.

(* both built-in tempo curves are positive: strictly increasing unique score onsets x0 :: xr (the last entry
   being the last score time), ANY performed chord times s0 :: sr followed by a last performed offset sl
   above all of them -- monotone or not (monotonize_times) *)
Theorem tempo_curves_positive :
  forall (x0 : Q) (xr : list Q) (s0 : Q) (sr : list Q) (sl : Q),
    StronglySorted Qlt_r (x0 :: xr) -> List.length xr = S (List.length sr) ->
    s0 < sl -> Forall (fun e => e < sl) sr ->
    Forall (fun b => 0 < b) (tempo_average (x0 :: xr) (s0 :: sr ++ [sl])) /\
    Forall (fun b => 0 < b) (tempo_derivative (x0 :: xr) (s0 :: sr ++ [sl])).
Proof. exact tempo_curves_positive_lemma. Qed.
Print Assumptions tempo_curves_positive.

(* ... and, for the encoder's own lists, without any hypothesis on the score or the performance: the unique
   score onsets of the encoder's grouping (quantised keys, stable sort, split at gaps) increase strictly and
   the last performed time exceeds every chord mean, so both tempo curves are positive for EVERY input *)
Theorem tempo_curves_positive_encoder :
  forall so sd po pd : list Q, so <> [] -> List.length po = List.length so ->
    let G := enc_groups so in
    let x := u_onsets so (map2 Qplus so sd) G in
    let s := u_onsets po (map2 Qplus po pd) G in
    Forall (fun b => 0 < b) (tempo_average x s) /\ Forall (fun b => 0 < b) (tempo_derivative x s).
Proof. exact tempo_curves_positive_encoder_lemma. Qed.
Print Assumptions tempo_curves_positive_encoder.

(* O1 end to end for the model of encode_performance / decode_performance with either built-in tempo curve:
   any non-empty matched score, any performance (no monotonicity, no positivity assumed for onsets), any
   normalisation with a left inverse; the one remaining hypothesis is that decoder (eps 1e-6) and encoder
   (keys int(1e4 * onset)) group the score onsets identically -- true whenever distinct onsets are >= 1e-4 beat
   apart, checked on every run *)
Theorem codec_roundtrip_builtin :
  forall (NP : Type) (scale : Q -> NP) (pmean : list NP -> NP) (rescale : NP -> Q) (npdefault : NP)
         (log2 exp2 : Q -> Q),
    (forall x k, 0 < x -> rescale (pmean (repeat (scale x) (S k))) == x) ->
    (forall x, 0 < x -> exp2 (log2 x) == x) ->
  forall (method : Z) (so sd po pd : list Q) (vel : list Z),
    so <> [] -> List.length po = List.length so ->
    dec_groups so = enc_groups so ->
    let G := enc_groups so in
    let bp := tempo_curve method (u_onsets so (map2 Qplus so sd) G) (u_onsets po (map2 Qplus po pd) G) in
    let out := decode NP pmean rescale npdefault exp2 so sd (dec_groups so) (encode NP scale log2 so sd po pd vel G bp) in
    (exists shift : Q, forall j, (j < List.length so)%nat -> fst (fst (nth j out (0, 0, 0%Z))) == nthQ po j + shift) /\
    (forall j, (j < List.length so)%nat -> 0 < nthQ sd j -> 0 < nthQ pd j -> snd (fst (nth j out (0, 0, 0%Z))) == nthQ pd j) /\
    (forall j, (j < List.length so)%nat -> snd (nth j out (0, 0, 0%Z)) = dec_vel (enc_vel (nth j vel 0%Z))).
Proof. exact codec_roundtrip_builtin_tc. Qed.
Print Assumptions codec_roundtrip_builtin.

(* ---------- hardening round 2: grouping hypothesis closed, decoder glue, time maps everywhere, rounding ---------- *)

(* the one hypothesis left in codec_roundtrip_builtin: decoder (eps 1e-6 on the onsets) and encoder (keys
   int(1e4 * onset)) group the score onsets identically whenever two onsets are equal or at least 2e-4 beat apart;
   the decidable form sep_b is evaluated on every generated case; onsets on a grid of 1/k beat, k <= 5000, qualify *)
Theorem onset_groupings_agree :
  (forall so, onsets_separated so -> dec_groups so = enc_groups so) /\
  (forall so, sep_b so = true -> onsets_separated so) /\
  (forall (k : positive) (zs : list Z), (Zpos k <= 5000)%Z -> onsets_separated (map (fun z => z # k) zs)).
Proof. exact (conj groups_agree (conj sep_b_spec grid_separated)). Qed.
Print Assumptions onset_groupings_agree.

(* O1 end to end WITHOUT a grouping hypothesis: either built-in tempo curve, any non-empty score whose distinct
   onsets are >= 2e-4 beat apart, any performance, any normalisation with a left inverse *)
Theorem codec_roundtrip_separated :
  forall (NP : Type) (scale : Q -> NP) (pmean : list NP -> NP) (rescale : NP -> Q) (npdefault : NP)
         (log2 exp2 : Q -> Q),
    (forall x k, 0 < x -> rescale (pmean (repeat (scale x) (S k))) == x) ->
    (forall x, 0 < x -> exp2 (log2 x) == x) ->
  forall (method : Z) (so sd po pd : list Q) (vel : list Z),
    so <> [] -> List.length po = List.length so ->
    onsets_separated so ->
    let G := enc_groups so in
    let bp := tempo_curve method (u_onsets so (map2 Qplus so sd) G) (u_onsets po (map2 Qplus po pd) G) in
    let out := decode NP pmean rescale npdefault exp2 so sd (dec_groups so) (encode NP scale log2 so sd po pd vel G bp) in
    (exists shift : Q, forall j, (j < List.length so)%nat -> fst (fst (nth j out (0, 0, 0%Z))) == nthQ po j + shift) /\
    (forall j, (j < List.length so)%nat -> 0 < nthQ sd j -> 0 < nthQ pd j -> snd (fst (nth j out (0, 0, 0%Z))) == nthQ pd j) /\
    (forall j, (j < List.length so)%nat -> snd (nth j out (0, 0, 0%Z)) = dec_vel (enc_vel (nth j vel 0%Z))).
Proof. exact codec_roundtrip_separated_lemma. Qed.
Print Assumptions codec_roundtrip_separated.

(* decode_performance's glue around decode_time (np.isin filter of the score rows, stable lexsort by onset_div then
   pitch applied to the score columns AND to the parameter rows, k-th output labelled snote_ids[k]): for a score note
   array sorted by (onset_div, pitch) with unique ids, every score note matched at most once (the three decidable
   hypotheses are evaluated on every generated case) and snote_ids in the order of to_matched_score (ties of onset
   and pitch by position), the glue hands every id the decoding of ITS OWN score row and parameter row -- exactly
   the list the PROPERTY comparison decode_ok evaluates.  Without the tie-break this is false
   (Proofs/C18_glue.v decode_glue_needs_tiebreak: the defect class of 8007b35 / 1b32994) *)
Theorem decode_glue_refines :
  forall (sna : list srow) (pna : list prow) (al : list al_entry),
    sna_sorted sna = true -> nodupb (map s_id sna) = true ->
    nodupb (map (fun m => Z.of_nat (fst m)) (matched_idx (map s_id sna) (map C18.p_id pna) al)) = true ->
  forall (normd : Z) (prm : list irow) (ncols : list (list Q)),
    let sids := ms_ids sna pna al in
    List.length (mkparams normd prm ncols) = List.length sids ->
    dp_decode normd sna sids prm ncols
    = direct_decode normd sna (pairs_by_ids sna (matched_idx (map s_id sna) (map C18.p_id pna) al) sids) sids prm ncols.
Proof. exact decode_glue_refines_lemma. Qed.
Print Assumptions decode_glue_refines.

(* O3 in both directions at EVERY time: with at least two knots increasing in both coordinates the two maps are
   inverse to each other -- between the knots and where the end segments extrapolate *)
Theorem time_maps_inverse : forall k0 k1 K,
  StronglySorted fst_lt (k0 :: k1 :: K) -> StronglySorted snd_lt (k0 :: k1 :: K) ->
  (forall x, ptime_to_stime (k0 :: k1 :: K) (stime_to_ptime (k0 :: k1 :: K) x) == x) /\
  (forall y, stime_to_ptime (k0 :: k1 :: K) (ptime_to_stime (k0 :: k1 :: K) y) == y).
Proof. exact time_maps_inverse_lemma. Qed.
Print Assumptions time_maps_inverse.

(* O3 "interpolate": between two neighbouring knots of the time maps of ANY alignment the score-to-performance map
   stays between the two mean performed onsets (monotone performance or not) *)
Theorem time_map_between_knots : forall sna pna al rmo A u0 p0 u1 p1 B x,
  tm_knots sna pna al rmo = A ++ (u0, p0) :: (u1, p1) :: B -> u0 <= x <= u1 ->
  Qminb p0 p1 <= stime_to_ptime (tm_knots sna pna al rmo) x <= Qmaxb p0 p1.
Proof.
  exact (fun sna pna al rmo A u0 p0 u1 p1 B x E Hx =>
           lin_interp_between _ A u0 p0 u1 p1 B x (tm_knots_sorted sna pna al rmo) E Hx).
Qed.
Print Assumptions time_map_between_knots.

(* O2 rows: the k-th row of the matched score holds the score onset, duration, pitch of the k-th pair's score note
   and the performed onset, duration (floored at 0.075 s, C18-K2) and velocity of its performed note *)
Theorem matched_score_rows_spec : forall sna pna (Ms : list (nat * nat)),
  List.length (mscore_rows sna pna Ms) = List.length Ms /\
  forall k, (k < List.length Ms)%nat ->
    let m := nth k Ms (O, O) in
    let s := nth (fst m) sna sdefault in let p := nth (snd m) pna pdefault_row in
    nth k (mscore_rows sna pna Ms) (mscore_row sna pna (O, O)) =
      (s_on s, s_dur s, s_pitch s, p_on p, Qmaxb (p_dur p) floor_pdur, p_velo p).
Proof. exact mscore_rows_spec. Qed.
Print Assumptions matched_score_rows_spec.

(* "within single-precision rounding": the decoder is Lipschitz in the stored parameters.  If every stored timing is
   off by at most et and the beat period read for every score onset by at most eb (float32 storage: 2^-24 relative),
   every decoded onset moves by at most 2 (et + eb * total score interval) and, for the same articulation parameter,
   every decoded duration by at most |2^art * score duration| * eb; for increasing unique onsets the total interval
   is the span of the score *)
Theorem decode_rounding_bound :
  forall (NP : Type) (pmean : list NP -> NP) (rescale : NP -> Q) (npdefault : NP) (exp2 : Q -> Q)
         (so sd : list Q) (G : list (list nat)) (P P' : list (params NP)) (et eb : Q),
    (forall j, (j < List.length so)%nat ->
       Qabs (p_timing NP (nth j P' (pdefault NP npdefault)) - p_timing NP (nth j P (pdefault NP npdefault))) <= et) ->
    (forall i, (i < List.length G)%nat ->
       Qabs (dec_bp NP pmean rescale npdefault G P' i - dec_bp NP pmean rescale npdefault G P i) <= eb) ->
    (forall j, (j < List.length so)%nat -> (gidx G j < List.length G)%nat) -> 0 <= eb ->
    let span := abs_sum (diffs (dec_x so sd G)) (List.length G) in
    (forall j, (j < List.length so)%nat ->
       Qabs (fst (fst (nth j (decode NP pmean rescale npdefault exp2 so sd G P') (0, 0, 0%Z)))
             - fst (fst (nth j (decode NP pmean rescale npdefault exp2 so sd G P) (0, 0, 0%Z)))) <= 2 * (et + eb * span)) /\
    (forall j, (j < List.length so)%nat ->
       p_art NP (nth j P' (pdefault NP npdefault)) = p_art NP (nth j P (pdefault NP npdefault)) ->
       Qabs (snd (fst (nth j (decode NP pmean rescale npdefault exp2 so sd G P') (0, 0, 0%Z)))
             - snd (fst (nth j (decode NP pmean rescale npdefault exp2 so sd G P) (0, 0, 0%Z))))
       <= Qabs (exp2 (p_art NP (nth j P (pdefault NP npdefault))) * nthQ sd j) * eb) /\
    (forall x, StronglySorted Qlt_r x -> forall k, (k < List.length x)%nat -> abs_sum (diffs x) k == nthQ x k - nthQ x 0).
Proof. exact decode_rounding_bound_lemma. Qed.
Print Assumptions decode_rounding_bound.

(* state "normalisation table": the entries of TEMPO_NORMALIZATION of the working tree for the five normalisations
   the property names (reflected into Gen/C18_norm.v on every run: index, role of each parameter column,
   logarithmic or not) ARE the table of the model, and rescale_n is the rescale function the column roles describe
   (value * std + mean, value * mean, value) *)
Theorem normalisation_table_reflected :
  c18_norm_table = norm_table_model /\
  (forall idx roles lg c, In (idx, roles, lg) c18_norm_table -> List.length c = List.length roles ->
     rescale_n idx c == rescale_roles roles c).
Proof. exact norm_table_reflected_lemma. Qed.
Print Assumptions normalisation_table_reflected.

(* ---------- state carried between calls (Model/C18_Hist.v) ----------
   The caller's objects live across calls and are edited in place between them (hop: a note lengthened, moved,
   respelled, renamed, removed, added, the beat columns replaced; the score object replaced by another; the
   performance / the alignment edited).  For EVERY history: the k-th round of calls shows exactly what the state at
   that call determines ... *)
Theorem history_observations_current : forall ops s, hrun s ops = map observe (call_states s ops).
Proof. exact hrun_current_lemma. Qed.
Print Assumptions history_observations_current.

(* ... i.e. O2 holds of every round against the CURRENT state: the matched score's rows are a permutation of the
   current alignment's matches present in the current score and performance, ordered by the current score onsets
   and pitches; the matched-note table is the current one *)
Theorem history_table_spec : forall ops s k st,
  nth_error (call_states s ops) k = Some st ->
  exists o, nth_error (hrun s ops) k = Some o /\
    Permutation (fst o) (matched_idx (map s_id (h_sna st)) (map p_id (h_pna st)) (h_al st)) /\
    Sorted (fun a b => lex2_leb (key2 (h_sna st) a) (key2 (h_sna st) b) = true) (fst o) /\
    snd o = matched_idx (map s_id (h_sna st)) (map p_id (h_pna st)) (h_al st).
Proof. exact history_table_spec_lemma. Qed.
Print Assumptions history_table_spec.

(* the statement is not vacuous: a machine that keeps the score-side note table per score object and never
   invalidates it (seeded change g) shows the OLD table after a note was added in place (and the right one when the
   score object is replaced instead) ... *)
Theorem history_memo_refuted :
  let s := mk_h 1%Z [(0%Z, 0, 1, 0%Z, 60%Z)] [(10%Z, 1, 1 # 2, 64%Z); (11%Z, 2, 1 # 2, 70%Z)] [(0%Z, 0%Z, 10%Z)] in
  let ops := [HCall; HScore (EAdd (1%Z, 1, 1, 4%Z, 62%Z)); HAlign [(0%Z, 0%Z, 10%Z); (0%Z, 1%Z, 11%Z)]; HCall] in
  hrun s ops = [([(0, 0)], [(0, 0)]); ([(0, 0); (1, 1)], [(0, 0); (1, 1)])]%nat /\
  hrun_memo [] s ops = [([(0, 0)], [(0, 0)]); ([(0, 0)], [(0, 0)])]%nat /\
  hrun_memo [] s (HCall :: HReplace 2%Z :: tl ops) = hrun s ops.
Proof. exact hrun_memo_refuted_example. Qed.
Print Assumptions history_memo_refuted.

(* ... and ONLY an in-place edit of the score tells the two machines apart: on histories without one (what a check
   that builds its input, calls once and judges can produce) they agree -- why the history stream is needed *)
Theorem history_memo_needs_edit : forall ops s c,
  forallb (fun o => negb (edits_score o)) ops = true ->
  (forall k t, lookup_tab k c = Some t -> t = h_sna s) ->
  hrun_memo c s ops = hrun s ops.
Proof. exact hrun_memo_no_edit_lemma. Qed.
Print Assumptions history_memo_needs_edit.

(* ---------- round j: decode_time AS WRITTEN (Model/C18_Loop.v: element-wise product, np.cumsum, an array of zeros,
   one write per cell in the order of the groups, ONE shift after the loop) ---------- *)

(* the array the loop leaves, for ANY list of groups (partition or not) and any cell function: a cell shows the write
   of the LAST group that lists it, an unlisted cell what the array held before *)
Theorem decode_loop_last_writer : forall (f : nat -> nat -> row2) G perf j d, (j < List.length perf)%nat ->
  nth j (loop f 0 G perf) d = match last_writer 0 G j with Some k => f k j | None => nth j perf d end.
Proof. exact scatter_last_writer_lemma. Qed.
Print Assumptions decode_loop_last_writer.

(* refinement: for every non-empty score and every partition G of its notes (every result of get_unique_onset_idxs:
   onset_groups_partition) the code-level decode_time -- cumulative sum, zero array, scatter loop, shift after the
   loop, index check -- returns, Leibniz-equal, the onset and duration columns of the per-note decoder [decode] that all
   the round-trip theorems above are about; for ANY parameter rows P and any normalisation.  The variant with the shift
   indented into the loop (seeded change d) does not: Proofs/C18_loop.v decode_time_shift_inside_refuted; with
   overlapping groups the loop and the per-note lookup differ: scatter_overlap_refuted *)
Theorem decode_time_loop_refines :
  forall (NP : Type) (pmean : list NP -> NP) (rescale : NP -> Q) (npdefault : NP) (exp2 : Q -> Q)
         (so sd : list Q) (G : list (list nat)) (P : list (params NP)),
    so <> [] -> groups_ok G (List.length so) = true ->
    decode_time_loop exp2 so sd G (dec_bps NP pmean rescale npdefault G P) (map (p_timing NP) P) (map (p_art NP) P)
    = Some (map (fun r => (fst (fst r), snd (fst r))) (decode NP pmean rescale npdefault exp2 so sd G P)).
Proof. exact decode_time_loop_refines_lemma. Qed.
Print Assumptions decode_time_loop_refines.

(* the running sum np.cumsum(np.r_[0, diff * beat_period]) is the recursion eq_on of the per-note model at every index *)
Theorem decode_cumsum_spec : forall ds bps, List.length ds = List.length bps ->
  forall i, (i <= List.length ds)%nat -> nth i (cumsum (0 :: map2 Qmult ds bps)) 0 = eq_on 0 bps ds i.
Proof. exact cumsum_eq_on. Qed.
Print Assumptions decode_cumsum_spec.

(* O1 for decode_time as written: on the encoder's parameters (either built-in curve, any normalisation with a left
   inverse, any non-empty score with distinct onsets >= 2e-4 beat apart, ANY performance) the array the loop leaves holds
   every performed onset up to ONE common shift and every performed duration *)
Theorem decode_time_loop_roundtrip :
  forall (NP : Type) (scale : Q -> NP) (pmean : list NP -> NP) (rescale : NP -> Q) (npdefault : NP)
         (log2 exp2 : Q -> Q),
    (forall x k, 0 < x -> rescale (pmean (repeat (scale x) (S k))) == x) ->
    (forall x, 0 < x -> exp2 (log2 x) == x) ->
  forall (method : Z) (so sd po pd : list Q) (vel : list Z),
    so <> [] -> List.length po = List.length so ->
    onsets_separated so ->
    let Ge := enc_groups so in
    let bp := tempo_curve method (u_onsets so (map2 Qplus so sd) Ge) (u_onsets po (map2 Qplus po pd) Ge) in
    let P := encode NP scale log2 so sd po pd vel Ge bp in
    let G := dec_groups so in
    exists rows,
      decode_time_loop exp2 so sd G (dec_bps NP pmean rescale npdefault G P) (map (p_timing NP) P) (map (p_art NP) P)
      = Some rows /\
      List.length rows = List.length so /\
      (exists shift : Q, forall j, (j < List.length so)%nat -> fst (nth j rows (0, 0)) == nthQ po j + shift) /\
      (forall j, (j < List.length so)%nat -> 0 < nthQ sd j -> 0 < nthQ pd j -> snd (nth j rows (0, 0)) == nthQ pd j).
Proof. exact decode_time_loop_roundtrip_lemma. Qed.
Print Assumptions decode_time_loop_roundtrip.
