From Coq Require Import ZArith QArith List.
From PV Require Import Lib.Base Lib.Round Model.C18 Model.C18_Check Proofs.C18.
Import ListNotations.
#[local] Open Scope Q_scope.

Theorem placeholder : sumQ [1] == 1.
Proof. exact meanQ_single_placeholder. Qed.
Print Assumptions placeholder.
