(* C17 -- property theorems.  Statements + `exact` only; proofs live in Proofs/C17_*.v.
   All statements are about the models the correspondence run evaluates against partitura on
   every check: Model.C17_Spelling (spell_tab = ps13 stage 1 in front of p2pn), Model.C17_Voices
   (the outer layer of estimate_voices; the VoSA search is the Section variable [oracle] and the
   choice of the note that represents a chord the Section variable [rep]; the theorems hold for
   EVERY function of those types) and Model.C17_Key (exact correlation
   comparison over the key profile matrices reflected into Gen/C17_KeyTab.v).
   Vocabulary: a spelling is (index into STEPS, alter, octave); midi_of = 12 (octave + 1) +
   pitch class of the step + alter; spell_tab kpre kpost rows = table (row, spelling) in the
   canonical (onset, pitch, duration) order, row = (onset, pitch, duration);
   mftc c0 c ct = morph of chroma c if the tonic had chroma ct and the first note chroma c0. *)
From PV Require Import Lib.Base Gen.C17_PS13 Gen.C17_KeyTab Gen.C17_MidiTab Gen.C17_VSTab
  Model.C17_Spelling Model.C17_Chroma Model.C17_Voices Model.C17_Contig Model.C17_Key Model.C17_KeyApi Model.C17_Midi Model.C17_MidiParse Model.C17_History
  Proofs.C17_lib Proofs.C17_Spelling Proofs.C17_Chroma Proofs.C17_Voices Proofs.C17_VoicesTotal Proofs.C17_Contig Proofs.C17_Key Proofs.C17_KeyApi Proofs.C17_Midi Proofs.C17_MidiParse Proofs.C17_MidiFile Proofs.C17_History.
From Coq Require Import Sorting.Permutation.
#[local] Open Scope Z_scope.

(* ================================================================== *)
(* O1  spelling *)

(* p2pn sounds the chromatic pitch (+21 = MIDI), for EVERY chromatic and morphetic pitch:
   pitch preservation does not depend on the ps13 heuristic at all *)
Theorem p2pn_sounds : forall cp mp, midi_of (p2pn cp mp) = Some (cp + 21).
Proof. exact p2pn_sounds_lemma. Qed.
Print Assumptions p2pn_sounds.

(* every note of every array is spelled (the table lists exactly the input rows) ... *)
Theorem ps13_total : forall kpre kpost rows r, In r rows -> exists sp, In (r, sp) (spell_tab kpre kpost rows).
Proof. exact ps13_total_lemma. Qed.
Print Assumptions ps13_total.

(* ... and each spelling sounds exactly the row's MIDI pitch, for all context sizes *)
Theorem ps13_sounds : forall kpre kpost rows r sp,
  In (r, sp) (spell_tab kpre kpost rows) -> midi_of sp = Some (r_pitch r).
Proof. exact ps13_sounds_lemma. Qed.
Print Assumptions ps13_sounds.

(* shifting the chromatic pitch by an octave shifts the chosen morphetic pitch by 7 *)
Theorem morphetic_pitch_periodic : forall cp m, morphetic_pitch (cp + 12) m = morphetic_pitch cp m + 7.
Proof. exact morphetic_pitch_periodic_lemma. Qed.
Print Assumptions morphetic_pitch_periodic.

(* the complete finite sweep (12 x 12 x 12, decided in the kernel over the reflected tables):
   whatever the first chroma, the note's chroma and the tonic chroma, at most a double accidental *)
Theorem ps13_alter_sweep : forall c0 c ct, 0 <= c0 < 12 -> 0 <= c < 12 -> 0 <= ct < 12 ->
  -2 <= sp_alter (spell_cm c (mftc c0 c ct)) <= 2.
Proof. exact sweep_spec. Qed.
Print Assumptions ps13_alter_sweep.

(* the morph selected by the arg-max of the context strengths is the morph under SOME tonic
   chroma, because the note's own chroma is in its context (K_post >= 1) *)
Theorem selected_morph_has_support : forall c0 c w, 0 <= c < 12 -> In c w ->
  exists ct, 0 <= ct < 12 /\ mftc c0 c ct = select_morph c0 c w.
Proof. exact select_morph_support. Qed.
Print Assumptions selected_morph_has_support.

(* hence, for ALL arrays and ALL pitches (sweep lifted by periodicity): |alter| <= 2 *)
Theorem ps13_alter_bounded : forall kpre kpost rows r sp, (1 <= kpost)%nat ->
  In (r, sp) (spell_tab kpre kpost rows) -> -2 <= sp_alter sp <= 2.
Proof. exact ps13_alter_bounded_lemma. Qed.
Print Assumptions ps13_alter_bounded.

(* ... a bound that is sharp in K_post: with K_post = 0 a lone D#4 is spelled A with six sharps *)
Theorem ps13_alter_needs_kpost :
  map named_of (spell_tab 10 0 [(0, 63, 1)]) = [((0, 63, 1), ("A", 6, 3))]%string.
Proof. exact ps13_alter_kpost0. Qed.
Print Assumptions ps13_alter_needs_kpost.

(* midi_of IS what partitura computes for a note: score.Note(step, octave, alter).midi_pitch, run on
   the working tree for every step of STEPS, alter -2..2, octave 0..8 (finite, 315 notes) *)
Theorem midi_of_is_note_midi_pitch : forall st al oc, In st ps_steps -> -2 <= al <= 2 -> 0 <= oc <= 8 ->
  note_midi_pitch st al oc = midi_of_name st al oc /\ midi_of_name st al oc <> None.
Proof. exact note_midi_pitch_spec. Qed.
Print Assumptions midi_of_is_note_midi_pitch.

(* hence a note of the range 21..108 spelled by ps13 (any array, any K_pre, K_post >= 1) is a Note whose
   midi_pitch -- as partitura computes it -- is the row's pitch: what the MIDI importer relies on *)
Theorem ps13_note_midi_pitch : forall kpre kpost rows r sp, (1 <= kpost)%nat ->
  21 <= r_pitch r <= 108 -> In (r, sp) (spell_tab kpre kpost rows) ->
  note_midi_pitch (step_name (sp_step sp)) (sp_alter sp) (sp_octave sp) = Some (r_pitch r).
Proof. exact ps13_note_midi_pitch_lemma. Qed.
Print Assumptions ps13_note_midi_pitch.

(* the order of the input rows does not matter: the whole table is the same *)
Theorem ps13_perm_invariant : forall kpre kpost rows rows',
  Permutation rows rows' -> spell_tab kpre kpost rows = spell_tab kpre kpost rows'.
Proof. exact ps13_perm_invariant_lemma. Qed.
Print Assumptions ps13_perm_invariant.

(* ... so a note (rows pairwise different as (onset, pitch, duration)) has ONE spelling, the same
   in every order of the rows *)
Theorem ps13_order_independent : forall kpre kpost rows rows',
  Permutation rows rows' -> NoDup rows ->
  forall r s s', In (r, s) (spell_tab kpre kpost rows) -> In (r, s') (spell_tab kpre kpost rows') -> s = s'.
Proof. exact ps13_order_independent_lemma. Qed.
Print Assumptions ps13_order_independent.

(* ---- rows that are already sorted.  ps13 on the rows as they come (no sort: spell_as_given) is the table when the
   rows are in the full canonical (onset, pitch, duration) order ... *)
Theorem ps13_sorted_input_needs_no_sort : forall kpre kpost rows,
  row_sorted rows = true -> spell_as_given kpre kpost rows = spell_tab kpre kpost rows.
Proof. exact spell_as_given_on_sorted. Qed.
Print Assumptions ps13_sorted_input_needs_no_sort.

(* ... so a fast path that skips the sort for arrays sorted on ALL THREE keys changes nothing, for any array *)
Theorem ps13_fastpath_on_three_keys_is_harmless : forall kpre kpost rows,
  spell_tab_presorted3 kpre kpost rows = spell_tab kpre kpost rows.
Proof. exact presorted3_harmless. Qed.
Print Assumptions ps13_fastpath_on_three_keys_is_harmless.

(* ... while one that looks at (onset, pitch) only is refuted: two orders of the same 19 pairwise different notes, both
   sorted by (onset, pitch), differing in the order of one unison (an eighth and a half note B4 as 16th/17th note); the
   eighth note is spelled B4 in one and Cb5 in the other.  The duration key carries ps13_order_independent. *)
Theorem ps13_fastpath_on_two_keys_refuted :
  Permutation fp_rows_a fp_rows_b /\ NoDup fp_rows_a /\ op_sorted fp_rows_a = true /\ op_sorted fp_rows_b = true /\
  exists r s s', In (r, s) (spell_tab_presorted 10 40 fp_rows_a) /\ In (r, s') (spell_tab_presorted 10 40 fp_rows_b) /\ s <> s'.
Proof. exact presorted_fastpath_refuted_lemma. Qed.
Print Assumptions ps13_fastpath_on_two_keys_refuted.

(* ---- histories of calls (Model.C17_History: the caller's array changes -- HSet -- and is asked about -- HCall --
   again and again).  For EVERY stateless implementation f, every history, every initial content: the k-th step, if it
   is a call with options q, is answered by f q on the content the array has at that moment *)
Theorem history_call_answers_current_state : forall (Arr Opt Ans : Type) (f : Opt -> Arr -> Ans) (h : list (@hstep Arr Opt)) st k q,
  nth_error h k = Some (HCall q) ->
  nth_error (hrun f st h) (ncalls (firstn k h)) = Some (f q (hstate st (firstn k h))).
Proof. exact history_answer_lemma. Qed.
Print Assumptions history_call_answers_current_state.

(* for estimate_spelling: the table of the rows the array holds when it is asked *)
Theorem spelling_history_answers_current_rows : forall (h : list (@hstep (list row) (nat * nat))) st k kpre kpost,
  nth_error h k = Some (HCall (kpre, kpost)) ->
  nth_error (hrun spell_q st h) (ncalls (firstn k h)) = Some (spell_tab kpre kpost (hstate st (firstn k h))).
Proof. exact spelling_history_lemma. Qed.
Print Assumptions spelling_history_answers_current_rows.

(* an implementation that keeps a memory of its own from call to call but whose answers do not depend on it is the
   stateless one on every history *)
Theorem memory_oblivious_implementation_is_stateless : forall (Arr Opt Ans Mem : Type) (f : Opt -> Arr -> Ans) (g : Opt -> Arr -> Mem -> Ans * Mem),
  (forall q s m, fst (g q s m) = f q s) -> forall (h : list (@hstep Arr Opt)) m st, hrun_m g m st h = hrun f st h.
Proof. exact oblivious_memory_lemma. Qed.
Print Assumptions memory_oblivious_implementation_is_stateless.

(* a memo keyed by the LENGTH of the array is not: asked about C4, then -- the note changed in place to C#4 -- asked
   again, it answers C4 again; the stateless machine answers the table of the current row *)
Theorem length_keyed_memo_refuted :
  hrun_m spell_memo_len [] [(0, 60, 1)] memo_history <> hrun spell_q [(0, 60, 1)] memo_history /\
  nth_error (hrun spell_q [(0, 60, 1)] memo_history) 1 = Some (spell_tab_v 10 40 [(0, 61, 1)]).
Proof. exact length_keyed_memo_refuted_lemma. Qed.
Print Assumptions length_keyed_memo_refuted.

(* the checker of the history correspondence evaluates (C4; then C#4 F#4 asked twice, the second time with K_pre 0, K_post 1) *)
Theorem history_check_example :
  history_check ([(0, 60, 1)], [HCall (10%nat, 40%nat); HSet [(0, 61, 1); (1, 66, 1)]; HCall (10%nat, 40%nat); HCall (0%nat, 1%nat)],
                 [[("C"%string, 0, 4)]; [("C"%string, 1, 4); ("F"%string, 1, 4)]; [("C"%string, 1, 4); ("F"%string, 1, 4)]]) = true.
Proof. exact history_check_example_lemma. Qed.
Print Assumptions history_check_example.

(* ---- the chroma context windows as the code keeps them (compute_chroma_vector_array: one running
   vector of twelve counts, +1 at chroma[i + K_post - 1], -1 at chroma[i - K_pre - 1], a copy per note) *)

(* the vector stored for note j holds, for every chroma c, the number of notes of chroma c among the
   notes max(0, j - K_pre) .. min(n, j + K_post) - 1 -- every array, every K_pre, K_post *)
Theorem chroma_vectors_are_window_counts : forall kpre kpost cs j c,
  (forall x, In x cs -> 0 <= x < 12) -> (j < List.length cs)%nat -> 0 <= c < 12 ->
  cv_get (nth j (chroma_vectors kpre kpost cs) cv_zero) c = ps_count c (ps_window kpre kpost cs j).
Proof. exact chroma_vectors_window_counts. Qed.
Print Assumptions chroma_vectors_are_window_counts.

(* a note is counted in its own context (K_post >= 1): what the bound on the accidentals rests on *)
Theorem chroma_vector_counts_own_note : forall kpre kpost cs j,
  (forall x, In x cs -> 0 <= x < 12) -> (1 <= kpost)%nat -> (j < List.length cs)%nat ->
  1 <= cv_get (nth j (chroma_vectors kpre kpost cs) cv_zero) (nth j cs 0).
Proof. exact own_chroma_counted. Qed.
Print Assumptions chroma_vector_counts_own_note.

(* ps13 spelled from the running vectors -- the function the correspondence evaluates against
   estimate_spelling -- is the table all theorems above are about *)
Theorem ps13_running_context_refines : forall kpre kpost rows,
  spell_tab_v kpre kpost rows = spell_tab kpre kpost rows.
Proof. exact spell_tab_v_eq. Qed.
Print Assumptions ps13_running_context_refines.

(* K_pre = 1, K_post = 2 on six notes: increments stop at the end of the array, decrements start at i = 2 *)
Theorem chroma_vectors_example :
  map (fun v => (cv_get v 0, cv_get v 3, cv_get v 7)) (chroma_vectors 1 2 [0; 3; 3; 7; 0; 7])
  = [(1, 1, 0); (1, 2, 0); (0, 2, 1); (1, 1, 1); (1, 0, 2); (1, 0, 1)].
Proof. exact chroma_vectors_example_lemma. Qed.
Print Assumptions chroma_vectors_example.

(* ================================================================== *)
(* O2  voices (for every oracle, i.e. every behaviour of the VoSA search, and every choice rep of
   the note that represents a chord) *)

(* rep picks a member of the chord and the oracle answers the representatives it was given (as a
   set)  ==>  every note gets a voice (zero-duration notes are ordinary notes of this layer) *)
Theorem voices_total : forall rep oracle,
  (forall ins ids, ids <> [] -> In (rep ins ids) ids) ->
  forall mono notes,
  let ins := indexed_from 0 notes in
  let inp := vosa_input ins (equivs_with (rep ins) mono ins) in
  oracle_total_on inp (oracle inp) = true ->
  exists out, estimate_voices rep oracle mono notes = Some out /\ List.length out = List.length notes.
Proof. exact voices_total_lemma. Qed.
Print Assumptions voices_total.

(* both the code's choice (argmax_pitch: the first note of maximal pitch) and the choice the checker
   reads off the ids the implementation handed to VoSA are such members *)
Theorem representative_choices_are_members :
  (forall ins ids, ids <> [] -> In (rep_of ins ids) ids) /\
  (forall vin ins ids, ids <> [] -> In (rep_obs vin ins ids) ids).
Proof. exact (conj rep_of_is_member rep_obs_is_member). Qed.
Print Assumptions representative_choices_are_members.

(* one voice per note; the numbers used are exactly 1..K (no gaps), K >= 1 unless there is no note *)
Theorem voices_wellformed : forall rep oracle mono notes out,
  estimate_voices rep oracle mono notes = Some out ->
  List.length out = List.length notes /\
  exists K, 0 <= K /\ (notes <> [] -> 1 <= K) /\ forall t, In t out <-> 1 <= t <= K.
Proof. exact voices_wellformed_lemma. Qed.
Print Assumptions voices_wellformed.

Theorem voices_positive : forall rep oracle mono notes out v,
  estimate_voices rep oracle mono notes = Some out -> In v out -> 1 <= v.
Proof. exact voices_positive_lemma. Qed.
Print Assumptions voices_positive.

(* chord mode: notes with identical onset and duration get the same voice *)
Theorem chord_mode_same_voice : forall rep oracle notes out i j ni nj,
  estimate_voices rep oracle false notes = Some out ->
  nth_error notes i = Some ni -> nth_error notes j = Some nj ->
  vn_onset ni = vn_onset nj -> vn_dur ni = vn_dur nj ->
  nth_error out i = nth_error out j.
Proof. exact chord_mode_same_voice_lemma. Qed.
Print Assumptions chord_mode_same_voice.

Theorem mono_mode_identity_map : forall rp ins, equivs_with rp true ins = map (fun x => (fst x, [fst x])) ins.
Proof. exact mono_mode_identity_map_lemma. Qed.
Print Assumptions mono_mode_identity_map.

(* ---- inside the contig-mapping search: pairwise_cost and est_best_connections (the global-minimum policy
   that decides which stream of a neighbouring contig continues which voice) *)

(* both modes ("prev": rows = cost's rows, "next": the transpose): while the side receiving the assignments
   (columns) is not larger than the side of the streams (rows), the connections made are a MATCHING -- rows
   pairwise different, columns pairwise different, all inside the matrix -- that covers EVERY column, and the
   unassigned streams are exactly the rows without a connection.  All rectangular matrices over Z. *)
Theorem best_connections_are_a_matching : forall (pm : bool) np nn cost, cost_wf np nn cost ->
  let nr := if pm then np else nn in
  let nc := if pm then nn else np in
  (nc <= nr)%nat ->
  let r := est_best_connections pm np nn cost in
  List.length (fst r) = nc /\
  NoDup (map fst (fst r)) /\ NoDup (map snd (fst r)) /\
  (forall p, In p (fst r) -> (fst p < nr)%nat /\ (snd p < nc)%nat) /\
  (forall c, (c < nc)%nat -> In c (map snd (fst r))) /\
  (forall i, In i (snd r) <-> ((i < nr)%nat /\ ~ In i (map fst (fst r)))).
Proof. exact est_best_spec. Qed.
Print Assumptions best_connections_are_a_matching.

(* the forward step as VoSA.estimate_voices makes it (cost = pairwise_cost(voices' last notes, first notes of the
   next contig), a contig never has more streams than there are voices): every stream of the contig is continued
   by exactly one voice and no voice takes two -- every note of the contig receives a voice *)
Theorem forward_connections_cover_the_contig : forall prev nxt, (List.length nxt <= List.length prev)%nat ->
  let r := est_best_connections true (List.length prev) (List.length nxt) (pairwise_cost prev nxt) in
  NoDup (map fst (fst r)) /\ NoDup (map snd (fst r)) /\
  (forall c, (c < List.length nxt)%nat -> In c (map snd (fst r))) /\
  (forall p, In p (fst r) -> (fst p < List.length prev)%nat /\ (snd p < List.length nxt)%nat).
Proof. exact forward_connections_cover. Qed.
Print Assumptions forward_connections_cover_the_contig.

(* the backward step (mode "next" on pairwise_cost(last notes of the previous contig, voices' first notes)) *)
Theorem backward_connections_cover_the_contig : forall prev nxt, (List.length prev <= List.length nxt)%nat ->
  let r := est_best_connections false (List.length prev) (List.length nxt) (pairwise_cost prev nxt) in
  NoDup (map fst (fst r)) /\ NoDup (map snd (fst r)) /\
  (forall c, (c < List.length prev)%nat -> In c (map snd (fst r))) /\
  (forall p, In p (fst r) -> (fst p < List.length nxt)%nat /\ (snd p < List.length prev)%nat).
Proof. exact backward_connections_cover. Qed.
Print Assumptions backward_connections_cover_the_contig.

(* the size hypothesis is needed: one voice, two streams -- the second round finds everything masked and
   repeats the connection (0, 0), the second stream stays without a voice *)
Theorem best_connections_need_enough_rows :
  est_best_connections true 1 2 [[3; 4]] = ([(0, 0); (0, 0)]%nat, []).
Proof. exact more_columns_than_rows_repeats. Qed.
Print Assumptions best_connections_need_enough_rows.

(* three voices / two streams in both modes (ties: first row, first column), and a cost matrix with a sustained
   note (-MAX_COST) and a voice that was skipped before (MAX_COST) *)
Theorem best_connections_example :
  est_best_connections true 3 2 [[5; 1]; [0; 1]; [7; 7]] = ([(1, 0); (0, 1)]%nat, [2%nat]) /\
  est_best_connections false 2 3 [[5; 0; 7]; [1; 1; 7]] = ([(1, 0); (0, 1)]%nat, [2%nat]) /\
  pairwise_cost [(1, 60, 0); (2, 72, 0); (3, 50, 1)] [(2, 72, 0); (4, 64, 0)]
    = [[12; 4]; [- vs_max_cost; 8]; [vs_max_cost; vs_max_cost]].
Proof. exact best_connections_example_lemma. Qed.
Print Assumptions best_connections_example.

(* ================================================================== *)
(* O3  key *)

(* the result is one of the 24 names ... *)
Theorem key_name_valid : forall M ns, In (estimate_key M ns) key_names.
Proof. exact key_name_valid_lemma. Qed.
Print Assumptions key_name_valid.

(* ... which are format_key of the implementation's KEYS (run on the working tree), each accepted by
   key_name_to_fifths_mode (tabulated) with the mode of its KEYS entry and a number of fifths in -7..7
   whose tonic is the pitch class the name spells (key_names_parse_ok), laid out as
   index i < 12: major, tonic pitch class i; index 12 + i: minor, tonic pitch class i *)
Theorem key_names_are_the_implementations : key_names = key_names_impl.
Proof. exact key_names_impl_lemma. Qed.
Print Assumptions key_names_are_the_implementations.

Theorem key_names_parse : key_names_parse_ok = true.
Proof. exact key_names_parse_lemma. Qed.
Print Assumptions key_names_parse.

Theorem keys_layout : keys_layout_ok = true /\ List.length keys_table = 24%nat.
Proof. exact keys_layout_lemma. Qed.
Print Assumptions keys_layout.

(* the evaluator the correspondence runs (histogram tabulated once) IS the model function *)
Theorem estimate_key_fast_eq : forall M ns, estimate_key_fast M ns = estimate_key M ns.
Proof. exact estimate_key_fast_eq_lemma. Qed.
Print Assumptions estimate_key_fast_eq.

(* moving any notes by any numbers of octaves (independently per note) changes nothing *)
Theorem key_octave_invariant : forall M ns ns',
  Forall2 (fun n n' => fst n mod 12 = fst n' mod 12 /\ snd n = snd n') ns ns' ->
  estimate_key M ns = estimate_key M ns'.
Proof. exact key_octave_invariant_lemma. Qed.
Print Assumptions key_octave_invariant.

Theorem key_octave_shift : forall M ns k,
  estimate_key M (map (fun n => (fst n + 12 * k, snd n)) ns) = estimate_key M ns.
Proof. exact key_octave_shift_lemma. Qed.
Print Assumptions key_octave_shift.

(* rescaling all durations by the positive rational a/b changes nothing *)
Theorem key_scale_invariant : forall M ns ns' a b, 0 < a -> 0 < b ->
  Forall2 (fun n n' => fst n = fst n' /\ a * snd n = b * snd n') ns ns' ->
  estimate_key M ns = estimate_key M ns'.
Proof. exact key_scale_invariant_lemma. Qed.
Print Assumptions key_scale_invariant.

Theorem key_scale_by : forall M ns k, 0 < k ->
  estimate_key M (map (fun n => (fst n, k * snd n)) ns) = estimate_key M ns.
Proof. exact key_scale_by_lemma. Qed.
Print Assumptions key_scale_by.

(* the three reflected profile matrices are circulant: row i (12 + i) is row 0 (12) rotated by i *)
Theorem circulant_row_i_is_rotation : forall s, circulantb (profile_set s) = true.
Proof. exact circulant_rows_lemma. Qed.
Print Assumptions circulant_row_i_is_rotation.

(* transposing by j semitones moves the estimated tonic by j, same mode -- when the maximum
   correlation is attained by one key only (with ties the first index wins, which is not equivariant) *)
Theorem key_transpose_equivariant : forall M ns j i, circulantb M = true ->
  unique_max (key_lt M (ky_hist ns)) i ->
  estimate_key_idx M ns = i /\ estimate_key_idx M (transpose j ns) = rot_key j i.
Proof. exact key_transpose_equivariant_lemma. Qed.
Print Assumptions key_transpose_equivariant.

(* the same on the returned names, for each of the three reflected profile sets: the name at index i
   becomes the name at index rot_key j i (keys_layout: tonic pitch class + j, same mode) *)
Theorem key_transpose_names : forall s ns j i,
  unique_max (key_lt (profile_set s) (ky_hist ns)) i ->
  estimate_key (profile_set s) ns = nth (Z.to_nat i) key_names "?"%string /\
  estimate_key (profile_set s) (transpose j ns) = nth (Z.to_nat (rot_key j i)) key_names "?"%string.
Proof. exact key_transpose_names_lemma. Qed.
Print Assumptions key_transpose_names.

(* the clause in the property's own words: the estimated TONIC (pitch class spelled by the root of the
   KEYS entry) moves by j semitones, the MODE stays -- read from the KEYS entries the names are made of *)
Theorem key_transpose_tonic : forall s ns j i,
  unique_max (key_lt (profile_set s) (ky_hist ns)) i ->
  let k := estimate_key_idx (profile_set s) ns in
  let k' := estimate_key_idx (profile_set s) (transpose j ns) in
  key_tonic_pc k' = (key_tonic_pc k + j) mod 12 /\ key_mode k' = key_mode k /\
  estimate_key (profile_set s) ns = nth (Z.to_nat k) key_names "?"%string /\
  estimate_key (profile_set s) (transpose j ns) = nth (Z.to_nat k') key_names "?"%string.
Proof. exact key_transpose_tonic_lemma. Qed.
Print Assumptions key_transpose_tonic.

(* the unique-maximum hypothesis cannot be dropped: the chromatic cluster ties all 24 keys, the first
   key wins before and after transposing by a semitone *)
Theorem key_transpose_needs_unique_max :
  let ns := map (fun p => (p, 1)) (zrange 60 12) in
  estimate_key_idx (profile_set 0) ns = 0 /\ estimate_key_idx (profile_set 0) (transpose 1 ns) = 0 /\
  rot_key 1 0 = 1.
Proof. exact key_transpose_tie_example. Qed.
Print Assumptions key_transpose_needs_unique_max.

(* ---- the entry point: estimate_key(note_array[, key_profiles=name]) *)

(* every name of VALID_KEY_PROFILES (reflected from partitura/utils/globals.py) is a name ks_kid maps to one of
   the three profile sets (finite) ... *)
Theorem key_profile_names_resolve : forall nm, In nm valid_key_profiles ->
  exists s, ks_profile_of_name nm = Some s /\ 0 <= s <= 2.
Proof. exact valid_profiles_resolve. Qed.
Print Assumptions key_profile_names_resolve.

(* ... hence estimate_key -- without the argument or with any accepted name -- returns, for EVERY note array, one
   of the 24 valid key names; any other name is refused (ValueError) *)
Theorem estimate_key_total_on_accepted_names : forall kp ns,
  (kp = None \/ exists nm, kp = Some nm /\ In nm valid_key_profiles) ->
  exists name, estimate_key_api kp ns = Some name /\ In name key_names.
Proof. exact estimate_key_api_total. Qed.
Print Assumptions estimate_key_total_on_accepted_names.

Theorem estimate_key_refuses_other_names : forall nm ns,
  ~ In nm valid_key_profiles -> estimate_key_api (Some nm) ns = None.
Proof. exact estimate_key_api_refuses. Qed.
Print Assumptions estimate_key_refuses_other_names.

Theorem estimate_key_api_example :
  let ns := [(57, 4); (60, 2); (64, 2); (69, 4)] in
  estimate_key_api (Some "tp"%string) ns <> None /\
  estimate_key_api None ns = estimate_key_api (Some "krumhansl_kessler"%string) ns /\
  estimate_key_api (Some "major"%string) ns = None.
Proof. exact key_api_example. Qed.
Print Assumptions estimate_key_api_example.

(* ================================================================== *)
(* O4  the MIDI score importer: the path of a pitch through load_score_midi *)

(* estimate_spelling returns one spelling per row IN THE ORDER OF THE ROWS, each the table's entry of its row
   (the importer pairs them with the notes by position) *)
Theorem spelling_in_row_order : forall rows,
  exists out, spelling_global rows = Some out /\
              Forall2 (fun r sp => In (r, sp) (spell_default rows)) rows out.
Proof. exact spelling_global_spec. Qed.
Print Assumptions spelling_in_row_order.

(* assign_group_part_voice gives every (track, channel) key a part in each of the six modes ... *)
Theorem midi_assign_parts_total : forall mode keys, 0 <= mode <= 5 ->
  List.length (assign_parts mode keys) = List.length keys /\ Forall (fun p => p <> None) (assign_parts mode keys).
Proof. exact assign_parts_total. Qed.
Print Assumptions midi_assign_parts_total.

(* ... and none in any other mode (the bound on the mode is sharp) *)
Theorem midi_assign_parts_needs_mode : forall mode keys, ~ (0 <= mode <= 5) ->
  assign_parts mode keys = map (fun _ => None) keys.
Proof. exact assign_parts_none. Qed.
Print Assumptions midi_assign_parts_needs_mode.

(* THE IMPORTER CLAUSE.  In each of the six part/voice modes, for every set of (track, channel) groups of notes with
   pitches 21..108 (any onsets and durations, zero-length notes included): the notes load_score_midi creates are --
   in the order of the file's note list -- exactly (onset, pitch) of the file's notes, where the pitch is
   score.Note(step, octave, alter).midi_pitch as partitura computes it for the spelling estimate_spelling (default
   K_pre, K_post, ONE call on the whole piece) returned at the note's position; and every note is in a part. *)
Theorem midi_import_contains_file_pitches : forall mode gs, 0 <= mode <= 5 ->
  (forall g r, In g gs -> In r (snd g) -> 21 <= r_pitch r <= 108) ->
  exists out, import_notes mode gs = Some out /\
    map (fun x => snd x) out = map (fun r => (r_onset r, Some (r_pitch r))) (flat_map (fun g => snd g) gs) /\
    Forall (fun x => fst x <> None) out.
Proof. exact import_notes_spec. Qed.
Print Assumptions midi_import_contains_file_pitches.

(* two tracks, channels 0 and 9 on the first: mode 0 puts the first two groups into part 0; the checker accepts the
   pitches by onset rank [C#4 G#4] [C#4] [E4] (mode 5); mode 6 assigns no part *)
Theorem midi_import_example :
  option_map (map (fun x => (fst x, snd x))) (import_notes 0 [((0, 0), [(0, 61, 4); (4, 64, 0)]); ((0, 9), [(0, 68, 2)]); ((1, 0), [(2, 61, 2)])])
  = Some [(Some 0, (0, Some 61)); (Some 0, (4, Some 64)); (Some 0, (0, Some 68)); (Some 1, (2, Some 61))] /\
  midi_check (5, [((0, 0), [(0, 61, 4); (4, 64, 0)]); ((0, 9), [(0, 68, 2)]); ((1, 0), [(2, 61, 2)])], [[61; 68]; [61]; [64]]) = true /\
  assign_parts 6 [(0, 0); (1, 0)] = [None; None].
Proof. exact import_example. Qed.
Print Assumptions midi_import_example.

(* ---- the READER of the importer (Model.C17_MidiParse: load_score_midi's loop over the messages of a track -- the running
   time summed over ALL messages, the dictionary sounding_notes keyed by note_hash(channel, note), note_on with velocity 0 as
   a note end, ends of keys that are not sounding ignored -- parametric in the hash; parse_track = the code's hash).
   A message is (delta time, kind, channel, note, velocity), kind 0 = note_off, 1 = note_on, other = any other message. *)

(* the loop is one left-to-right pass: a track read in two pieces, the second from the time and dictionary the first left *)
Theorem midi_reader_is_a_left_to_right_pass : forall h a b t d,
  parse_with h t d (a ++ b) = parse_with h t d a ++ parse_with h (time_after t a) (dict_after h t d a) b.
Proof. exact parse_with_app. Qed.
Print Assumptions midi_reader_is_a_left_to_right_pass.

(* EVERY WRITTEN NOTE IS READ.  Wherever in a track (any messages before, any after -- other channels sounding the same
   pitch, unfinished notes, stray ends, meta messages) a note is written as a note-on (velocity > 0) ... a note end (note_off
   or note_on velocity 0) of the same channel and note number 0..127 with no start or end of that channel AND note in
   between: the reader emits it on that channel with onset = the sum of the delta times up to the note-on, its pitch,
   duration = the sum of the delta times from there to the end (zero included) *)
Theorem midi_written_note_is_read : forall pre mon mid moff post,
  is_start mon = true -> is_end moff = true -> m_chan moff = m_chan mon -> m_note moff = m_note mon ->
  0 <= m_note mon < 128 ->
  (forall m, In m mid -> is_start m = true \/ is_end m = true ->
             0 <= m_note m < 128 /\ ~ (m_chan m = m_chan mon /\ m_note m = m_note mon)) ->
  In (m_chan mon, (time_after 0 (pre ++ [mon]), m_note mon, time_after 0 (mid ++ [moff])))
     (parse_track (pre ++ mon :: mid ++ moff :: post)).
Proof. exact written_note_is_read. Qed.
Print Assumptions midi_written_note_is_read.

(* ... AND NOTHING ELSE IS: every note the reader emits is such a pair -- the track splits into a note-on, messages none of
   which starts or ends the same key, the note end that emitted it -- with exactly that onset, pitch and duration *)
Theorem midi_read_note_was_written : forall ms x, In x (parse_track ms) ->
  exists pre mon mid moff post, ms = pre ++ mon :: mid ++ moff :: post /\
     is_start mon = true /\ is_end moff = true /\ m_hash moff = m_hash mon /\
     (forall m, In m mid -> is_start m = true \/ is_end m = true -> m_hash m <> m_hash mon) /\
     x = (m_chan moff, (time_after 0 (pre ++ [mon]), m_note moff, time_after 0 (mid ++ [moff]))).
Proof. exact read_note_was_written. Qed.
Print Assumptions midi_read_note_was_written.

(* the key of the dictionary tells channels and note numbers apart *)
Theorem midi_note_hash_injective : forall c p c' p', 0 <= p < 128 -> 0 <= p' < 128 ->
  note_hash c p = note_hash c' p' -> c = c' /\ p = p'.
Proof. exact note_hash_injective. Qed.
Print Assumptions midi_note_hash_injective.

(* never more notes than note ends (every hash) *)
Theorem midi_reader_no_more_notes_than_ends : forall h ms t d,
  (List.length (parse_with h t d ms) <= List.length (filter is_end ms))%nat.
Proof. exact parse_length_le_ends. Qed.
Print Assumptions midi_reader_no_more_notes_than_ends.

(* non-vacuity: a track with a late start, C4 on channels 0 and 1 at once, a control message, a stray end, a note_on
   velocity 0 end, a zero-length E4 and an unfinished D4 meets the hypotheses for channel 0's C4; the file's groups *)
Theorem midi_reader_example :
  parse_track mp_track = [(0, (3, 60, 6)); (1, (5, 60, 7)); (0, (12, 64, 0))] /\
  (exists pre mon mid moff post, mp_track = pre ++ mon :: mid ++ moff :: post /\
     is_start mon = true /\ is_end moff = true /\ m_chan moff = m_chan mon /\ m_note moff = m_note mon /\
     mon = (0, 1, 0, 60, 64) /\ List.length mid = 3%nat /\
     forallb (fun m => negb (is_start m || is_end m) || negb ((m_chan m =? m_chan mon) && (m_note m =? m_note mon))) mid = true) /\
  parse_file [mp_track; [(0, 1, 0, 48, 9); (4, 0, 0, 48, 0)]]
    = [((0, 0), [(3, 60, 6); (12, 64, 0)]); ((0, 1), [(5, 60, 7)]); ((1, 0), [(0, 48, 4)])].
Proof. exact mp_example. Qed.
Print Assumptions midi_reader_example.

(* the statement discriminates: a reader that pairs note-on and note end by the PITCH alone (channel left out of the key)
   does not read channel 0's C4 of that track -- one note with a wrong onset comes out, channel 1's C4 is lost *)
Theorem midi_pairing_by_pitch_only_refuted :
  ~ In (0, (3, 60, 6)) (parse_with hash_pitch_only 0 [] mp_track) /\
  parse_with hash_pitch_only 0 [] mp_track = [(0, (5, 60, 4)); (0, (12, 64, 0))] /\
  In (0, (3, 60, 6)) (parse_track mp_track) /\ In (1, (5, 60, 7)) (parse_track mp_track).
Proof. exact pitch_only_pairing_refuted. Qed.
Print Assumptions midi_pairing_by_pitch_only_refuted.

(* ---- the reader in front of the importer (parse_file: the notes per (track, channel), keys sorted, handed to import_notes) *)

(* the notes of the file's groups are exactly the notes the reader emitted for the file's tracks *)
Theorem midi_file_groups_hold_the_notes_read : forall r tracks,
  In r (flat_map (fun g : mgroup => snd g) (parse_file tracks)) <->
  exists ms, In ms tracks /\ In r (map (fun x => snd x) (parse_track ms)).
Proof. exact parse_file_rows. Qed.
Print Assumptions midi_file_groups_hold_the_notes_read.

(* FROM THE MESSAGES TO THE SCORE, all six modes, every file whose note ends carry note numbers 21..108: the import
   succeeds, every note is in a part, and (onset, Note.midi_pitch) of the notes created are exactly (onset, pitch) of
   the notes the reader emitted -- nothing lost, nothing invented *)
Theorem midi_file_import_is_exactly_the_notes_read : forall mode tracks, 0 <= mode <= 5 ->
  (forall ms m, In ms tracks -> In m ms -> is_end m = true -> 21 <= m_note m <= 108) ->
  exists out, import_notes mode (parse_file tracks) = Some out /\
    Forall (fun x => fst x <> None) out /\
    forall o p, In (o, p) (map (fun x => snd x) out) <->
                exists ms x, In ms tracks /\ In x (parse_track ms) /\ o = r_onset (snd x) /\ p = Some (r_pitch (snd x)).
Proof. exact file_import_spec. Qed.
Print Assumptions midi_file_import_is_exactly_the_notes_read.

(* hence THE CLAUSE ON FILES: a note written into any track of such a file (note-on ... note end, nothing on its channel
   and note number in between) is a note of the imported score, at its onset, sounding its pitch *)
Theorem midi_written_note_is_in_the_score : forall mode tracks pre mon mid moff post, 0 <= mode <= 5 ->
  (forall ms m, In ms tracks -> In m ms -> is_end m = true -> 21 <= m_note m <= 108) ->
  In (pre ++ mon :: mid ++ moff :: post) tracks ->
  is_start mon = true -> is_end moff = true -> m_chan moff = m_chan mon -> m_note moff = m_note mon ->
  (forall m, In m mid -> is_start m = true \/ is_end m = true ->
             0 <= m_note m < 128 /\ ~ (m_chan m = m_chan mon /\ m_note m = m_note mon)) ->
  exists out, import_notes mode (parse_file tracks) = Some out /\
    Forall (fun x => fst x <> None) out /\
    In (time_after 0 (pre ++ [mon]), Some (m_note mon)) (map (fun x => snd x) out).
Proof. exact written_note_is_in_the_score. Qed.
Print Assumptions midi_written_note_is_in_the_score.

(* ================================================================== *)
(* the hypotheses are satisfiable / the models evaluate (concrete non-trivial inputs) *)

(* five rows out of order, two of them with equal onset and pitch: C#4 twice, E4, A3, G#4 *)
Theorem spelling_example :
  map named_of (spell_default [(0, 61, 1); (0, 64, 1); (1, 68, 2); (1, 57, 2); (0, 61, 2)])
  = [((0, 61, 1), ("C", 1, 4)); ((0, 61, 2), ("C", 1, 4)); ((0, 64, 1), ("E", 0, 4));
     ((1, 57, 2), ("A", 0, 3)); ((1, 68, 2), ("G", 1, 4))]%string.
Proof. exact spell_example. Qed.
Print Assumptions spelling_example.

(* chord mode, VoSA answers the representatives 0, 1, 3 (note 2 is in note 1's chord, note 3 has
   zero duration): the oracle is total on them and every note gets a voice *)
Theorem voices_example_total :
  let notes := [(60, 0, 4); (72, 0, 2); (67, 0, 2); (74, 2, 0)] in
  let ins := indexed_from 0 notes in
  oracle_total_on (vosa_input ins (equivs_of false ins)) [(0, 0); (3, 1); (1, 1)] = true /\
  estimate_voices rep_of (fun _ => [(0, 0); (3, 1); (1, 1)]) false notes = Some [2; 1; 1; 1].
Proof. exact (conj voices_total_example voices_example). Qed.
Print Assumptions voices_example_total.

(* the same notes when the implementation is observed to hand the LOWER chord note (id 2) to VoSA, in
   another order: the checker follows the observed member *)
Theorem voices_example_other_representative :
  voices_check (false, [(60, 0, 4); (72, 0, 2); (67, 0, 2); (74, 2, 0)], [3; 2; 0],
                [(0, 0); (3, 1); (2, 1)], [2; 1; 1; 1]) = true.
Proof. exact voices_other_representative. Qed.
Print Assumptions voices_example_other_representative.

(* a C major triad: key 0 (C major) beats the 23 others strictly, so the triad a third higher is E *)
Theorem key_unique_max_satisfiable :
  unique_max (key_lt (profile_set 0) (ky_hist [(60, 4); (64, 2); (67, 2); (72, 4)])) 0.
Proof. exact key_unique_max_example. Qed.
Print Assumptions key_unique_max_satisfiable.
