(* C17 -- property theorems (work in progress) *)
From PV Require Import Lib.Base Model.C17_Spelling Model.C17_Voices Model.C17_Key.
#[local] Open Scope Z_scope.

Theorem c17_placeholder : spell_default [] = [].
Proof. reflexivity. Qed.
Print Assumptions c17_placeholder.
