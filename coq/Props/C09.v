(* C09 -- property theorems.  Statements + `exact` only; proofs live in Proofs/C09*.v.
   The definitions (Model/C09.v) are the ones the correspondence evaluates against partitura on
   every run: make_segments = add_segments/_make_segments, get_paths/unfold = get_paths/unfold_paths
   with Path.list_of_destinations_from_last_segment and Path.make_copy_with_jump_to,
   variant = ScoreVariant.create_variant_part, id_suffix = update_note_ids_after_unfolding,
   variant_qd = the quarter durations create_variant_part sets. *)
From PV Require Import Lib.Base Model.C09 Model.C09_api Proofs.C09 Proofs.C09_simple Proofs.C09_segs Proofs.C09_variant Proofs.C09_clip Proofs.C09_qd Proofs.C09_nav Proofs.C09_api Proofs.C09_reps Model.C09_hist Proofs.C09_hist Model.C09_heap Proofs.C09_heap Model.C09_cycle Proofs.C09_cycle.
From Coq Require Import ZArith List Bool.
Import ListNotations.
#[local] Open Scope Z_scope.

(* ---- O1 paths: every returned path is a walk (all tables, policies, ignore_leaps; any fuel) ---- *)
Theorem paths_are_walks : forall fuel g norep allrep ign ps,
  get_paths fuel g norep allrep ign = Some ps ->
  forall p, In p ps ->
    (exists r, p = 0 :: r) /\                       (* starts at the first segment "A" *)
    chain g p /\                                    (* each step is an allowed destination (to ++ await_to) *)
    allowed g (zlast p) END.                        (* ends where END is allowed *)
Proof. exact paths_are_walks_lemma. Qed.
Print Assumptions paths_are_walks.

(* ---- O3 independent simple repeats, graph level, all tables (induction) ---- *)
Theorem all_paths_simple : forall g bs ign fuel, simple_table g bs -> bs <> [] ->
  (2 * length bs + 1 <= fuel)%nat ->
  get_paths fuel g false false ign = Some (sfx 0 bs).
Proof. exact Proofs.C09_simple.all_paths_simple. Qed.
Print Assumptions all_paths_simple.

Theorem count_simple : forall g bs ign fuel, simple_table g bs -> bs <> [] ->
  (2 * length bs + 1 <= fuel)%nat ->
  exists ps, get_paths fuel g false false ign = Some ps /\
             length ps = Nat.pow 2 (nrep bs) /\ NoDup ps.
Proof. exact Proofs.C09_simple.count_simple. Qed.
Print Assumptions count_simple.

Theorem maximal_simple : forall g bs ign fuel, simple_table g bs -> bs <> [] ->
  (2 * length bs + 1 <= fuel)%nat ->
  get_paths fuel g false true ign = Some [maxsfx 0 bs].
Proof. exact Proofs.C09_simple.maximal_simple. Qed.
Print Assumptions maximal_simple.

Theorem minimal_simple : forall g bs ign fuel, simple_table g bs -> bs <> [] ->
  (2 * length bs + 1 <= fuel)%nat ->
  get_paths fuel g true false ign = Some [minsfx 0 bs].
Proof. exact Proofs.C09_simple.minimal_simple. Qed.
Print Assumptions minimal_simple.

Theorem no_structure_single_path : forall g ign fuel nr ar, simple_table g [false] ->
  (3 <= fuel)%nat -> get_paths fuel g nr ar ign = Some [[0]].
Proof. exact Proofs.C09_simple.no_structure_single_path. Qed.
Print Assumptions no_structure_single_path.

(* a part without navigation marks has exactly one segment first..last going to END (all first < last);
   being the first segment it is a leap destination wherever the part starts *)
Theorem no_marks_segments : forall first last, first < last ->
  make_segments (mkMarks first last [] [] [] [] [] [] [] []) = [mkSeg 0 first last [END] [] TLEAP_END].
Proof. exact no_marks_segments_lemma. Qed.
Print Assumptions no_marks_segments.

(* ---- O3 from the marks (FINITE domain, complete enumeration checked in the kernel):
   every set of <= 4 pairwise disjoint repeats on the boundaries 0..7 of a 7-measure part gives a
   simple table with one flagged segment per repeat, hence 2^r distinct variants, maximal = each
   repeated section twice, minimal = once ---- *)
Theorem simple_repeats_paths : forall reps ign,
  disjoint_from 0 NMEAS reps -> (length reps <= 4)%nat ->
  let g := make_segments (rep_marks NMEAS reps) in
  let bs := flags_of g in
  nrep bs = length reps /\
  (exists ps, get_paths FUEL g false false ign = Some ps /\ length ps = Nat.pow 2 (length reps) /\ NoDup ps) /\
  get_paths FUEL g false true ign = Some [maxsfx 0 bs] /\
  get_paths FUEL g true false ign = Some [minsfx 0 bs].
Proof. exact simple_repeats_paths_lemma. Qed.
Print Assumptions simple_repeats_paths.

(* FINITE domain: 189 layouts (head 0..2 measures, body 1..3, seven ending patterns with single and
   comma numbers incl. "1,2 / 3", "1 / 2,3", "1,2 / 3,4", three and four endings, tail 0..2):
   maximal = one pass per number with the ending holding that number, minimal = once with the last *)
Theorem volta_unfolding : forall l ign, In l volta_layouts ->
  let g := make_segments (vl_marks l) in
  single_path_measures g (get_paths FUEL g false true ign) = Some (vl_reference true l) /\
  single_path_measures g (get_paths FUEL g true false ign) = Some (vl_reference false l).
Proof. exact volta_unfolding_lemma. Qed.
Print Assumptions volta_unfolding.

(* FINITE domain: the 63 of these layouts that start the piece (head 0), written WITHOUT any repeat sign
   (the endings repeat from the beginning), with the part starting at time 0 or 5: same reading *)
Theorem volta_from_start : forall l first ign, In l volta_layouts -> vl_head l = 0 -> In first [0; 5] ->
  let g := make_segments (vl_marks_nosigns first l) in
  single_path_measures g (get_paths FUEL g false true ign) = Some (map (Z.add first) (vl_reference true l)) /\
  single_path_measures g (get_paths FUEL g true false ign) = Some (map (Z.add first) (vl_reference false l)).
Proof. exact volta_from_start_lemma. Qed.
Print Assumptions volta_from_start.

(* ---- O1/O2 variant construction, all object lists and all visit lists (induction) ---- *)

(* every object of the variant is the copy, shifted by (offset - segment start), of an original
   object of a visited segment, with the same class and attributes (pitch, voice, staff); its end is
   the shifted end, clamped to the length of the unfolded part *)
Theorem variant_origin : forall objs vs n, In n (variant objs vs) ->
  exists v, In v (with_off vs 0 0) /\ origin_c objs (total_len vs) v n.
Proof. exact variant_origin_lemma. Qed.
Print Assumptions variant_origin.

(* the notes/rests/grace notes are exactly the shifted copies per visit, in visit order
   (list equality, hence the multiset statement), ends clamped to the length of the unfolded part *)
Theorem variant_notes : forall objs vs,
  notes_of (variant objs vs) = map (clip_view (total_len vs)) (expected_notes objs vs 0 0).
Proof. exact variant_notes_lemma. Qed.
Print Assumptions variant_notes.

(* ... and with unchanged durations when no note sounds beyond the end of its segment *)
Theorem variant_notes_contained : forall objs vs,
  Forall (fun v => fst v <= snd v) vs -> notes_contained objs vs ->
  notes_of (variant objs vs) = expected_notes objs vs 0 0.
Proof. exact variant_notes_contained_lemma. Qed.
Print Assumptions variant_notes_contained.

Theorem identity_notes : forall objs first last,
  first <= last -> notes_contained objs [(first, last)] ->
  notes_of (variant objs [(first, last)]) =
  map (note_copy (0 - first)) (filter (fun ob => in_seg first last ob && is_notecls (o_cls ob)) objs).
Proof. exact identity_notes_lemma. Qed.
Print Assumptions identity_notes.

(* no Repeat, Ending, ToCoda, DaCapo, DalSegno (nor Segment, System, Page) remains *)
Theorem variant_no_nav : forall objs vs n, In n (variant objs vs) -> is_skip (n_cls n) = false.
Proof. exact variant_no_nav_lemma. Qed.
Print Assumptions variant_no_nav.

(* every reference of a copied object is None or a regular copy of the same visit that is in the variant *)
Theorem variant_refs_closed : forall objs vs n,
  In n (variant objs vs) -> n_extra n = false -> closed_in (variant objs vs) n.
Proof. exact variant_refs_closed_lemma. Qed.
Print Assumptions variant_refs_closed.

Theorem variant_extras : forall objs vs n,
  In n (variant objs vs) -> n_extra n = true -> n_cls n = cls_fermata.
Proof. exact variant_extras_lemma. Qed.
Print Assumptions variant_extras.

Theorem variant_positions : forall objs vs n,
  Forall (fun v => fst v <= snd v) vs -> In n (variant objs vs) -> 0 <= n_start n <= total_len vs.
Proof. exact variant_positions_lemma. Qed.
Print Assumptions variant_positions.

(* no copy ends after the sum of the visited segments' lengths (all object lists, all visit lists) *)
Theorem variant_ends : forall objs vs n x,
  In n (variant objs vs) -> n_end n = Some x -> x <= total_len vs.
Proof. exact variant_ends_lemma. Qed.
Print Assumptions variant_ends.

(* length = sum of the visited segments' lengths: with an object at the first start and one ending
   at the last end the variant spans exactly [0, total_len] (no containment hypothesis any more:
   ends are clamped, the former known finding C09-K1 is repaired) *)
Theorem variant_length : forall objs s0 e0 mid sl el o0 o1,
  let vs := (s0, e0) :: mid ++ [(sl, el)] in
  Forall (fun v => fst v <= snd v) vs ->
  In o0 objs -> is_skip (o_cls o0) = false -> is_sigcls (o_cls o0) = false -> o_start o0 = s0 -> s0 < e0 ->
  In o1 objs -> is_skip (o_cls o1) = false -> is_sigcls (o_cls o1) = false -> in_seg sl el o1 = true -> o_end o1 = Some el ->
  (exists n, In n (variant objs vs) /\ n_start n = 0) /\
  (exists n, In n (variant objs vs) /\ n_end n = Some (total_len vs)) /\
  (forall n, In n (variant objs vs) -> 0 <= n_start n <= total_len vs) /\
  (forall n x, In n (variant objs vs) -> n_end n = Some x -> x <= total_len vs).
Proof. exact variant_length_lemma. Qed.
Print Assumptions variant_length.

(* ids suffixed with the visit number: the copy of a note made in visit k gets 1 + the number of
   earlier visits whose segment contains the note (distinct original ids) *)
Theorem id_suffix_visit_number : forall objs vs k s e off o n,
  NoDup (map o_id objs) -> Forall (fun v => fst v <= snd v) vs ->
  In (k, s, e, off) (with_off vs 0 0) -> In o objs -> is_pitched (o_cls o) = true -> in_seg s e o = true ->
  n_id n = o_id o -> n_cls n = o_cls o -> n_start n = o_start o + (off - s) ->
  id_suffix (variant objs vs) n =
  1 + Z.of_nat (length (filter (fun v => visit_before k v && visit_holds o v) (with_off vs 0 0))).
Proof. exact id_suffix_visit_number_lemma. Qed.
Print Assumptions id_suffix_visit_number.

(* division changes inside repeated or skipped sections: at every position of every visit the
   divisions per quarter in force in the unfolded part are those in force at the original position *)
Theorem variant_qd_inforce : forall d tbl vs k s e off t,
  times_sorted tbl -> Forall (fun v => fst v <= snd v) vs ->
  In (k, s, e, off) (with_off vs 0 0) -> s <= t < e ->
  qd_at d (variant_qd d tbl vs) (off + (t - s)) = qd_at d tbl t.
Proof. exact variant_qd_inforce_lemma. Qed.
Print Assumptions variant_qd_inforce.

(* the normal form under which the correspondence compares tables of quarter durations / signature
   changes keeps the value in force at every time *)
Theorem qnorm_inforce : forall tbl d t, times_sorted tbl -> qd_at d (qnorm tbl) t = qd_at d tbl t.
Proof. exact qnorm_inforce_lemma. Qed.
Print Assumptions qnorm_inforce.

(* ---- navigation marks (FINITE domain, complete enumeration proved complete, kernel-checked):
   one jump (D.C., or D.S. with its Segno), optionally al Fine or al Coda (To Coda + Coda), at most
   two disjoint repeats of at most two measures, five measures: for the three policies and both
   values of ignore_leaps the path search returns exactly the readings the notation permits
   (nav_reference: straight through, or up to the jump mark, from the destination to the Fine /
   To Coda / end, then from the Coda; every repeat once or twice, once only after the jump unless
   leaps are ignored; maximal = all repeats, taking the jump only when written at the very end,
   minimal = no repeats, taking the jump unless written at the very end), as a sorted list of measure
   sequences.  nav_clean excludes the arrangements on which partitura deviates: known finding
   C09-K2 (nav_k2), a repeat ending at the jump mark, a Coda directly at the jump mark followed by
   repeats ---- *)
Theorem navigation_unfolding : forall l nr ar ign,
  nav_domain l -> nav_clean l = true ->
  let g := make_segments (nav_marks l) in
  nav_paths_sorted g nr ar ign = Some (lsort (nav_reference l (mode_of nr ar) (ign || nr))).
Proof. exact navigation_unfolding_lemma. Qed.
Print Assumptions navigation_unfolding.

(* known finding C09-K2, exact boundary in the model: the textbook D.S. al Coda (Segno 1, To Coda 2,
   D.S. and Coda 3, no boundary between Segno and To Coda) has NO unfolding under the all-variants
   and the minimal policy (the jump back to the segno segment is not recognised as a leap; 400
   segments are beyond the 100 laps after which partitura raises IndexError) *)
Theorem unfolding_refuted_unrecognised_leap :
  nav_domain ds_al_coda_textbook /\ nav_k2 ds_al_coda_textbook = true /\
  forall ar ign fuel, In fuel [64%nat; 400%nat] ->
    get_paths fuel (make_segments (nav_marks ds_al_coda_textbook)) true ar ign = None /\
    get_paths fuel (make_segments (nav_marks ds_al_coda_textbook)) false false ign = None.
Proof. exact ds_al_coda_textbook_refuted_lemma. Qed.
Print Assumptions unfolding_refuted_unrecognised_leap.

(* ---- the public entry points (Model/C09_api.v) ---- *)

(* unfold_part_maximal on a part with independent simple repeats is the variant along the path
   playing every repeated section twice; its notes are the per-visit shifted copies *)
Theorem api_maximal_simple : forall g bs objs ign,
  simple_table g bs -> bs <> [] -> (length bs <= 31)%nat ->
  api_maximal g objs ign = part_along g objs (maxsfx 0 bs).
Proof. exact api_maximal_simple_lemma. Qed.
Print Assumptions api_maximal_simple.

Theorem api_maximal_notes : forall g bs objs ign vs,
  simple_table g bs -> bs <> [] -> (length bs <= 31)%nat ->
  visits_of g (maxsfx 0 bs) = Some vs ->
  exists all, api_maximal g objs ign = Some all /\
              notes_of all = map (clip_view (total_len vs)) (expected_notes objs vs 0 0).
Proof. exact api_maximal_notes_lemma. Qed.
Print Assumptions api_maximal_notes.

Theorem api_minimal_simple : forall g bs objs,
  simple_table g bs -> bs <> [] -> (length bs <= 31)%nat ->
  api_minimal g objs = part_along g objs (minsfx 0 bs).
Proof. exact api_minimal_simple_lemma. Qed.
Print Assumptions api_minimal_simple.

Theorem api_minimal_notes : forall g bs objs vs,
  simple_table g bs -> bs <> [] -> (length bs <= 31)%nat ->
  visits_of g (minsfx 0 bs) = Some vs ->
  exists all, api_minimal g objs = Some all /\
              notes_of all = map (clip_view (total_len vs)) (expected_notes objs vs 0 0).
Proof. exact api_minimal_notes_lemma. Qed.
Print Assumptions api_minimal_notes.

(* iter_unfolded_parts / make_score_variants: one part per combination, 2^r of them *)
Theorem api_iter_simple : forall g bs objs,
  simple_table g bs -> bs <> [] -> (length bs <= 31)%nat ->
  exists parts, api_iter g objs = Some parts /\ parts = map (part_along g objs) (sfx 0 bs) /\
                length parts = Nat.pow 2 (nrep bs).
Proof. exact api_iter_simple_lemma. Qed.
Print Assumptions api_iter_simple.

(* a part without repeat structure: every entry point returns the copy of the whole part
   (whose notes are the original's by identity_notes) *)
Theorem api_no_structure : forall first last objs ign,
  first < last ->
  let g := make_segments (mkMarks first last [] [] [] [] [] [] [] []) in
  let whole := variant objs [(first, last)] in
  api_maximal g objs ign = Some whole /\ api_minimal g objs = Some whole /\
  api_iter g objs = Some [Some whole] /\
  (forall want, api_alignment g objs want = Some whole).
Proof. exact api_no_structure_lemma. Qed.
Print Assumptions api_no_structure.

(* unfold_part_alignment: the part returned is a variant of the all-variants policy whose score
   (aligned ids covered, number of notes) no other variant beats -- most coverage, then fewest
   notes -- and the first such variant *)
Theorem api_alignment_spec : forall g objs want all,
  api_alignment g objs want = Some all ->
  exists ps k p,
    get_paths FUEL g false false true = Some ps /\ nth_error ps k = Some p /\
    part_along g objs p = Some all /\
    first_unbeaten (map (fun o => match o with Some a => align_score want a | None => (-1, 0) end)
                        (map (part_along g objs) ps)) k.
Proof. exact api_alignment_spec_lemma. Qed.
Print Assumptions api_alignment_spec.

(* ---- independent simple repeats from the MARKS, unbounded (induction; any number of repeats, any
   times, adjacent repeats, repeats from the first / up to the last time point, any first time):
   make_segments yields a simple table with exactly one flagged segment per repeat, that segment
   being the repeated section ---- *)
Theorem simple_repeats_table_unbounded : forall first last reps,
  disjoint_from first last reps -> first < last ->
  let g := make_segments (mkMarks first last reps [] [] [] [] [] [] []) in
  let bs := flags_of g in
  simple_table g bs /\ bs <> [] /\ nrep bs = length reps /\
  (length g <= 2 * length reps + 1)%nat /\
  (forall r, In r reps -> exists i s, nth_error g i = Some s /\ nth i bs false = true /\
                                      s_start s = fst r /\ s_end s = snd r).
Proof. exact simple_repeats_table_unbounded_lemma. Qed.
Print Assumptions simple_repeats_table_unbounded.

(* ... hence a part with r independent simple repeats has 2^r distinct variants, the maximal policy
   plays each repeated section twice and the minimal one once -- for ALL such parts (the fuel bound
   4r + 3 <= 64 of the evaluated model covers r <= 15) *)
Theorem simple_repeats_unbounded : forall first last reps ign fuel,
  disjoint_from first last reps -> first < last -> (4 * length reps + 3 <= fuel)%nat ->
  let g := make_segments (mkMarks first last reps [] [] [] [] [] [] []) in
  let bs := flags_of g in
  nrep bs = length reps /\
  (exists ps, get_paths fuel g false false ign = Some ps /\ length ps = Nat.pow 2 (length reps) /\ NoDup ps) /\
  get_paths fuel g false true ign = Some [maxsfx 0 bs] /\
  get_paths fuel g true false ign = Some [minsfx 0 bs].
Proof. exact simple_repeats_unbounded_lemma. Qed.
Print Assumptions simple_repeats_unbounded.

(* ---- state carried between calls (Model/C09_hist.v: the marks of the part now + the Segment objects
   registered by add_segments).  For EVERY history of changes of the marks (by Part.add / Part.remove, by
   TimePoint methods, by assigning Ending.number in place), add_segments / removal of the registered
   segments, and calls of the entry points -- within the documented use: a part with registered segments is
   refreshed (add_segments force_new=True) or loses them right after a change of its marks -- every call
   sees the segments of the marks the part has AT THAT MOMENT, and so does a call after the history ---- *)
Theorem history_reads_current_marks : forall m0 h,
  disciplined false h = true ->
  observed (mkPst m0 []) h = current (mkPst m0 []) h /\
  cur_segments (run (mkPst m0 []) h) = make_segments (p_marks (run (mkPst m0 []) h)).
Proof. exact history_reads_current_marks_lemma. Qed.
Print Assumptions history_reads_current_marks.

(* without add_segments there is nothing to keep in order: any history whatsoever *)
Theorem unregistered_history_reads_current_marks : forall m0 h,
  no_registration h = true ->
  observed (mkPst m0 []) h = current (mkPst m0 []) h.
Proof. exact unregistered_history_lemma. Qed.
Print Assumptions unregistered_history_reads_current_marks.

(* ... hence every entry point gives, after the history, what it gives on a freshly built part with the
   same marks (and the same objects) *)
Theorem history_entry_points_as_fresh : forall m0 h,
  disciplined false h = true ->
  let s := run (mkPst m0 []) h in
  (forall nr ar ign, obs_paths s nr ar ign = obs_paths (fresh s) nr ar ign) /\
  (forall objs ign, obs_maximal s objs ign = obs_maximal (fresh s) objs ign) /\
  (forall objs, obs_minimal s objs = obs_minimal (fresh s) objs) /\
  (forall objs, obs_iter s objs = obs_iter (fresh s) objs) /\
  (forall objs want, obs_alignment s objs want = obs_alignment (fresh s) objs want).
Proof. exact history_entry_points_lemma. Qed.
Print Assumptions history_entry_points_as_fresh.

(* not vacuous: a variant that keeps the segments made on the fly until Part.add / Part.remove plays
   |: m1 m2 [1. m3 :| [2. m4 | m5 with two passes after the brackets were renumbered "1, 2" / "3" in place
   (A-B-A-C-D instead of A-B-A-B-A-C-D), and is right when the change goes through Part.add / Part.remove *)
Theorem memoising_variant_refuted :
  disciplined false (ex_hist false) = true /\
  get_paths FUEL (second (observed (mkPst ex_m1 []) (ex_hist false))) false true true = Some [[0; 1; 0; 1; 0; 2; 3]] /\
  second (observed (mkPst ex_m1 []) (ex_hist false)) = second (current (mkPst ex_m1 []) (ex_hist false)) /\
  get_paths FUEL (second (memo_observed (mkMst ex_m1 None) (ex_hist false))) false true true = Some [[0; 1; 0; 2; 3]] /\
  list_eqb seg_eqb (second (memo_observed (mkMst ex_m1 None) (ex_hist false)))
                   (second (current (mkPst ex_m1 []) (ex_hist false))) = false /\
  memo_observed (mkMst ex_m1 None) (ex_hist true) = current (mkPst ex_m1 []) (ex_hist true).
Proof. exact memoising_variant_refuted_lemma. Qed.
Print Assumptions memoising_variant_refuted.

(* the hypothesis cannot be dropped: registered segments are not refreshed by a change of the marks
   (documented: add_segments force_new), they are after add_segments(part, force_new=True) *)
Theorem discipline_needed :
  let h := [OAddSegments false; OCall; OEdit true ex_m2; OCall] in
  disciplined false h = false /\
  get_paths FUEL (second (observed (mkPst ex_m1 []) h)) false true true = Some [[0; 1; 0; 2; 3]] /\
  get_paths FUEL (second (current (mkPst ex_m1 []) h)) false true true = Some [[0; 1; 0; 1; 0; 2; 3]] /\
  let h' := [OAddSegments false; OCall; OEdit true ex_m2; OAddSegments true; OCall] in
  disciplined false h' = true /\
  get_paths FUEL (second (observed (mkPst ex_m1 []) h')) false true true = Some [[0; 1; 0; 1; 0; 2; 3]].
Proof. exact discipline_needed_lemma. Qed.
Print Assumptions discipline_needed.

(* the exact boundary of known finding C09-K3 in the model: To Coda directly after a volta group whose last
   bracket is repeated ("2, 3" with a repeat sign): A-B-A-C-A-B-A-C-E instead of A-B-A-C-A-C-D-E; one measure
   later the reading is the notated one *)
Theorem tocoda_after_repeated_last_bracket_refuted :
  get_paths FUEL (make_segments ex_k3) false true true = Some [[0; 1; 0; 2; 0; 1; 0; 2; 4]] /\
  get_paths FUEL (make_segments (mkMarks 0 32 [(0, 12); (0, 16)] [(8, 12, [1]); (12, 16, [2; 3])] [24] [20] [24] [] [] []))
            false true true = Some [[0; 1; 0; 2; 0; 2; 3; 4; 5]].
Proof. exact tocoda_after_repeated_last_bracket_refuted_lemma. Qed.
Print Assumptions tocoda_after_repeated_last_bracket_refuted.

(* ---- the returned part shares no list with the argument or with its other copies (Model/C09_heap.v:
   copy(o) + replace_refs over heap cells; third hardening round) ---- *)

(* whatever is appended to a list held by a copy (any visit, any object, any attribute) of an unfolding, every
   list that existed before the unfolding -- the original's, an earlier unfolded part's -- reads as before *)
Theorem edit_of_copy_keeps_original : forall stride k vs st st' cs a x b,
  visits false stride k st vs = (st', cs) -> In a (flat_map addrs cs) -> (b < length st)%nat ->
  cell (append_at st' a x) b = cell st b.
Proof. exact edit_of_copy_keeps_original_lemma. Qed.
Print Assumptions edit_of_copy_keeps_original.

(* the copies of different visits, objects and attributes hold pairwise different lists *)
Theorem visits_share_nothing : forall stride vs k st st' cs,
  visits false stride k st vs = (st', cs) -> NoDup (flat_map addrs cs).
Proof. exact visits_share_nothing_lemma. Qed.
Print Assumptions visits_share_nothing.

(* not vacuous: replace_refs leaving an empty list alone (|: n :|, n without slurs) keeps the original's two lists in
   both visits; a slur appended to the first visit's copy shows in the original; the real one allocates 2..5 *)
Theorem skip_empty_variant_refuted :
  let '(st', cs) := visits true 100 1 [[]; []] [[ex_note]; [ex_note]] in
  flat_map addrs cs = [0; 1; 0; 1]%nat /\
  cell (append_at st' 0 77) 0 = [77] /\ cell [[]; []] 0 = [] /\
  let '(st2, cs2) := visits false 100 1 [[]; []] [[ex_note]; [ex_note]] in
  flat_map addrs cs2 = [2; 3; 4; 5]%nat /\ cell (append_at st2 2 77) 0 = [] /\ cell (append_at st2 2 77) 4 = [].
Proof. exact skip_empty_variant_refuted_lemma. Qed.
Print Assumptions skip_empty_variant_refuted.

(* ---- Round j: jump destinations are consumed in cyclic order (Model/C09_cycle.v) ---- *)
(* `dests_of to used nr ar` = Path.list_of_destinations_from_last_segment (the `dests` of Model/C09.v) of a
   path standing on a segment with destination list `to` from which the destinations `used` were taken;
   `cyc_used to q r` = q full rounds through `to` and r+1 further destinations *)

(* the index computed from "the count-th occurrence of the last destination in destinations*100, modulo
   the length" is the place of the last destination taken -- for ANY destination list (duplicates as
   "1, 2" brackets give them) and any number of rounds below 100; IndexError from the 100th round on *)
Theorem last_dest_index_cyclic : forall to q r, (r < length to)%nat ->
  last_dest_index to (cyc_used to q r) = if (q <? 100)%nat then Some (Z.of_nat r) else None.
Proof. exact last_dest_index_cyc. Qed.
Print Assumptions last_dest_index_cyclic.

(* maximal policy: exactly one destination, the next in cyclic order (the first again after the last) *)
Theorem dests_maximal_cyclic : forall to q r, (r < length to)%nat -> (q < 100)%nat ->
  dests_of to (cyc_used to q r) false true = Some [nth (next_place (length to) r) to (-3)].
Proof. exact dests_maximal_cyclic_lemma. Qed.
Print Assumptions dests_maximal_cyclic.

(* all-variants policy: the destinations behind the last one taken; all of them after the last *)
Theorem dests_all_variants_cyclic : forall to q r, (r < length to)%nat -> (q < 100)%nat ->
  dests_of to (cyc_used to q r) false false = Some (if (S r <? length to)%nat then skipn (S r) to else to).
Proof. exact dests_all_variants_cyclic_lemma. Qed.
Print Assumptions dests_all_variants_cyclic.

(* minimal policy: the last destination, whatever was taken before *)
Theorem dests_minimal_last : forall to q r ar, (r < length to)%nat -> (q < 100)%nat ->
  dests_of to (cyc_used to q r) true ar = Some [zlast to].
Proof. exact dests_minimal_last_lemma. Qed.
Print Assumptions dests_minimal_last.

(* the 100-round limit (the mechanism behind the IndexError of known finding C09-K2) *)
Theorem dests_hundred_rounds : forall to q r nr ar, (r < length to)%nat -> (100 <= q)%nat ->
  dests_of to (cyc_used to q r) nr ar = None.
Proof. exact dests_hundred_rounds_lemma. Qed.
Print Assumptions dests_hundred_rounds.

(* every path state of the search reads its destinations like that: `dests` depends on the table only
   through the destination list of the last segment and the destinations used from it *)
Theorem dests_is_local : forall st sg, find_seg (zlast (p_path st)) (p_segs st) = Some sg ->
  dests st = dests_of (s_to sg) (used_of (zlast (p_path st)) (p_used st)) (p_norep st) (p_allrep st).
Proof. exact dests_local. Qed.
Print Assumptions dests_is_local.

(* chaining: a segment left k times under the maximal policy (k up to 100 rounds) has used its
   destinations in cyclic order *)
Theorem depart_cyclic : forall to k, to <> [] -> (1 <= k <= 100 * length to)%nat ->
  depart k to [] false true = Some (cyc_used to ((k - 1) / length to) ((k - 1) mod length to)).
Proof. exact depart_cyclic_lemma. Qed.
Print Assumptions depart_cyclic.

(* the whole search, maximal policy, ANY segment table without a leap start (any number of repeats and
   volta groups, nested in any way, any fuel): along every returned path every segment is left along
   its destinations in cyclic order -- first, second, ..., last, first again; the last segment for END.
   "The maximal unfolding plays each repeated section the notated number of times with the matching
   ending", at the level of the table, nested repeats included *)
Theorem maximal_walk_cyclic : forall fuel g ign ps,
  leap_free g = true -> get_paths fuel g false true ign = Some ps ->
  forall p, In p ps -> forall s sg, find_seg s g = Some sg ->
    succs s p = [] \/ exists q r, (r < length (s_to sg))%nat /\ succs s p = cyc_used (s_to sg) q r.
Proof. exact maximal_walk_cyclic_lemma. Qed.
Print Assumptions maximal_walk_cyclic.

(* ... and there is exactly one such path *)
Theorem maximal_single_path : forall fuel g ign ps,
  leap_free g = true -> get_paths fuel g false true ign = Some ps -> exists p, ps = [p].
Proof. exact maximal_single_path_lemma. Qed.
Print Assumptions maximal_single_path.

(* minimal policy on ANY table without a leap start: one path, and every segment is always left for its LAST
   destination ("the minimal one plays each section once with the last ending", table level, nested included) *)
Theorem minimal_walk_last : forall fuel g ar ign ps,
  leap_free g = true -> get_paths fuel g true ar ign = Some ps ->
  exists p, ps = [p] /\
    forall s sg, find_seg s g = Some sg -> forall d, In d (succs s p) -> d = zlast (s_to sg).
Proof. exact minimal_walk_last_lemma. Qed.
Print Assumptions minimal_walk_last.

Theorem nested_repeat_minimal_example :
  get_paths FUEL nested_table true false true = Some [[0; 1; 2; 3]] /\
  succs 1 [0; 1; 2; 3] = [2] /\ succs 2 [0; 1; 2; 3] = [3].
Proof. exact nested_minimal_example. Qed.
Print Assumptions nested_repeat_minimal_example.

(* not vacuous: |: m1 |: m2 :| m3 :| m4 m5 as _make_segments builds it *)
Theorem nested_repeat_example :
  leap_free nested_table = true /\
  get_paths FUEL nested_table false true true = Some [[0; 1; 1; 2; 0; 1; 1; 2; 3]] /\
  succs 1 [0; 1; 1; 2; 0; 1; 1; 2; 3] = cyc_used [1; 2] 1 1 /\
  succs 2 [0; 1; 1; 2; 0; 1; 1; 2; 3] = cyc_used [0; 3] 0 1 /\
  succs 3 [0; 1; 1; 2; 0; 1; 1; 2; 3] = cyc_used [END] 0 0.
Proof. exact nested_example. Qed.
Print Assumptions nested_repeat_example.

(* the statements discriminate: the clamped index (seed j) offers the last destination again where the
   first is due; the path it yields on the nested table (A B B C A B C D) is not cyclic at B; the index
   by number of jumps (seed d) differs once the all-variants policy skipped a destination *)
Theorem clamped_variant_refuted :
  let to := [0; 2] in
  dests_of to (cyc_used to 0 1) false true = Some [nth (next_place 2 1) to (-3)] /\
  dests_clamped to (cyc_used to 0 1) <> Some [nth (next_place 2 1) to (-3)] /\
  dests_clamped to (cyc_used to 0 1) = Some [2].
Proof. exact clamped_variant_refuted_lemma. Qed.
Print Assumptions clamped_variant_refuted.

Theorem clamped_path_refuted :
  succs 1 [0; 1; 1; 2; 0; 1; 2; 3] = [1; 2; 2] /\
  forall q r, (r < 2)%nat -> succs 1 [0; 1; 1; 2; 0; 1; 2; 3] <> cyc_used [1; 2] q r.
Proof. exact nested_clamped_path_refuted. Qed.
Print Assumptions clamped_path_refuted.

Theorem by_count_variant_refuted :
  dests_of [2; 3; 4] [3] false true = Some [4] /\ dests_by_count [2; 3; 4] [3] = Some [3].
Proof. exact by_count_variant_refuted_lemma. Qed.
Print Assumptions by_count_variant_refuted.
