(* C02 -- quarter and beat maps are exact, monotone and mutually inverse.
   Statements + `exact` only; proofs live in Proofs/C02.v and Proofs/C02_lib.v.
   The model (Model/C02.v) is Part._time_interpolator / quarter_duration_map of partitura/score.py;
   tmapz Quarter = quarter_map, tmapz Beat / tmapz Musical = beat_map in notated / musical mode,
   tinv = the inverse maps, on the timeline [p_first, p_last] of a part with >= 2 points.
   The same definitions are evaluated on every generated part by the correspondence check. *)
From PV Require Import Lib.Base Model.C02 Model.C02_Hist Model.C02_Api Gen.C02_Tab Proofs.C02_lib Proofs.C02 Proofs.C02_hist Proofs.C02_api Model.C02_Req Proofs.C02_req Model.C02_Query Proofs.C02_query.
From Coq Require Import QArith.
#[local] Open Scope Z_scope.

(* --- O1/O2 exactness: the difference of two map values is the sum, over every division in
   between, of 1/q (times the beat factor) in force -- hence no jump at any change point *)
Theorem qmap_exact : forall p a b va vb, wf p -> p_first p <= a <= b /\ b <= p_last p ->
  tmapz Quarter p a = Some va -> tmapz Quarter p b = Some vb -> (vb - va == quarters_between p a b)%Q.
Proof. exact Proofs.C02.qmap_diff. Qed.
Print Assumptions qmap_exact.

Theorem bmap_exact : forall m p, wf p -> forall a b va vb, p_first p <= a <= b /\ b <= p_last p ->
  tmapz m p a = Some va -> tmapz m p b = Some vb -> (vb - va == beats_between m p a b)%Q.
Proof. exact Proofs.C02.tmap_diff. Qed.
Print Assumptions bmap_exact.

(* the maps are defined on the whole timeline *)
Theorem map_total : forall m p, wf p -> forall t, p_first p <= t <= p_last p ->
  exists v, tmapz m p t = Some v /\ (v == Fint m p t - pickup_shift m p)%Q.
Proof. exact Proofs.C02.tmap_value. Qed.
Print Assumptions map_total.

(* the spec, unfolded: d divisions under constant quarter duration q last d/q quarters ... *)
Theorem quarters_between_const : forall p a b q, a <= b -> (forall k, a <= k < b -> div_at p k = q) -> 0 < q ->
  (quarters_between p a b == inject_Z (b - a) / inject_Z q)%Q.
Proof. exact Proofs.C02.quarters_between_const. Qed.
Print Assumptions quarters_between_const.

(* ... and (d/q) * f beats, f = beat_type/4 (times musical_beats/beats) of the signature in force *)
Theorem beats_between_const : forall m p a b q f, a <= b ->
  (forall k, a <= k < b -> div_at p k = q /\ (bt_at m p k == f)%Q) -> 0 < q ->
  (beats_between m p a b == (inject_Z (b - a) / inject_Z q) * f)%Q.
Proof. exact Proofs.C02.beats_between_const. Qed.
Print Assumptions beats_between_const.

Theorem beats_between_split : forall m p a b c, a <= b <= c ->
  (beats_between m p a c == beats_between m p a b + beats_between m p b c)%Q.
Proof. exact Proofs.C02.beats_between_split. Qed.
Print Assumptions beats_between_split.

(* "in force": the entry with the greatest start <= k *)
Theorem div_in_force : forall p k q, keys_incr (p_qs p) -> in_force (p_qs p) k q -> div_at p k = q.
Proof. exact Proofs.C02.div_at_spec. Qed.
Print Assumptions div_in_force.

Theorem beat_factor_in_force : forall m p k ts, m <> Quarter ->
  keys_incr (map (fun ts => (ts_t ts, ts)) (p_tss p)) ->
  in_force (map (fun ts => (ts_t ts, ts)) (p_tss p)) k ts -> bt_at m p k = ts_factor m ts.
Proof. exact Proofs.C02.bt_at_spec. Qed.
Print Assumptions beat_factor_in_force.

(* before the first time signature a beat is a quarter (cur_bt = 1 in the code) *)
Theorem beat_factor_default : forall m p k, (forall ts, In ts (p_tss p) -> k < ts_t ts) -> bt_at m p k = 1%Q.
Proof. exact Proofs.C02.bt_at_before. Qed.
Print Assumptions beat_factor_default.

(* --- O2 monotone, strictly *)
Theorem map_monotone : forall m p, wf p -> forall a b va vb, p_first p <= a <= b /\ b <= p_last p ->
  tmapz m p a = Some va -> tmapz m p b = Some vb -> (va <= vb)%Q.
Proof. exact Proofs.C02.tmap_monotone. Qed.
Print Assumptions map_monotone.

Theorem map_strict : forall m p, wf p -> forall a b va vb, p_first p <= a < b /\ b <= p_last p ->
  tmapz m p a = Some va -> tmapz m p b = Some vb -> (va < vb)%Q.
Proof. exact Proofs.C02.tmap_strict. Qed.
Print Assumptions map_strict.

(* --- O4 the inverse map undoes the forward map wherever the latter is defined (every rational
   position between the smallest keypoint and the last one, in particular the whole timeline) *)
Theorem inv_fwd : forall m p, wf p -> forall t v : Q, tmap m p t = Some v ->
  exists t', tinv m p v = Some t' /\ (t' == t)%Q.
Proof. exact Proofs.C02.inv_fwd. Qed.
Print Assumptions inv_fwd.

(* --- O3 origin.  kp_min = smallest keypoint (division 0 for every real part, whose quarter
   durations start at 0).  When the first point is that keypoint: *)
Theorem origin_no_pickup : forall m p, wf p -> forall v, kp_min m p = p_first p ->
  (pickup_shift m p == 0)%Q -> tmapz m p (p_first p) = Some v -> (v == 0)%Q.
Proof. exact Proofs.C02.origin_no_pickup. Qed.
Print Assumptions origin_no_pickup.

Theorem origin_full_bar : forall m p, wf p -> forall e ts v, kp_min m p = p_first p ->
  p_m1 p = Some (p_first p, e) -> ts_at_first p = Some ts -> p_first p <= e <= p_last p ->
  (normal_dur m ts <= beats_between m p (p_first p) e)%Q ->
  tmapz m p (p_first p) = Some v -> (v == 0)%Q.
Proof. exact Proofs.C02.origin_full_bar. Qed.
Print Assumptions origin_full_bar.

Theorem origin_pickup : forall m p, wf p -> forall e ts v, kp_min m p = p_first p ->
  p_m1 p = Some (p_first p, e) -> ts_at_first p = Some ts -> p_first p <= e <= p_last p ->
  (beats_between m p (p_first p) e < normal_dur m ts)%Q ->
  tmapz m p e = Some v -> (v == 0)%Q.
Proof. exact Proofs.C02.origin_pickup. Qed.
Print Assumptions origin_pickup.

(* in general the origin is the smallest keypoint, not the first point ... *)
Theorem origin_general : forall m p, wf p -> forall v, tmapz m p (p_first p) = Some v ->
  (v == beats_between m p (kp_min m p) (p_first p) - pickup_shift m p)%Q.
Proof. exact Proofs.C02.origin_general. Qed.
Print Assumptions origin_general.

(* ... so the property's origin clause fails when the first point is later than division 0
   (known finding C02-K1 / D04): first point 5, divisions 4, no pickup, quarter_map(5) = 5/4 *)
Theorem origin_first_gt0_refuted :
  exists p v, wf p /\ 0 < p_first p /\ (pickup_shift Quarter p == 0)%Q /\
              tmapz Quarter p (p_first p) = Some v /\ ~ (v == 0)%Q.
Proof. exact Proofs.C02.origin_first_gt0_refuted. Qed.
Print Assumptions origin_first_gt0_refuted.

(* --- O5 quarter_duration_map = divisions in force (the first entry's before it) *)
Theorem qd_map_spec : forall p t, keys_incr (p_qs p) ->
  (forall q, in_force (p_qs p) t q -> qd_map p t = q) /\
  ((forall k v, In (k, v) (p_qs p) -> t < k) -> forall k0 v0 r, p_qs p = (k0, v0) :: r -> qd_map p t = v0).
Proof. exact Proofs.C02.qd_map_spec. Qed.
Print Assumptions qd_map_spec.

(* --- musical beats: 6 -> 2, 9 -> 3, 12 -> 4, else the notated beats *)
Theorem musical_default_spec : forall b,
  musical_default b = if b =? 6 then 2 else if b =? 9 then 3 else if b =? 12 then 4 else b.
Proof. exact Proofs.C02.musical_default_spec. Qed.
Print Assumptions musical_default_spec.

(* the implementation's TimeSignature(b, _).musical_beats and the reset by
   set_musical_beat_per_ts({}) equal the model for all 1 <= b <= 64 (tables regenerated from the source) *)
Theorem impl_musical_default : forall b, 1 <= b <= 64 ->
  In (b, musical_default b) tab_ts_musical /\ In (b, musical_default b) tab_ts_reset.
Proof. exact Proofs.C02.impl_musical_default. Qed.
Print Assumptions impl_musical_default.

Theorem set_mus_spec : forall tab ts,
  ts_mus (set_mus tab ts) = match tab_lookup (ts_beats ts) (ts_type ts) tab with
                            | Some v => v | None => musical_default (ts_beats ts) end /\
  ts_t (set_mus tab ts) = ts_t ts /\ ts_beats (set_mus tab ts) = ts_beats ts /\ ts_type (set_mus tab ts) = ts_type ts.
Proof. exact Proofs.C02.set_mus_spec. Qed.
Print Assumptions set_mus_spec.

(* --- "all change points": the maps on the whole keypoint range [kp_min, kp_max], which contains the
   timeline and every change point, also those before the first / after the last time point *)
Theorem change_points_in_range : forall m p, wf p ->
  (kp_min m p <= p_first p /\ p_last p <= kp_max m p) /\
  (forall k q, In (k, q) (p_qs p) -> kp_min m p <= k <= kp_max m p) /\
  (forall k f, In (k, f) (bt_table m p) -> kp_min m p <= k <= kp_max m p).
Proof. exact Proofs.C02_hist.change_points_in_range. Qed.
Print Assumptions change_points_in_range.

Theorem map_total_all : forall m p, wf p -> forall t, kp_min m p <= t <= kp_max m p ->
  exists v, tmapz m p t = Some v /\ (v == Fint m p t - pickup_shift m p)%Q.
Proof. exact Proofs.C02_hist.tmap_value_all. Qed.
Print Assumptions map_total_all.

Theorem bmap_exact_all : forall m p, wf p -> forall a b va vb, kp_min m p <= a <= b /\ b <= kp_max m p ->
  tmapz m p a = Some va -> tmapz m p b = Some vb -> (vb - va == beats_between m p a b)%Q.
Proof. exact Proofs.C02_hist.tmap_diff_all. Qed.
Print Assumptions bmap_exact_all.

Theorem map_strict_all : forall m p, wf p -> forall a b va vb, kp_min m p <= a < b /\ b <= kp_max m p ->
  tmapz m p a = Some va -> tmapz m p b = Some vb -> (va < vb)%Q.
Proof. exact Proofs.C02_hist.tmap_strict_all. Qed.
Print Assumptions map_strict_all.

(* before the smallest keypoint the maps are undefined (nan) *)
Theorem map_undefined_before : forall m p, wf p -> forall t, t < kp_min m p -> tmapz m p t = None.
Proof. exact Proofs.C02_hist.tmap_outside. Qed.
Print Assumptions map_undefined_before.

(* --- the part as the public API builds it (Model/C02_Hist.v): set_quarter_duration in ANY call order.
   The change table stays sorted ... *)
Theorem setqd_sorted : forall t q tbl, keys_incr tbl -> keys_incr (setqd t q tbl).
Proof. exact Proofs.C02_hist.setqd_sorted. Qed.
Print Assumptions setqd_sorted.

(* ... after set_quarter_duration(t, q) the value q is in force from t up to the next recorded change,
   and what was in force anywhere else is unchanged (whether or not the call was recorded) ... *)
Theorem setqd_step : forall t q tbl s d, keys_incr tbl ->
  prev_lookup (setqd t q tbl) s d = if (t <=? s) && before_next t tbl s then q else prev_lookup tbl s d.
Proof. exact Proofs.C02_hist.setqd_lookup. Qed.
Print Assumptions setqd_step.

Theorem before_next_spec : forall t s tbl, keys_incr tbl ->
  (before_next t tbl s = true <-> forall k v, In (k, v) tbl -> t < k -> s < k).
Proof. exact Proofs.C02_hist.before_next_spec. Qed.
Print Assumptions before_next_spec.

(* ... which is what the plain change table (last write per time wins, dict_set) gives ... *)
Theorem setqd_last_write_wins : forall t q tbl s d, keys_incr tbl ->
  prev_lookup (setqd t q tbl) s d = prev_lookup (dict_set t q tbl) s d.
Proof. exact Proofs.C02_hist.setqd_as_dict. Qed.
Print Assumptions setqd_last_write_wins.

(* ... no change time is lost and at most t is added *)
Theorem setqd_change_times : forall t q tbl k v,
  (In (k, v) (setqd t q tbl) -> (k = t /\ v = q) \/ In (k, v) tbl) /\
  (In (k, v) tbl -> exists v', In (k, v') (setqd t q tbl)).
Proof. exact Proofs.C02_hist.setqd_change_times. Qed.
Print Assumptions setqd_change_times.

(* entering the changes in time order, each value different from the one before, leaves the list itself *)
Theorem setq_time_order : forall q0 l, chain_changes 0 q0 l ->
  fold_left (fun tbl w => setqd (fst w) (snd w) tbl) l [(0, q0)] = (0, q0) :: l.
Proof. exact Proofs.C02_hist.setq_time_order. Qed.
Print Assumptions setq_time_order.

(* every history of set_quarter_duration / add(TimeSignature) / musical-beat switches, in any order
   (non-negative times, positive values, one signature per time), leaves a well-formed part: all map
   theorems above apply to it; and division 0 is its smallest keypoint *)
Theorem hist_wf : forall first last q0 h m1, 0 < q0 -> hist_ok h -> first < last -> wf (hpart first last q0 h m1).
Proof. exact Proofs.C02_hist.hist_wf. Qed.
Print Assumptions hist_wf.

Theorem hist_kp_min : forall m first last q0 h m1, 0 < q0 -> hist_ok h -> 0 <= first < last ->
  kp_min m (hpart first last q0 h m1) = 0.
Proof. exact Proofs.C02_hist.hist_kp_min. Qed.
Print Assumptions hist_kp_min.

(* for instance: exactness and the inverse for the part any history leaves *)
Theorem hist_maps : forall first last q0 h m1, 0 < q0 -> hist_ok h -> 0 <= first < last ->
  let p := hpart first last q0 h m1 in let m := hmode q0 h in
  (forall a b va vb, 0 <= a <= b /\ b <= kp_max Quarter p ->
     tmapz Quarter p a = Some va -> tmapz Quarter p b = Some vb -> (vb - va == quarters_between p a b)%Q) /\
  (forall a b va vb, 0 <= a <= b /\ b <= kp_max m p ->
     tmapz m p a = Some va -> tmapz m p b = Some vb -> (vb - va == beats_between m p a b)%Q) /\
  (forall (t v : Q), tmap m p t = Some v -> exists t', tinv m p v = Some t' /\ (t' == t)%Q) /\
  (forall (t v : Q), tmap Quarter p t = Some v -> exists t', tinv Quarter p v = Some t' /\ (t' == t)%Q).
Proof. exact Proofs.C02_hist.hist_maps. Qed.
Print Assumptions hist_maps.

(* hypotheses are satisfiable: the later change entered first and the earlier one with the same value
   afterwards, a change re-set twice, a signature added after the musical beats were set *)
Theorem example_history : hist_ok ex_hist /\
  h_qs (hrun 4 ex_hist) = [(0, 4); (16, 8); (32, 8)] /\
  map ts_mus (h_tss (hrun 4 ex_hist)) = [3; 5] /\ hmode 4 ex_hist = Musical /\
  (exists v, tmapz Quarter (hpart 0 48 4 ex_hist None) 48 = Some v /\ (v == 8)%Q) /\
  (exists v, tmapz (hmode 4 ex_hist) (hpart 0 48 4 ex_hist None) 48 = Some v /\ (v == 11)%Q).
Proof. exact (conj ex_hist_ok ex_hist_values). Qed.
Print Assumptions example_history.

(* hypotheses are satisfiable: two division changes, a change of meter, a pickup of one quarter *)
Theorem example_part : wf ex_part /\
  (exists v, tmapz Quarter ex_part 0 = Some v /\ (v == -1 # 1)%Q) /\ kp_min Quarter ex_part = p_first ex_part /\
  (exists v, tmapz Quarter ex_part 4 = Some v /\ (v == 0)%Q) /\
  (exists v, tmapz Musical ex_part 40 = Some v /\ (v == 70 # 9)%Q).
Proof. exact (conj ex_part_wf ex_part_values). Qed.
Print Assumptions example_part.

(* --- the loop of Part._time_interpolator as the code runs it (Model/C02_Api.v: dict of keypoints, sweep over
   the sorted keys with the running cur_div / cur_bt, cumulative sum).  Every row carries the divisions and
   the beat factor in force at its key ... *)
Theorem sweep_rows : forall m p, keys_incr (p_qs p) -> keys_incr (map (fun ts => (ts_t ts, ts)) (p_tss p)) ->
  kp_rows m p = map (fun t => (t, div_at p t, bt_at m p t)) (kp_xs m p).
Proof. exact Proofs.C02_api.sweep_rows. Qed.
Print Assumptions sweep_rows.

(* ... no keypoint is dropped ... *)
Theorem sweep_keeps_every_keypoint : forall m p, map (fun r => fst (fst r)) (kp_rows m p) = kp_xs m p.
Proof. exact Proofs.C02_api.sweep_keeps_every_keypoint. Qed.
Print Assumptions sweep_keeps_every_keypoint.

(* ... and the points handed to the interpolation are the ones all theorems above are about
   (tmap m p = interp (time_pts m p)): the theorems hold of the loop *)
Theorem sweep_refines : forall m p, keys_incr (p_qs p) -> keys_incr (map (fun ts => (ts_t ts, ts)) (p_tss p)) ->
  sweep_pts m p = base_pts m p /\ sweep_time_pts m p = time_pts m p.
Proof. exact Proofs.C02_api.sweep_refines. Qed.
Print Assumptions sweep_refines.

(* --- origin: one position for both maps.  The part opens with a measure under a signature and no other
   signature takes effect inside that measure: the quarter map and the beat map (notated or musical, any
   user-supplied musical beats) agree on whether it is a pickup, so both have their zero at the same position *)
Theorem origin_same_position : forall m p, wf p -> forall e ts, m <> Quarter ->
  p_m1 p = Some (p_first p, e) -> ts_at_first p = Some ts -> p_first p < e <= p_last p ->
  (forall ts', In ts' (p_tss p) -> ts_t ts' <= p_first p \/ e <= ts_t ts') ->
  ((pickup_shift Quarter p == 0)%Q <-> (pickup_shift m p == 0)%Q) /\
  ((quarters_between p (p_first p) e < normal_dur Quarter ts)%Q <->
   (beats_between m p (p_first p) e < normal_dur m ts)%Q).
Proof. exact Proofs.C02_api.origin_same_position. Qed.
Print Assumptions origin_same_position.

(* --- the timeline glue (Model/C02_Api.v): parts built by ANY history of add(Note) / add(Measure) /
   add(TimeSignature) / remove(TimeSignature) / set_quarter_duration / musical-beat switches
   (non-negative times, positive values, a signature added only where none is present, one note of
   positive length) are well-formed, with division 0 as smallest keypoint *)
Theorem api_wf : forall q0 h, 0 < q0 -> ahist_ok (ainit q0) h -> has_note h -> wf (apart q0 h).
Proof. exact Proofs.C02_api.api_wf. Qed.
Print Assumptions api_wf.

Theorem api_kp_min : forall m q0 h, 0 < q0 -> ahist_ok (ainit q0) h -> has_note h ->
  kp_min m (apart q0 h) = 0 /\ 0 <= p_first (apart q0 h).
Proof. exact Proofs.C02_api.api_kp_min. Qed.
Print Assumptions api_kp_min.

(* first / last time point = the smallest / largest time at which a present object starts or ends:
   every note, measure and time signature change lies ON the timeline *)
Theorem api_extent : forall q0 h, has_note h -> let p := apart q0 h in
  (forall s e, In (AAddNote s e) h \/ In (AAddMeasure s e) h -> p_first p <= s <= p_last p /\ p_first p <= e <= p_last p) /\
  (forall ts, In ts (p_tss p) -> p_first p <= ts_t ts <= p_last p) /\
  In (p_first p) (a_times (arun q0 h)) /\ In (p_last p) (a_times (arun q0 h)).
Proof. exact Proofs.C02_api.api_extent. Qed.
Print Assumptions api_extent.

(* the opening measure m1: a measure starting at the first time point, namely the first such measure in
   call order; measures that start later never count *)
Theorem api_m1 : forall q0 h, let p := apart q0 h in
  (forall s e, p_m1 p = Some (s, e) -> s = p_first p /\ In (AAddMeasure s e) h) /\
  ((forall s e, In (AAddMeasure s e) h -> s <> p_first p) -> p_m1 p = None) /\
  (forall h1 h2 s e, h = h1 ++ AAddMeasure s e :: h2 -> s = p_first p ->
     (forall s' e', In (AAddMeasure s' e') h1 -> s' <> p_first p) -> p_m1 p = Some (s, e)).
Proof. exact Proofs.C02_api.api_m1. Qed.
Print Assumptions api_m1.

(* the part does not open with a measure (measures, also short ones under their own signature, may
   follow later): zero lies at the first time point, for all three maps *)
Theorem api_origin_no_opening_measure : forall m q0 h v, 0 < q0 -> ahist_ok (ainit q0) h -> has_note h ->
  let p := apart q0 h in p_first p = 0 ->
  (forall s e, In (AAddMeasure s e) h -> s <> 0) -> tmapz m p 0 = Some v -> (v == 0)%Q.
Proof. exact Proofs.C02_api.api_origin_no_opening_measure. Qed.
Print Assumptions api_origin_no_opening_measure.

(* remove(TimeSignature): exactly the signature at t disappears; adding a signature and removing it again
   leaves signatures, quarter durations and beat mode as they were *)
Theorem api_rem_ts_spec : forall st t ts,
  In ts (h_tss (a_h (astep st (ARemTs t)))) <-> In ts (h_tss (a_h st)) /\ ts_t ts <> t.
Proof. exact Proofs.C02_api.api_rem_ts_spec. Qed.
Print Assumptions api_rem_ts_spec.

Theorem api_add_remove_ts : forall st t b bt, aop_ok st (AAddTs t b bt) ->
  h_tss (a_h (astep (astep st (AAddTs t b bt)) (ARemTs t))) = h_tss (a_h st) /\
  h_qs (a_h (astep (astep st (AAddTs t b bt)) (ARemTs t))) = h_qs (a_h st) /\
  h_flag (a_h (astep (astep st (AAddTs t b bt)) (ARemTs t))) = h_flag (a_h st).
Proof. exact Proofs.C02_api.api_add_remove_ts. Qed.
Print Assumptions api_add_remove_ts.

(* exactness on [0, kp_max], totality on the timeline, the inverse, and the loop = the table form, for the
   part and beat mode any such history leaves *)
Theorem api_maps : forall q0 h, 0 < q0 -> ahist_ok (ainit q0) h -> has_note h ->
  let p := apart q0 h in let m := amode q0 h in
  (forall a b va vb, 0 <= a <= b /\ b <= kp_max Quarter p ->
     tmapz Quarter p a = Some va -> tmapz Quarter p b = Some vb -> (vb - va == quarters_between p a b)%Q) /\
  (forall a b va vb, 0 <= a <= b /\ b <= kp_max m p ->
     tmapz m p a = Some va -> tmapz m p b = Some vb -> (vb - va == beats_between m p a b)%Q) /\
  (forall t, p_first p <= t <= p_last p -> exists vq vb, tmapz Quarter p t = Some vq /\ tmapz m p t = Some vb) /\
  (forall (t v : Q), tmap m p t = Some v -> exists t', tinv m p v = Some t' /\ (t' == t)%Q) /\
  (forall (t v : Q), tmap Quarter p t = Some v -> exists t', tinv Quarter p v = Some t' /\ (t' == t)%Q) /\
  sweep_time_pts Quarter p = time_pts Quarter p /\ sweep_time_pts m p = time_pts m p.
Proof. exact Proofs.C02_api.api_maps. Qed.
Print Assumptions api_maps.

(* hypotheses are satisfiable: a later measure entered before the opening one, a second measure at the first
   point entered afterwards, a signature beyond the last note added and removed again, a change of meter
   and divisions, musical beats: timeline 0..48, opening measure (0, 8) = a pickup of 2 quarters *)
Theorem example_api : (ahist_ok (ainit 4) ex_api /\ has_note ex_api) /\
  p_first (apart 4 ex_api) = 0 /\ p_last (apart 4 ex_api) = 48 /\ p_m1 (apart 4 ex_api) = Some (0, 8) /\
  map ts_t (p_tss (apart 4 ex_api)) = [0; 24] /\ amode 4 ex_api = Musical /\
  map (fun r => fst (fst r)) (kp_rows Musical (apart 4 ex_api)) = [0; 24; 48] /\
  (exists v, tmapz Quarter (apart 4 ex_api) 8 = Some v /\ (v == 0)%Q) /\
  (exists v, tmapz Quarter (apart 4 ex_api) 48 = Some v /\ (v == 7)%Q) /\
  (exists v, tmapz Musical (apart 4 ex_api) 48 = Some v /\ (v == 6)%Q).
Proof. exact (conj ex_api_ok ex_api_values). Qed.
Print Assumptions example_api.

(* --- the interpolation wrapper partitura.utils.generic.interp1d (Model/C02_Api.v: wrap_linear, wrap_previous).
   The time maps always hand it at least two keypoints, so it is scipy's interpolation that answers, i.e. the
   maps of the theorems above *)
Theorem time_maps_use_scipy : forall m p, wf p -> (2 <= List.length (time_pts m p))%nat /\
  (forall t, wrap_linear (time_pts m p) t = tmap m p t) /\
  (forall v, wrap_linear (swap_pts (time_pts m p)) v = tinv m p v).
Proof. exact Proofs.C02_api.time_maps_use_scipy. Qed.
Print Assumptions time_maps_use_scipy.

(* quarter_duration_map as the code builds it (a single entry doubled, the wrapper, kind="previous" with
   fill_value=(y[0], y[-1])) returns at ANY rational time the divisions in force (qd_map_spec) *)
Theorem qd_map_impl_spec : forall p t, keys_incr (p_qs p) -> qd_map_impl (p_qs p) t = qd_map p (Qround.Qfloor t).
Proof. exact Proofs.C02_api.qd_map_impl_spec. Qed.
Print Assumptions qd_map_impl_spec.

(* single-point safety: one entry only -> that value at every time, through the doubling and through the
   wrapper's single-sample branch alike *)
Theorem qd_map_single : forall k v t lo hi, qd_map_impl [(k, v)] t = v /\ wrap_previous [(k, v)] lo hi t = v.
Proof. exact Proofs.C02_api.qd_map_single. Qed.
Print Assumptions qd_map_single.

(* --- state carried between calls (Model/C02_Req.v): histories of EDITS (public API of Model/C02_Api.v, in-place writes of
   TimeSignature.beats / beat_type / musical_beats, removal of notes and measures), REQUESTS of a map object through the
   property, CALLS through the property and through map objects kept from earlier.  Every observation of every history
   is a function of the state of the part at the moment of the request: a call through the property = ask w (the state
   the edits so far leave), a call through a kept object = ask w (the state when it was requested); earlier requests,
   calls and kept objects never matter *)
Theorem req_current_state : forall q0 ops, robs false (rinit q0) ops = rspec (ainit q0) [] ops.
Proof. exact Proofs.C02_req.req_current_state. Qed.
Print Assumptions req_current_state.

(* forall history, observation = f (current state): whatever was edited, requested, called and kept before, a call
   through the property returns the map of the part the edits so far leave (rcur skips everything but the edits) *)
Theorem req_ask_current : forall q0 pre w x,
  robs false (rinit q0) (pre ++ [RAsk w x]) = robs false (rinit q0) pre ++ [ask w (rcur (ainit q0) pre) x].
Proof. exact Proofs.C02_req.req_ask_current. Qed.
Print Assumptions req_ask_current.

(* the same through a map object requested now and called at once *)
Theorem req_kept_object_fresh : forall q0 pre w x,
  robs false (rinit q0) (pre ++ [RGet w; RQuery (count_gets pre) x]) =
  robs false (rinit q0) pre ++ [ask w (rcur (ainit q0) pre) x].
Proof. exact Proofs.C02_req.req_kept_object_fresh. Qed.
Print Assumptions req_kept_object_fresh.

(* f (current state) IS the map of the theorems above (tmap / tinv of the part and beat mode the state has,
   quarter_duration_map as built) *)
Theorem req_ask_is_the_map : forall st x,
  ask WQuarter st x = tmap Quarter (apart_of st) x /\
  ask WBeat st x = tmap (amode_of st) (apart_of st) x /\
  ask WInvQuarter st x = tinv Quarter (apart_of st) x /\
  ask WInvBeat st x = tinv (amode_of st) (apart_of st) x /\
  ask WQd st x = Some (inject_Z (qd_map_impl (p_qs (apart_of st)) x)).
Proof. exact Proofs.C02_req.req_ask_is_the_map. Qed.
Print Assumptions req_ask_is_the_map.

(* not vacuous: a history with an in-place rewrite of the signature (6/8 -> 3/4), a division change, in-place musical
   beats, a note removed, a kept object called after an edit -- the machine reproduces the listed values (beat_map(8) =
   16, then 8, the kept object still 16; quarter_map(8) = 4; ...) ... *)
Theorem example_requests : check_rcase (1, ex_req) = true.
Proof. exact Proofs.C02_req.ex_req_ok. Qed.
Print Assumptions example_requests.

(* ... and the statement fails for the variant that caches the points of a map on the part at its first request *)
Theorem req_memo_refuted : exists q0 ops, robs true (rinit q0) ops <> rspec (ainit q0) [] ops.
Proof. exact Proofs.C02_req.req_memo_refuted. Qed.
Print Assumptions req_memo_refuted.

(* --- Round j: the FORM of the query (Model/C02_Query.v).  "The function can take scalar values or lists/arrays of
   values": the `len(self._points) < 2` branch of Part._time_interpolator (np.zeros(np.shape(x))), the wrapper
   utils.generic.interp1d called with a scalar / a sequence (scipy: ravel, evaluate, reshape; single sample:
   broadcast_to + result[0]) and quarter_duration_map as built, for the part ANY history of edits leaves (public API,
   in-place signature attributes, removals).  Every map answers every query -- scalar or sequence, empty, in any
   order, with repetitions, inside or outside the range -- with one value per queried position, in the order and
   form of the query, each the value of the CURRENT state at that position; the call never raises *)
Theorem query_pointwise : forall q0 edits w q,
  let st := fold_left estep edits (ainit q0) in
  map_call w st q = Some (pointwise (value_at w st) q).
Proof. exact Proofs.C02_query.query_pointwise. Qed.
Print Assumptions query_pointwise.

(* a scalar is answered by a scalar, a sequence by a sequence of the same length *)
Theorem query_shape : forall q0 edits w q a,
  map_call w (fold_left estep edits (ainit q0)) q = Some a ->
  is_vec a = negb (ndim0 q) /\ List.length (ans_list a) = List.length (atleast_1d q).
Proof. exact Proofs.C02_query.query_shape. Qed.
Print Assumptions query_shape.

(* entry i of the answer to a sequence is what the scalar call at position i returns: the order of the query,
   repetitions and the other positions asked along do not matter *)
Theorem query_entry : forall q0 edits w xs i x,
  let st := fold_left estep edits (ainit q0) in
  nth_error xs i = Some x ->
  exists vs, map_call w st (QVec xs) = Some (AVec vs) /\
             map_call w st (QScalar x) = Some (AScalar (value_at w st x)) /\
             nth_error vs i = Some (value_at w st x).
Proof. exact Proofs.C02_query.query_entry. Qed.
Print Assumptions query_entry.

Theorem query_app : forall q0 edits w xs ys,
  let st := fold_left estep edits (ainit q0) in
  map_call w st (QVec (xs ++ ys)) = Some (AVec (map (value_at w st) xs ++ map (value_at w st) ys)).
Proof. exact Proofs.C02_query.query_app. Qed.
Print Assumptions query_app.

(* with at least two time points the value at a position is the map of the current state (req_ask_is_the_map:
   tmap / tinv / qd_map_impl -- the maps all theorems above are about) ... *)
Theorem query_value_timeline : forall w st x, (2 <= n_points st)%nat -> value_at w st x = ask w st x.
Proof. exact Proofs.C02_query.query_value_timeline. Qed.
Print Assumptions query_value_timeline.

(* ... and at least two time points mean a timeline of positive length, on which the time maps hand the wrapper at
   least two samples (scipy's branch) *)
Theorem query_two_points : forall st, (2 <= n_points st)%nat -> afirst st < alast st.
Proof. exact Proofs.C02_query.n_points_first_last. Qed.
Print Assumptions query_two_points.

(* a part with a single time point (every present object starts and ends at one time): the four time maps are 0 at
   every position -- zero lies at the first time point; quarter_duration_map still returns the divisions in force *)
Theorem query_single_point : forall w st x, (n_points st < 2)%nat -> w <> WQd ->
  value_at w st x = Some 0%Q /\
  (forall t, In t (a_times st) -> t = afirst st /\ t = alast st) /\
  value_at WQd st x = Some (inject_Z (qd_map_impl (p_qs (apart_of st)) x)).
Proof. exact Proofs.C02_query.query_single_point. Qed.
Print Assumptions query_single_point.

(* not vacuous: a part with a pickup asked with a scalar, a list in decreasing order with a repetition and a position
   outside the timeline (nan), the empty list; a part with a signature only (one time point) *)
Theorem example_queries :
  let st := fold_left estep ex_edits (ainit 2) in
  let s1 := fold_left estep ex_single (ainit 4) in
  n_points st = 3%nat /\
  aclose (AVec [Some 8; Some 0; Some 0; None; Some (-2)]%Q) (map_call WQuarter st (QVec [24; 4; 4; 30; 0]%Q)) = true /\
  aclose (AScalar (Some 6%Q)) (map_call WQuarter st (QScalar 16%Q)) = true /\
  map_call WInvQuarter st (QVec []) = Some (AVec []) /\
  aclose (AVec [Some 2; Some 4; Some 4]%Q) (map_call WQd st (QVec [15.5; 16; 99]%Q)) = true /\
  n_points s1 = 1%nat /\
  aclose (AVec [Some 0; Some 0]%Q) (map_call WBeat s1 (QVec [0; 7]%Q)) = true /\
  aclose (AScalar (Some 0%Q)) (map_call WInvBeat s1 (QScalar 0%Q)) = true /\
  aclose (AVec [Some 4; Some 4; Some 3]%Q) (map_call WQd s1 (QVec [0; 4.5; 5]%Q)) = true.
Proof. exact Proofs.C02_query.ex_query_values. Qed.
Print Assumptions example_queries.

(* the statement discriminates: it fails for the single-point branch written np.zeros(len(x)) (a scalar query
   raises), for one that numbers the positions, and for the test written `len(self._points) <= 2` *)
Theorem query_variants_refuted :
  zeros_len (QScalar 0%Q) <> Some (pointwise (fun _ => Some 0%Q) (QScalar 0%Q)) /\
  arange_shape (QVec [0; 0]%Q) <> pointwise (fun _ => Some 0%Q) (QVec [0; 0]%Q) /\
  (let st := fold_left estep [EApi (AAddNote 0 8)] (ainit 2) in
   time_call_le2 WQuarter st (QScalar 8%Q) <> Some (pointwise (value_at WQuarter st) (QScalar 8%Q))).
Proof. exact Proofs.C02_query.ex_refuted. Qed.
Print Assumptions query_variants_refuted.
