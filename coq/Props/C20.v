(* C20 -- property theorems.  Statements + `exact` only; proofs live in Proofs/C20.v.
   fresh_step / run_fresh (Model/C20.v) is the container protocol that Score / Performance
   implement (checked on every run against real objects through C20.hist_ok); shared_step is
   the old shared-cursor design, kept as a refuted contrast.  The effect theorems are about
   compositions of CALLS (entry point x argument kind, Model/C20.v: entry, akind) GIVEN their
   footprints; the footprints themselves (all empty) are observed per run and per (entry point,
   argument kind) by the fingerprint differential of harness/props/c20.py.  The copy-then-modify
   theorems are about the mechanism transpose / unfold_part_maximal use ("deep copy before
   modification"), for every argument kind. *)
From PV Require Import Lib.Base Model.C20 Model.C20_Mut Model.C20_Alias Model.C20_Array Model.C20_Track Model.C20_Beat Proofs.C20 Proofs.C20_Mut Proofs.C20_Alias Proofs.C20_Array Proofs.C20_Track Proofs.C20_Beat.
From Coq Require Import ZArith List Permutation.
Import ListNotations.

(* O3. Every iteration -- bound at any point of any history (h1), however nested or interleaved
   with operations on other iterators, len and indexing afterwards (h2) -- yields exactly the
   parts, in order, each once, and StopIteration from then on.  All part lists, all histories. *)
Theorem iteration_complete : forall (A : Type) (parts : list A) (k : nat) (h1 h2 : list op) (cs : cursors),
  no_iter k h2 = true ->
  pick k h2 (skipn (S (length h1)) (run_fresh parts cs (h1 ++ Iter k :: h2)))
  = map RYield (firstn (count_next k h2) parts) ++ repeat RStop (count_next k h2 - length parts).
Proof. exact @iteration_complete_lemma. Qed.
Print Assumptions iteration_complete.

(* what an iterator observes in any interleaving is what it observes when run alone *)
Theorem iteration_noninterference : forall (A : Type) (parts : list A) (k : nat) (h : list op) (cs1 cs2 : cursors),
  cur_get k cs1 = cur_get k cs2 ->
  pick k h (run (fresh_step parts) cs1 h) = run (fresh_step parts) cs2 (filter (on k) h).
Proof. exact @noninterference. Qed.
Print Assumptions iteration_noninterference.

(* the client program  for a in c: for b in c: emit (a, b)  yields the full product, in order *)
Theorem nested_iteration_product : forall (A : Type) (parts : list A),
  nested_pairs (fresh_step parts) [] (length parts) = list_prod parts parts.
Proof. exact @nested_iteration_product_lemma. Qed.
Print Assumptions nested_iteration_product.

(* the client program  for a, b in zip(c, c): emit (a, b)  (two live iterators advanced in turn)
   yields every part paired with itself, in order *)
Theorem zip_iteration : forall (A : Type) (parts : list A),
  zip_pairs (fresh_step parts) [] (length parts) = map (fun x => (x, x)) parts.
Proof. exact @zip_iteration_lemma. Qed.
Print Assumptions zip_iteration.

(* over the old design zip(c, c) on two parts yields the single pair (first, second) *)
Theorem shared_cursor_zip_refuted :
  exists parts : list Z, zip_pairs (shared_step parts) None (length parts) = [(1, 2)]%Z /\
                         zip_pairs (shared_step parts) None (length parts) <> map (fun x => (x, x)) parts.
Proof. exact shared_cursor_zip_refuted_lemma. Qed.
Print Assumptions shared_cursor_zip_refuted.

(* the old design (one cursor stored on the container): the nested loop over two parts yields
   [(a,a),(a,b)], and there is an interleaving in which an iteration is cut short *)
Theorem shared_cursor_refuted :
  (exists parts : list Z,
     nested_pairs (shared_step parts) None (length parts) = [(1, 1); (1, 2)]%Z /\
     nested_pairs (shared_step parts) None (length parts) <> list_prod parts parts) /\
  (exists (parts : list Z) (h1 h2 : list op) (k : nat),
     no_iter k h2 = true /\
     pick k h2 (skipn (S (length h1)) (run (shared_step parts) None (h1 ++ Iter k :: h2)))
     <> map RYield (firstn (count_next k h2) parts) ++ repeat RStop (count_next k h2 - length parts)).
Proof. exact shared_cursor_refuted_lemma. Qed.
Print Assumptions shared_cursor_refuted.

(* len and indexing in any history: len is the number of parts; c[i] raises IndexError exactly
   outside -len..len-1, otherwise returns part (i mod len); independent of all iterators *)
Theorem len_index_consistent : forall (A : Type) (parts : list A) (h : list op) (cs : cursors),
  Forall2 (len_index_spec parts) h (run_fresh parts cs h).
Proof. exact @len_index_consistent_lemma. Qed.
Print Assumptions len_index_consistent.

(* the j-th element an iteration yields is c[j] *)
Theorem yield_is_index : forall (A : Type) (parts : list A) (j : nat) (x : A),
  nth_error parts j = Some x -> get_res parts (Z.of_nat j) = RItem x.
Proof. exact @Proofs.C20.yield_is_index. Qed.
Print Assumptions yield_is_index.

(* O1/O2 composition.  Any sequence of operations with empty write footprint leaves the store
   unchanged, and every call's result is a function of the INITIAL store ... *)
Theorem readonly_sequence_pure : forall fs : list eop, Forall read_only fs ->
  forall s : store, run_seq fs s = (s, map (fun f => snd (e_run f s)) fs).
Proof. exact readonly_sequence_pure_lemma. Qed.
Print Assumptions readonly_sequence_pure.

(* ... hence repeated calls agree wherever they occur in the sequence ... *)
Theorem repeated_calls_agree : forall fs : list eop, Forall read_only fs ->
  forall (s : store) (i j : nat) (f : eop), nth_error fs i = Some f -> nth_error fs j = Some f ->
  fst (run_seq fs s) = s /\
  nth_error (snd (run_seq fs s)) i = Some (snd (e_run f s)) /\
  nth_error (snd (run_seq fs s)) j = Some (snd (e_run f s)).
Proof. exact repeated_calls_agree_lemma. Qed.
Print Assumptions repeated_calls_agree.

(* ... and calls in any other order give each operation the same result *)
Theorem reordered_calls_agree : forall fs fs' : list eop, Forall read_only fs -> Permutation fs fs' ->
  forall s : store, fst (run_seq fs' s) = s /\
    Permutation (combine fs (snd (run_seq fs s))) (combine fs' (snd (run_seq fs' s))).
Proof. exact reordered_calls_agree_lemma. Qed.
Print Assumptions reordered_calls_agree.

(* The same over the alphabet of CALLS = (entry point, argument kind): for every semantics `sem`
   of the calls and EVERY sequence of calls (any entry points, any argument kinds, any length, any
   order, repetitions) all of which are read-only, the store (= the argument) is unchanged and
   every result is the result of that call on the initial store. *)
Theorem readonly_calls_pure : forall (sem : call -> eop) (cs : list call),
  (forall c, In c cs -> read_only (sem c)) ->
  forall s : store, run_calls sem cs s = (s, map (fun c => snd (e_run (sem c) s)) cs).
Proof. exact readonly_calls_pure_lemma. Qed.
Print Assumptions readonly_calls_pure.

(* the same call (same entry point, same argument kind) at two places of any such sequence returns
   the same result: the one it returns on the initial store *)
Theorem repeated_call_same_result : forall (sem : call -> eop) (cs : list call),
  (forall c, In c cs -> read_only (sem c)) ->
  forall (s : store) (i j : nat) (c : call), nth_error cs i = Some c -> nth_error cs j = Some c ->
  fst (run_calls sem cs s) = s /\
  nth_error (snd (run_calls sem cs s)) i = Some (snd (e_run (sem c) s)) /\
  nth_error (snd (run_calls sem cs s)) j = nth_error (snd (run_calls sem cs s)) i.
Proof. exact repeated_call_same_result_lemma. Qed.
Print Assumptions repeated_call_same_result.

(* the calls made in any other order: every call keeps its result *)
Theorem reordered_calls_same_results : forall (sem : call -> eop) (cs cs' : list call),
  (forall c, In c cs -> read_only (sem c)) -> Permutation cs cs' ->
  forall s : store, fst (run_calls sem cs' s) = s /\
    Permutation (combine cs (snd (run_calls sem cs s))) (combine cs' (snd (run_calls sem cs' s))).
Proof. exact reordered_calls_same_results_lemma. Qed.
Print Assumptions reordered_calls_same_results.

(* the observed footprint table (one row per (entry point, argument kind), evaluated per run by
   table_empty): if a semantics writes at most what the table lists and the table is empty, every
   sequence of calls covered by the table is pure *)
Theorem empty_footprint_table_pure : forall (sem : call -> eop) (t : fp_table),
  respects_table sem t -> table_empty t = true ->
  forall cs : list call, (forall c, In c cs -> table_covers t c = true) ->
  forall s : store, run_calls sem cs s = (s, map (fun c => snd (e_run (sem c) s)) cs).
Proof. exact empty_table_pure_lemma. Qed.
Print Assumptions empty_footprint_table_pure.

(* equality of calls is decided by call_eqb (used by the trace checker) *)
Theorem call_eqb_decides : forall c1 c2 : call, call_eqb c1 c2 = true <-> c1 = c2.
Proof. exact call_eqb_eq. Qed.
Print Assumptions call_eqb_decides.

(* the checker applied to the traces observed on the implementation is sound and complete for
   "read-only calls whose results are functions of the call and the initial store" *)
Theorem trace_ok_sound : forall (hs : store -> Z) (sem : call -> eop) (cs : list call) (s : store),
  (forall c, In c cs -> read_only (sem c)) ->
  trace_ok (hs s, model_trace hs sem cs s) = true.
Proof. exact trace_ok_sound_lemma. Qed.
Print Assumptions trace_ok_sound.

Theorem trace_ok_complete : forall (init : Z) (tr : list trow),
  trace_ok (init, tr) = true ->
  exists resf : call -> Z,
    Forall (fun r : trow => let '(o, b, a, x) := r in b = init /\ a = init /\ x = resf o) tr.
Proof. exact trace_ok_complete_lemma. Qed.
Print Assumptions trace_ok_complete.

(* the effect hypotheses are satisfiable (also by a semantics over the whole call alphabet), and an
   in-place operation is not read-only *)
Theorem effect_model_nontrivial :
  (read_only ex_sum /\ read_only ex_len) /\ (respects_footprint ex_bump /\ ~ read_only ex_bump) /\
  (forall c : call, read_only (ex_sem c)).
Proof. exact (conj ex_sum_read_only (conj ex_bump_respects ex_sem_read_only)). Qed.
Print Assumptions effect_model_nontrivial.

(* Deep copy before modification.  Whatever the modification f, whatever cells the argument consists
   of (roots) in whatever heap: when the modifying loop walks the copy (or nothing), every cell that
   existed before the call keeps its value, and the result consists of new, distinct cells. *)
Theorem copy_modify_preserves_argument : forall (w : walk) (f : Z -> Z) (h : heap) (roots : list nat),
  w <> WalkArgument ->
  firstn (length h) (fst (copy_modify w f h roots)) = h /\
  Forall (fun l => (length h <= l)%nat) (snd (copy_modify w f h roots)) /\
  NoDup (snd (copy_modify w f h roots)) /\
  (length h <= length (fst (copy_modify w f h roots)))%nat.
Proof. exact copy_modify_preserves_argument_lemma. Qed.
Print Assumptions copy_modify_preserves_argument.

(* the result holds the modified values of the argument (loop over the copy) / the values of the
   argument (loop over nothing) *)
Theorem copy_modify_result : forall (f : Z -> Z) (h : heap) (roots : list nat),
  values (fst (copy_modify WalkCopy f h roots)) (snd (copy_modify WalkCopy f h roots)) = map f (values h roots) /\
  values (fst (copy_modify WalkNothing f h roots)) (snd (copy_modify WalkNothing f h roots)) = values h roots.
Proof. exact copy_modify_result_lemma. Qed.
Print Assumptions copy_modify_result.

(* called twice in a row: the argument is still as it was and both results hold the same values *)
Theorem copy_modify_repeatable : forall (w : walk) (f : Z -> Z) (h : heap) (roots : list nat),
  w <> WalkArgument -> Forall (fun l => (l < length h)%nat) roots ->
  firstn (length h) (fst (fst (call_twice w f h roots))) = h /\
  snd (fst (call_twice w f h roots)) = snd (call_twice w f h roots).
Proof. exact copy_modify_repeatable_lemma. Qed.
Print Assumptions copy_modify_repeatable.

(* the slip "walk the parts of the ARGUMENT" is refuted: the argument changes, the first result is
   an unmodified copy, the second call returns something else (finite witness, vm_compute) *)
Theorem walk_argument_refuted :
  exists (f : Z -> Z) (h : heap) (roots : list nat),
    Forall (fun l => (l < length h)%nat) roots /\
    firstn (length h) (fst (copy_modify WalkArgument f h roots)) <> h /\
    values (fst (copy_modify WalkArgument f h roots)) (snd (copy_modify WalkArgument f h roots)) = values h roots /\
    snd (fst (call_twice WalkArgument f h roots)) <> snd (call_twice WalkArgument f h roots).
Proof. exact walk_argument_refuted_lemma. Qed.
Print Assumptions walk_argument_refuted.

(* transpose as modelled (transpose_walk: which parts the loop walks for each argument kind): for
   EVERY argument kind the argument is unchanged after one and after two calls, and the two results
   hold the same values *)
Theorem transpose_every_kind : forall (k : akind) (f : Z -> Z) (h : heap) (roots : list nat),
  Forall (fun l => (l < length h)%nat) roots ->
  firstn (length h) (fst (copy_modify (transpose_walk k) f h roots)) = h /\
  firstn (length h) (fst (fst (call_twice (transpose_walk k) f h roots))) = h /\
  snd (fst (call_twice (transpose_walk k) f h roots)) = snd (call_twice (transpose_walk k) f h roots).
Proof. exact transpose_every_kind_lemma. Qed.
Print Assumptions transpose_every_kind.

(* the checker run on the observed transpose calls accepts everything the model produces ... *)
Theorem cow_ok_sound : forall (k : akind) (f : Z -> Z) (before : list Z),
  let '(h2, v1, v2) := call_twice (transpose_walk k) f before (seq 0 (length before)) in
  cow_ok (k, before, firstn (length before) h2, v1, v2) = true.
Proof. exact cow_ok_sound_lemma. Qed.
Print Assumptions cow_ok_sound.

(* ... and accepts only observations in which the argument is as before and the results are equal *)
Theorem cow_ok_meaning : forall (k : akind) (before after res1 res2 : list Z),
  cow_ok (k, before, after, res1, res2) = true -> after = before /\ res1 = res2.
Proof. exact cow_ok_meaning_lemma. Qed.
Print Assumptions cow_ok_meaning.

(* ---------------------------------------------------------------------------------------------- *)
(* The container as a mutable object (Model/C20_Mut.v): construction (Score.__init__, iter_parts),
   item assignment (Score.__setitem__ / Performance.__setitem__) and the protocol afterwards. *)

(* iter_parts yields exactly the depth-first leaves of a Part / PartGroup tree (dfs is the
   specification, stated without flat_map), and nothing else does *)
Theorem iter_parts_depth_first : forall (A : Type) (t : ptree A),
  dfs t (iter_tree t) /\ forall l, dfs t l -> l = iter_tree t.
Proof. exact @iter_parts_depth_first_lemma. Qed.
Print Assumptions iter_parts_depth_first.

(* Score.__init__: for every argument it accepts (a Part, a PartGroup, a list / tuple of both, nested
   to any depth) the parts are the depth-first leaves of the structure it stores; only other
   arguments raise *)
Theorem score_init_parts_structure : forall (A : Type) (a : partlist_arg A),
  match score_init a with
  | Some c => dfs_list (m_struct c) (m_parts c) /\ m_parts c = flat_map iter_tree (m_struct c) /\
              m_struct c = match a with ArgPart x => [PLeaf x] | ArgGroup cs => [PGroup cs] | ArgList ts => ts | ArgOther => [] end
  | None => a = ArgOther
  end.
Proof. exact @score_init_spec. Qed.
Print Assumptions score_init_parts_structure.

(* c[i] = x: IndexError exactly outside -len..len-1 (nothing changes); otherwise the length is kept,
   c[i] is x afterwards and every other position -- also through negative indices -- is as before *)
Theorem setitem_index_spec : forall (A : Type) (l : list A) (i : Z) (x : A),
  let n := Z.of_nat (length l) in
  match py_set l i x with
  | None => ~ (- n <= i < n)%Z
  | Some l' => (- n <= i < n)%Z /\ length l' = length l /\ py_index l' i = Some x /\
               forall j, ((j - i) mod n <> 0)%Z -> py_index l' j = py_index l j
  end.
Proof. exact @setitem_spec. Qed.
Print Assumptions setitem_index_spec.

(* iteration, len and indexing -- any history, any number of live iterators -- leave the container
   (parts AND structure) as it was and answer as the immutable model over its current parts *)
Theorem readonly_protocol_leaves_container : forall (A : Type) (h : list op) (c : mcont A) (cs : cursors),
  mrun FromParts (c, cs) (map MO h) = map MR (run_fresh (m_parts c) cs h) /\
  mfinal FromParts (c, cs) (map MO h) = (c, final (fresh_step (m_parts c)) cs h).
Proof. exact @mrun_readonly. Qed.
Print Assumptions readonly_protocol_leaves_container.

(* After ANY history h1 (item assignments, iterators, len, indexing, interleaved at will) an iteration
   bound now, however interleaved with other iterators / len / indexing (h2), yields exactly the parts
   P the container holds now, in index order, each once, then StopIteration; len and indexing in h2
   answer for the same P; P = the initial parts with the successful assignments of h1 applied, and
   len never changes. *)
Theorem consistent_after_any_history : forall (A : Type) (c : mcont A) (cs : cursors) (h1 : list (mop A)) (k : nat) (h2 : list op),
  no_iter k h2 = true ->
  let P := apply_sets (m_parts c) h1 in
  let rs := skipn (S (length h1)) (mrun FromParts (c, cs) (h1 ++ MO (Iter k) :: map MO h2)) in
  mpick k h2 rs = map MR (map RYield (firstn (count_next k h2) P) ++ repeat RStop (count_next k h2 - length P)) /\
  Forall2 (len_index_spec P) h2 (map unMR rs) /\
  length P = length (m_parts c).
Proof. exact @consistent_after_any_history_lemma. Qed.
Print Assumptions consistent_after_any_history.

(* The seeded slip (iteration walks iter_parts(part_structure), len / indexing / assignment use parts):
   on every container whose parts are the leaves of its structure -- every freshly constructed one --
   it answers every assignment-free history exactly as the code ... *)
Theorem structure_iteration_agrees_until_set : forall (A : Type) (h : list op) (c : mcont A) (cs : cursors),
  m_parts c = flat_map iter_tree (m_struct c) ->
  mrun FromStructure (c, cs) (map MO h) = mrun FromParts (c, cs) (map MO h).
Proof. exact @structure_iteration_agrees_until_set_lemma. Qed.
Print Assumptions structure_iteration_agrees_until_set.

(* ... and differs after one item assignment (list(c) = [1, 2] next to c[1] = 9), and on a container
   whose parts were replaced as a whole (the Score unfold_part_maximal / minimal return). Witnesses. *)
Theorem structure_iteration_refuted :
  (exists (a : partlist_arg Z) (c : mcont Z),
      score_init a = Some c /\
      mrun FromParts (c, []) (MSet 1 9%Z :: list_then_index)
      = [MSetDone; MR RIter; MR (RYield 1%Z); MR (RYield 9%Z); MR RStop; MR (RItem 1%Z); MR (RItem 9%Z); MR (RLen 2)] /\
      mrun FromStructure (c, []) (MSet 1 9%Z :: list_then_index)
      = [MSetDone; MR RIter; MR (RYield 1%Z); MR (RYield 2%Z); MR RStop; MR (RItem 1%Z); MR (RItem 9%Z); MR (RLen 2)]) /\
  (exists c : mcont Z,
      m_parts c <> flat_map iter_tree (m_struct c) /\
      mrun FromStructure (c, []) list_then_index <> mrun FromParts (c, []) list_then_index).
Proof. exact structure_iteration_refuted_lemma. Qed.
Print Assumptions structure_iteration_refuted.

(* the correspondence checker accepts whatever the model answers (masking stale iterators loses
   nothing) and, on histories without item assignment, accepts ONLY what the model answers *)
Theorem mcheck_sound : forall (h : list (mop Z)) (st : mstate Z) (gen : nat) (born : cursors),
  born_bound born (snd st) -> mcheck st gen born h (mrun FromParts st h) = true.
Proof. exact mcheck_sound_lemma. Qed.
Print Assumptions mcheck_sound.

Theorem mcheck_meaning : forall (h : list (mop Z)) (st : mstate Z) (gen : nat) (born : cursors) (obs : list (mres Z)),
  no_set h = true -> born_at gen born -> mcheck st gen born h obs = true -> obs = mrun FromParts st h.
Proof. exact mcheck_meaning_lemma. Qed.
Print Assumptions mcheck_meaning.

(* ---------------------------------------------------------------------------------------------- *)
(* Shallow copy + reference replacement (Model/C20_Alias.v): the mechanism of unfolding a Part
   (ScoreVariant.create_variant_part: copy(o), o_map, replace_refs). *)

(* THE ARGUMENT IS LEFT AS IT WAS: for every heap and every selection of objects to copy, after all
   copies were made and all their references replaced every object (all attributes) and every list
   (all elements) that existed before is unchanged, and all copies are new objects *)
Theorem variant_preserves_argument : forall (h : aheap) (sel : list nat),
  extends h (fst (variant FreshList h sel)) /\
  Forall (fun p : nat * nat => (length (h_objs h) <= snd p)%nat) (snd (variant FreshList h sel)) /\
  map fst (snd (variant FreshList h sel)) = sel.
Proof. exact variant_preserves_argument_lemma. Qed.
Print Assumptions variant_preserves_argument.

(* after replace_refs no list attribute of the object is a list that existed before the call: the
   copy shares no list with the original any more *)
Theorem replace_refs_unshares : forall (m : omap) (h : aheap) (o : nat), (o < length (h_objs h))%nat ->
  length (obj_get (replace_refs FreshList m h o) o) = length (obj_get h o) /\
  Forall (attr_fresh (length (h_lists h))) (obj_get (replace_refs FreshList m h o) o).
Proof. exact replace_refs_unshares_lemma. Qed.
Print Assumptions replace_refs_unshares.

(* writing the replaced elements INTO the list the attribute holds is refuted: the list shared with
   the original is rewritten (finite witness), while the code's fresh list leaves the same heap alone *)
Theorem inplace_replace_refuted :
  exists (h : aheap) (sel : list nat),
    ~ extends h (fst (variant InPlaceList h sel)) /\
    list_get (fst (variant InPlaceList h sel)) 0 <> list_get h 0 /\
    extends h (fst (variant FreshList h sel)).
Proof. exact inplace_replace_refuted_lemma. Qed.
Print Assumptions inplace_replace_refuted.

(* the checker run on heaps observed on real Note / Slur / Tuplet objects accepts only the heap the
   model computes -- in which the argument is unchanged *)
Theorem alias_ok_meaning : forall (h : aheap) (sel : list nat) (h' : aheap),
  alias_ok (h, sel, h') = true -> h' = fst (variant FreshList h sel) /\ extends h h'.
Proof. exact alias_ok_meaning_lemma. Qed.
Print Assumptions alias_ok_meaning.

(* ---------------------------------------------------------------------------------------------- *)
(* Array views that copy (Model/C20_Array.v): slice_notearray_by_time selects with an index array (a new
   buffer) and then WRITES the clipped onsets / durations into its result. *)

(* THE ARGUMENT IS LEFT AS IT WAS: for every clipping function, every set of buffers, every array (view)
   into them, every window and flag, all buffers that existed before the call keep all their rows, and
   the result lives in a new buffer *)
Theorem slice_copy_preserves_argument : forall (w : list Z -> list Z) (bs : buffers) (a : ndarr) (start stop : Z) (clip : bool),
  firstn (length bs) (fst (slice TakeCopy w bs a start stop clip)) = bs /\
  a_buf (snd (slice TakeCopy w bs a start stop clip)) = length bs.
Proof. exact slice_copy_preserves_argument_lemma. Qed.
Print Assumptions slice_copy_preserves_argument.

(* without clipping the result holds exactly the active rows of the argument (starting inside the window,
   or before it and still sounding), in the argument's order -- whichever way the rows are taken *)
Theorem slice_rows_spec : forall (m : take_mode) (w : list Z -> list Z) (rows : list (list Z)) (start stop : Z),
  let a := mk_ndarr 0 (seq 0 (length rows)) in
  rows_of (fst (slice m w [rows] a start stop false)) (snd (slice m w [rows] a start stop false))
  = filter (active start stop) rows.
Proof. exact slice_rows_spec_lemma. Qed.
Print Assumptions slice_rows_spec.

(* taking the rows as a VIEW (note_array[lo:hi]) is refuted: clipping then rewrites the caller's rows
   (finite witness); the same call with the copy, and the view without clipping, leave them alone *)
Theorem slice_view_refuted :
  exists (w : list Z -> list Z) (rows : list (list Z)) (start stop : Z),
    let a := mk_ndarr 0 (seq 0 (length rows)) in
    buf_get (fst (slice TakeView w [rows] a start stop true)) 0 <> rows /\
    buf_get (fst (slice TakeCopy w [rows] a start stop true)) 0 = rows /\
    buf_get (fst (slice TakeView w [rows] a start stop false)) 0 = rows.
Proof. exact slice_view_refuted_lemma. Qed.
Print Assumptions slice_view_refuted.

(* the checker run on real note arrays accepts only observations in which the argument is as before, the
   slice has one row per active note and -- without clipping -- exactly the active rows *)
Theorem slice_ok_meaning : forall (rows : list (list Z)) (start stop : Z) (clip : bool) (res after : list (list Z)),
  slice_ok (rows, start, stop, clip, res, after) = true ->
  after = rows /\ (clip = false -> res = filter (active start stop) rows) /\
  length res = length (filter (active start stop) rows).
Proof. exact slice_ok_meaning_lemma. Qed.
Print Assumptions slice_ok_meaning.

(* ---------------------------------------------------------------------------------------------- *)
(* Exporter that must only read, the glue around it (Model/C20_Track.v): the argument dispatch of
   save_performance_midi (Performance | PerformedPart | list / tuple of PerformedParts | anything else) and the
   track renumbering of the Performance constructor (sanitize_track_numbers), which a "normalising" dispatch
   would run on the caller's parts. *)

(* THE ARGUMENT IS LEFT AS IT WAS, for every argument of every kind (also the ones that raise): the export loop
   walks exactly the argument's own parts (no constructor in between), ValueError exactly for a non-iterable /
   an iterable with a foreign element *)
Theorem save_perf_midi_preserves_argument : forall a : pm_arg,
  snd (save_perf_midi Direct a) = a /\
  match dispatch Direct a with
  | Some (pps, a') => a' = a /\ pps = arg_parts a
  | None => fst (save_perf_midi Direct a) = OValueError
  end.
Proof. exact direct_preserves_lemma. Qed.
Print Assumptions save_perf_midi_preserves_argument.

(* calling it again on the same argument gives the identical outcome and leaves the argument alone again *)
Theorem save_perf_midi_repeatable : forall a : pm_arg,
  save_perf_midi Direct (snd (save_perf_midi Direct a)) = save_perf_midi Direct a.
Proof. exact direct_repeatable_lemma. Qed.
Print Assumptions save_perf_midi_repeatable.

(* the seeded slip (performed_parts = Performance(list(arg)).performedparts) leaves a list argument alone EXACTLY
   when the constructor's renumbering is the identity on it ... *)
Theorem through_performance_safe_iff : forall pps : list ppart,
  snd (save_perf_midi ThroughPerformance (AIterable (map Some pps))) = AIterable (map Some pps) <-> sanitize pps = pps.
Proof. exact through_safe_iff_lemma. Qed.
Print Assumptions through_performance_safe_iff.

(* ... and is refuted by two parts that both use track 0 (finite witness): the argument is rewritten, the file has
   other tracks than the one the code writes, while the code leaves the same argument alone; a second call of the
   slip no longer changes anything (which is why it needs a list that was never in a Performance) *)
Theorem through_performance_refuted :
  exists es : list (option ppart),
    snd (save_perf_midi ThroughPerformance (AIterable es)) <> AIterable es /\
    fst (save_perf_midi ThroughPerformance (AIterable es)) <> fst (save_perf_midi Direct (AIterable es)) /\
    snd (save_perf_midi Direct (AIterable es)) = AIterable es /\
    save_perf_midi ThroughPerformance (snd (save_perf_midi ThroughPerformance (AIterable es)))
    = save_perf_midi ThroughPerformance (AIterable es).
Proof. exact through_refuted_lemma. Qed.
Print Assumptions through_performance_refuted.

(* Performance(pps): the list keeps its length and every part its numbers of notes, controls and programs *)
Theorem sanitize_shape : forall pps : list ppart,
  length (sanitize pps) = length pps /\
  forall i pp', nth_error (sanitize pps) i = Some pp' ->
    exists pp, nth_error pps i = Some pp /\ length (p_notes pp') = length (p_notes pp) /\
               length (p_ctrls pp') = length (p_ctrls pp) /\ length (p_progs pp') = length (p_progs pp).
Proof. exact sanitize_shape_lemma. Qed.
Print Assumptions sanitize_shape.

(* afterwards every note, control and program HAS a track entry (also those that had none), in 0..num_tracks-1;
   the lookup track_map[...] never fails *)
Theorem sanitize_tracks_in_range : forall (pps : list ppart) i pp' o,
  nth_error (sanitize pps) i = Some pp' -> In o (events pp') ->
  exists z, o = Some z /\ (0 <= z < Z.of_nat (num_tracks pps))%Z.
Proof. exact sanitize_range_lemma. Qed.
Print Assumptions sanitize_tracks_in_range.

(* what the renumbering is for: afterwards no track number occurs in two different parts ... *)
Theorem sanitize_unique_tracks : forall (pps : list ppart) i j ppi ppj z,
  nth_error (sanitize pps) i = Some ppi -> nth_error (sanitize pps) j = Some ppj ->
  In (Some z) (events ppi) -> In (Some z) (events ppj) -> i = j.
Proof. exact sanitize_unique_lemma. Qed.
Print Assumptions sanitize_unique_tracks.

(* ... and inside one part two events share their new number exactly when they shared their old track (a missing
   key counting as -1) *)
Theorem sanitize_same_track : forall (pps : list ppart) i pp t1 t2,
  nth_error pps i = Some pp -> In t1 (events pp) -> In t2 (events pp) ->
  (index_of (i, get_track (-1) t1) (unique_track_ids pps) = index_of (i, get_track (-1) t2) (unique_track_ids pps)
   <-> get_track (-1) t1 = get_track (-1) t2).
Proof. exact sanitize_same_track_lemma. Qed.
Print Assumptions sanitize_same_track.

(* the checker run on real calls accepts only observations in which the argument's parts are as before and the
   outcome (exception / note_on messages per MIDI track) is the model's *)
Theorem track_ok_meaning : forall (a : pm_arg) (out : pm_out) (after : list ppart),
  track_ok (a, out, after) = true -> after = arg_parts a /\ out_eqb (fst (save_perf_midi Direct a)) out = true.
Proof. exact track_ok_meaning_lemma. Qed.
Print Assumptions track_ok_meaning.

(* the renumbering is idempotent: Performance(parts of a Performance) changes nothing (unbounded; proved through
   "the renumbering is strictly monotone on the pairs in use", so the sorted set of the new pairs is the image of the old) *)
Theorem sanitize_idempotent : forall pps : list ppart, sanitize (sanitize pps) = sanitize pps.
Proof. exact sanitize_idempotent_lemma. Qed.
Print Assumptions sanitize_idempotent.

(* EXACTLY which part lists the constructor leaves alone (and hence, with through_performance_safe_iff, exactly the
   list arguments on which the seeded slip is invisible): all events have a track entry and every (part, track) pair in
   use is numbered by its rank *)
Theorem sanitize_fixpoint_iff : forall pps : list ppart, sanitize pps = pps <-> canonical pps.
Proof. exact sanitize_fixpoint_iff_lemma. Qed.
Print Assumptions sanitize_fixpoint_iff.

(* so the slip is invisible on every list that has been through the constructor before *)
Theorem through_performance_after_sanitize : forall pps : list ppart,
  snd (save_perf_midi ThroughPerformance (AIterable (map Some (sanitize pps)))) = AIterable (map Some (sanitize pps)).
Proof. exact through_after_sanitize_lemma. Qed.
Print Assumptions through_performance_after_sanitize.

(* ---------------------------------------------------------------------------------------------- *)
(* Beat mode of a Part (Model/C20_Beat.v): the documented in-place operations use_musical_beat / use_notated_beat /
   set_musical_beat_per_ts and an exporter that must only read, in ANY history. *)

(* wherever exports occur in a history of mode switches they do not matter: the state at the end is the state the
   in-place operations alone produce *)
Theorem export_transparent_in_any_history : forall (h : list bop) (st : bstate),
  bfinal ReadOnly st h = bfinal ReadOnly st (filter (fun o => negb (is_export o)) h).
Proof. exact export_transparent_lemma. Qed.
Print Assumptions export_transparent_in_any_history.

(* the state observed right after an export anywhere in a history is the state right before it; and any number of
   exports in a row leave the part as it was *)
Theorem export_leaves_beat_state : forall (h1 h2 : list bop) (st : bstate),
  nth_error (brun ReadOnly st (h1 ++ BExport :: h2)) (length h1) = Some (bfinal ReadOnly st h1).
Proof. exact brun_export_step_lemma. Qed.
Print Assumptions export_leaves_beat_state.

Theorem repeated_exports_leave_beat_state : forall (h : list bop) (st : bstate),
  forallb is_export h = true -> bfinal ReadOnly st h = st /\ brun ReadOnly st h = repeat st (length h).
Proof. exact export_only_lemma. Qed.
Print Assumptions repeated_exports_leave_beat_state.

(* "switch to notated beats and back" (the seeded slip j) restores the state EXACTLY when the part uses notated beats
   or every time signature carries its default number of musical beats -- why default tables never showed it ... *)
Theorem toggle_and_back_identity_iff : forall st : bstate,
  export_effect ToggleAndBack st = st <-> (fst st = false \/ all_default (snd st)).
Proof. exact toggle_identity_iff_lemma. Qed.
Print Assumptions toggle_and_back_identity_iff.

(* ... and is refuted after use_musical_beat({"6/8": 3, "4/4": 8}) on a fresh part (finite witness) *)
Theorem toggle_and_back_refuted :
  exists (st : bstate) (h : list bop),
    fst st = false /\ all_default (snd st) /\
    bfinal ToggleAndBack st h <> bfinal ReadOnly st h /\
    bfinal ReadOnly st h = (true, [mk_ts 6 8 3; mk_ts 4 4 8]) /\
    bfinal ToggleAndBack st h = (true, [mk_ts 6 8 2; mk_ts 4 4 4]).
Proof. exact toggle_refuted_lemma. Qed.
Print Assumptions toggle_and_back_refuted.

(* what the in-place operations do: each is idempotent (the second call only warns); use_notated_beat resets every
   time signature to its default; use_musical_beat(t) applies t only when t is not {}; beats are never touched *)
Theorem mode_switch_laws : forall (st : bstate) (t1 t2 : mbtable),
  use_notated (use_notated st) = use_notated st /\
  use_musical t2 (use_musical t1 st) = use_musical t1 st /\
  (fst st = true -> fst (use_notated st) = false /\ all_default (snd (use_notated st))) /\
  (fst st = false -> fst (use_musical t1 st) = true /\
                     snd (use_musical t1 st) = match t1 with [] => snd st | _ => set_mb t1 (snd st) end) /\
  map ts_beats (snd (use_notated st)) = map ts_beats (snd st) /\
  map ts_beats (snd (use_musical t1 st)) = map ts_beats (snd st).
Proof. exact mode_switch_laws_lemma. Qed.
Print Assumptions mode_switch_laws.

(* the checker run on real Parts accepts only the states the model computes after every operation *)
Theorem beat_ok_meaning : forall (st : bstate) (h : list bop) (obs : list bstate),
  beat_ok (st, h, obs) = true -> obs = brun ReadOnly st h.
Proof. exact beat_ok_meaning_lemma. Qed.
Print Assumptions beat_ok_meaning.
