(* C20 -- property theorems.  Statements + `exact` only; proofs live in Proofs/C20.v.
   fresh_step / run_fresh (Model/C20.v) is the container protocol that Score / Performance
   implement (checked on every run against real objects through C20.hist_ok); shared_step is
   the old shared-cursor design, kept as a refuted contrast.  The effect theorems are about
   compositions of operations GIVEN their footprints; the footprints themselves (all empty)
   are observed per run by the fingerprint differential of harness/props/c20.py. *)
From PV Require Import Lib.Base Model.C20 Proofs.C20.
From Coq Require Import ZArith List Permutation.
Import ListNotations.

(* O3. Every iteration -- bound at any point of any history (h1), however nested or interleaved
   with operations on other iterators, len and indexing afterwards (h2) -- yields exactly the
   parts, in order, each once, and StopIteration from then on.  All part lists, all histories. *)
Theorem iteration_complete : forall (A : Type) (parts : list A) (k : nat) (h1 h2 : list op) (cs : cursors),
  no_iter k h2 = true ->
  pick k h2 (skipn (S (length h1)) (run_fresh parts cs (h1 ++ Iter k :: h2)))
  = map RYield (firstn (count_next k h2) parts) ++ repeat RStop (count_next k h2 - length parts).
Proof. exact @iteration_complete_lemma. Qed.
Print Assumptions iteration_complete.

(* what an iterator observes in any interleaving is what it observes when run alone *)
Theorem iteration_noninterference : forall (A : Type) (parts : list A) (k : nat) (h : list op) (cs1 cs2 : cursors),
  cur_get k cs1 = cur_get k cs2 ->
  pick k h (run (fresh_step parts) cs1 h) = run (fresh_step parts) cs2 (filter (on k) h).
Proof. exact @noninterference. Qed.
Print Assumptions iteration_noninterference.

(* the client program  for a in c: for b in c: emit (a, b)  yields the full product, in order *)
Theorem nested_iteration_product : forall (A : Type) (parts : list A),
  nested_pairs (fresh_step parts) [] (length parts) = list_prod parts parts.
Proof. exact @nested_iteration_product_lemma. Qed.
Print Assumptions nested_iteration_product.

(* the old design (one cursor stored on the container): the nested loop over two parts yields
   [(a,a),(a,b)], and there is an interleaving in which an iteration is cut short *)
Theorem shared_cursor_refuted :
  (exists parts : list Z,
     nested_pairs (shared_step parts) None (length parts) = [(1, 1); (1, 2)]%Z /\
     nested_pairs (shared_step parts) None (length parts) <> list_prod parts parts) /\
  (exists (parts : list Z) (h1 h2 : list op) (k : nat),
     no_iter k h2 = true /\
     pick k h2 (skipn (S (length h1)) (run (shared_step parts) None (h1 ++ Iter k :: h2)))
     <> map RYield (firstn (count_next k h2) parts) ++ repeat RStop (count_next k h2 - length parts)).
Proof. exact shared_cursor_refuted_lemma. Qed.
Print Assumptions shared_cursor_refuted.

(* len and indexing in any history: len is the number of parts; c[i] raises IndexError exactly
   outside -len..len-1, otherwise returns part (i mod len); independent of all iterators *)
Theorem len_index_consistent : forall (A : Type) (parts : list A) (h : list op) (cs : cursors),
  Forall2 (len_index_spec parts) h (run_fresh parts cs h).
Proof. exact @len_index_consistent_lemma. Qed.
Print Assumptions len_index_consistent.

(* the j-th element an iteration yields is c[j] *)
Theorem yield_is_index : forall (A : Type) (parts : list A) (j : nat) (x : A),
  nth_error parts j = Some x -> get_res parts (Z.of_nat j) = RItem x.
Proof. exact @Proofs.C20.yield_is_index. Qed.
Print Assumptions yield_is_index.

(* O1/O2 composition.  Any sequence of operations with empty write footprint leaves the store
   unchanged, and every call's result is a function of the INITIAL store ... *)
Theorem readonly_sequence_pure : forall fs : list eop, Forall read_only fs ->
  forall s : store, run_seq fs s = (s, map (fun f => snd (e_run f s)) fs).
Proof. exact readonly_sequence_pure_lemma. Qed.
Print Assumptions readonly_sequence_pure.

(* ... hence repeated calls agree wherever they occur in the sequence ... *)
Theorem repeated_calls_agree : forall fs : list eop, Forall read_only fs ->
  forall (s : store) (i j : nat) (f : eop), nth_error fs i = Some f -> nth_error fs j = Some f ->
  fst (run_seq fs s) = s /\
  nth_error (snd (run_seq fs s)) i = Some (snd (e_run f s)) /\
  nth_error (snd (run_seq fs s)) j = Some (snd (e_run f s)).
Proof. exact repeated_calls_agree_lemma. Qed.
Print Assumptions repeated_calls_agree.

(* ... and calls in any other order give each operation the same result *)
Theorem reordered_calls_agree : forall fs fs' : list eop, Forall read_only fs -> Permutation fs fs' ->
  forall s : store, fst (run_seq fs' s) = s /\
    Permutation (combine fs (snd (run_seq fs s))) (combine fs' (snd (run_seq fs' s))).
Proof. exact reordered_calls_agree_lemma. Qed.
Print Assumptions reordered_calls_agree.

(* the checker applied to the traces observed on the implementation is sound and complete for
   "read-only operations whose results are functions of the initial store" *)
Theorem trace_ok_sound : forall (hs : store -> Z) (fs : list (Z * eop)) (s : store),
  Forall read_only (map snd fs) ->
  (forall i f g, In (i, f) fs -> In (i, g) fs -> f = g) ->
  trace_ok (hs s, model_trace hs fs s) = true.
Proof. exact trace_ok_sound_lemma. Qed.
Print Assumptions trace_ok_sound.

Theorem trace_ok_complete : forall (init : Z) (tr : list trow),
  trace_ok (init, tr) = true ->
  exists resf : Z -> Z,
    Forall (fun r : trow => let '(o, b, a, x) := r in b = init /\ a = init /\ x = resf o) tr.
Proof. exact trace_ok_complete_lemma. Qed.
Print Assumptions trace_ok_complete.

(* the effect hypotheses are satisfiable, and an in-place operation is not read-only *)
Theorem effect_model_nontrivial :
  (read_only ex_sum /\ read_only ex_len) /\ (respects_footprint ex_bump /\ ~ read_only ex_bump).
Proof. exact (conj ex_sum_read_only ex_bump_respects). Qed.
Print Assumptions effect_model_nontrivial.
