(* C03 -- property theorems.  Statements + `exact` only; proofs live in Proofs/C03.v.
   Model/C03.v is the executable model of partitura/io/exportmusicxml.py's measure
   linearisation (tied to the source on every run: its output is compared with the element
   stream of every written measure) and the SPEC: interp, an independent reader of MusicXML
   timing (position, chord, grace, backup/forward, furthest position = end of the measure).
   All theorems quantify over ALL inputs (any number of voices, gaps, chords with unequal
   durations, grace notes, non-note elements, divisions segments). *)
From PV Require Import Lib.Base Model.C03 Proofs.C03.
From Coq Require Import Permutation.
#[local] Open Scope Z_scope.

(* O1, export core.  The stream written for a measure (lin_measure: all divisions segments,
   all voices after voice re-assignment, sorted, chord-tagged, merged with forward/backup), read
   by the independent interpreter from the measure start, yields exactly (as a multiset) every
   note of the measure at its onset with its duration and every non-note element at its onset;
   and the reader's measure ends at max(measure end, furthest element). *)
Theorem interp_linearize : forall segs ms me,
  segs_ok segs ->
  exists pl s', interp (lin_measure segs ms me) (mkI ms ms ms) = (pl, s') /\
                Permutation pl (flat_map seg_placed segs) /\
                imax s' = Z.max me (snd (lin_segs segs ms ms)).
Proof. exact interp_linearize_lemma. Qed.
Print Assumptions interp_linearize.

(* measures keep their extent: if everything lies inside [ms, me], the reader's measure is [ms, me]
   (also when every voice ends early: the exporter pads with <forward>) *)
Theorem measure_extent : forall segs ms me,
  segs_ok segs -> ms <= me ->
  Forall (fun seg => notes_le me (fst seg) /\ others_le me (snd seg)) segs ->
  imax (snd (interp (lin_measure segs ms me) (mkI ms ms ms))) = me.
Proof. exact measure_extent_lemma. Qed.
Print Assumptions measure_extent.

(* one voice, exact order: for ANY chord-consistent tagged note list and any non-note elements,
   from any reader state at the voice's start position, the reader outputs the voice's objects in
   document order, each at its onset, and stops at the position the exporter assumes *)
Theorem interp_merge_voice : forall N Os v last_t lno mx s prev,
  chord_ok prev N -> nonneg N ->
  ipos s = last_t -> imax s = mx -> last_t <= mx ->
  ready prev Os last_t lno s ->
  match mwv v N Os last_t lno mx with
  | (es, t', mx') =>
      exists l', interp es s = (mwv_placed N Os, mkI t' l' mx') /\ t' <= mx'
  end.
Proof. exact mwv_interp. Qed.
Print Assumptions interp_merge_voice.

(* add_chord_tags only tags a note that directly follows a non-grace note of equal onset and duration *)
Theorem chord_tags_consistent : forall l, chord_ok None (tag_chords None l).
Proof. exact chord_tags_consistent_lemma. Qed.
Print Assumptions chord_tags_consistent.

(* position after a voice = end of its last element (the fact the voice-switch backup relies on) *)
Theorem interp_position_end : forall l Os v pos mx s,
  durs_ok l -> ipos s = pos -> imax s = mx -> pos <= mx ->
  let N := tag_chords None (sort_notes l) in
  ipos (snd (interp (fst (fst (mwv v N Os pos pos mx))) s)) = snd (fst (mwv v N Os pos pos mx)).
Proof. exact interp_position_end_lemma. Qed.
Print Assumptions interp_position_end.

(* voice re-assignment (remove_voice_polyphony) and the per-voice grouping/sorting keep the
   multiset of notes: only the voice under which a note is written changes *)
Theorem rvp_preserves_notes : forall ns,
  Permutation (flat_map snd (rvp (partition_voices ns))) ns.
Proof. exact rvp_preserves_notes_lemma. Qed.
Print Assumptions rvp_preserves_notes.

Theorem voices_preserve_notes : forall ns, Permutation (flat_map snd (voices_of ns)) ns.
Proof. exact voices_of_perm. Qed.
Print Assumptions voices_preserve_notes.

(* UNPROVED TARGET (kept as a comment, see design.d/C03.md): after re-assignment every voice is
   sequential.  It is evaluated instead, as the boolean sequential_b of Model/C03.v, on every
   generated measure by the correspondence check (a).
   target rvp_sequential : forall ns v l,
     durs_ok ns -> In (v, l) (rvp (partition_voices ns)) -> sequential_b l = true. *)

(* tie merge is invariant under splitting a piece of the chain at a barline *)
Theorem sounding_merge_ties : forall b c, chain_sound (split_at b c) = chain_sound c.
Proof. exact sounding_merge_ties_lemma. Qed.
Print Assumptions sounding_merge_ties.

(* the hypotheses are satisfiable by a non-trivial measure (two segments, three voices after
   re-assignment, gap, grace note, unequal chord) and the model computes on it *)
Theorem example_measure :
  segs_ok [ex_seg1; ex_seg2] /\
  lin_measure [ex_seg1; ex_seg2] 0 24 =
  [EDivisions 4; ENote 2 4 false false 1; ENote 3 4 false false 1;
   EBackup 2; EOther 2;
   EBackup 6; ENote 4 4 false false 2; EForward 4; ENote 5 0 false true 2; ENote 6 4 false false 2;
   EBackup 12; ENote 1 8 false false 3;
   EForward 4; EDivisions 6; ENote 7 6 false false 1; EForward 6].
Proof. exact (conj ex_hypotheses ex_linearize). Qed.
Print Assumptions example_measure.
