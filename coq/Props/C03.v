(* C03 -- property theorems.  Statements + `exact` only; proofs live in Proofs/C03.v.
   Model/C03.v is the executable model of partitura/io/exportmusicxml.py's measure
   linearisation (tied to the source on every run: its output is compared with the element
   stream of every written measure) and the SPEC: interp, an independent reader of MusicXML
   timing (position, chord, grace, backup/forward, furthest position = end of the measure).
   All theorems quantify over ALL inputs (any number of voices, gaps, chords with unequal
   durations, grace notes, non-note elements, divisions segments). *)
From PV Require Import Lib.Base Model.C03 Proofs.C03 Proofs.C03_Seq Proofs.C03_Q.
From Coq Require Import QArith.
From Coq Require Import Permutation.
#[local] Open Scope Z_scope.

(* O1, export core.  The stream written for a measure (lin_measure: all divisions segments,
   all voices after voice re-assignment, sorted, chord-tagged, merged with forward/backup), read
   by the independent interpreter from the measure start, yields exactly (as a multiset) every
   note of the measure at its onset with its duration and every non-note element at its onset;
   and the reader's measure ends at max(measure end, furthest element). *)
Theorem interp_linearize : forall segs ms me,
  segs_ok segs ->
  exists pl s', interp (lin_measure segs ms me) (mkI ms ms ms) = (pl, s') /\
                Permutation pl (flat_map seg_placed segs) /\
                imax s' = Z.max me (snd (lin_segs segs ms ms)).
Proof. exact interp_linearize_lemma. Qed.
Print Assumptions interp_linearize.

(* measures keep their extent: if everything lies inside [ms, me], the reader's measure is [ms, me]
   (also when every voice ends early: the exporter pads with <forward>) *)
Theorem measure_extent : forall segs ms me,
  segs_ok segs -> ms <= me ->
  Forall (fun seg => notes_le me (fst seg) /\ others_le me (snd seg)) segs ->
  imax (snd (interp (lin_measure segs ms me) (mkI ms ms ms))) = me.
Proof. exact measure_extent_lemma. Qed.
Print Assumptions measure_extent.

(* one voice, exact order: for ANY chord-consistent tagged note list and any non-note elements,
   from any reader state at the voice's start position, the reader outputs the voice's objects in
   document order, each at its onset, and stops at the position the exporter assumes *)
Theorem interp_merge_voice : forall N Os v last_t lno mx s prev,
  chord_ok prev N -> nonneg N ->
  ipos s = last_t -> imax s = mx -> last_t <= mx ->
  ready prev Os last_t lno s ->
  match mwv v N Os last_t lno mx with
  | (es, t', mx') =>
      exists l', interp es s = (mwv_placed N Os, mkI t' l' mx') /\ t' <= mx'
  end.
Proof. exact mwv_interp. Qed.
Print Assumptions interp_merge_voice.

(* add_chord_tags only tags a note that directly follows a non-grace note of equal onset and duration *)
Theorem chord_tags_consistent : forall l, chord_ok None (tag_chords None l).
Proof. exact chord_tags_consistent_lemma. Qed.
Print Assumptions chord_tags_consistent.

(* position after a voice = end of its last element (the fact the voice-switch backup relies on) *)
Theorem interp_position_end : forall l Os v pos mx s,
  durs_ok l -> ipos s = pos -> imax s = mx -> pos <= mx ->
  let N := tag_chords None (sort_notes l) in
  ipos (snd (interp (fst (fst (mwv v N Os pos pos mx))) s)) = snd (fst (mwv v N Os pos pos mx)).
Proof. exact interp_position_end_lemma. Qed.
Print Assumptions interp_position_end.

(* voice re-assignment (remove_voice_polyphony) and the per-voice grouping/sorting keep the
   multiset of notes: only the voice under which a note is written changes *)
Theorem rvp_preserves_notes : forall ns,
  Permutation (flat_map snd (rvp (partition_voices ns))) ns.
Proof. exact rvp_preserves_notes_lemma. Qed.
Print Assumptions rvp_preserves_notes.

Theorem voices_preserve_notes : forall ns, Permutation (flat_map snd (voices_of ns)) ns.
Proof. exact voices_of_perm. Qed.
Print Assumptions voices_preserve_notes.

(* after the voice re-assignment (remove_voice_polyphony: both passes, find_free_voice over the
   spans of ALL notes moved so far) every voice is sequential -- simultaneous non-grace notes of a
   voice have equal durations (a chord the reader resolves) and no note runs past a later onset of
   its voice -- for every list of notes without negative durations, any number of voices.
   sequential_b is the boolean the correspondence (a-model) evaluates on every written measure. *)
Theorem rvp_sequential : forall ns,
  durs_ok ns -> Forall (fun vl => sequential_b (snd vl) = true) (rvp (partition_voices ns)).
Proof. exact rvp_sequential_lemma. Qed.
Print Assumptions rvp_sequential.

Theorem voices_sequential : forall ns,
  durs_ok ns -> Forall (fun vl => sequential_b (snd vl) = true) (voices_of ns).
Proof. exact voices_sequential_lemma. Qed.
Print Assumptions voices_sequential.

(* The DECIDING measure check of the correspondence, spec_measure_b (evaluated in Coq on the element
   stream of every written measure: the reader places every note of the score's measure at its onset
   with its duration, as a multiset, and ends exactly at the measure end), is passed by the model's
   stream for every measure whose contents lie inside [ms, me] ... *)
Theorem written_measure_meets_spec : forall segs ms me,
  segs_ok segs -> ms <= me ->
  Forall (fun seg => notes_le me (fst seg) /\ others_le me (snd seg)) segs ->
  spec_measure_b (segs, ms, me, lin_measure segs ms me) = true.
Proof. exact lin_measure_meets_spec_lemma. Qed.
Print Assumptions written_measure_meets_spec.

(* ... and so is the whole checker (spec, element-for-element tie, sequential voices): a written
   measure on which check_measure_both is false is NOT the model's stream, or violates the spec *)
Theorem model_stream_passes_check : forall segs ms me,
  segs_ok segs -> ms <= me ->
  Forall (fun seg => notes_le me (fst seg) /\ others_le me (snd seg)) segs ->
  check_measure_both (segs, ms, me, lin_measure segs ms me) = true.
Proof. exact lin_measure_passes_check_lemma. Qed.
Print Assumptions model_stream_passes_check.

(* The reader in quarters that the whole-part correspondence (b) evaluates (interp_q) is the
   division-axis reader of the theorems above (interp) scaled by the divisions in force: on ANY
   stream without a change of divisions (barlines, backup/forward, chords, grace notes allowed),
   started in related states (quarter position = c + division position / q), it outputs the same
   notes in the same order, each at c + onset/q with duration dur/q, and ends in related states.
   (Across a change of divisions the offset c changes; that chaining is evaluated by (b), not proved.) *)
Theorem interp_q_scales : forall es c q si sq,
  no_div es -> rel c q si sq ->
  note_rel c q (fst (interp es si)) (interp_q es sq) /\
  rel c q (snd (interp es si)) (snd (interp_qs es sq)).
Proof. exact interp_q_scales_lemma. Qed.
Print Assumptions interp_q_scales.

(* the start state of check_part is related to the start state of the first measure (c = 0) *)
Theorem interp_q_start : forall q, rel 0 q (mkI 0 0 0) (mkQ 0 0 0 q).
Proof. exact rel_start. Qed.
Print Assumptions interp_q_start.

(* tie merge is invariant under splitting a piece of the chain at a barline *)
Theorem sounding_merge_ties : forall b c, chain_sound (split_at b c) = chain_sound c.
Proof. exact sounding_merge_ties_lemma. Qed.
Print Assumptions sounding_merge_ties.

(* the hypotheses are satisfiable by a non-trivial measure (two segments, three voices after
   re-assignment, gap, grace note, unequal chord) and the model computes on it *)
Theorem example_measure :
  segs_ok [ex_seg1; ex_seg2] /\
  lin_measure [ex_seg1; ex_seg2] 0 24 =
  [EDivisions 4; ENote 2 4 false false 1; ENote 3 4 false false 1;
   EBackup 2; EOther 2;
   EBackup 6; ENote 4 4 false false 2; EForward 4; ENote 5 0 false true 2; ENote 6 4 false false 2;
   EBackup 12; ENote 1 8 false false 3;
   EForward 4; EDivisions 6; ENote 7 6 false false 1; EForward 6].
Proof. exact (conj ex_hypotheses ex_linearize). Qed.
Print Assumptions example_measure.
