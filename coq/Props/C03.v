(* C03 -- property theorems.  Statements + `exact` only; proofs live in Proofs/C03.v.
   Model/C03.v is the executable model of partitura/io/exportmusicxml.py's measure
   linearisation (tied to the source on every run: its output is compared with the element
   stream of every written measure) and the SPEC: interp, an independent reader of MusicXML
   timing (position, chord, grace, backup/forward, furthest position = end of the measure).
   All theorems quantify over ALL inputs (any number of voices, gaps, chords with unequal
   durations, grace notes, non-note elements, divisions segments). *)
From PV Require Import Lib.Base Model.C03 Model.C03_Imp Model.C03_Grp Model.C03_Rng Model.C03_Hist Proofs.C03 Proofs.C03_Seq Proofs.C03_Q Proofs.C03_Imp Proofs.C03_Grp Proofs.C03_Rng Proofs.C03_Hist.
From Coq Require Import QArith.
From Coq Require Import Permutation.
#[local] Open Scope Z_scope.

(* O1, export core.  The stream written for a measure (lin_measure: all divisions segments,
   all voices after voice re-assignment, sorted, chord-tagged, merged with forward/backup), read
   by the independent interpreter from the measure start, yields exactly (as a multiset) every
   note of the measure at its onset with its duration and every non-note element at its onset;
   and the reader's measure ends at max(measure end, furthest element). *)
Theorem interp_linearize : forall segs ms me,
  segs_ok segs ->
  exists pl s', interp (lin_measure segs ms me) (mkI ms ms ms) = (pl, s') /\
                Permutation pl (flat_map seg_placed segs) /\
                imax s' = Z.max me (snd (lin_segs segs ms ms)).
Proof. exact interp_linearize_lemma. Qed.
Print Assumptions interp_linearize.

(* measures keep their extent: if everything lies inside [ms, me], the reader's measure is [ms, me]
   (also when every voice ends early: the exporter pads with <forward>) *)
Theorem measure_extent : forall segs ms me,
  segs_ok segs -> ms <= me ->
  Forall (fun seg => notes_le me (fst seg) /\ others_le me (snd seg)) segs ->
  imax (snd (interp (lin_measure segs ms me) (mkI ms ms ms))) = me.
Proof. exact measure_extent_lemma. Qed.
Print Assumptions measure_extent.

(* one voice, exact order: for ANY chord-consistent tagged note list and any non-note elements,
   from any reader state at the voice's start position, the reader outputs the voice's objects in
   document order, each at its onset, and stops at the position the exporter assumes *)
Theorem interp_merge_voice : forall N Os v last_t lno mx s prev,
  chord_ok prev N -> nonneg N ->
  ipos s = last_t -> imax s = mx -> last_t <= mx ->
  ready prev Os last_t lno s ->
  match mwv v N Os last_t lno mx with
  | (es, t', mx') =>
      exists l', interp es s = (mwv_placed N Os, mkI t' l' mx') /\ t' <= mx'
  end.
Proof. exact mwv_interp. Qed.
Print Assumptions interp_merge_voice.

(* add_chord_tags only tags a note that directly follows a non-grace note of equal onset and duration *)
Theorem chord_tags_consistent : forall l, chord_ok None (tag_chords None l).
Proof. exact chord_tags_consistent_lemma. Qed.
Print Assumptions chord_tags_consistent.

(* position after a voice = end of its last element (the fact the voice-switch backup relies on) *)
Theorem interp_position_end : forall l Os v pos mx s,
  durs_ok l -> ipos s = pos -> imax s = mx -> pos <= mx ->
  let N := tag_chords None (sort_notes l) in
  ipos (snd (interp (fst (fst (mwv v N Os pos pos mx))) s)) = snd (fst (mwv v N Os pos pos mx)).
Proof. exact interp_position_end_lemma. Qed.
Print Assumptions interp_position_end.

(* voice re-assignment (remove_voice_polyphony) and the per-voice grouping/sorting keep the
   multiset of notes: only the voice under which a note is written changes *)
Theorem rvp_preserves_notes : forall ns,
  Permutation (flat_map snd (rvp (partition_voices ns))) ns.
Proof. exact rvp_preserves_notes_lemma. Qed.
Print Assumptions rvp_preserves_notes.

Theorem voices_preserve_notes : forall ns, Permutation (flat_map snd (voices_of ns)) ns.
Proof. exact voices_of_perm. Qed.
Print Assumptions voices_preserve_notes.

(* after the voice re-assignment (remove_voice_polyphony: both passes, find_free_voice over the
   spans of ALL notes moved so far) every voice is sequential -- simultaneous non-grace notes of a
   voice have equal durations (a chord the reader resolves) and no note runs past a later onset of
   its voice -- for every list of notes without negative durations, any number of voices.
   sequential_b is the boolean the correspondence (a-model) evaluates on every written measure. *)
Theorem rvp_sequential : forall ns,
  durs_ok ns -> Forall (fun vl => sequential_b (snd vl) = true) (rvp (partition_voices ns)).
Proof. exact rvp_sequential_lemma. Qed.
Print Assumptions rvp_sequential.

Theorem voices_sequential : forall ns,
  durs_ok ns -> Forall (fun vl => sequential_b (snd vl) = true) (voices_of ns).
Proof. exact voices_sequential_lemma. Qed.
Print Assumptions voices_sequential.

(* The DECIDING measure check of the correspondence, spec_measure_b (evaluated in Coq on the element
   stream of every written measure: the reader places every note of the score's measure at its onset
   with its duration, as a multiset, and ends exactly at the measure end), is passed by the model's
   stream for every measure whose contents lie inside [ms, me] ... *)
Theorem written_measure_meets_spec : forall segs ms me,
  segs_ok segs -> ms <= me ->
  Forall (fun seg => notes_le me (fst seg) /\ others_le me (snd seg)) segs ->
  spec_measure_b (segs, ms, me, lin_measure segs ms me) = true.
Proof. exact lin_measure_meets_spec_lemma. Qed.
Print Assumptions written_measure_meets_spec.

(* ... and so is the whole checker (spec, element-for-element tie, sequential voices): a written
   measure on which check_measure_both is false is NOT the model's stream, or violates the spec *)
Theorem model_stream_passes_check : forall segs ms me,
  segs_ok segs -> ms <= me ->
  Forall (fun seg => notes_le me (fst seg) /\ others_le me (snd seg)) segs ->
  check_measure_both (segs, ms, me, lin_measure segs ms me) = true.
Proof. exact lin_measure_passes_check_lemma. Qed.
Print Assumptions model_stream_passes_check.

(* O2, timing.  The IMPORTER's measure reader (imp: the transcription of _handle_measure/_handle_note -- running
   position, prev_note for <chord/>, grace notes without <duration>, <backup> clamped at the measure start and
   raising measure_maxtime, barline children at position_barline by location, <print> at the measure start;
   tied to load_musicxml on every run by check_import) reads the exporter's stream of ANY measure whose contents
   lie inside [ms, me] exactly as the independent spec reader does: the same objects in the same order with the
   same start times and durations, no failed assertion, and the loaded measure is [ms, me]. *)
Theorem importer_reads_measure : forall segs ms me,
  ms <= me -> segs_in ms me segs ->
  exists s', imp (lin_measure segs ms me) (mkM ms None ms ms) =
             Some (fst (interp (lin_measure segs ms me) (mkI ms ms ms)), s') /\
             mstart s' = ms /\ mmax s' = me.
Proof. exact importer_reads_measure_lemma. Qed.
Print Assumptions importer_reads_measure.

(* ... hence every note of the measure is loaded at its onset with its duration (with interp_linearize) *)
Theorem importer_places_notes : forall segs ms me,
  ms <= me -> segs_in ms me segs ->
  exists pl s', imp (lin_measure segs ms me) (mkM ms None ms ms) = Some (pl, s') /\
                Permutation pl (flat_map seg_placed segs) /\ mmax s' = me.
Proof. exact importer_places_notes_lemma. Qed.
Print Assumptions importer_places_notes.

(* whole parts: for any sequence of contiguous measures the importer (imp_part: the next measure starts at
   measure_maxtime, prev_note reset per measure) reads the written part measure by measure as the spec reader
   does, and the loaded measures have exactly the extents of the score's measures *)
Theorem importer_reads_part : forall M t s started,
  contiguous t M -> mmax s = t ->
  imp_part (part_stream M) s started =
  Some (part_placed M, (if started then [(mstart s, mmax s)] else []) ++ part_extents M).
Proof. exact importer_reads_part_lemma. Qed.
Print Assumptions importer_reads_part.

(* the boolean the correspondence evaluates on every written measure (imp_measure_b) is passed by the model's
   stream whenever the measure's contents lie inside it (segs_in_b: the decidable form of segs_in) *)
Theorem model_stream_passes_imp_check : forall segs ms me,
  ms <= me -> segs_in_b ms me segs = true ->
  imp_measure_b (segs, ms, me, lin_measure segs ms me) = true.
Proof. exact lin_measure_passes_imp_lemma. Qed.
Print Assumptions model_stream_passes_imp_check.

(* ... and so is the whole per-measure checker the correspondence evaluates (deciding spec check, exporter model,
   importer model, hypotheses): a written measure on which check_measure_all is false is NOT the model's stream *)
Theorem model_stream_passes_all_checks : forall segs ms me,
  ms <= me -> segs_in_b ms me segs = true ->
  check_measure_all (segs, ms, me, lin_measure segs ms me) = true.
Proof. exact lin_measure_passes_all_lemma. Qed.
Print Assumptions model_stream_passes_all_checks.

(* non-vacuity: a measure [8, 24] with an equal-duration chord, a grace note, a second voice, a left and a right
   barline and a <print> satisfies the hypotheses; the importer model computes on it.  Boundary: on a stream the
   exporter never writes (<chord/> after <backup>) the importer and the spec reader differ *)
Theorem importer_example :
  segs_in 8 24 [imp_ex_seg] /\
  imp (lin_measure [imp_ex_seg] 8 24) (mkM 8 None 8 8) =
    Some ([POther TAG_LEFT 8; POther 1 8; POther TAG_PRINT 8; PNote 2 8 4; PNote 1 8 4; PNote 3 12 0;
           PNote 4 12 4; POther TAG_RIGHT 24; PNote 5 10 6], mkM 16 (Some (10, 6)) 24 8) /\
  imp [ENote 1 4 false false 1; EBackup 2; ENote 2 4 true false 1; ENote 3 2 false false 1] (mkM 0 None 0 0) =
    Some ([PNote 1 0 4; PNote 2 0 4; PNote 3 4 2], mkM 6 (Some (4, 2)) 6 0).
Proof. exact (conj imp_ex_hyp (conj (proj2 imp_ex_run) (proj1 imp_differs_from_interp))). Qed.
Print Assumptions importer_example.

(* O2, parts and part groups.  _parse_partlist (parse_groups: a stack of open groups; a stop without an open group
   fails) inverts the eager serialisation of ANY part structure ... *)
Theorem parse_inverts_serialisation : forall f, parse_groups (emit_f f) = Some f.
Proof. exact parse_emit_lemma. Qed.
Print Assumptions parse_inverts_serialisation.

(* ... the exporter (export_groups: it walks the flat list of parts, each knowing only its chain of parents; opens a
   group when its first part arrives, closes groups LAZILY when a part outside them arrives or at the end; membership
   in group_stack by object identity) writes exactly that serialisation for every structure, nested to any depth,
   whose groups are distinct objects and each hold at least one part ... *)
Theorem export_writes_serialisation : forall f, groups_wf f -> export_groups f = emit_f f.
Proof. exact export_is_emit_lemma. Qed.
Print Assumptions export_writes_serialisation.

(* ... so the structure of parts and nested groups survives save and load *)
Theorem groups_roundtrip : forall f, groups_wf f -> parse_groups (export_groups f) = Some f.
Proof. exact groups_roundtrip_lemma. Qed.
Print Assumptions groups_roundtrip.

(* non-vacuity (nested two deep, a member after an inner group, sibling groups, a bare part) and the boundary of the
   hypothesis: a group without parts is not written *)
Theorem groups_example :
  groups_wf grp_ex /\
  export_groups grp_ex =
    [TStart 1; TStart 2; TPart 1; TPart 2; TStop 2; TPart 3; TStop 1; TStart 3; TStart 4; TPart 4;
     TStop 4; TStop 3; TPart 5] /\
  parse_groups (export_groups [NGroup 1 []; NPart 1]) = Some [NPart 1].
Proof. exact (conj grp_ex_wf (conj grp_ex_export (proj2 grp_empty_group_lost))). Qed.
Print Assumptions groups_example.

(* O2, slurs and tuplets.  For ANY part -- notes in document order, each with the slurs (tuplets) that stop and
   start at it, nested or overlapping in any way, a stop written before its start (other voice / staff) included --
   in which every range is started once and stopped once and does not run backwards in time (ok_notes: stated on
   the score alone, by a reader keyed by the IDENTITY of the range): numbering the ranges as save_musicxml does
   (roundtrip: range_number_from_counter = smallest number no open range uses, released by the second call;
   range_numbers_at_note = not-open ranges first; stops then starts, each sorted by number) and pairing the written
   elements as load_musicxml does (per note sorted by type then number, start-key / stop-key per number in
   `ongoing`, stop-before-start, rogue test on the onsets; rogue = true: handle_slurs, false: handle_tuplets)
   yields exactly the pairs (start note, end note) that pairing by identity yields. *)
Theorem range_numbers_roundtrip : forall rogue ns,
  ok_notes rogue ns ost0 ->
  Permutation (fin (roundtrip rogue ns [] ost0)) (fin (spec_run rogue ns ost0)).
Proof. exact range_numbers_roundtrip_lemma. Qed.
Print Assumptions range_numbers_roundtrip.

(* the reason range_numbers_at_note numbers the ranges that are not open BEFORE the open ones release their
   numbers: all numbers written at one note for one kind differ (from any injective counter) *)
Theorem numbers_at_distinct : forall rs c,
  cinj c -> NoDup rs -> NoDup (map fst (fst (numbers_at rs c))).
Proof. exact numbers_at_distinct_lemma. Qed.
Print Assumptions numbers_at_distinct.

(* non-vacuity (three slurs over two voices, one stop-before-start, a number re-used) and two boundaries: a slur
   running backwards in time is outside the hypothesis and IS lost; list-order numbering writes a number twice *)
Theorem ranges_example :
  ok_notes true rng_ex ost0 /\
  export_notes rng_ex [] = [[(1, true)]; [(2, true)]; [(1, false); (3, false)]; [(3, true)]; [(2, false)]] /\
  fin (roundtrip true rng_ex [] ost0) = [(1, 4); (3, 2); (0, 2)] /\
  fin (roundtrip true [mkRN (0, 8) [] [10]; mkRN (1, 0) [10] []] [] ost0) = [] /\
  map fst (fst (toggle_all [10; 12] [(10, 1)])) = [1; 1].
Proof.
  exact (conj rng_ex_ok (conj rng_ex_written (conj rng_ex_loaded
          (conj (proj2 rng_backwards_lost) (proj1 rng_list_order_collides))))).
Qed.
Print Assumptions ranges_example.

(* O2, wedges and dashes (the part of the exporter three repaired defects were in).  For ANY sequence of wedge
   (dashes) starts and stops in document order in which a range is started while it is not open and stopped while it
   is open -- overlapping without nesting, over barlines, any number open at once: numbering the events as
   do_directions does (the same counter function, stops before starts at one time) and reading the numbers as
   _handle_direction does (ongoing[(label, number)]: a start overwrites, a stop ends what it finds, a stop without a
   start is ignored) yields the (start, end) pairs that pairing by identity yields. *)
Theorem wedge_numbers_roundtrip : forall evs,
  ok_wevents evs ost0 ->
  Permutation (fin (wroundtrip evs [] ost0)) (fin (wspec evs ost0)).
Proof. exact wedge_numbers_roundtrip_lemma. Qed.
Print Assumptions wedge_numbers_roundtrip.

(* non-vacuity: two overlapping wedges, the first crossing a barline (the shape of 65e5d66 / a5e2056), a third
   re-using number 1 *)
Theorem wedges_example :
  ok_wevents wedge_ex ost0 /\
  wexport wedge_ex [] = [(1, true); (2, true); (1, false); (2, false); (1, true); (1, false)] /\
  fin (wroundtrip wedge_ex [] ost0) = [(30, 40); (18, 30); (0, 20)].
Proof. exact (conj wedge_ex_ok wedge_ex_run). Qed.
Print Assumptions wedges_example.

(* The reader in quarters that the whole-part correspondence (b) evaluates (interp_q) is the
   division-axis reader of the theorems above (interp) scaled by the divisions in force: on ANY
   stream without a change of divisions (barlines, backup/forward, chords, grace notes allowed),
   started in related states (quarter position = c + division position / q), it outputs the same
   notes in the same order, each at c + onset/q with duration dur/q, and ends in related states.
   (Across a change of divisions the offset c changes; that chaining is evaluated by (b), not proved.) *)
Theorem interp_q_scales : forall es c q si sq,
  no_div es -> rel c q si sq ->
  note_rel c q (fst (interp es si)) (interp_q es sq) /\
  rel c q (snd (interp es si)) (snd (interp_qs es sq)).
Proof. exact interp_q_scales_lemma. Qed.
Print Assumptions interp_q_scales.

(* the start state of check_part is related to the start state of the first measure (c = 0) *)
Theorem interp_q_start : forall q, rel 0 q (mkI 0 0 0) (mkQ 0 0 0 q).
Proof. exact rel_start. Qed.
Print Assumptions interp_q_start.

(* tie merge is invariant under splitting a piece of the chain at a barline *)
Theorem sounding_merge_ties : forall b c, chain_sound (split_at b c) = chain_sound c.
Proof. exact sounding_merge_ties_lemma. Qed.
Print Assumptions sounding_merge_ties.

(* the hypotheses are satisfiable by a non-trivial measure (two segments, three voices after
   re-assignment, gap, grace note, unequal chord) and the model computes on it *)
Theorem example_measure :
  segs_ok [ex_seg1; ex_seg2] /\
  lin_measure [ex_seg1; ex_seg2] 0 24 =
  [EDivisions 4; ENote 2 4 false false 1; ENote 3 4 false false 1;
   EBackup 2; EOther 2;
   EBackup 6; ENote 4 4 false false 2; EForward 4; ENote 5 0 false true 2; ENote 6 4 false false 2;
   EBackup 12; ENote 1 8 false false 3;
   EForward 4; EDivisions 6; ENote 7 6 false false 1; EForward 6].
Proof. exact (conj ex_hypotheses ex_linearize). Qed.
Print Assumptions example_measure.

(* ---- state carried between calls (Model/C03_Hist.v: the per-call counters of save_musicxml, Score.parts vs
   Score.part_structure, score[i] = part, in-place edits).  For EVERY history of calls, in-place edits and part
   replacements, from EVERY process state (whatever counters an earlier call left, whatever earlier result, whatever
   the second view holds): the k-th save_musicxml call writes save (Score.parts as they are at that call). *)
Theorem history_save_current : forall h pr, run h pr = map save (parts_at h (p_parts pr)).
Proof. exact run_current. Qed.
Print Assumptions history_save_current.

(* the call after any history h writes save (the parts after h) *)
Theorem history_last_call : forall h pr, run (h ++ [HSave]) pr = run h pr ++ [save (cur_parts h (p_parts pr))].
Proof. exact run_last. Qed.
Print Assumptions history_last_call.

(* two processes agreeing on Score.parts cannot be told apart by any history *)
Theorem history_parts_only : forall h pr pr', p_parts pr = p_parts pr' -> run h pr = run h pr'.
Proof. exact run_parts_only. Qed.
Print Assumptions history_parts_only.

(* not vacuous: module-level counters, a memoised result, or iterating the other view ARE told apart *)
Theorem history_leaky_refuted : exists h s, run_with step_leaky h (mkP s s c0 None) <> map save (parts_at h s).
Proof. exact leaky_refuted_lemma. Qed.
Print Assumptions history_leaky_refuted.

Theorem history_memo_refuted : exists h s, run_with step_memo h (mkP s s c0 None) <> map save (parts_at h s).
Proof. exact memo_refuted_lemma. Qed.
Print Assumptions history_memo_refuted.

Theorem history_structure_refuted : exists h s, run_with step_structure h (mkP s s c0 None) <> map save (parts_at h s).
Proof. exact structure_refuted_lemma. Qed.
Print Assumptions history_structure_refuted.

Theorem history_example :
  run [HSave; HSetPart 0 ex_p3; HSave] (mkP [ex_p1; ex_p2] [ex_p1; ex_p2] c0 None) =
  [ [ ([(1, 1); (2, 1)], [[(1, true)]; [(1, false)]], []);
      ([(2, 2); (3, 1)], [[(1, true); (2, true)]; [(1, false)]], [[(1, true)]; [(1, false)]]) ];
    [ ([(7, 1)], [[(1, true)]], []);
      ([(2, 1); (3, 1)], [[(2, true); (3, true)]; [(2, false)]], [[(1, true)]; [(1, false)]]) ] ].
Proof. exact hist_example_lemma. Qed.
Print Assumptions history_example.

From PV Require Import Model.C03_Txt Proofs.C03_Txt.
(* ---- texts of <words> directions through one process (Model/C03_Txt.v; round h3: state kept at module level) ---- *)

(* the code keeps nothing between two parses: whatever ran before in the process (any state m), the directions made of
   the texts of a history are those of each text on its own *)
Theorem texts_load_current : forall h m, run_with step m h = map words_load h.
Proof. exact run_current. Qed.
Print Assumptions texts_load_current.

Theorem texts_state_free : forall h m m', run_with step m h = run_with step m' h.
Proof. exact run_state_free. Qed.
Print Assumptions texts_state_free.

(* a text without comma and without outer blank, as a direction states it, is written and read back as it is *)
Theorem texts_roundtrip : forall raw, clean raw -> words_load (words_save raw) = [raw].
Proof. exact roundtrip_clean. Qed.
Print Assumptions texts_roundtrip.

(* any number of files in one process, in any order: every direction comes back with the text ITS file states *)
Theorem texts_process_roundtrip : forall h m, Forall clean h -> run_with step m (map words_save h) = map (fun t => [t]) h.
Proof. exact process_roundtrip. Qed.
Print Assumptions texts_process_roundtrip.

(* not vacuous: a memo keyed by the case-folded text ("allegro" after "Allegro", both orders) or by the blank-normalised
   text ("allegro  molto" after "allegro molto") answers with the EARLIER spelling *)
Theorem texts_casefold_memo_refuted :
  run_with (step_keyed casefold) [] [allegro; allegro_l] = [[allegro]; [allegro]] /\
  run_with (step_keyed casefold) [] [allegro_l; allegro] = [[allegro_l]; [allegro_l]] /\
  run [] [allegro; allegro_l] = [[allegro]; [allegro_l]] /\ clean allegro /\ clean allegro_l.
Proof. exact casefold_memo_refuted. Qed.
Print Assumptions texts_casefold_memo_refuted.

Theorem texts_squeeze_memo_refuted :
  run_with (step_keyed squeeze) [] [allegro_m1; allegro_m] = [[allegro_m1]; [allegro_m1]] /\
  run [] [allegro_m1; allegro_m] = [[allegro_m1]; [allegro_m]] /\ clean allegro_m.
Proof. exact squeeze_memo_refuted. Qed.
Print Assumptions texts_squeeze_memo_refuted.

(* "A tempo, Dolce " makes two directions; the checker the correspondence evaluates accepts what the code returns and
   rejects the earlier spelling *)
Theorem texts_example :
  words_load at_dolce = [[65; 32; 116; 101; 109; 112; 111]; [68; 111; 108; 99; 101]] /\
  check_texts [([allegro; at_dolce], [[68; 111; 108; 99; 101]; allegro; [65; 32; 116; 101; 109; 112; 111]]); ([allegro_l], [allegro_l])] = true /\
  check_texts [([allegro], [allegro]); ([allegro_l], [allegro])] = false.
Proof. exact texts_example_lemma. Qed.
Print Assumptions texts_example.

From PV Require Import Model.C03_Tie Proofs.C03_Tie.
(* ---- tie links (Model/C03_Tie.v; round j extension): <tie type="stop"/"start"> written from tie_prev / tie_next,
   paired by the importer under ongoing[("tie", midi pitch)] over the whole part in document order ---- *)

(* refinement of the importer's dictionary, for EVERY part (no hypothesis): after any prefix of the written part the
   entry ongoing[("tie", k)] is the most recent tied note of pitch k if that note has a tie_next, and absent otherwise *)
Theorem tie_state_is_last_tied_note : forall a k,
  ongoing (import_ties (export_ties a) tst0) k = open_tie a k.
Proof. exact tie_state_char. Qed.
Print Assumptions tie_state_is_last_tied_note.

(* the clause "tie links" under the quantifier's "concurrently tied notes of one part have distinct pitches (MusicXML
   pairs ties by pitch)", stated on the score alone (ties_by_pitch: the most recent tied note of the same pitch before
   a note with a tie_prev, in document order, is that tie_prev and has a tie_next): for every part -- chains over any
   number of notes and barlines, ties changing voice, any number of pitches tied at once, untied notes of the same
   pitch in between, rests and unpitched notes -- the (tie_prev, note) links the importer builds from what the exporter
   writes are exactly the score's, in document order *)
Theorem tie_links_roundtrip : forall l, ties_by_pitch l ->
  links (import_ties (export_ties l) tst0) = prev_links l.
Proof. exact tie_links_roundtrip_l. Qed.
Print Assumptions tie_links_roundtrip.

(* the hypothesis is EXACT: a part outside ties_by_pitch does not get its links back, so the quantifier's exclusion
   ("concurrently tied notes of one part have distinct pitches") is neither too weak nor stronger than needed *)
Theorem tie_links_roundtrip_iff : forall l,
  links (import_ties (export_ties l) tst0) = prev_links l <-> ties_by_pitch l.
Proof. exact tie_links_roundtrip_iff_l. Qed.
Print Assumptions tie_links_roundtrip_iff.

(* with symmetric links (n.tie_next = m iff m.tie_prev = n) the loaded tie_next links are the score's as well *)
Theorem tie_links_both_directions : forall l, ties_by_pitch l -> ties_symmetric l ->
  forall x, In x (links (import_ties (export_ties l) tst0)) <-> In x (next_links l).
Proof. exact tie_links_both_l. Qed.
Print Assumptions tie_links_both_directions.

(* the booleans the correspondence counts imply the hypotheses; the checker it evaluates holds on the model's output *)
Theorem tie_hypotheses_decided : forall l,
  (ties_by_pitch_b l = true -> ties_by_pitch l) /\ (ties_symmetric_b l = true -> ties_symmetric l).
Proof. exact (fun l => conj (ties_by_pitch_b_sound l) (ties_symmetric_b_sound l)). Qed.
Print Assumptions tie_hypotheses_decided.

Theorem model_passes_check_ties : forall l nx,
  ties_by_pitch l -> pr_sort nx = pr_sort (prev_links l) ->
  check_ties (l, export_ties l, prev_links l, nx) = true.
Proof. exact model_passes_check_ties_l. Qed.
Print Assumptions model_passes_check_ties.

(* non-vacuity: a chain 0 -> 3 -> 6 of pitch 60 whose middle note is written in another voice, an untied 60 in between,
   a tie of pitch 64 open at the same time, a rest *)
Theorem tie_example :
  ties_by_pitch ex_part /\ ties_symmetric ex_part /\
  links (import_ties (export_ties ex_part) tst0) = [(0, 3); (1, 4); (3, 6)] /\
  prev_links ex_part = [(0, 3); (1, 4); (3, 6)].
Proof. exact tie_example_l. Qed.
Print Assumptions tie_example.

(* boundary of the quantifier: two ties of ONE pitch open together are outside the hypothesis and ARE mis-paired *)
Theorem tie_concurrent_same_pitch_lost :
  ties_by_pitch_b ex_concurrent = false /\ ~ ties_by_pitch ex_concurrent /\
  links (import_ties (export_ties ex_concurrent) tst0) = [(1, 2)] /\
  prev_links ex_concurrent = [(0, 2); (1, 3)].
Proof. exact tie_concurrent_same_pitch_lost_l. Qed.
Print Assumptions tie_concurrent_same_pitch_lost.

(* the statement discriminates: key = (pitch, voice) loses the tie that changes voice (seed b_tie_key_per_voice);
   start handled before stop ties the middle note of a chain to itself *)
Theorem tie_key_per_voice_refuted :
  ties_by_pitch ex_part /\
  links (import_ties_with key_voice (export_ties ex_part) tst0) <> prev_links ex_part.
Proof. exact tie_key_per_voice_refuted_l. Qed.
Print Assumptions tie_key_per_voice_refuted.

Theorem tie_start_first_refuted :
  ties_by_pitch ex_part /\
  links (import_ties_start_first (export_ties ex_part) tst0) <> prev_links ex_part.
Proof. exact tie_start_first_refuted_l. Qed.
Print Assumptions tie_start_first_refuted.
