(* C08 -- saving an alignment as a match file and loading it returns the same data.
   Statements only; proofs in Proofs/C08.v (codecs) and Proofs/C08_lines.v (lines, ids, alignment).
   The definitions are those of Model/C08.v, the same ones the correspondence evaluates on the
   numbers the implementation produced (harness/props/c08.py). *)
From PV Require Import Lib.Base Lib.Round Model.C12 Model.C08 Model.C08_attrs Model.C08_sigs Model.C08_glue Model.C08_Hist Model.C08_file Gen.C08_Vocab
  Proofs.C08 Proofs.C08_lines Proofs.C08_perf Proofs.C08_attrs Proofs.C08_sigs Proofs.C08_glue Proofs.C08_hist Proofs.C08_file.
From Coq Require Import QArith Qabs Sorting.Sorted Sorting.Permutation String.
#[local] Open Scope Z_scope.

(* O3 position: beat + offset written by the exporter decode to the written position, in every
   meter (den) and for every divisions value *)
Theorem inbar_roundtrip : forall dpq den pos, 0 < dpq -> 0 < den ->
  (dec_inbar den (enc_beat dpq den pos + 1) (enc_off dpq den pos) == inject_Z pos / inject_Z dpq)%Q.
Proof. exact inbar_roundtrip_lemma. Qed.
Print Assumptions inbar_roundtrip.

(* the beat is a beat of the measure and the offset stays inside one beat (1/den whole note) *)
Theorem enc_range : forall dpq den pos, 0 < dpq -> 0 < den -> 0 <= pos ->
  0 <= enc_beat dpq den pos /\ (0 <= enc_off dpq den pos)%Q /\ (enc_off dpq den pos < 1 / inject_Z den)%Q.
Proof. exact enc_range_lemma. Qed.
Print Assumptions enc_range.

(* whole-file position round trip: any measure table (pickup = short first measure, a new
   denominator per measure = time signature changes), any set of onsets; bar times are
   reconstructed from the first listed note of each bar; the decoded position of every note is its
   written position in quarters *)
Theorem position_roundtrip : forall ms dpq origin ons on,
  0 < dpq -> (forall m, In m ms -> 0 < m_den m) -> NoDup (map m_num ms) ->
  In on ons -> find_meas ms on None <> None ->
  exists s q, enc_sn ms dpq origin on = Some s /\
              decode_q (enc_all ms dpq origin ons) s = Some q /\
              (q == inject_Z (on - origin) / inject_Z dpq)%Q.
Proof. exact position_roundtrip_lemma. Qed.
Print Assumptions position_roundtrip.

Example position_roundtrip_nontrivial :
  (* 3/4 pickup of 2 divisions, then 6/8, then 2/2; divisions 4; onsets off the beat *)
  let ms := [mkM 0 0 4; mkM 1 2 8; mkM 2 14 2] in
  map (fun on => match enc_sn ms 4 2 on with
                 | Some s => match decode_q (enc_all ms 4 2 [5; 0; 17; 14; 9]) s with
                             | Some q => Qeq_bool q (inject_Z (on - 2) / 4) | None => false end
                 | None => false end) [5; 0; 17; 14; 9] = [true; true; true; true; true].
Proof. vm_compute. reflexivity. Qed.

(* O3 duration: a duration that is on the loaded part's grid is read back exactly ... *)
Theorem duration_roundtrip : forall dpq d divs k,
  0 < dpq -> k * dpq = d * divs -> decode_dur divs (enc_dur dpq d) = k.
Proof. exact duration_roundtrip_lemma. Qed.
Print Assumptions duration_roundtrip.

(* ... and it is on that grid as soon as the written (reduced) denominator divides the divisions,
   which is how part_from_matchfile chooses them (lcm of the denominators) *)
Theorem divs_sufficient : forall dpq d n D divs,
  0 < dpq -> 0 < D -> n * (4 * dpq) = d * D -> (D | divs) -> exists k, k * dpq = d * divs.
Proof. exact divs_sufficient_lemma. Qed.
Print Assumptions divs_sufficient.

Theorem onset_on_grid : forall divs q k,
  0 < divs -> (q == inject_Z k / inject_Z divs)%Q -> round_half_even (inject_Z divs * q) = k.
Proof. exact onset_grid_lemma. Qed.
Print Assumptions onset_on_grid.

(* O2 ticks: a time on the tick grid is written and read back as the same tick; any time goes to
   the nearest tick *)
Theorem ticks_roundtrip : forall ppq mpq k,
  0 < ppq -> 0 < mpq -> sec_to_tick ppq mpq (tick_to_sec ppq mpq k) = k.
Proof. exact tick_roundtrip_c08. Qed.
Print Assumptions ticks_roundtrip.

Theorem ticks_nearest : forall ppq mpq t,
  (Qabs (inject_Z (1000000 * ppq) * t / inject_Z mpq - inject_Z (sec_to_tick ppq mpq t)) <= 1 # 2)%Q.
Proof. exact tick_nearest_c08. Qed.
Print Assumptions ticks_nearest.

(* O4 first-occurrence de-duplication of lines *)
Theorem unique_keeps_first_order : forall l,
  NoDup (unique_first l) /\ (forall x, In x (unique_first l) <-> In x l) /\ subseq (unique_first l) l.
Proof. exact unique_first_spec. Qed.
Print Assumptions unique_keeps_first_order.

Theorem unique_keeps_first_occurrence : forall l1 x l2,
  ~ In x l1 -> exists r, unique_first (l1 ++ x :: l2) = unique_first l1 ++ x :: r.
Proof. exact unique_first_keeps_first. Qed.
Print Assumptions unique_keeps_first_occurrence.

(* O4 duplicate-id resolution *)
Theorem dedupe_no_match_deletion_conflict : forall l x y s,
  In x (validate l) -> In y (validate l) ->
  l_kind x = KMatch -> l_kind y = KDeletion -> l_sid x = Some s -> l_sid y <> Some s.
Proof. exact no_match_deletion_conflict_lemma. Qed.
Print Assumptions dedupe_no_match_deletion_conflict.

Theorem dedupe_no_match_insertion_conflict : forall l x y p,
  In x (validate l) -> In y (validate l) ->
  is_mo x = true -> l_kind y = KInsertion -> l_pid x = Some p -> l_pid y <> Some p.
Proof. exact no_match_insertion_conflict_lemma. Qed.
Print Assumptions dedupe_no_match_insertion_conflict.

Theorem dedupe_keeps_matches : forall l, filter is_mo (validate l) = filter is_mo l.
Proof. exact validate_keeps_matches_lemma. Qed.
Print Assumptions dedupe_keeps_matches.

Theorem dedupe_keeps_nonconflicting : forall l x,
  In x l ->
  (forall s, l_kind x = KDeletion -> l_sid x = Some s -> (zcount s (sids l) <= 1)%nat) ->
  (forall p, l_kind x = KInsertion -> l_pid x = Some p -> (zcount p (pids l) <= 1)%nat) ->
  In x (validate l).
Proof. exact nonconflicting_kept_lemma. Qed.
Print Assumptions dedupe_keeps_nonconflicting.

Theorem dedupe_keeps_order : forall l, subseq (validate l) l.
Proof. exact validate_subseq_lemma. Qed.
Print Assumptions dedupe_keeps_order.

Example dedupe_nontrivial :
  (* match s1-p1, deletion s1 (dropped), insertion p1 (dropped), deletion s2 twice (both dropped),
     deletion s3, insertion p4 (kept) *)
  validate [mkL KMatch (Some 1) (Some 1); mkL KDeletion (Some 1) None; mkL KInsertion None (Some 1);
            mkL KDeletion (Some 2) None; mkL KDeletion (Some 2) None; mkL KDeletion (Some 3) None;
            mkL KInsertion None (Some 4)]
  = [mkL KMatch (Some 1) (Some 1); mkL KDeletion (Some 3) None; mkL KInsertion None (Some 4)].
Proof. vm_compute. reflexivity. Qed.

(* O1 alignment: extracting the alignment from the lines written for it gives it back; with ids
   unique per label the reader's duplicate resolution changes nothing *)
Theorem alignment_lines_inverse : forall a, alignment_of (lines_of a) = a.
Proof. exact alignment_of_lines_of. Qed.
Print Assumptions alignment_lines_inverse.

Theorem alignment_extract_inverse : forall a,
  NoDup (flat_map entry_sid a) -> NoDup (flat_map entry_pid a) ->
  alignment_of (validate (lines_of a)) = a.
Proof. exact alignment_extract_inverse_lemma. Qed.
Print Assumptions alignment_extract_inverse.

(* ------------------------------------------------------------------ *)
(* O2 performed notes over one leg  save_match(ppq, mpq) -> file -> load_match, for every note
   (with or without stored ticks) and every clock: pitch and velocity are kept; the ticks of the
   loaded note are the nearest ticks of the seconds GIVEN, in the clock asked of save_match; the
   loaded seconds are those ticks in that clock, at most half a tick from the seconds given *)
Theorem perf_leg : forall ppq mpq p, 0 < ppq -> 0 < mpq ->
  let r := leg ppq mpq p in
  let kon := sec_to_tick ppq mpq (p_on p) in
  let koff := sec_to_tick ppq mpq (p_off p) in
  p_pitch r = p_pitch p /\ p_vel r = p_vel p /\
  p_stored r = Some (kon, koff) /\
  p_on r = tick_to_sec ppq mpq kon /\ p_off r = tick_to_sec ppq mpq koff /\
  (Qabs (inject_Z (1000000 * ppq) * p_on p / inject_Z mpq - inject_Z kon) <= 1 # 2)%Q /\
  (Qabs (inject_Z (1000000 * ppq) * p_off p / inject_Z mpq - inject_Z koff) <= 1 # 2)%Q /\
  (Qabs (p_on r - p_on p) <= half_tick ppq mpq)%Q /\
  (Qabs (p_off r - p_off p) <= half_tick ppq mpq)%Q.
Proof. exact leg_note_lemma. Qed.
Print Assumptions perf_leg.

(* ticks stored on a performed note (those of the clock it was loaded with) have no influence on
   what is written *)
Theorem perf_leg_ignores_stored_ticks : forall ppq mpq pi ve on off st st',
  leg ppq mpq (mkP pi ve on off st) = leg ppq mpq (mkP pi ve on off st').
Proof. exact leg_ignores_stored_lemma. Qed.
Print Assumptions perf_leg_ignores_stored_ticks.

Theorem ticks_monotone : forall ppq mpq t1 t2,
  0 < ppq -> 0 < mpq -> (t1 <= t2)%Q -> sec_to_tick ppq mpq t1 <= sec_to_tick ppq mpq t2.
Proof. exact sec_to_tick_mono. Qed.
Print Assumptions ticks_monotone.

(* a note never ends before it starts, in ticks and in seconds, whatever the clock *)
Theorem perf_leg_order : forall ppq mpq p, 0 < ppq -> 0 < mpq -> (p_on p <= p_off p)%Q ->
  sec_to_tick ppq mpq (p_on p) <= sec_to_tick ppq mpq (p_off p) /\
  (p_on (leg ppq mpq p) <= p_off (leg ppq mpq p))%Q.
Proof. exact leg_order_lemma. Qed.
Print Assumptions perf_leg_order.

(* saving what was loaded with the SAME clock changes nothing *)
Theorem perf_leg_same_clock_fixpoint : forall ppq mpq p, 0 < ppq -> 0 < mpq ->
  leg ppq mpq (leg ppq mpq p) = leg ppq mpq p.
Proof. exact leg_fixpoint_lemma. Qed.
Print Assumptions perf_leg_same_clock_fixpoint.

(* saving what was loaded with ANOTHER clock: seconds stay within half a tick of each clock *)
Theorem perf_two_legs_close : forall ppq1 mpq1 ppq2 mpq2 p,
  0 < ppq1 -> 0 < mpq1 -> 0 < ppq2 -> 0 < mpq2 ->
  let r := leg ppq2 mpq2 (leg ppq1 mpq1 p) in
  (Qabs (p_on r - p_on p) <= half_tick ppq1 mpq1 + half_tick ppq2 mpq2)%Q /\
  (Qabs (p_off r - p_off p) <= half_tick ppq1 mpq1 + half_tick ppq2 mpq2)%Q.
Proof. exact two_legs_close_lemma. Qed.
Print Assumptions perf_two_legs_close.

Example perf_two_legs_nontrivial :
  (* a note with stale ticks, saved with 1000/600000, loaded, saved with the default clock:
     the second file holds the ticks of the default clock, not the stored ones *)
  let p := mkP 60 64 (111 # 100) (154 # 100) (Some (7, 9)) in
  let r1 := leg 1000 600000 p in
  let r2 := leg 480 500000 r1 in
  (p_stored r1, p_stored r2, Qeq_bool (p_on r2) (1066 # 960), Qeq_bool (p_off r2) (1479 # 960))
  = (Some (1850, 2567), Some (1066, 1479), true, true).
Proof. vm_compute. reflexivity. Qed.

(* O2 pedals.  What is loaded for one controller (64 sustain, 67 soft) depends on that controller's
   events only and is: ticks of the file's clock, stable order by tick, exact repetitions (same
   tick and value = same line text) once, seconds of the file's clock *)
Theorem pedal_per_controller : forall ppq mpq cs n, n = 64 \/ n = 67 ->
  filter (cnum_is n) (ped_roundtrip ppq mpq cs)
  = map (ped_sec ppq mpq) (ped_read (ped_lines ppq mpq (filter (cnum_is n) cs))).
Proof. exact pedal_per_controller_lemma. Qed.
Print Assumptions pedal_per_controller.

Theorem pedal_only_pedals : forall ppq mpq cs c,
  In c (ped_roundtrip ppq mpq cs) -> ctrl_num c = 64 \/ ctrl_num c = 67.
Proof. exact pedal_only_pedals_lemma. Qed.
Print Assumptions pedal_only_pedals.

Theorem pedal_file_sorted : forall ppq mpq cs,
  StronglySorted tick_le (ped_read (ped_lines ppq mpq cs)).
Proof. exact pedal_file_sorted_lemma. Qed.
Print Assumptions pedal_file_sorted.

(* no event is lost and none invented: the pedal lines read from the file are exactly the
   sustain/soft events given, at the nearest tick (ticks_nearest) *)
Theorem pedal_events : forall ppq mpq cs e,
  In e (ped_read (ped_lines ppq mpq cs)) <-> In e (flat_map (ped_of ppq mpq) cs).
Proof. exact pedal_events_lemma. Qed.
Print Assumptions pedal_events.

Theorem pedal_event_of_control : forall ppq mpq n t v e cs,
  In (n, t, v) cs -> n = 64 \/ n = 67 -> e = (n, sec_to_tick ppq mpq t, v) ->
  In e (ped_read (ped_lines ppq mpq cs)).
Proof. exact pedal_event_of_control_lemma. Qed.
Print Assumptions pedal_event_of_control.

Theorem pedal_no_repetition_permutation : forall ppq mpq cs,
  NoDup (flat_map (ped_of ppq mpq) cs) ->
  Permutation (flat_map (ped_of ppq mpq) cs) (ped_read (ped_lines ppq mpq cs)).
Proof. exact pedal_perm_lemma. Qed.
Print Assumptions pedal_no_repetition_permutation.

Example pedal_nontrivial :
  (* clock of one tick per second: events 0.4 s and 1.4 s apart fall on ticks 0 and 1; the two
     sustain events at tick 1 keep their order; the repeated (tick 1, value 0) is one line; the
     modulation wheel (1) is not a pedal; sustain first, then soft *)
  map (fun c : ctrl => let '(n, t, v) := c in (n, Qnum t, v))
      (ped_roundtrip 1 1000000 [(67, 14 # 10, 90); (64, 12 # 10, 127); (1, 5 # 10, 3); (64, 14 # 10, 0);
                                (64, 4 # 10, 64); (64, 9 # 10, 0)])
  = [(64, 0, 64); (64, 1000000, 127); (64, 1000000, 0); (67, 1000000, 90)].
Proof. vm_compute. reflexivity. Qed.

(* ------------------------------------------------------------------ *)
(* O3 voices, staves, supported articulations, grace notes: the attribute list of a score note
   line (Model/C08_attrs.v works on the TEXT of the tokens).  For every voice >= 0, every staff,
   every list of articulations none of which is a mark of the importer ("s", staff*, v<digits>,
   a leading digit, grace, leftOutTied, stac), every list of ornaments that are no marks and no
   supported articulation, any fermata / fingerings / grace / diff_score_version / voice_overlap
   marks: the importer reads the voice and the staff that were written, staccato exactly when
   "staccato" was among the articulations, accent exactly when "accent" was, a grace note exactly
   when the note was one (or the duration is 0), and never a tie mark *)
Theorem attrs_roundtrip : forall a dn,
  (forall v, a_voice a = Some v -> 0 <= v) ->
  forallb neutral (a_arts a) = true -> forallb inert (a_orns a) = true ->
  imp_attrs (exp_attrs a) dn =
    mkLA (Some (a_voice a)) (a_staff a) (has "staccato" (a_arts a)) (has "accent" (a_arts a))
         (a_grace a || (dn =? 0)) false.
Proof. exact attrs_roundtrip_lemma. Qed.
Print Assumptions attrs_roundtrip.

(* the articulation / ornament names of the tree under test (Gen/C08_Vocab.v, reflected on every
   run; complete finite domain, by computation): none is a mark of the importer ... *)
Theorem vocabulary_neutral : forallb neutral art_vocab = true /\ forallb inert orn_vocab = true.
Proof. exact vocab_neutral. Qed.
Print Assumptions vocabulary_neutral.

(* ... and of all of them exactly "staccato" reads back as staccato and "accent" as accent
   (staccatissimo, strong-accent, soft-accent, detached-legato, stress ... do not) *)
Theorem vocabulary_supported :
  forallb (fun t => Bool.eqb (imp_stac [t]) (String.eqb t "staccato") &&
                    Bool.eqb (imp_acc [t]) (String.eqb t "accent")) (art_vocab ++ orn_vocab)%list = true.
Proof. exact vocab_supported_lemma. Qed.
Print Assumptions vocabulary_supported.

(* hence for every note whose articulations and ornaments are names of that vocabulary *)
Theorem attrs_roundtrip_vocabulary : forall a dn,
  (forall v, a_voice a = Some v -> 0 <= v) ->
  incl (a_arts a) art_vocab -> incl (a_orns a) orn_vocab ->
  imp_attrs (exp_attrs a) dn =
    mkLA (Some (a_voice a)) (a_staff a) (has "staccato" (a_arts a)) (has "accent" (a_arts a))
         (a_grace a || (dn =? 0)) false.
Proof. exact attrs_roundtrip_vocab_lemma. Qed.
Print Assumptions attrs_roundtrip_vocabulary.

Example attrs_nontrivial :
  (* voice 12 on staff 10, staccatissimo + accent + soft-accent, a vertical turn (starts with v),
     a fermata, fingering 3, a grace note *)
  let a := mkA (Some 12) (Some 10) ["staccatissimo"; "accent"; "soft-accent"]%string ["vertical-turn"%string]
               true [3] true false false in
  (exp_attrs a, imp_attrs (exp_attrs a) 1)
  = (["v12"; "staff10"; "staccatissimo"; "accent"; "soft-accent"; "vertical-turn"; "fermata"; "fingering3"; "grace"]%string,
     mkLA (Some (Some 12)) (Some 10) false true true false).
Proof. vm_compute. reflexivity. Qed.

(* a staff that was written is kept by add_staffs; a voice that was written is kept; the voice
   given to notes written without one is above every voice that was read, and 1 if none was *)
Theorem fill_staff_given : forall p s, s <> 0 -> fill_staff p (Some s) = s.
Proof. exact fill_staff_given_lemma. Qed.
Print Assumptions fill_staff_given.

Theorem fill_voice_given : forall all v, fill_voice all (Some v) = v.
Proof. exact fill_voice_given_lemma. Qed.
Print Assumptions fill_voice_given.

Theorem fill_voice_fresh : forall all x, In (Some x) all -> x < fill_voice all None.
Proof. exact fill_voice_fresh_lemma. Qed.
Print Assumptions fill_voice_fresh.

Theorem fill_voice_none : forall all, (forall o, In o all -> o = None) -> fill_voice all None = 1.
Proof. exact fill_voice_none_lemma. Qed.
Print Assumptions fill_voice_none.

(* ------------------------------------------------------------------ *)
(* O3 measures at the same positions, signatures at the start of the bar where they were written.
   Any measure table (pickup, changing denominators), any onsets: the bar time the importer
   reconstructs for a measure that holds a note is the start of that measure ... *)
Theorem measure_start_roundtrip : forall ms dpq origin ons m,
  0 < dpq -> (forall m, In m ms -> 0 < m_den m) -> NoDup (map m_num ms) ->
  (exists on, In on ons /\ find_meas ms on None = Some m) ->
  exists b, bar_time (enc_all ms dpq origin ons) (m_num m) = Some b /\
            (b == inject_Z (m_start m - origin) / inject_Z dpq)%Q.
Proof. exact measure_start_roundtrip_lemma. Qed.
Print Assumptions measure_start_roundtrip.

(* ... so a signature written ANYWHERE in measure m (the exporter writes m's number) is put at the
   start of measure m *)
Theorem signature_at_barline : forall ms dpq origin ons t m,
  0 < dpq -> (forall m, In m ms -> 0 < m_den m) -> NoDup (map m_num ms) ->
  find_meas ms t None = Some m ->
  (exists on, In on ons /\ find_meas ms on None = Some m) ->
  exists n b, sig_meas ms t = Some n /\
              bar_time (enc_all ms dpq origin ons) n = Some b /\
              (b == inject_Z (m_start m - origin) / inject_Z dpq)%Q.
Proof. exact signature_at_barline_lemma. Qed.
Print Assumptions signature_at_barline.

Example signature_at_barline_nontrivial :
  (* 3/4 pickup of 2 divisions, then 6/8, then 2/2 (divisions 4); a key signature written at
     division 16, in the middle of the third measure (number 2, starting at 14): loaded at the
     start of that measure, 12 divisions = 3 quarters after the first note *)
  let ms := [mkM 0 0 4; mkM 1 2 8; mkM 2 14 2] in
  (sig_meas ms 16, match bar_time (enc_all ms 4 2 [5; 0; 17; 14; 9]) 2 with
                   | Some b => Qeq_bool b (inject_Z (14 - 2) / 4) | None => false end)
  = (Some 2, true).
Proof. vm_compute. reflexivity. Qed.

(* in divisions of the loaded part: a bar time on the division grid is placed exactly (the
   snapping of bar times and the rounding change nothing), never before 0 *)
Theorem place_on_grid : forall divs offset l bar b k o,
  0 < divs -> bar_time l bar = Some b ->
  (b == inject_Z k / inject_Z divs)%Q -> (offset == inject_Z o / inject_Z divs)%Q ->
  place divs offset l bar = Z.max 0 (k - o).
Proof. exact place_on_grid_lemma. Qed.
Print Assumptions place_on_grid.

(* a complete last measure (len divisions of the written part = num/den whole notes) gets its full
   length in the divisions of the loaded part *)
Theorem closing_barline_complete : forall divs dpq num den len K,
  0 < dpq -> 0 < den -> len * den = num * 4 * dpq -> K * dpq = len * divs ->
  closing_len divs num den = K.
Proof. exact closing_complete_lemma. Qed.
Print Assumptions closing_barline_complete.

(* MatchFile.time_signatures / key_signatures: first row of every run of equal values.  A row is
   kept exactly when its value differs from the value in force before it ... *)
Theorem signature_rows_step : forall prev (l1 : list (@row (Z * Z))) x l2,
  dedup_runs zz_eqb prev (l1 ++ x :: l2) =
  (dedup_runs zz_eqb prev l1 ++
   (if match last_val prev l1 with Some v => zz_eqb (r_val x) v | None => false end then [] else [x]) ++
   dedup_runs zz_eqb (Some (r_val x)) l2)%list.
Proof. exact (runs_step_lemma zz_eqb zz_eqb_eq). Qed.
Print Assumptions signature_rows_step.

(* ... the signature in force after any prefix of the rows is unchanged, no value is repeated,
   nothing is invented or reordered, and rows without a repetition are all kept *)
Theorem signature_rows_value_in_force : forall prev (l : list (@row (Z * Z))),
  last_val prev (dedup_runs zz_eqb prev l) = last_val prev l.
Proof. exact (runs_value_in_force_lemma zz_eqb zz_eqb_eq). Qed.
Print Assumptions signature_rows_value_in_force.

Theorem signature_rows_prefix : forall prev (l1 l2 : list (@row (Z * Z))),
  dedup_runs zz_eqb prev (l1 ++ l2) =
  (dedup_runs zz_eqb prev l1 ++ dedup_runs zz_eqb (last_val prev l1) l2)%list.
Proof. exact (runs_app_lemma zz_eqb zz_eqb_eq). Qed.
Print Assumptions signature_rows_prefix.

Theorem signature_rows_no_repeat : forall prev (l : list (@row (Z * Z))),
  alternating prev (dedup_runs zz_eqb prev l).
Proof. exact (runs_no_repeat_lemma zz_eqb zz_eqb_eq). Qed.
Print Assumptions signature_rows_no_repeat.

Theorem signature_rows_subseq : forall prev (l : list (@row (Z * Z))),
  subseq (dedup_runs zz_eqb prev l) l.
Proof. exact (runs_subseq_lemma zz_eqb). Qed.
Print Assumptions signature_rows_subseq.

Theorem signature_rows_kept : forall prev (l : list (@row (Z * Z))),
  alternating prev l -> dedup_runs zz_eqb prev l = l.
Proof. exact (runs_id_lemma zz_eqb zz_eqb_eq). Qed.
Print Assumptions signature_rows_kept.

Example signature_rows_nontrivial :
  (* 4/4, 4/4 restated, 3/4, 4/4 again (the first value returns), 4/4 restated: rows 1, 3, 4 *)
  map (fun r : @row (Z * Z) => r_bar r)
      (sig_rows zz_eqb [(0 # 1, 1, (4, 4)); (4 # 1, 2, (4, 4)); (8 # 1, 3, (3, 4)); (11 # 1, 4, (4, 4)); (15 # 1, 5, (4, 4))])
  = [1; 3; 4].
Proof. vm_compute. reflexivity. Qed.

(* sort_snotes (stable, by measure, beat, offset): nothing lost or duplicated, sorted, the note the
   importer takes the first onset from is the least one, a sorted file is left as it is *)
Theorem sort_notes_permutation : forall l, Permutation l (sort_notes l).
Proof. exact sort_notes_perm_lemma. Qed.
Print Assumptions sort_notes_permutation.

Theorem sort_notes_sorted : forall l, StronglySorted key_leP (sort_notes l).
Proof. exact sort_notes_sorted_lemma. Qed.
Print Assumptions sort_notes_sorted.

Theorem sort_notes_head_min : forall l h r x, sort_notes l = h :: r -> In x l -> key_leP h x.
Proof. exact sort_notes_head_min_lemma. Qed.
Print Assumptions sort_notes_head_min.

Theorem sort_notes_sorted_id : forall l, StronglySorted key_leP l -> sort_notes l = l.
Proof. exact sort_notes_sorted_id_lemma. Qed.
Print Assumptions sort_notes_sorted_id.

(* ------------------------------------------------------------------ *)
(* O1/O2 ids of performed notes: the id loaded is the id written ('n' in front unless it is there),
   it starts with n, saving what was loaded again changes no id, ids of one kind stay distinct *)
Theorem pid_leg_fixpoint : forall s, pid_leg s = fmt_pid s /\ pid_leg (pid_leg s) = pid_leg s.
Proof. exact pid_leg_lemma. Qed.
Print Assumptions pid_leg_fixpoint.

Theorem pid_prefixed : forall s, starts "n" (fmt_pid s) = true.
Proof. exact fmt_pid_prefixed_lemma. Qed.
Print Assumptions pid_prefixed.

Theorem pid_kept : forall s, starts "n" s = true -> fmt_pid s = s.
Proof. exact fmt_pid_keeps_lemma. Qed.
Print Assumptions pid_kept.

Theorem pid_injective : forall a b, starts "n" a = starts "n" b -> fmt_pid a = fmt_pid b -> a = b.
Proof. exact fmt_pid_inj_lemma. Qed.
Print Assumptions pid_injective.

(* the performance-time -> score-time map the exporter orders insertions with exists exactly when a
   match entry pairs a performed note with a score note that has a duration; boundary of the known
   finding C08-K1 (otherwise save_match raises) *)
Theorem time_map_defined_iff : forall snotes pids al,
  save_defined snotes pids al = true <->
  exists s p, In (EMatch s p) al /\ zmem p pids = true /\ zlookup s snotes = Some true.
Proof. exact save_defined_iff_lemma. Qed.
Print Assumptions time_map_defined_iff.

Theorem k1_boundary : forall snotes pids al,
  (forall s p, In (EMatch s p) al -> zmem p pids = true -> zlookup s snotes <> Some true) ->
  save_defined snotes pids al = false.
Proof. exact k1_boundary_lemma. Qed.
Print Assumptions k1_boundary.

Example k1_nontrivial :
  (* a deletion, an insertion, an ornament and a matched grace note (3): no map; with the match of
     note 1 there is one *)
  (save_defined [(1, true); (2, true); (3, false)] [10; 11; 12]
                [EDeletion 1; EInsertion 10; EOrnament 2 11; EMatch 3 12],
   save_defined [(1, true); (2, true); (3, false)] [10; 11; 12]
                [EMatch 1 10; EInsertion 11; EMatch 3 12]) = (false, true).
Proof. vm_compute. reflexivity. Qed.

(* ------------------------------------------------------------------ *)
(* state carried between calls (Model/C08_Hist.v; tied by the streams phist / mhist of the history run) *)

(* for EVERY history of edits of a performed part (times, velocity, notes replaced / appended / deleted, the
   part's clock attributes changed) and saves with any clocks, every save writes the played-note fields of
   the data the notes hold at that moment ([sobs] never sees stored ticks, clock attributes or an earlier
   result) *)
Theorem history_current_state : forall ops s, hobs s ops = sobs (map data_of (h_notes s)) ops.
Proof. exact history_current_state_lemma. Qed.
Print Assumptions history_current_state.

Theorem history_independent_of_carried_state : forall ops s s',
  map data_of (h_notes s) = map data_of (h_notes s') -> hobs s ops = hobs s' ops.
Proof. exact history_independent_of_carried_state_lemma. Qed.
Print Assumptions history_independent_of_carried_state.

(* not vacuous: an exporter that hands out the result of the last save again (same clock, same number of
   notes), and one that writes the ticks stored on a note when the part's clock equals the clock asked, are
   both told apart by a three-step history: save, move a note, save again *)
Example history_memo_refuted :
  let s := mkH [mkP 60 64 (1#2) (1#1) None] (480, 500000) None in
  let ops := [HSave 480 500000; HSetTimes 0 (3#4) (5#4); HSave 480 500000] in
  (hobs_with hstep_memo s ops <> sobs (map data_of (h_notes s)) ops) /\
  hobs s ops = [[mkF 60 64 480 960]; [mkF 60 64 720 1200]].
Proof. split; [vm_compute; discriminate | vm_compute; reflexivity]. Qed.

Example history_stored_ticks_refuted :
  let s := mkH [mkP 60 64 (1#2) (1#1) (Some (480, 960))] (480, 500000) None in
  let ops := [HSave 480 500000; HSetTimes 0 (3#4) (5#4); HSave 480 500000; HSave 960 500000] in
  (hobs_with hstep_stored s ops <> sobs (map data_of (h_notes s)) ops) /\
  hobs s ops = [[mkF 60 64 480 960]; [mkF 60 64 720 1200]; [mkF 60 64 1440 2400]].
Proof. split; [vm_compute; discriminate | vm_compute; reflexivity]. Qed.

(* for EVERY history of edits of MatchFile.lines (a line deleted, validate_match_ids run again) the
   alignment and the performed-note ids derived afterwards are those of the lines held at that moment *)
Theorem mhistory_current_lines : forall ops s, mobs mstep s ops = mspec (m_lines s) ops.
Proof. exact mhistory_current_lines_lemma. Qed.
Print Assumptions mhistory_current_lines.

Example mhistory_memo_refuted :
  let s := mkMS [mkL KMatch (Some 1) (Some 10); mkL KInsertion None (Some 11)] None in
  let ops := [MAlign; MDrop 1; MAlign; MNotes] in
  (mobs mstep_memo s ops <> mspec (m_lines s) ops) /\
  mobs mstep s ops = [OAlign [EMatch 1 10; EInsertion 11]; OAlign [EMatch 1 10]; ONotes [10]].
Proof. split; [vm_compute; discriminate | vm_compute; reflexivity]. Qed.

(* ---------------- round j: the file as a whole (Model/C08_file.v) ---------------- *)

(* O2 clock units and rate: for EVERY version text, every combination of the optional texts of
   save_match (given or not, also texts that repeat attribute names) and every ppq / mpq given or left
   out, the clock the loader finds in the header built by the exporter (header_lines dict filtered
   through header_order, MatchFile.info = first line with the attribute) is the clock asked for, 480 /
   500000 for an argument left out *)
Theorem header_clock : forall ver o ppq mpq,
  clock_of (header_of ver o ppq mpq) = Some (arg_ppq ppq, arg_mpq mpq).
Proof. exact header_clock_lemma. Qed.
Print Assumptions header_clock.

(* every header line is found under its attribute with the text given ("-" when not given); 8 lines *)
Theorem header_texts : forall ver o ppq mpq,
  let h := header_of ver o ppq mpq in
  info "matchFileVersion" h = Some (HStr ver) /\
  info "performer" h = Some (HStr (dash (o_performer o))) /\
  info "piece" h = Some (HStr (dash (o_piece o))) /\
  info "composer" h = Some (HStr (dash (o_composer o))) /\
  info "scoreFileName" h = Some (HStr (dash (o_score_fn o))) /\
  info "midiFileName" h = Some (HStr (dash (o_perf_fn o))) /\
  info "midiClockUnits" h = Some (HInt (arg_ppq ppq)) /\
  info "midiClockRate" h = Some (HInt (arg_mpq mpq)) /\
  List.length h = 8%nat.
Proof. exact header_texts_lemma. Qed.
Print Assumptions header_texts.

(* whatever info lines follow the header (also further clock lines), the clock found is the header's *)
Theorem header_clock_first : forall ver o ppq mpq more,
  clock_of (header_of ver o ppq mpq ++ more) = Some (arg_ppq ppq, arg_mpq mpq).
Proof. exact header_clock_first_lemma. Qed.
Print Assumptions header_clock_first.

(* one leg at the level of the FILE (the loader takes the clock from the header, not from the call):
   always defined, returns the clock asked for, the notes of the per-note leg and the pedal stream of
   ped_roundtrip -- so perf_leg*, pedal_* apply to what load_match returns *)
Theorem file_leg_is_leg : forall ver o c ns cs,
  file_leg ver o c (ns, cs) =
  Some (arg_ppq (fst c), arg_mpq (snd c),
        map (leg (arg_ppq (fst c)) (arg_mpq (snd c))) ns,
        ped_roundtrip (arg_ppq (fst c)) (arg_mpq (snd c)) cs).
Proof. exact file_leg_lemma. Qed.
Print Assumptions file_leg_is_leg.

(* a chain of ANY number of legs with any positive clocks: defined, no note lost or added, pitch and
   velocity unchanged, onset and offset moved by at most the sum of the half ticks of the clocks used *)
Theorem legs_chain : forall ver o cl ns cs, Forall clock_pos cl ->
  exists ns' cs', legs ver o cl (ns, cs) = Some (ns', cs') /\
    List.length ns' = List.length ns /\
    forall i p, nth_error ns i = Some p ->
      exists r, nth_error ns' i = Some r /\
        p_pitch r = p_pitch p /\ p_vel r = p_vel p /\
        (Qabs (p_on r - p_on p) <= drift cl)%Q /\ (Qabs (p_off r - p_off p) <= drift cl)%Q.
Proof. exact (fun ver o => legs_spec_lemma ver o). Qed.
Print Assumptions legs_chain.

(* the last leg alone decides ticks and pedal lines: the result of a chain is the per-note leg, in the
   LAST clock asked for, of the result of the chain before it (no clock is carried along) *)
Theorem legs_chain_last : forall ver o cl c ns cs,
  legs ver o (cl ++ [c]) (ns, cs) =
  match legs ver o cl (ns, cs) with
  | Some (ms, ds) => Some (map (leg (arg_ppq (fst c)) (arg_mpq (snd c))) ms,
                           ped_roundtrip (arg_ppq (fst c)) (arg_mpq (snd c)) ds)
  | None => None
  end.
Proof. exact (fun ver o => legs_last_lemma ver o). Qed.
Print Assumptions legs_chain_last.

(* load_match(first_note_at_zero=...) on ANY file: off = nothing changes; on = no note lost, pitch, velocity
   and sounding length unchanged, the seconds of every note still are the seconds of its ticks in the
   file's clock, and when every onset tick is positive the earliest note is at tick 0 / 0 s and no tick
   is negative *)
Theorem first_note_at_zero_consistent : forall ppq mpq fl,
  0 < ppq -> 0 < mpq ->
  let l := map (imp_note ppq mpq) fl in
  let r := first_at_zero true l in
  first_at_zero false l = l /\
  List.length r = List.length l /\
  Forall (ticks_ok ppq mpq) r /\
  (forall i n, nth_error l i = Some n -> exists n', nth_error r i = Some n' /\
      p_pitch n' = p_pitch n /\ p_vel n' = p_vel n /\ (p_off n' - p_on n' == p_off n - p_on n)%Q) /\
  ((forall f, In f fl -> 0 < f_on f) -> fl <> [] ->
     (exists n', In n' r /\ stored_on n' = 0 /\ (p_on n' == 0)%Q) /\ forall n', In n' r -> 0 <= stored_on n').
Proof. exact first_zero_lemma. Qed.
Print Assumptions first_note_at_zero_consistent.
