(* C08 -- saving an alignment as a match file and loading it returns the same data.
   Statements only; proofs in Proofs/C08.v (codecs) and Proofs/C08_lines.v (lines, ids, alignment).
   The definitions are those of Model/C08.v, the same ones the correspondence evaluates on the
   numbers the implementation produced (harness/props/c08.py). *)
From PV Require Import Lib.Base Lib.Round Model.C12 Model.C08 Proofs.C08 Proofs.C08_lines Proofs.C08_perf.
From Coq Require Import QArith Qabs Sorting.Sorted Sorting.Permutation.
#[local] Open Scope Z_scope.

(* O3 position: beat + offset written by the exporter decode to the written position, in every
   meter (den) and for every divisions value *)
Theorem inbar_roundtrip : forall dpq den pos, 0 < dpq -> 0 < den ->
  (dec_inbar den (enc_beat dpq den pos + 1) (enc_off dpq den pos) == inject_Z pos / inject_Z dpq)%Q.
Proof. exact inbar_roundtrip_lemma. Qed.
Print Assumptions inbar_roundtrip.

(* the beat is a beat of the measure and the offset stays inside one beat (1/den whole note) *)
Theorem enc_range : forall dpq den pos, 0 < dpq -> 0 < den -> 0 <= pos ->
  0 <= enc_beat dpq den pos /\ (0 <= enc_off dpq den pos)%Q /\ (enc_off dpq den pos < 1 / inject_Z den)%Q.
Proof. exact enc_range_lemma. Qed.
Print Assumptions enc_range.

(* whole-file position round trip: any measure table (pickup = short first measure, a new
   denominator per measure = time signature changes), any set of onsets; bar times are
   reconstructed from the first listed note of each bar; the decoded position of every note is its
   written position in quarters *)
Theorem position_roundtrip : forall ms dpq origin ons on,
  0 < dpq -> (forall m, In m ms -> 0 < m_den m) -> NoDup (map m_num ms) ->
  In on ons -> find_meas ms on None <> None ->
  exists s q, enc_sn ms dpq origin on = Some s /\
              decode_q (enc_all ms dpq origin ons) s = Some q /\
              (q == inject_Z (on - origin) / inject_Z dpq)%Q.
Proof. exact position_roundtrip_lemma. Qed.
Print Assumptions position_roundtrip.

Example position_roundtrip_nontrivial :
  (* 3/4 pickup of 2 divisions, then 6/8, then 2/2; divisions 4; onsets off the beat *)
  let ms := [mkM 0 0 4; mkM 1 2 8; mkM 2 14 2] in
  map (fun on => match enc_sn ms 4 2 on with
                 | Some s => match decode_q (enc_all ms 4 2 [5; 0; 17; 14; 9]) s with
                             | Some q => Qeq_bool q (inject_Z (on - 2) / 4) | None => false end
                 | None => false end) [5; 0; 17; 14; 9] = [true; true; true; true; true].
Proof. vm_compute. reflexivity. Qed.

(* O3 duration: a duration that is on the loaded part's grid is read back exactly ... *)
Theorem duration_roundtrip : forall dpq d divs k,
  0 < dpq -> k * dpq = d * divs -> decode_dur divs (enc_dur dpq d) = k.
Proof. exact duration_roundtrip_lemma. Qed.
Print Assumptions duration_roundtrip.

(* ... and it is on that grid as soon as the written (reduced) denominator divides the divisions,
   which is how part_from_matchfile chooses them (lcm of the denominators) *)
Theorem divs_sufficient : forall dpq d n D divs,
  0 < dpq -> 0 < D -> n * (4 * dpq) = d * D -> (D | divs) -> exists k, k * dpq = d * divs.
Proof. exact divs_sufficient_lemma. Qed.
Print Assumptions divs_sufficient.

Theorem onset_on_grid : forall divs q k,
  0 < divs -> (q == inject_Z k / inject_Z divs)%Q -> round_half_even (inject_Z divs * q) = k.
Proof. exact onset_grid_lemma. Qed.
Print Assumptions onset_on_grid.

(* O2 ticks: a time on the tick grid is written and read back as the same tick; any time goes to
   the nearest tick *)
Theorem ticks_roundtrip : forall ppq mpq k,
  0 < ppq -> 0 < mpq -> sec_to_tick ppq mpq (tick_to_sec ppq mpq k) = k.
Proof. exact tick_roundtrip_c08. Qed.
Print Assumptions ticks_roundtrip.

Theorem ticks_nearest : forall ppq mpq t,
  (Qabs (inject_Z (1000000 * ppq) * t / inject_Z mpq - inject_Z (sec_to_tick ppq mpq t)) <= 1 # 2)%Q.
Proof. exact tick_nearest_c08. Qed.
Print Assumptions ticks_nearest.

(* O4 first-occurrence de-duplication of lines *)
Theorem unique_keeps_first_order : forall l,
  NoDup (unique_first l) /\ (forall x, In x (unique_first l) <-> In x l) /\ subseq (unique_first l) l.
Proof. exact unique_first_spec. Qed.
Print Assumptions unique_keeps_first_order.

Theorem unique_keeps_first_occurrence : forall l1 x l2,
  ~ In x l1 -> exists r, unique_first (l1 ++ x :: l2) = unique_first l1 ++ x :: r.
Proof. exact unique_first_keeps_first. Qed.
Print Assumptions unique_keeps_first_occurrence.

(* O4 duplicate-id resolution *)
Theorem dedupe_no_match_deletion_conflict : forall l x y s,
  In x (validate l) -> In y (validate l) ->
  l_kind x = KMatch -> l_kind y = KDeletion -> l_sid x = Some s -> l_sid y <> Some s.
Proof. exact no_match_deletion_conflict_lemma. Qed.
Print Assumptions dedupe_no_match_deletion_conflict.

Theorem dedupe_no_match_insertion_conflict : forall l x y p,
  In x (validate l) -> In y (validate l) ->
  is_mo x = true -> l_kind y = KInsertion -> l_pid x = Some p -> l_pid y <> Some p.
Proof. exact no_match_insertion_conflict_lemma. Qed.
Print Assumptions dedupe_no_match_insertion_conflict.

Theorem dedupe_keeps_matches : forall l, filter is_mo (validate l) = filter is_mo l.
Proof. exact validate_keeps_matches_lemma. Qed.
Print Assumptions dedupe_keeps_matches.

Theorem dedupe_keeps_nonconflicting : forall l x,
  In x l ->
  (forall s, l_kind x = KDeletion -> l_sid x = Some s -> (zcount s (sids l) <= 1)%nat) ->
  (forall p, l_kind x = KInsertion -> l_pid x = Some p -> (zcount p (pids l) <= 1)%nat) ->
  In x (validate l).
Proof. exact nonconflicting_kept_lemma. Qed.
Print Assumptions dedupe_keeps_nonconflicting.

Theorem dedupe_keeps_order : forall l, subseq (validate l) l.
Proof. exact validate_subseq_lemma. Qed.
Print Assumptions dedupe_keeps_order.

Example dedupe_nontrivial :
  (* match s1-p1, deletion s1 (dropped), insertion p1 (dropped), deletion s2 twice (both dropped),
     deletion s3, insertion p4 (kept) *)
  validate [mkL KMatch (Some 1) (Some 1); mkL KDeletion (Some 1) None; mkL KInsertion None (Some 1);
            mkL KDeletion (Some 2) None; mkL KDeletion (Some 2) None; mkL KDeletion (Some 3) None;
            mkL KInsertion None (Some 4)]
  = [mkL KMatch (Some 1) (Some 1); mkL KDeletion (Some 3) None; mkL KInsertion None (Some 4)].
Proof. vm_compute. reflexivity. Qed.

(* O1 alignment: extracting the alignment from the lines written for it gives it back; with ids
   unique per label the reader's duplicate resolution changes nothing *)
Theorem alignment_lines_inverse : forall a, alignment_of (lines_of a) = a.
Proof. exact alignment_of_lines_of. Qed.
Print Assumptions alignment_lines_inverse.

Theorem alignment_extract_inverse : forall a,
  NoDup (flat_map entry_sid a) -> NoDup (flat_map entry_pid a) ->
  alignment_of (validate (lines_of a)) = a.
Proof. exact alignment_extract_inverse_lemma. Qed.
Print Assumptions alignment_extract_inverse.

(* ------------------------------------------------------------------ *)
(* O2 performed notes over one leg  save_match(ppq, mpq) -> file -> load_match, for every note
   (with or without stored ticks) and every clock: pitch and velocity are kept; the ticks of the
   loaded note are the nearest ticks of the seconds GIVEN, in the clock asked of save_match; the
   loaded seconds are those ticks in that clock, at most half a tick from the seconds given *)
Theorem perf_leg : forall ppq mpq p, 0 < ppq -> 0 < mpq ->
  let r := leg ppq mpq p in
  let kon := sec_to_tick ppq mpq (p_on p) in
  let koff := sec_to_tick ppq mpq (p_off p) in
  p_pitch r = p_pitch p /\ p_vel r = p_vel p /\
  p_stored r = Some (kon, koff) /\
  p_on r = tick_to_sec ppq mpq kon /\ p_off r = tick_to_sec ppq mpq koff /\
  (Qabs (inject_Z (1000000 * ppq) * p_on p / inject_Z mpq - inject_Z kon) <= 1 # 2)%Q /\
  (Qabs (inject_Z (1000000 * ppq) * p_off p / inject_Z mpq - inject_Z koff) <= 1 # 2)%Q /\
  (Qabs (p_on r - p_on p) <= half_tick ppq mpq)%Q /\
  (Qabs (p_off r - p_off p) <= half_tick ppq mpq)%Q.
Proof. exact leg_note_lemma. Qed.
Print Assumptions perf_leg.

(* ticks stored on a performed note (those of the clock it was loaded with) have no influence on
   what is written *)
Theorem perf_leg_ignores_stored_ticks : forall ppq mpq pi ve on off st st',
  leg ppq mpq (mkP pi ve on off st) = leg ppq mpq (mkP pi ve on off st').
Proof. exact leg_ignores_stored_lemma. Qed.
Print Assumptions perf_leg_ignores_stored_ticks.

Theorem ticks_monotone : forall ppq mpq t1 t2,
  0 < ppq -> 0 < mpq -> (t1 <= t2)%Q -> sec_to_tick ppq mpq t1 <= sec_to_tick ppq mpq t2.
Proof. exact sec_to_tick_mono. Qed.
Print Assumptions ticks_monotone.

(* a note never ends before it starts, in ticks and in seconds, whatever the clock *)
Theorem perf_leg_order : forall ppq mpq p, 0 < ppq -> 0 < mpq -> (p_on p <= p_off p)%Q ->
  sec_to_tick ppq mpq (p_on p) <= sec_to_tick ppq mpq (p_off p) /\
  (p_on (leg ppq mpq p) <= p_off (leg ppq mpq p))%Q.
Proof. exact leg_order_lemma. Qed.
Print Assumptions perf_leg_order.

(* saving what was loaded with the SAME clock changes nothing *)
Theorem perf_leg_same_clock_fixpoint : forall ppq mpq p, 0 < ppq -> 0 < mpq ->
  leg ppq mpq (leg ppq mpq p) = leg ppq mpq p.
Proof. exact leg_fixpoint_lemma. Qed.
Print Assumptions perf_leg_same_clock_fixpoint.

(* saving what was loaded with ANOTHER clock: seconds stay within half a tick of each clock *)
Theorem perf_two_legs_close : forall ppq1 mpq1 ppq2 mpq2 p,
  0 < ppq1 -> 0 < mpq1 -> 0 < ppq2 -> 0 < mpq2 ->
  let r := leg ppq2 mpq2 (leg ppq1 mpq1 p) in
  (Qabs (p_on r - p_on p) <= half_tick ppq1 mpq1 + half_tick ppq2 mpq2)%Q /\
  (Qabs (p_off r - p_off p) <= half_tick ppq1 mpq1 + half_tick ppq2 mpq2)%Q.
Proof. exact two_legs_close_lemma. Qed.
Print Assumptions perf_two_legs_close.

Example perf_two_legs_nontrivial :
  (* a note with stale ticks, saved with 1000/600000, loaded, saved with the default clock:
     the second file holds the ticks of the default clock, not the stored ones *)
  let p := mkP 60 64 (111 # 100) (154 # 100) (Some (7, 9)) in
  let r1 := leg 1000 600000 p in
  let r2 := leg 480 500000 r1 in
  (p_stored r1, p_stored r2, Qeq_bool (p_on r2) (1066 # 960), Qeq_bool (p_off r2) (1479 # 960))
  = (Some (1850, 2567), Some (1066, 1479), true, true).
Proof. vm_compute. reflexivity. Qed.

(* O2 pedals.  What is loaded for one controller (64 sustain, 67 soft) depends on that controller's
   events only and is: ticks of the file's clock, stable order by tick, exact repetitions (same
   tick and value = same line text) once, seconds of the file's clock *)
Theorem pedal_per_controller : forall ppq mpq cs n, n = 64 \/ n = 67 ->
  filter (cnum_is n) (ped_roundtrip ppq mpq cs)
  = map (ped_sec ppq mpq) (ped_read (ped_lines ppq mpq (filter (cnum_is n) cs))).
Proof. exact pedal_per_controller_lemma. Qed.
Print Assumptions pedal_per_controller.

Theorem pedal_only_pedals : forall ppq mpq cs c,
  In c (ped_roundtrip ppq mpq cs) -> ctrl_num c = 64 \/ ctrl_num c = 67.
Proof. exact pedal_only_pedals_lemma. Qed.
Print Assumptions pedal_only_pedals.

Theorem pedal_file_sorted : forall ppq mpq cs,
  StronglySorted tick_le (ped_read (ped_lines ppq mpq cs)).
Proof. exact pedal_file_sorted_lemma. Qed.
Print Assumptions pedal_file_sorted.

(* no event is lost and none invented: the pedal lines read from the file are exactly the
   sustain/soft events given, at the nearest tick (ticks_nearest) *)
Theorem pedal_events : forall ppq mpq cs e,
  In e (ped_read (ped_lines ppq mpq cs)) <-> In e (flat_map (ped_of ppq mpq) cs).
Proof. exact pedal_events_lemma. Qed.
Print Assumptions pedal_events.

Theorem pedal_event_of_control : forall ppq mpq n t v e cs,
  In (n, t, v) cs -> n = 64 \/ n = 67 -> e = (n, sec_to_tick ppq mpq t, v) ->
  In e (ped_read (ped_lines ppq mpq cs)).
Proof. exact pedal_event_of_control_lemma. Qed.
Print Assumptions pedal_event_of_control.

Theorem pedal_no_repetition_permutation : forall ppq mpq cs,
  NoDup (flat_map (ped_of ppq mpq) cs) ->
  Permutation (flat_map (ped_of ppq mpq) cs) (ped_read (ped_lines ppq mpq cs)).
Proof. exact pedal_perm_lemma. Qed.
Print Assumptions pedal_no_repetition_permutation.

Example pedal_nontrivial :
  (* clock of one tick per second: events 0.4 s and 1.4 s apart fall on ticks 0 and 1; the two
     sustain events at tick 1 keep their order; the repeated (tick 1, value 0) is one line; the
     modulation wheel (1) is not a pedal; sustain first, then soft *)
  map (fun c : ctrl => let '(n, t, v) := c in (n, Qnum t, v))
      (ped_roundtrip 1 1000000 [(67, 14 # 10, 90); (64, 12 # 10, 127); (1, 5 # 10, 3); (64, 14 # 10, 0);
                                (64, 4 # 10, 64); (64, 9 # 10, 0)])
  = [(64, 0, 64); (64, 1000000, 127); (64, 1000000, 0); (67, 1000000, 90)].
Proof. vm_compute. reflexivity. Qed.
