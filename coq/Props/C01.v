(* C01 -- property theorems (statements + exact only). *)
From PV Require Import Lib.Base Gen.C01_ClassTree Model.C01 Proofs.C01_tree.

Theorem subclasses_closed : forall c, valid_cls c ->
  NoDup (iter_subclasses c) /\
  (forall d, In d (iter_subclasses c) <-> strict_descendant d c) /\
  ~ In c (iter_subclasses c).
Proof. exact subclasses_closed_lemma. Qed.
Print Assumptions subclasses_closed.
