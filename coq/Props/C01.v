(* C01 -- a part is a consistent time-ordered collection under any edit history.
   Statements + `exact` only; proofs live in Proofs/C01_*.v.
   The model (Model/C01.v: step, iter_all, ...) is the one the lock-step correspondence evaluates
   against the real Part after every operation; Inv / valid_op / abs / spec_* are in Model/C01_Spec.v;
   ct_* (Gen/C01_ClassTree.v) is the TimedObject class tree reflected from partitura.score on every run. *)
From PV Require Import Lib.Base Gen.C01_ClassTree Model.C01 Model.C01_Tree Model.C01_Spec Model.C01_Idx Model.C01_Dict
  Model.C01_Hist Model.C01_QMap Model.C01_Args Proofs.C01_tree Proofs.C01_inv Proofs.C01_main Proofs.C01_query Proofs.C01_idx Proofs.C01_dict Proofs.C01_hist Proofs.C01_qmap Proofs.C01_args.
From Coq Require Import Sorting.Sorted Sorting.Permutation.

(* ------------------------------------------------------------------ O1: the invariant, every reachable state *)
Theorem inv_init : forall q0, Inv (init q0).
Proof. exact inv_init_lemma. Qed.
Print Assumptions inv_init.

(* any operation on valid arguments (incl. a bare get_or_add_point) keeps everything but "no empty point" *)
Theorem step_invw : forall p o, InvW p -> valid_op p o -> InvW (fst (step p o)).
Proof. exact step_invw_lemma. Qed.
Print Assumptions step_invw.

(* ... and also "no empty point" unless it is get_or_add_point at a time that has no point yet *)
Theorem step_inv : forall p o, Inv p -> valid_op p o -> strict_op p o -> Inv (fst (step p o)).
Proof. exact step_inv_lemma. Qed.
Print Assumptions step_inv.

(* every state reachable from a new part by any finite history of valid operations *)
Theorem run_inv : forall q0 ops,
  valid_run (init q0) ops -> strict_run (init q0) ops -> Inv (run (init q0) ops).
Proof. exact reachable_inv_lemma. Qed.
Print Assumptions run_inv.

Theorem run_invw : forall q0 ops, valid_run (init q0) ops -> InvW (run (init q0) ops).
Proof. exact reachable_invw_lemma. Qed.
Print Assumptions run_invw.

(* prev / next are the true neighbours, stated by position in the timeline *)
Theorem links_by_index : forall p, InvW p -> forall i q, nth_error (points p) i = Some q ->
  pprev q = match i with O => None | S j => option_map pt (nth_error (points p) j) end /\
  pnext q = option_map pt (nth_error (points p) (S i)).
Proof. exact links_by_index_lemma. Qed.
Print Assumptions links_by_index.

(* the part is exactly the collection of the registered objects: a time point exists iff something is
   registered there (which objects it lists is clause iw_reg of the invariant) *)
Theorem points_exactly : forall p, Inv p -> forall t,
  (exists q, In q (points p) /\ pt q = t) <-> (exists o, ostart p o = Some t \/ oend p o = Some t).
Proof. exact points_exactly_lemma. Qed.
Print Assumptions points_exactly.

(* ------------------------------------------------------------------ O4: totality, no partial update *)
Theorem step_total : forall p o, InvW p -> valid_op p o -> snd (step p o) = OutOk.
Proof. exact step_total_lemma. Qed.
Print Assumptions step_total.

Theorem run_total : forall q0 ops, valid_run (init q0) ops ->
  forall pre o post, ops = pre ++ o :: post -> snd (step (run (init q0) pre) o) = OutOk.
Proof. exact reachable_total_lemma. Qed.
Print Assumptions run_total.

(* a call that fails leaves the part exactly as it was; in a state satisfying the invariant the only calls
   that fail are those with a negative time (InvalidTimePointException) -- in particular add(o, start, end)
   with one good and one negative time registers nothing *)
Theorem step_fail_unchanged : forall p o, InvW p -> snd (step p o) <> OutOk ->
  fst (step p o) = p /\ snd (step p o) = OutInvalidTime /\ rejected o.
Proof. exact step_fail_unchanged_lemma. Qed.
Print Assumptions step_fail_unchanged.

(* the invariant along histories in which rejected calls are interleaved with the valid operations *)
Theorem run_mixed_inv : forall q0 ops, mixed_run (init q0) ops ->
  InvW (run (init q0) ops) /\ (strict_run (init q0) ops -> Inv (run (init q0) ops)).
Proof. exact reachable_mixed_lemma. Qed.
Print Assumptions run_mixed_inv.

(* refinement: the registered start/end of every object and the quarter duration in force evolve as the
   three-line abstract specification says (so an operation is never half applied) *)
Theorem step_refines : forall p o, InvW p -> valid_op p o ->
  (forall x, a_start (abs (fst (step p o))) x = spec_start (abs p) o x) /\
  (forall x, a_end (abs (fst (step p o))) x = spec_end (abs p) o x) /\
  (forall s, 0 <= s -> a_qd (abs (fst (step p o))) s = spec_qd (abs p) o s).
Proof. exact step_refines_lemma. Qed.
Print Assumptions step_refines.

(* ------------------------------------------------------------------ O3: set_quarter_duration *)
Theorem set_qd_spec : forall p t q, InvW p -> 0 <= t ->
  let p' := set_quarter_duration p t q in
  (forall s, 0 <= s ->
     qd_at (qtab p') s = if in_span t (next_change t (qtab p)) s then q else qd_at (qtab p) s) /\
  (forall x, In x (points p') -> pq x = qd_at (qtab p') (pt x)) /\
  map links_and_regs (points p') = map links_and_regs (points p) /\
  ostart p' = ostart p /\ oend p' = oend p /\
  (forall e, In e (qtab p) -> In (fst e) (map fst (qtab p'))) /\
  (forall e, In e (qtab p') -> fst e = t \/ In (fst e) (map fst (qtab p))).
Proof. exact set_qd_spec_lemma. Qed.
Print Assumptions set_qd_spec.

(* ------------------------------------------------------------------ O2: queries *)
(* iter_all, every cls / start / end / include_subclasses / mode: precisely the registered objects of the
   class (or its subclasses) in the half-open interval, each once, in time order *)
Theorem iter_all_spec : forall p c a b sub mode, InvW p ->
  (forall t o, In (t, o) (iter_all p c a b sub mode) <->
               oref mode p o = Some t /\ in_range a b t /\ cls_match c sub o) /\
  NoDup (iter_all p c a b sub mode) /\
  StronglySorted Z.le (map fst (iter_all p c a b sub mode)).
Proof. exact iter_all_spec_lemma. Qed.
Print Assumptions iter_all_spec.

Theorem iter_next_spec : forall p t c eq sub, InvW p -> (exists q, In q (points p) /\ pt q = t) ->
  iter_next p t c eq sub = iter_all p c (Some (if eq then t else t + 1)) None sub SStart.
Proof. exact iter_next_spec_lemma. Qed.
Print Assumptions iter_next_spec.

Theorem iter_prev_spec : forall p t c eq sub, InvW p -> (exists q, In q (points p) /\ pt q = t) ->
  iter_prev p t c eq sub =
  flat_map (tagged SStart c sub) (rev (before (if eq then t + 1 else t) (points p))).
Proof. exact iter_prev_spec_lemma. Qed.
Print Assumptions iter_prev_spec.

(* ... and stated the way iter_all_spec is: membership, each once, time order *)
Theorem iter_next_exact : forall p t c eq sub, InvW p -> (exists q, In q (points p) /\ pt q = t) ->
  (forall t' o, In (t', o) (iter_next p t c eq sub) <->
                ostart p o = Some t' /\ (if eq then t <= t' else t < t') /\ cls_match c sub o) /\
  NoDup (iter_next p t c eq sub) /\
  StronglySorted Z.le (map fst (iter_next p t c eq sub)).
Proof. exact iter_next_exact_lemma. Qed.
Print Assumptions iter_next_exact.

Theorem iter_prev_exact : forall p t c eq sub, InvW p -> (exists q, In q (points p) /\ pt q = t) ->
  (forall t' o, In (t', o) (iter_prev p t c eq sub) <->
                ostart p o = Some t' /\ (if eq then t' <= t else t' < t) /\ cls_match c sub o) /\
  NoDup (iter_prev p t c eq sub) /\
  StronglySorted Z.ge (map fst (iter_prev p t c eq sub)).
Proof. exact iter_prev_exact_lemma. Qed.
Print Assumptions iter_prev_exact.

(* "matching": the object's class is cls, or with include_subclasses a strict descendant of it in the
   reflected tree (__mro__); cls = None matches everything *)
Theorem cls_match_isinstance : forall c o, valid_cls c ->
  (cls_match (Some c) true o <-> ocls o = c \/ strict_descendant (ocls o) c) /\
  (cls_match (Some c) false o <-> ocls o = c) /\
  cls_match None false o.
Proof. exact cls_match_isinstance_lemma. Qed.
Print Assumptions cls_match_isinstance.

Theorem first_last_spec : forall p, InvW p ->
  (points p = [] -> first_point p = None /\ last_point p = None) /\
  (forall q, In q (points p) ->
     exists f l, first_point p = Some f /\ last_point p = Some l /\ f <= pt q <= l /\
                 (exists qf, In qf (points p) /\ pt qf = f) /\ (exists ql, In ql (points p) /\ pt ql = l)).
Proof. exact first_last_spec_lemma. Qed.
Print Assumptions first_last_spec.

Theorem get_point_spec : forall p t, InvW p ->
  match get_point t (points p) with
  | Some q => In q (points p) /\ pt q = t
  | None => forall q, In q (points p) -> pt q <> t
  end.
Proof. exact get_point_spec_lemma. Qed.
Print Assumptions get_point_spec.

(* ------------------------------------------------------------------ the class tree (complete finite domain) *)
(* iter_subclasses over the reflected __subclasses__ lists = the strict descendants read off __mro__,
   each exactly once -- for every class of the TimedObject tree (diamonds included) *)
Theorem subclasses_closed : forall c, valid_cls c ->
  NoDup (iter_subclasses c) /\
  (forall d, In d (iter_subclasses c) <-> strict_descendant d c) /\
  ~ In c (iter_subclasses c).
Proof. exact subclasses_closed_lemma. Qed.
Print Assumptions subclasses_closed.

(* the model's iter_subclasses enumerates the classes partitura's iter_subclasses returned, each once (the order
   of the enumeration is not observable through the property), for every class *)
Theorem itersub_matches_impl : forall c, valid_cls c -> Permutation (impl_itersub c) (iter_subclasses c).
Proof. exact itersub_matches_impl_lemma. Qed.
Print Assumptions itersub_matches_impl.

(* the same, stated directly on what partitura's iter_subclasses returned (ct_itersub) *)
Theorem impl_itersub_closed : forall c, valid_cls c ->
  NoDup (impl_itersub c) /\ (forall d, In d (impl_itersub c) <-> strict_descendant d c).
Proof. exact impl_itersub_closed_lemma. Qed.
Print Assumptions impl_itersub_closed.

(* every strict descendant -- in particular a class reached along two inheritance paths -- is enumerated
   exactly once, by the model and by the implementation *)
Theorem descendant_once : forall c d, valid_cls c -> strict_descendant d c ->
  count_occ Z.eq_dec (iter_subclasses c) d = 1%nat /\ count_occ Z.eq_dec (impl_itersub c) d = 1%nat.
Proof. exact descendant_once_lemma. Qed.
Print Assumptions descendant_once.

(* not vacuous: the tree has multiply inherited classes, each below a class with two paths to it *)
Theorem multi_parent_exists :
  multi_parent <> [] /\
  forallb (fun d => existsb (fun c => strict_desc_b d c && two_paths_b c d) classes) multi_parent = true.
Proof. exact multi_parent_exists_lemma. Qed.
Print Assumptions multi_parent_exists.

Theorem diamond_once :
  match cls_named "Direction", cls_named "ConstantLoudnessDirection", cls_named "LoudnessDirection", cls_named "ConstantDirection" with
  | Some d, Some cl, Some l, Some c =>
      count_occ Z.eq_dec (iter_subclasses d) cl = 1%nat /\ In cl (subs_of l) /\ In cl (subs_of c)
  | _, _, _, _ => False
  end.
Proof. exact diamond_lemma. Qed.
Print Assumptions diamond_once.

(* ------------------------------------------------------------------ the index-level code (Model/C01_Idx.v) *)
(* the binary search np.searchsorted runs with ComparableMixin's `<` returns the number of time points strictly
   before t (TimePoint(np.inf): all of them) -- the index every insertion / deletion / slice of the code uses *)
Theorem searchsorted_counts : forall p t, InvW p ->
  idx_of (points p) (Some t) = List.length (filter (fun x => pt x <? t) (points p)) /\
  idx_of (points p) None = List.length (points p).
Proof. exact searchsorted_counts_lemma. Qed.
Print Assumptions searchsorted_counts.

(* rich comparison of time points is comparison of their times, for all six operators *)
Theorem tp_compare_by_time : forall m x y,
  tp_compare m x (cmpkey y) = true <->
  match m with CLt => pt x < pt y | CLe => pt x <= pt y | CEq => pt x = pt y
             | CGe => pt x >= pt y | CGt => pt x > pt y | CNe => pt x <> pt y end.
Proof. exact tp_compare_spec_lemma. Qed.
Print Assumptions tp_compare_by_time.

(* ... under which the timeline is strictly increasing by position and == identifies the point *)
Theorem timeline_ordered : forall p, InvW p -> forall i j x y,
  nth_error (points p) i = Some x -> nth_error (points p) j = Some y ->
  (tp_compare CLt x (cmpkey y) = true <-> (i < j)%nat) /\ (tp_compare CEq x (cmpkey y) = true <-> x = y).
Proof. exact timeline_ordered_lemma. Qed.
Print Assumptions timeline_ordered.

(* every operation, computed with the code's index arithmetic (insert at i with the `i > 0` / `i < len - 1`
   relinking, delete at i with `i > 0` / `i < len`, the table update at i, `points[start_idx:end_idx]`) and with
   the CACHED quarter map, gives the list-level result -- and the cache is the current table afterwards *)
Theorem step_idx_eq : forall p o, InvW p -> valid_op p o \/ rejected o ->
  step_idx (p, qtab p) o = ((fst (step p o), qtab (fst (step p o))), snd (step p o)).
Proof. exact step_idx_eq_lemma. Qed.
Print Assumptions step_idx_eq.

(* hence along every history (rejected calls included) the index-level run IS the list-level run, so every
   theorem above holds of it, and the cached quarter map never goes stale *)
Theorem run_idx_eq : forall q0 ops, mixed_run (init q0) ops ->
  run_idx (init_idx q0) ops = (run (init q0) ops, qtab (run (init q0) ops)).
Proof. exact reachable_idx_lemma. Qed.
Print Assumptions run_idx_eq.

(* state carried between calls (Model/C01_Hist.v): along EVERY history of operations (rejected calls included) with
   questions to the CACHED quarter map (what a point created now would carry) and to the map built on demand interleaved
   anywhere, every answer of the index-level machine -- whose state holds the cache -- is the answer computed from the
   part as it is at that moment: no answer depends on an earlier state *)
Theorem history_answers_current : forall q0 evs, mixed_run (init q0) (ops_of evs) ->
  observe step_idx (init_idx q0) evs = expected (init q0) evs.
Proof. exact history_answers_current_lemma. Qed.
Print Assumptions history_answers_current.

(* not vacuous: for the memoising variant step_memo (the map is rebuilt when a change is inserted, not when an existing
   entry is replaced) the same statement is false -- after set(4,2); set(4,3) the cached map still answers 2 at time 5 *)
Theorem history_answers_memo_refuted :
  mixed_run (init 1) (ops_of ex_events) /\
  observe step_idx (init_idx 1) ex_events = [2; 2; 3; 3; 1] /\
  expected (init 1) ex_events = [2; 2; 3; 3; 1] /\
  observe step_memo (init_idx 1) ex_events = [2; 2; 2; 3; 1].
Proof. exact history_answers_memo_refuted_lemma. Qed.
Print Assumptions history_answers_memo_refuted.

(* the slices / lookups of the queries by index are the half-open windows of the list-level model *)
Theorem queries_idx_eq : forall p, InvW p ->
  (forall c a b sub mode, iter_all_idx p c a b sub mode = iter_all p c a b sub mode) /\
  (forall t, get_point_idx t (points p) = get_point t (points p)) /\
  first_point_idx p = first_point p /\ last_point_idx p = last_point p.
Proof. exact queries_idx_eq_lemma. Qed.
Print Assumptions queries_idx_eq.

Theorem idx_nontrivial :
  mixed_run (init 1) ex_ops /\
  run_idx (init_idx 1) ex_ops = (run (init 1) ex_ops, [(0, 1); (4, 1)]) /\
  map (fun t => idx_of (points (fst (run_idx (init_idx 1) ex_ops))) t) [Some 0; Some 4; Some 5; Some 12; Some 13; None]
  = [0; 1; 2; 3; 4; 4]%nat.
Proof. exact idx_nontrivial_lemma. Qed.
Print Assumptions idx_nontrivial.

(* ------------------------------------------------------------------ the registries as the code has them (Model/C01_Dict.v) *)
(* starting_objects / ending_objects are class-keyed defaultdicts of ordered sets.  part_rel dp p: the
   registry-level part dp implements the flat part p (same times, each dictionary's bucket for class c is the
   class-c part of the flat registry, same back references).  EVERY operation -- valid, rejected or invalid --
   preserves it: filing under type(obj), silent pop, bucket creation on lookup and the clean-up decision by the
   sum of the bucket sizes together do what the flat lists do *)
Theorem dict_step_refines : forall dp p o, part_rel dp p -> part_rel (dstep dp o) (fst (step p o)).
Proof. exact dstep_refines_lemma. Qed.
Print Assumptions dict_step_refines.

(* a query changes nothing that is listed (it only leaves empty buckets behind), and iter_all for a class yields
   the very list the flat model yields *)
Theorem dict_query_refines : forall dp p q, part_rel dp p ->
  part_rel (fst (dquery dp q)) p /\
  (forall k a b sub mode, q = QIterAll (Some k) a b sub mode ->
     snd (dquery dp q) = Some (iter_all p (Some k) a b sub mode)).
Proof. exact dquery_refines_lemma. Qed.
Print Assumptions dict_query_refines.

(* along every history with queries interleaved anywhere (on the flat model a query is a no-op) *)
Theorem dict_history_refines : forall q0 es, part_rel (devents dinit es) (fevents (init q0) es).
Proof. exact reachable_dict_lemma. Qed.
Print Assumptions dict_history_refines.

(* what the relation gives, point by point: _cleanup_point's test (sum of bucket sizes = 0) holds exactly when the
   point lists nothing, whatever empty buckets there are; each bucket is the class-c part; same objects listed *)
Theorem dict_rel_facts : forall dp p, part_rel dp p ->
  map dpt (dpoints dp) = map pt (points p) /\
  Forall2 (fun dq q => (d_is_empty dq = true <-> pstart q = [] /\ pend q = []) /\
                       (forall c, d_bucket c (dstart dq) = by_cls c (pstart q)) /\
                       (forall c, d_bucket c (dend dq) = by_cls c (pend q)) /\
                       (forall o, In o (d_flat (dstart dq)) <-> In o (pstart q)) /\
                       (forall o, In o (d_flat (dend dq)) <-> In o (pend q)))
          (dpoints dp) (points p).
Proof. exact part_rel_facts_lemma. Qed.
Print Assumptions dict_rel_facts.

(* touching a bucket (any lookup) never changes the clean-up decision *)
Theorem dict_touch_total : forall c d, d_total (d_touch c d) = d_total d.
Proof. exact d_total_touch. Qed.
Print Assumptions dict_touch_total.

(* cls=None (object + subclasses): inside the reflected tree the buckets visited are all buckets *)
Theorem dict_iter_none : forall d l, bucket_rel d l -> (forall o, In o l -> valid_cls (ocls o)) ->
  forall o, In o (snd (d_iter None true d)) <-> In o l.
Proof. exact d_iter_none_lemma. Qed.
Print Assumptions dict_iter_none.

Theorem dict_nontrivial :
  forallb (fun q => (dpt q =? 8) && (2 <? List.length (dstart q))%nat && (d_total (dstart q) =? 1)%nat)
          (dpoints (devents dinit (firstn 2 dict_ex))) = true /\
  List.length (dpoints (devents dinit (firstn 2 dict_ex))) = 1%nat /\
  dpoints (devents dinit dict_ex) = [] /\ points (fevents (init 1) dict_ex) = [].
Proof. exact dict_nontrivial_lemma. Qed.
Print Assumptions dict_nontrivial.

(* ------------------------------------------------------------------ the read paths of the quarter table as coded (Model/C01_QMap.v) *)
(* Part.quarter_duration_map -- lists doubled when there is one entry, scipy's interp1d(kind="previous"): binary search
   on the shifted change times, clip(1, len), y[idx - 1], fill values (y[0], y[-1]) -- answers, for EVERY strictly
   increasing non-empty table and EVERY integer time (before the first change and beyond the last one included), the
   duration in force (qd_at: the scan the part-level models use for the quarter of a point) *)
Theorem qmap_code_in_force : forall tab lo, tab <> [] -> tab_incr lo tab ->
  forall s, qmap_code tab s = Some (qd_at tab s).
Proof. exact qmap_code_in_force_lemma. Qed.
Print Assumptions qmap_code_in_force.

(* ... hence after every history (rejected calls included) the map the code builds never raises and is the duration in force *)
Theorem qmap_history : forall q0 ops, mixed_run (init q0) ops ->
  forall s, qmap_code (qtab (run (init q0) ops)) s = Some (qd_at (qtab (run (init q0) ops)) s).
Proof. exact qmap_history_lemma. Qed.
Print Assumptions qmap_history.

(* "setting a quarter duration at t makes it the duration in force from t up to the next later change and nothing
   else", stated on what quarter_duration_map returns before and after the call *)
Theorem qmap_set_qd : forall p t q, InvW p -> 0 <= t -> forall s, 0 <= s ->
  qmap_code (qtab (set_quarter_duration p t q)) s =
  if in_span t (next_change t (qtab p)) s then Some q else qmap_code (qtab p) s.
Proof. exact qmap_set_qd_lemma. Qed.
Print Assumptions qmap_set_qd.

(* the statement discriminates: with fill_value=(y[0], y[0]) the answer beyond the last change is wrong, with a search
   on the unshifted times the answer AT a change is the previous duration *)
Theorem qmap_variants_refuted :
  qmap_code [(0, 1); (4, 2)] 7 = Some 2 /\ qmap_fill_first [(0, 1); (4, 2)] 7 = Some 1 /\
  qmap_code [(0, 1); (4, 2)] 4 = Some 2 /\ qmap_unshifted [(0, 1); (4, 2)] 4 = Some 1 /\
  qd_at [(0, 1); (4, 2)] 7 = 2 /\ qd_at [(0, 1); (4, 2)] 4 = 2.
Proof. exact qmap_refuted_lemma. Qed.
Print Assumptions qmap_variants_refuted.

Theorem qmap_nontrivial :
  tab_incr (-1) [(0, 1); (4, 2); (9, 1)] /\
  map (qmap_code [(0, 1); (4, 2); (9, 1)]) [-3; 0; 3; 4; 8; 9; 1000] = map Some [1; 1; 1; 2; 2; 1; 1] /\
  map (qmap_code [(0, 5)]) [-1; 0; 7] = map Some [5; 5; 5].
Proof. exact qmap_nontrivial_lemma. Qed.
Print Assumptions qmap_nontrivial.

(* Part.quarter_durations(start, end) (two masks, each under `is not None`): exactly the entries of the table in the
   half-open window, in strictly increasing time order, each listing the duration the map answers at its time;
   without bounds the whole table *)
Theorem quarter_durations_spec : forall tab lo a b, tab <> [] -> tab_incr lo tab ->
  (forall t q, In (t, q) (qdur_code tab a b) <-> In (t, q) tab /\ in_range a b t) /\
  StronglySorted Z.lt (map fst (qdur_code tab a b)) /\
  (forall t q, In (t, q) (qdur_code tab a b) -> qmap_code tab t = Some q) /\
  qdur_code tab None None = tab.
Proof. exact qdur_spec_lemma. Qed.
Print Assumptions quarter_durations_spec.

(* the code-level function is the query of the part-level models (the one the lock-step correspondence compares) *)
Theorem quarter_durations_code_model : forall p a b, qdur_code (qtab p) a b = quarter_durations p a b.
Proof. exact qdur_code_model. Qed.
Print Assumptions quarter_durations_code_model.

(* with the truthiness test `if end:` the bound 0 is treated as omitted: the window [0, 0) returns the whole table *)
Theorem quarter_durations_truthy_refuted :
  qdur_code [(0, 1); (4, 2)] (Some 0) (Some 0) = [] /\ qdur_truthy [(0, 1); (4, 2)] (Some 0) (Some 0) = [(0, 1); (4, 2)] /\
  ~ in_range (Some 0) (Some 0) 4.
Proof. exact qdur_truthy_refuted_lemma. Qed.
Print Assumptions quarter_durations_truthy_refuted.

(* ------------------------------------------------------------------ the argument glue of Part.iter_all as coded (Model/C01_Args.v) *)
(* whatever kind each bound has (None / a number wrapped into a TimePoint / a TimePoint object), whatever the mode value
   (anything but "ending" means "starting") and with cls None meaning "object with subclasses", the call -- the `is None`
   tests, the binary searches and the slice -- is the list-level iter_all of the half-open window *)
Theorem iter_all_args_eq : forall p c a b sub m, InvW p ->
  iter_all_args p c a b sub m = iter_all p c (b_opt a) (b_opt b) (sub_eff c sub) (mode_side m).
Proof. exact iter_all_args_eq_lemma. Qed.
Print Assumptions iter_all_args_eq.

(* ... hence returns precisely the matching registered objects of the window, each once, in time order *)
Theorem iter_all_args_spec : forall p c a b sub m, InvW p ->
  (forall t o, In (t, o) (iter_all_args p c a b sub m) <->
               oref (mode_side m) p o = Some t /\ in_range (b_opt a) (b_opt b) t /\ cls_match c (sub_eff c sub) o) /\
  NoDup (iter_all_args p c a b sub m) /\
  StronglySorted Z.le (map fst (iter_all_args p c a b sub m)).
Proof. exact iter_all_args_spec_lemma. Qed.
Print Assumptions iter_all_args_spec.

(* ... after every history (rejected calls included) *)
Theorem iter_all_args_history : forall q0 ops c a b sub m, mixed_run (init q0) ops ->
  let p := run (init q0) ops in
  forall t o, In (t, o) (iter_all_args p c a b sub m) <->
              oref (mode_side m) p o = Some t /\ in_range (b_opt a) (b_opt b) t /\ cls_match c (sub_eff c sub) o.
Proof. exact iter_all_args_history_lemma. Qed.
Print Assumptions iter_all_args_history.

(* the statement discriminates: with the truthiness test (`if end:`) the NUMBER 0 given as end bound is treated as
   omitted and the window [0, 0) returns everything (a TimePoint object at 0 is still honoured) *)
Theorem iter_all_args_truthy_refuted :
  let p := run (init 1) args_ex_ops in
  mixed_run (init 1) args_ex_ops /\
  iter_all_args p None (BNum 0) (BNum 0) false MStarting = [] /\
  iter_all_args_truthy p None (BNum 0) (BNum 0) false MStarting = [(0, (0, 1)); (3, (0, 0))] /\
  iter_all_args_truthy p None (BTp 0) (BTp 0) false MStarting = [] /\
  ~ in_range (b_opt (BNum 0)) (b_opt (BNum 0)) 3.
Proof. exact iter_all_args_truthy_refuted_lemma. Qed.
Print Assumptions iter_all_args_truthy_refuted.

Theorem iter_all_args_nontrivial :
  let p := run (init 1) args_ex_ops in
  iter_all_args p None BNone BNone false MOther = [(0, (0, 1)); (3, (0, 0))] /\
  iter_all_args p (Some 0) (BTp 3) (BNum 6) false MEnding = [(3, (0, 1)); (5, (0, 0))] /\
  iter_all_args p (Some 0) (BNum 1) BNone false MStarting = [(3, (0, 0))].
Proof. exact iter_all_args_nontrivial_lemma. Qed.
Print Assumptions iter_all_args_nontrivial.

(* ------------------------------------------------------------------ the hypotheses are satisfiable *)
(* a reachable 4-point part with shared points, a replaced quarter duration and a removal meets Inv *)
Theorem inv_nontrivial :
  Inv (run (init 1) ex_ops) /\
  map (fun q => (pt q, pq q, pprev q, pnext q, List.length (pstart q), List.length (pend q))) (points (run (init 1) ex_ops))
  = [(0, 1, None, Some 4, 1%nat, 0%nat); (4, 1, Some 0, Some 8, 1%nat, 2%nat);
     (8, 1, Some 4, Some 12, 1%nat, 1%nat); (12, 1, Some 8, None, 0%nat, 1%nat)] /\
  qtab (run (init 1) ex_ops) = [(0, 1); (4, 1)].
Proof. exact inv_nontrivial_lemma. Qed.
Print Assumptions inv_nontrivial.
