(* Prelude of the T1 translator (harness/t1.py): the Gallina counterparts of the Python
   operations that the supported subset may use.  Definitions + small sanity Examples only;
   lemmas are in Proofs/T1_lib.v.

   Conventions of the generated code
   * every translated function returns [option R]; [None] = "the call raised" (any exception:
     KeyError, IndexError, ValueError, AssertionError, ZeroDivisionError, TypeError ...).
     Expressions are pure, so the order in which failing sub-expressions are evaluated does
     not matter for that encoding.
   * Python [int] = [Z].  Python [//] and [%] are FLOOR division and the remainder with the
     sign of the divisor; Coq's [Z.div]/[Z.modulo] are exactly that for every sign of the
     divisor (see the Examples below; the generated file repeats the comparison against the
     running interpreter on a grid).  Division by zero raises in Python, so a non-literal
     divisor goes through [py_floordiv]/[py_mod].
   * Python [str] = Coq [string]; only ASCII letters change case ([str.lower/upper/capitalize]
     on non-ASCII text is outside the model).
   * an optional int ([None] or an int) = [option Z]; a "dynamic" argument that may be None,
     an int or a str (the [mode] of a key) = [pyval]. *)
From PV Require Import Lib.Base.
From Coq Require Import Ascii NArith QArith Decimal DecimalString.
#[local] Open Scope Z_scope.

(* ---------- integers ---------- *)
Definition py_floordiv (a b : Z) : option Z := if b =? 0 then None else Some (a / b).
Definition py_mod (a b : Z) : option Z := if b =? 0 then None else Some (a mod b).

Example py_floordiv_signs :
  (7 / 2 = 3) /\ (-7 / 2 = -4) /\ (7 / -2 = -4) /\ (-7 / -2 = 3) /\ (-1 / 12 = -1) /\ (-12 / 12 = -1).
Proof. repeat split. Qed.
Example py_mod_signs :
  (7 mod 2 = 1) /\ (-7 mod 2 = 1) /\ (7 mod -2 = -1) /\ (-7 mod -2 = -1) /\ (-1 mod 12 = 11) /\ (-3 mod 7 = 4).
Proof. repeat split. Qed.

(* [x or d] for an optional int x / an int x: x when truthy (not None, not 0), else d *)
Definition py_or_optint (x : option Z) (d : Z) : Z :=
  match x with Some v => if v =? 0 then d else v | None => d end.
Definition py_or_int (x d : Z) : Z := if x =? 0 then d else x.

Definition optint_eqb (a b : option Z) : bool := zopt_eqb a b.

(* ---------- strings ---------- *)
Definition is_upper_ascii (c : ascii) : bool :=
  let n := N_of_ascii c in (N.leb 65 n && N.leb n 90)%N.
Definition is_lower_ascii (c : ascii) : bool :=
  let n := N_of_ascii c in (N.leb 97 n && N.leb n 122)%N.
Definition lower_ascii (c : ascii) : ascii :=
  if is_upper_ascii c then ascii_of_N (N_of_ascii c + 32) else c.
Definition upper_ascii (c : ascii) : ascii :=
  if is_lower_ascii c then ascii_of_N (N_of_ascii c - 32) else c.

Fixpoint py_lower (s : string) : string :=
  match s with EmptyString => EmptyString | String c r => String (lower_ascii c) (py_lower r) end.
Fixpoint py_upper (s : string) : string :=
  match s with EmptyString => EmptyString | String c r => String (upper_ascii c) (py_upper r) end.
Definition py_capitalize (s : string) : string :=
  match s with EmptyString => EmptyString | String c r => String (upper_ascii c) (py_lower r) end.

Example py_case_examples :
  py_lower "C#m" = "c#m"%string /\ py_upper "bb4" = "BB4"%string /\ py_capitalize "eS" = "Es"%string /\
  py_capitalize "" = ""%string /\ py_lower "[@`{" = "[@`{"%string.
Proof. repeat split. Qed.

(* str(int): decimal, "-" for negatives, no leading zeros *)
Definition py_str_N (n : N) : string := NilEmpty.string_of_uint (N.to_uint n).
Definition py_str_Z (z : Z) : string :=
  if z <? 0 then String "-" (py_str_N (Z.to_N (- z))) else py_str_N (Z.to_N z).

(* the reader used by the lemmas: an optional "-" followed by digits *)
Definition py_uint_of_str (s : string) : option N :=
  match s with
  | EmptyString => None
  | _ => match NilEmpty.uint_of_string s with Some d => Some (N.of_uint d) | None => None end
  end.
Definition py_int_of_str (s : string) : option Z :=
  match s with
  | String "-" r => match py_uint_of_str r with Some n => Some (- Z.of_N n) | None => None end
  | _ => match py_uint_of_str s with Some n => Some (Z.of_N n) | None => None end
  end.
(* a key is "canonical" when it is what str() prints for the integer it reads as *)
Definition canon_int_key (k : string) : option Z :=
  match py_int_of_str k with
  | Some z => if String.eqb (py_str_Z z) k then Some z else None
  | None => None
  end.

Example py_str_examples :
  py_str_Z 0 = "0"%string /\ py_str_Z 7 = "7"%string /\ py_str_Z (-12) = "-12"%string /\ py_str_Z 1048576 = "1048576"%string /\
  canon_int_key "07" = None /\ canon_int_key "-0" = None /\ canon_int_key "-3" = Some (-3) /\ canon_int_key "d1" = None.
Proof. repeat split. Qed.

(* n * "s" (n <= 0 gives "") *)
Fixpoint str_repeat_nat (n : nat) (s : string) : string :=
  match n with O => EmptyString | S k => (s ++ str_repeat_nat k s)%string end.
Definition py_str_repeat (n : Z) (s : string) : string := str_repeat_nat (Z.to_nat n) s.

Definition py_len (s : string) : Z := Z.of_nat (String.length s).

(* s[0] : IndexError on the empty string *)
Definition py_str_head (s : string) : option string :=
  match s with EmptyString => None | String c _ => Some (String c EmptyString) end.

(* [sub in s] for a ONE-character sub (the only form the subset admits), s.count(one char) *)
Fixpoint str_count_char (c : ascii) (s : string) : Z :=
  match s with EmptyString => 0 | String d r => (if Ascii.eqb c d then 1 else 0) + str_count_char c r end.
Definition py_count1 (s sub : string) : option Z :=
  match sub with String c EmptyString => Some (str_count_char c s) | _ => None end.
Definition py_contains1 (sub s : string) : option bool :=
  match sub with String c EmptyString => Some (0 <? str_count_char c s) | _ => None end.

Example py_string_examples :
  py_str_repeat 3 "#" = "###"%string /\ py_str_repeat (-1) "b" = ""%string /\ py_len "F#m" = 3 /\
  py_str_head "Ebm" = Some "E"%string /\ py_count1 "Abbm" "b" = Some 2 /\ py_contains1 "m" "C#m" = Some true.
Proof. repeat split. Qed.

(* ---------- lists of strings (local list literals, module-level lists) ---------- *)
Definition py_in_strs (x : string) (l : list string) : bool := existsb (String.eqb x) l.
Definition py_in_ints (x : Z) (l : list Z) : bool := existsb (Z.eqb x) l.

Fixpoint str_index_from (x : string) (l : list string) (i : Z) : option Z :=
  match l with [] => None | y :: r => if String.eqb x y then Some i else str_index_from x r (i + 1) end.
(* list.index(x): ValueError when absent *)
Definition py_index (l : list string) (x : string) : option Z := str_index_from x l 0.

(* l[i] with Python's negative indices; IndexError outside -len..len-1 *)
Definition py_nth {A} (l : list A) (i : Z) : option A :=
  let n := Z.of_nat (List.length l) in
  if (0 <=? i) && (i <? n) then nth_error l (Z.to_nat i)
  else if (- n <=? i) && (i <? 0) then nth_error l (Z.to_nat (n + i))
  else None.

(* l[a:] and l[:b] for literal non-negative a, b *)
Definition py_slice_from {A} (l : list A) (a : Z) : list A := skipn (Z.to_nat a) l.
Definition py_slice_to {A} (l : list A) (b : Z) : list A := firstn (Z.to_nat b) l.

Example py_list_examples :
  py_index ["F"; "C"; "G"]%string "G" = Some 2 /\ py_index ["F"]%string "X" = None /\
  py_nth [10; 20; 30] (-1) = Some 30 /\ py_nth [10; 20; 30] 3 = None /\ py_nth [10; 20; 30] (-4) = None /\
  py_slice_from [1; 2; 3; 4] 1 = [2; 3; 4] /\ py_slice_to [1; 2; 3; 4] 1 = [1].
Proof. repeat split. Qed.

(* ---------- dict keys of other types ---------- *)
Fixpoint olookup {A} (k : option Z) (l : list (option Z * A)) : option A :=
  match l with
  | [] => None
  | (k', v) :: r => if zopt_eqb k k' then Some v else olookup k r
  end.
Definition skeys {A} (l : list (string * A)) : list string := map fst l.

(* ---------- dynamic values: None | int | str ---------- *)
Inductive pyval := PyNone | PyInt (z : Z) | PyStr (s : string).
Definition pyval_eqb (a b : pyval) : bool :=
  match a, b with
  | PyNone, PyNone => true
  | PyInt x, PyInt y => Z.eqb x y
  | PyStr x, PyStr y => String.eqb x y
  | _, _ => false
  end.
Definition py_in_vals (x : pyval) (l : list pyval) : bool := existsb (pyval_eqb x) l.

(* ---------- rationals ---------- *)
#[local] Open Scope Q_scope.
(* Fraction(n, d): ZeroDivisionError for d = 0 *)
Definition py_fraction (n d : Z) : option Q :=
  match d with
  | Z0 => None
  | Zpos p => Some (n # p)
  | Zneg p => Some ((- n)%Z # p)
  end.
(* a / b on rationals: ZeroDivisionError for b == 0 *)
Definition py_qdiv (a b : Q) : option Q := if Qeq_bool b 0 then None else Some (a / b).
Definition qopt_equiv (a b : option Q) : Prop :=
  match a, b with Some x, Some y => x == y | None, None => True | _, _ => False end.

Example py_fraction_examples :
  py_fraction 2 3 = Some (2 # 3) /\ py_fraction 2 (-3) = Some ((-2) # 3) /\ py_fraction 1 0 = None.
Proof. repeat split. Qed.
#[local] Close Scope Q_scope.

(* ---------- objects with a fixed small set of fields ---------- *)
(* score.Note: step, alter (None or int), octave *)
Record PyNote := mk_note { n_step : string; n_alter : option Z; n_octave : Z }.
Definition set_n_step (x : PyNote) (v : string) : PyNote := mk_note v (n_alter x) (n_octave x).
Definition set_n_alter (x : PyNote) (v : option Z) : PyNote := mk_note (n_step x) v (n_octave x).
Definition set_n_octave (x : PyNote) (v : Z) : PyNote := mk_note (n_step x) (n_alter x) v.
(* score.Interval: number, quality, direction *)
Record PyInterval := mk_interval { i_number : Z; i_quality : string; i_direction : string }.
(* score.Tuplet: the four fields duration_multiplier reads (types None = "") *)
Record PyTuplet := mk_tuplet { t_actual_notes : Z; t_normal_notes : Z; t_actual_type : option string; t_normal_type : option string }.
(* score.KeySignature: fifths, mode *)
Record PyKeySig := mk_keysig { k_fifths : Z; k_mode : pyval }.

(* a symbolic duration: a dict whose keys may be absent (absent = None), read through .get() *)
Record PySymDur := mk_symdur { sd_type : option string; sd_dots : option Z; sd_actual_notes : option Z; sd_normal_notes : option Z }.

Definition sopt_eqb' (a b : option string) : bool :=
  match a, b with Some x, Some y => String.eqb x y | None, None => true | _, _ => false end.

(* while loops run on explicit fuel; a function containing one takes [fuel : nat] first *)
Definition t1_default_fuel : nat := 4096.

(* TABLE[k] with an optional-string key: a None key is a KeyError *)
Definition slookup_o {A} (k : option string) (l : list (string * A)) : option A :=
  match k with Some s => slookup s l | None => None end.
