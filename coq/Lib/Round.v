(* Rounding of rationals as numpy/Python do it: round-half-to-even, truncation. *)
From Coq Require Import ZArith QArith Qround Qabs Lia.
#[local] Open Scope Q_scope.

Definition half : Q := 1 # 2.

Definition round_half_even (q : Q) : Z :=
  let f := Qfloor q in
  let r := q - inject_Z f in
  match Qcompare r half with
  | Lt => f
  | Gt => (f + 1)%Z
  | Eq => if Z.even f then f else (f + 1)%Z
  end.

(* Python int(): truncation toward zero *)
Definition trunc (q : Q) : Z :=
  if Qle_bool 0 q then Qfloor q else Qceiling q.

#[global] Instance round_half_even_comp : Proper (Qeq ==> eq) round_half_even.
Proof.
  intros a b E. unfold round_half_even.
  rewrite (Qfloor_comp _ _ E).
  assert (H : a - inject_Z (Qfloor b) == b - inject_Z (Qfloor b)) by (rewrite E; reflexivity).
  rewrite (Qcompare_comp _ _ H _ _ (Qeq_refl half)). reflexivity.
Qed.

Lemma round_half_even_Z (k : Z) : round_half_even (inject_Z k) = k.
Proof.
  unfold round_half_even. rewrite Qfloor_Z.
  assert (H : inject_Z k - inject_Z k == 0) by ring.
  rewrite (Qcompare_comp _ _ H _ _ (Qeq_refl half)). reflexivity.
Qed.

Lemma Qfloor_bounds q : inject_Z (Qfloor q) <= q /\ q < inject_Z (Qfloor q) + 1.
Proof.
  split. apply Qfloor_le.
  pose proof (Qlt_floor q) as H. rewrite inject_Z_plus in H. exact H.
Qed.

Lemma round_half_even_near q : Qabs (q - inject_Z (round_half_even q)) <= half.
Proof.
  unfold round_half_even.
  destruct (Qfloor_bounds q) as [Hlo Hhi].
  set (f := Qfloor q) in *.
  destruct (Qcompare (q - inject_Z f) half) eqn:C.
  - apply Qeq_alt in C.
    destruct (Z.even f).
    + rewrite C. unfold half. apply Qabs_case; intros; [apply Qle_refl | discriminate].
    + rewrite inject_Z_plus.
      assert (E : q - (inject_Z f + inject_Z 1) == - half).
      { setoid_replace (q - (inject_Z f + inject_Z 1)) with ((q - inject_Z f) - 1) by ring.
        rewrite C. reflexivity. }
      rewrite E. rewrite Qabs_opp. apply Qabs_case; intros; [apply Qle_refl | discriminate].
  - apply Qlt_alt in C.
    apply Qabs_case; intros H.
    + apply Qlt_le_weak; exact C.
    + apply Qle_trans with 0; [|discriminate].
      setoid_replace 0 with (-0) by reflexivity. apply Qopp_le_compat.
      setoid_replace 0 with (inject_Z f - inject_Z f) by ring.
      apply Qplus_le_compat; [exact Hlo | apply Qle_refl].
  - apply Qgt_alt in C.
    rewrite inject_Z_plus.
    apply Qabs_case; intros H.
    + setoid_replace (q - (inject_Z f + inject_Z 1)) with ((q - inject_Z f) - 1) by ring.
      apply Qle_trans with 0; [|discriminate].
      setoid_replace 0 with (1 - 1) by ring.
      apply Qplus_le_compat; [|apply Qle_refl].
      apply Qlt_le_weak.
      setoid_replace (q - inject_Z f) with (q + - inject_Z f) by ring.
      setoid_replace 1 with ((inject_Z f + 1) + - inject_Z f) by ring.
      apply Qplus_lt_le_compat; [exact Hhi | apply Qle_refl].
    + setoid_replace (- (q - (inject_Z f + inject_Z 1))) with (1 - (q - inject_Z f)) by ring.
      setoid_replace half with (1 - half) by reflexivity.
      apply Qplus_le_compat; [apply Qle_refl|].
      apply Qopp_le_compat. apply Qlt_le_weak. exact C.
Qed.
