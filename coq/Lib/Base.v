(* Shared prelude: imports, lia configuration, association-list lookups. *)
From Coq Require Export ZArith List Bool Lia ZifyBool String.
Export ListNotations.
#[global] Open Scope Z_scope.

Ltac Zify.zify_post_hook ::= Z.to_euclidean_division_equations.

(* association lists *)
Fixpoint zlookup {A} (k : Z) (l : list (Z * A)) : option A :=
  match l with
  | [] => None
  | (k', v) :: r => if Z.eqb k k' then Some v else zlookup k r
  end.

Fixpoint slookup {A} (k : string) (l : list (string * A)) : option A :=
  match l with
  | [] => None
  | (k', v) :: r => if String.eqb k k' then Some v else slookup k r
  end.

Definition opt_bind {A B} (o : option A) (f : A -> option B) : option B :=
  match o with Some a => f a | None => None end.
Notation "x <- e ;; k" := (opt_bind e (fun x => k))
  (at level 61, e at next level, right associativity).

Definition zopt_eqb (a b : option Z) : bool :=
  match a, b with
  | Some x, Some y => Z.eqb x y
  | None, None => true
  | _, _ => false
  end.

Fixpoint list_eqb {A} (eqb : A -> A -> bool) (a b : list A) : bool :=
  match a, b with
  | [], [] => true
  | x :: a', y :: b' => eqb x y && list_eqb eqb a' b'
  | _, _ => false
  end.

Lemma list_eqb_eq {A} (eqb : A -> A -> bool) :
  (forall x y, eqb x y = true -> x = y) ->
  forall a b, list_eqb eqb a b = true -> a = b.
Proof.
  intros H a; induction a as [|x a IH]; intros [|y b]; simpl; try discriminate; auto.
  intros E. apply andb_true_iff in E as [E1 E2]. f_equal; auto.
Qed.

Lemma forallb_In {A} (p : A -> bool) l : forallb p l = true -> forall x, In x l -> p x = true.
Proof. intros H x Hx. rewrite forallb_forall in H. auto. Qed.

(* integer ranges [lo, lo+n) *)
Fixpoint zrange (lo : Z) (n : nat) : list Z :=
  match n with O => [] | S k => lo :: zrange (lo + 1) k end.

Lemma zrange_In lo n x : lo <= x < lo + Z.of_nat n -> In x (zrange lo n).
Proof.
  revert lo; induction n as [|n IH]; intros lo H; simpl in *; [lia|].
  destruct (Z.eq_dec lo x); [left; auto | right; apply IH; lia].
Qed.
