(* T2 support: a table is the graph of an implementation function on a finite
   domain, regenerated from the source tree on every run.  [covers] is decided by
   vm_compute and lifted to a statement about every key of the domain. *)
From PV Require Import Lib.Base.

Section Tab.
  Context {K V : Type} (keqb : K -> K -> bool).
  Hypothesis keqb_eq : forall a b, keqb a b = true -> a = b.

  Definition covers (dom : list K) (tab : list (K * V)) (P : K -> V -> bool) : bool :=
    forallb (fun k => existsb (fun row => keqb k (fst row) && P (fst row) (snd row)) tab) dom.

  Lemma covers_spec dom tab P :
    covers dom tab P = true ->
    forall k, In k dom -> exists v, In (k, v) tab /\ P k v = true.
  Proof.
    unfold covers. intros H k Hk.
    rewrite forallb_forall in H. specialize (H k Hk).
    apply existsb_exists in H as [[k' v] [Hin Hb]]. simpl in Hb.
    apply andb_true_iff in Hb as [E HP]. apply keqb_eq in E. subst k'.
    exists v. split; assumption.
  Qed.

  Definition all_rows (tab : list (K * V)) (P : K -> V -> bool) : bool :=
    forallb (fun row => P (fst row) (snd row)) tab.

  Lemma all_rows_spec tab P :
    all_rows tab P = true -> forall k v, In (k, v) tab -> P k v = true.
  Proof.
    unfold all_rows. intros H k v Hin. rewrite forallb_forall in H. exact (H (k, v) Hin).
  Qed.
End Tab.

Definition sopt_eqb (a b : option string) : bool :=
  match a, b with
  | Some x, Some y => String.eqb x y
  | None, None => true
  | _, _ => false
  end.

Lemma zopt_eqb_eq a b : zopt_eqb a b = true -> a = b.
Proof. destruct a, b; simpl; intros H; try discriminate; auto. apply Z.eqb_eq in H. congruence. Qed.

Lemma sopt_eqb_eq a b : sopt_eqb a b = true -> a = b.
Proof. destruct a, b; simpl; intros H; try discriminate; auto. apply String.eqb_eq in H. congruence. Qed.

Lemma In_list_prod {A B} (l : list A) (l' : list B) a b : In a l -> In b l' -> In (a, b) (list_prod l l').
Proof. intros. apply in_prod; assumption. Qed.
