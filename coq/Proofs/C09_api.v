(* C09 -- the public entry points (Model/C09_api.v): what unfold_part_maximal / unfold_part_minimal /
   iter_unfolded_parts return on simple-repeat tables and on parts without repeat structure
   (compositions of the path theorems with the variant theorems), and the selection rule of
   unfold_part_alignment. *)
From PV Require Import Lib.Base Model.C09 Model.C09_api Proofs.C09 Proofs.C09_simple Proofs.C09_segs
                       Proofs.C09_variant Proofs.C09_clip.
From Coq Require Import ZArith List Bool Lia.
Import ListNotations.
#[local] Open Scope Z_scope.

(* ------------------------------------------------------------------ *)
(* argbest: the first element that no other element beats *)

Lemma better_true a b : better a b = true <-> (fst b < fst a \/ (fst a = fst b /\ snd a < snd b)).
Proof.
  unfold better. rewrite orb_true_iff, andb_true_iff, Z.ltb_lt, Z.eqb_eq, Z.ltb_lt. tauto.
Qed.

Lemma better_false a b : better a b = false <-> ~ (fst b < fst a \/ (fst a = fst b /\ snd a < snd b)).
Proof.
  rewrite <- better_true. destruct (better a b); split; intros H; try congruence; try tauto.
Qed.

(* the candidate kept so far is the first unbeaten element of the prefix already seen *)
Definition cur_ok (pre : list (Z * Z)) (cur : option (nat * (Z * Z))) : Prop :=
  match cur with
  | None => pre = []
  | Some (j, y) =>
      nth_error pre j = Some y /\
      (forall j' y', nth_error pre j' = Some y' -> better y' y = false) /\
      (forall j' y', (j' < j)%nat -> nth_error pre j' = Some y' -> better y y' = true)
  end.

Definition first_unbeaten (l : list (Z * Z)) (k : nat) : Prop :=
  exists x, nth_error l k = Some x /\
    (forall j y, nth_error l j = Some y -> better y x = false) /\
    (forall j y, (j < k)%nat -> nth_error l j = Some y -> better x y = true).

Lemma nth_error_snoc {A} (pre : list A) x j y :
  nth_error (pre ++ [x]) j = Some y -> nth_error pre j = Some y \/ (j = length pre /\ y = x).
Proof.
  intros H. destruct (Nat.lt_ge_cases j (length pre)) as [Hl|Hl].
  - left. rewrite nth_error_app1 in H; auto.
  - right. rewrite nth_error_app2 in H by lia.
    destruct (j - length pre)%nat eqn:E; simpl in H.
    + injection H as <-. split; [lia|reflexivity].
    + destruct n; discriminate.
Qed.

Lemma argbest_gen : forall l pre cur k,
  cur_ok pre cur -> argbest l (length pre) cur = Some k -> first_unbeaten (pre ++ l) k.
Proof.
  induction l as [|x l IH]; intros pre cur k Hc H.
  - simpl in H. destruct cur as [[j y]|]; [|discriminate]. simpl in H. injection H as <-.
    rewrite app_nil_r. destruct Hc as (H1 & H2 & H3). exists y. auto.
  - simpl in H.
    assert (Hlen : S (length pre) = length (pre ++ [x])) by (rewrite app_length; simpl; lia).
    replace (pre ++ x :: l) with ((pre ++ [x]) ++ l) by (rewrite <- app_assoc; reflexivity).
    destruct cur as [[j y]|].
    + destruct Hc as (H1 & H2 & H3).
      assert (Hj : (j < length pre)%nat) by (apply nth_error_Some; congruence).
      destruct (better x y) eqn:Eb.
      * rewrite Hlen in H. apply (IH _ _ _) in H; auto. simpl.
        split; [rewrite nth_error_app2 by lia; rewrite Nat.sub_diag; reflexivity|].
        apply better_true in Eb. split.
        -- intros j' y' Hn. apply nth_error_snoc in Hn as [Hn|[_ ->]].
           ++ specialize (H2 _ _ Hn). apply better_false in H2. apply better_false. lia.
           ++ apply better_false. lia.
        -- intros j' y' Hl Hn. apply nth_error_snoc in Hn as [Hn|[Hn _]]; [|lia].
           specialize (H2 _ _ Hn). apply better_false in H2. apply better_true. lia.
      * rewrite Hlen in H. apply (IH _ _ _) in H; auto. simpl.
        split; [rewrite nth_error_app1 by lia; auto|]. split.
        -- intros j' y' Hn. apply nth_error_snoc in Hn as [Hn|[_ ->]]; eauto.
        -- intros j' y' Hl Hn. apply nth_error_snoc in Hn as [Hn|[Hn _]]; [eauto|lia].
    + simpl in Hc. subst pre. simpl in *. change 1%nat with (length [x]) in H.
      apply (IH [x] _ _) in H; auto. simpl. split; [reflexivity|]. split.
      * intros j' y' Hn. destruct j'; simpl in Hn; [|destruct j'; discriminate].
        injection Hn as <-. apply better_false. lia.
      * intros j' y' Hl. lia.
Qed.

(* the selection rule of unfold_part_alignment: the index chosen holds a score (coverage, number of
   notes) that no other variant beats -- maximal coverage, among those the fewest notes -- and is
   the first such index *)
Theorem argbest_spec_lemma : forall l k, argbest l 0 None = Some k -> first_unbeaten l k.
Proof. intros l k H. apply (argbest_gen l [] None k); simpl; auto. Qed.

(* ------------------------------------------------------------------ *)
(* the part unfold_part_alignment returns is one of the variants of the all-variants policy, its
   score is not beaten by any other variant, and it is the first such variant *)
Theorem api_alignment_spec_lemma : forall g objs want all,
  api_alignment g objs want = Some all ->
  exists ps k p,
    get_paths FUEL g false false true = Some ps /\ nth_error ps k = Some p /\
    part_along g objs p = Some all /\
    first_unbeaten (map (fun o => match o with Some a => align_score want a | None => (-1, 0) end)
                        (map (part_along g objs) ps)) k.
Proof.
  intros g objs want all H. unfold api_alignment, api_iter in H.
  destruct (get_paths FUEL g false false true) as [ps|] eqn:Ep; simpl in H; [|discriminate].
  destruct (argbest _ 0 None) as [k|] eqn:Ea; [|discriminate].
  destruct (nth_error (map (part_along g objs) ps) k) as [o|] eqn:En; [|discriminate].
  subst o. rewrite nth_error_map in En.
  destruct (nth_error ps k) as [p|] eqn:Ek; simpl in En; [|discriminate].
  exists ps, k, p. split; [reflexivity|]. split; [exact Ek|]. split; [congruence|].
  apply argbest_spec_lemma. exact Ea.
Qed.

(* ------------------------------------------------------------------ *)
(* entry points on simple-repeat tables: compositions with Proofs/C09_simple.v *)

Lemma fuel_ok (bs : list bool) : (length bs <= 31)%nat -> (2 * length bs + 1 <= FUEL)%nat.
Proof. unfold FUEL. lia. Qed.

Theorem api_maximal_simple_lemma : forall g bs objs ign,
  simple_table g bs -> bs <> [] -> (length bs <= 31)%nat ->
  api_maximal g objs ign = part_along g objs (maxsfx 0 bs).
Proof.
  intros g bs objs ign HT Hne Hl. unfold api_maximal, first_path.
  rewrite (maximal_simple g bs ign FUEL HT Hne (fuel_ok bs Hl)). reflexivity.
Qed.

Theorem api_minimal_simple_lemma : forall g bs objs,
  simple_table g bs -> bs <> [] -> (length bs <= 31)%nat ->
  api_minimal g objs = part_along g objs (minsfx 0 bs).
Proof.
  intros g bs objs HT Hne Hl. unfold api_minimal, first_path.
  rewrite (minimal_simple g bs true FUEL HT Hne (fuel_ok bs Hl)). reflexivity.
Qed.

Theorem api_iter_simple_lemma : forall g bs objs,
  simple_table g bs -> bs <> [] -> (length bs <= 31)%nat ->
  exists parts, api_iter g objs = Some parts /\ parts = map (part_along g objs) (sfx 0 bs) /\
                length parts = Nat.pow 2 (nrep bs).
Proof.
  intros g bs objs HT Hne Hl. unfold api_iter.
  rewrite (all_paths_simple g bs true FUEL HT Hne (fuel_ok bs Hl)). simpl.
  eexists. split; [reflexivity|]. split; [reflexivity|]. rewrite map_length. apply sfx_length.
Qed.

(* the notes of the maximal / minimal unfolding, from the path to the notes: every note of every
   visited segment once per visit, shifted, ends clamped to the length of the unfolded part *)
Theorem api_maximal_notes_lemma : forall g bs objs ign vs,
  simple_table g bs -> bs <> [] -> (length bs <= 31)%nat ->
  visits_of g (maxsfx 0 bs) = Some vs ->
  exists all, api_maximal g objs ign = Some all /\
              notes_of all = map (clip_view (total_len vs)) (expected_notes objs vs 0 0).
Proof.
  intros g bs objs ign vs HT Hne Hl Hv. rewrite (api_maximal_simple_lemma g bs objs ign HT Hne Hl).
  unfold part_along. rewrite Hv. simpl. eexists. split; [reflexivity|]. apply variant_notes_lemma.
Qed.

Theorem api_minimal_notes_lemma : forall g bs objs vs,
  simple_table g bs -> bs <> [] -> (length bs <= 31)%nat ->
  visits_of g (minsfx 0 bs) = Some vs ->
  exists all, api_minimal g objs = Some all /\
              notes_of all = map (clip_view (total_len vs)) (expected_notes objs vs 0 0).
Proof.
  intros g bs objs vs HT Hne Hl Hv. rewrite (api_minimal_simple_lemma g bs objs HT Hne Hl).
  unfold part_along. rewrite Hv. simpl. eexists. split; [reflexivity|]. apply variant_notes_lemma.
Qed.

(* ------------------------------------------------------------------ *)
(* a part without repeat structure: every entry point returns the copy of the whole part *)

Lemma no_marks_simple first last : first < last ->
  simple_table (make_segments (mkMarks first last [] [] [] [] [] [] [] [])) [false].
Proof.
  intros H. rewrite (no_marks_segments_lemma first last H). split; [reflexivity|].
  intros i s Hi. destruct i as [|i]; simpl in Hi; [|destruct i; discriminate].
  injection Hi as <-. simpl. repeat split; try reflexivity. discriminate.
Qed.

Theorem api_no_structure_lemma : forall first last objs ign,
  first < last ->
  let g := make_segments (mkMarks first last [] [] [] [] [] [] [] []) in
  let whole := variant objs [(first, last)] in
  api_maximal g objs ign = Some whole /\ api_minimal g objs = Some whole /\
  api_iter g objs = Some [Some whole] /\
  (forall want, api_alignment g objs want = Some whole).
Proof.
  intros first last objs ign H g whole.
  pose proof (no_marks_simple first last H) as HT. fold g in HT.
  assert (Hp : forall nr ar ig, get_paths FUEL g nr ar ig = Some [[0]]).
  { intros. apply no_structure_single_path; [exact HT|unfold FUEL; lia]. }
  assert (Hw : part_along g objs [0] = Some whole).
  { unfold part_along, g. rewrite (no_marks_segments_lemma first last H). reflexivity. }
  unfold api_maximal, api_minimal, api_alignment, api_iter, first_path. rewrite !Hp. simpl.
  rewrite Hw. repeat split; reflexivity.
Qed.

(* non-vacuity: |: A :| B |: C :| of Proofs/C09_simple.v with two notes *)
Example api_example :
  let objs := [mkObj 1 cls_note 0 (Some 4) 0 (60, 1, 1) []; mkObj 2 cls_note 8 (Some 12) 0 (62, 1, 1) []] in
  option_map notes_of (api_maximal g3 objs true)
    = Some [(1, 0, Some 4, (60, 1, 1)); (1, 4, Some 8, (60, 1, 1));
            (2, 12, Some 16, (62, 1, 1)); (2, 16, Some 20, (62, 1, 1))] /\
  option_map notes_of (api_minimal g3 objs) = Some [(1, 0, Some 4, (60, 1, 1)); (2, 8, Some 12, (62, 1, 1))] /\
  option_map (@length _) (api_iter g3 objs) = Some 4%nat /\
  (* aligned with the second playing of note 1 only: the shortest variant holding it, A A B C *)
  option_map notes_of (api_alignment g3 objs [(1, 2)])
    = Some [(1, 0, Some 4, (60, 1, 1)); (1, 4, Some 8, (60, 1, 1)); (2, 12, Some 16, (62, 1, 1))].
Proof. vm_compute. repeat split. Qed.
