(* C09 -- navigation marks (da capo, dal segno, fine, to coda / coda), FINITE domain, complete
   enumeration checked in the kernel: on every legal arrangement of one jump (D.C. or D.S. with its
   segno), optionally "al Fine" or "al Coda" (To Coda + Coda), and up to two disjoint simple repeats
   of one or two measures over a five-measure part, the path search on the table built by
   make_segments returns -- for all three policies and both values of ignore_leaps -- exactly the
   readings the notation permits:
     straight   = the part from beginning to end without taking the jump
     jump       = [0, jump mark) ++ [destination, stop) (++ [coda, end)), stop = Fine / To Coda /
                  end of the part, every repeated section once or twice in the first pass and
                  (with ignore_leaps) after the jump, exactly once after the jump otherwise
   all-variants policy: all of these; maximal: every repeat twice, taking the jump only when it is
   written at the very end of the part; minimal: every repeat once, taking the jump unless it is
   written at the very end.  The arrangements on which partitura is known to deviate are excluded by
   nav_clean (and listed there); the class excluded by nav_k2 is known finding C09-K2. *)
From PV Require Import Lib.Base Model.C09 Proofs.C09 Proofs.C09_segs.
From Coq Require Import ZArith List Bool Lia.
Import ListNotations.
#[local] Open Scope Z_scope.

Definition NNAV : Z := 5.

(* repeats; D.S. (true) or D.C. (false); destination (segno time, 0 for D.C.); time of the jump mark;
   stop mark between destination and jump (Fine, or To Coda when nl_coda is given); Coda *)
Record nlayout := mkNL { nl_reps : list (Z * Z); nl_ds : bool; nl_dest : Z; nl_jp : Z;
                         nl_stop : option Z; nl_coda : option Z }.

Definition olist (o : option Z) : list Z := match o with Some x => [x] | None => [] end.

Definition nav_marks (l : nlayout) : marks :=
  mkMarks 0 NNAV (nl_reps l) []
          (olist (nl_coda l))
          (match nl_coda l with Some _ => olist (nl_stop l) | None => [] end)
          (if nl_ds l then [] else [nl_jp l])
          (match nl_coda l with Some _ => [] | None => olist (nl_stop l) end)
          (if nl_ds l then [nl_dest l] else [])
          (if nl_ds l then [nl_jp l] else []).

(* readings of the measures [x, y): mode 0 = every repeat once or twice, 1 = twice, 2 = once *)
Fixpoint variants (fuel : nat) (reps : list (Z * Z)) (mode x y : Z) : list (list Z) :=
  match fuel with
  | O => [[]]
  | S f =>
      if y <=? x then [[]]
      else match find (fun r => fst r =? x) reps with
           | Some (a, b) =>
               let body := zrange a (Z.to_nat (b - a)) in
               let opts := if mode =? 1 then [body ++ body] else if mode =? 2 then [body]
                           else [body ++ body; body] in
               flat_map (fun o => map (fun v => o ++ v) (variants f reps mode b y)) opts
           | None => map (cons x) (variants f reps mode (x + 1) y)
           end
  end.

Definition nav_reference (l : nlayout) (mode : Z) (ign : bool) : list (list Z) :=
  let reps := nl_reps l in
  let m2 := if ign then mode else 2 in
  let straight := variants 8 reps mode 0 NNAV in
  let v1s := variants 8 reps mode 0 (nl_jp l) in
  let v2s := match nl_stop l with
             | None => variants 8 reps m2 (nl_dest l) NNAV
             | Some s => variants 8 reps m2 (nl_dest l) s end in
  let v3s := match nl_stop l, nl_coda l with
             | Some _, Some c => variants 8 reps m2 c NNAV
             | _, _ => [[]] end in
  let jumps := flat_map (fun a => flat_map (fun b => map (fun c => a ++ b ++ c) v3s) v2s) v1s in
  if mode =? 0 then jumps ++ straight
  else if mode =? 1 then (if nl_jp l =? NNAV then jumps else straight)
  else (if nl_jp l =? NNAV then straight else jumps).

(* legal: destination < (stop <) jump mark <= coda < end, no mark strictly inside a repeat *)
Definition nl_marks_list (l : nlayout) : list Z :=
  nl_jp l :: nl_dest l :: olist (nl_stop l) ++ olist (nl_coda l).

Definition nav_legal (l : nlayout) : bool :=
  (0 <=? nl_dest l) && (nl_dest l <? nl_jp l) && (nl_jp l <=? NNAV) &&
  (if nl_ds l then true else nl_dest l =? 0) &&
  match nl_stop l with Some s => (nl_dest l <? s) && (s <? nl_jp l) | None => true end &&
  match nl_coda l with
  | Some c => (nl_jp l <=? c) && (c <? NNAV) && match nl_stop l with Some _ => true | None => false end
  | None => true end &&
  forallb (fun r => forallb (fun m => negb ((fst r <? m) && (m <? snd r))) (nl_marks_list l)) (nl_reps l).

(* the boundary following the destination of the jump *)
Definition nl_bounds (l : nlayout) : list Z :=
  0 :: NNAV :: nl_marks_list l ++ flat_map (fun r => [fst r; snd r]) (nl_reps l).
Definition next_bound (l : nlayout) (d : Z) : Z :=
  fold_right (fun b acc => if (d <? b) && (b <? acc) then b else acc) (NNAV + 1) (nl_bounds l).

(* known finding C09-K2: the segment the jump goes to ends at the jump mark itself, or (not being
   the first segment) at the To Coda mark: its leap type is overwritten and the jump is not
   recognised as a leap *)
Definition nav_k2 (l : nlayout) : bool :=
  let nb := next_bound l (nl_dest l) in
  (nb =? nl_jp l) ||
  (negb (nl_dest l =? 0) && match nl_coda l, nl_stop l with Some _, Some s => nb =? s | _, _ => false end).

(* further arrangements on which partitura deviates from the reading above (not claimed):
   a repeat ending at the jump mark; a Coda written directly at the jump mark followed by repeats *)
Definition nav_clean (l : nlayout) : bool :=
  negb (nav_k2 l) &&
  forallb (fun r => negb (snd r =? nl_jp l)) (nl_reps l) &&
  negb (match nl_coda l with Some c => c =? nl_jp l | None => false end
        && existsb (fun r => nl_jp l <=? fst r) (nl_reps l)).

Definition rep_sets : list (list (Z * Z)) :=
  filter (fun l => (length l <=? 2)%nat && forallb (fun r => snd r - fst r <=? 2) l) (layouts 6 0 NNAV).

Definition nav_shapes : list (bool * Z * Z * option Z * option Z) :=
  flat_map (fun jp =>
    flat_map (fun ds : bool =>
      flat_map (fun d =>
        (ds, d, jp, None, None) ::
        flat_map (fun s => (ds, d, jp, Some s, None) ::
                           map (fun c => (ds, d, jp, Some s, Some c)) (zrange jp (Z.to_nat (NNAV - jp))))
                 (zrange (d + 1) (Z.to_nat (jp - d - 1))))
        (if ds then zrange 0 (Z.to_nat jp) else [0]))
      [false; true])
    (zrange 1 5).

Definition nav_layouts : list nlayout :=
  filter nav_legal
    (flat_map (fun reps => map (fun sh => match sh with (ds, d, jp, st, cd) => mkNL reps ds d jp st cd end)
                               nav_shapes) rep_sets).

Definition mode_of (nr ar : bool) : Z := if nr then 2 else if ar then 1 else 0.

(* the measure sequences of the paths found, as a sorted list *)
Definition nav_paths_sorted (g : list seg) (nr ar ign : bool) : option (list (list Z)) :=
  option_map (fun ps => lsort (map (path_measures g) ps)) (get_paths FUEL g nr ar ign).

Definition policies8 : list (bool * bool * bool) :=
  [(false, false, true); (false, false, false); (false, true, true); (false, true, false);
   (true, false, true); (true, false, false); (true, true, true); (true, true, false)].

Definition nav_ok (l : nlayout) : bool :=
  let g := make_segments (nav_marks l) in
  forallb (fun q => match q with (nr, ar, ign) =>
             opt_eqb (list_eqb zlist_eqb) (nav_paths_sorted g nr ar ign)
                     (Some (lsort (nav_reference l (mode_of nr ar) (ign || nr)))) end) policies8.

Definition clean_layouts : list nlayout := filter nav_clean nav_layouts.

Lemma clean_layouts_ok : forallb nav_ok clean_layouts = true.
Proof. vm_cast_no_check (eq_refl true). Qed.

Lemma clean_layouts_count :
  ((800 <=? length clean_layouts)%nat && (1800 <=? length nav_layouts)%nat) = true.
Proof. vm_cast_no_check (eq_refl true). Qed.

(* completeness of the enumeration: every legal arrangement with at most two disjoint repeats of at
   most two measures is listed *)
Definition nav_domain (l : nlayout) : Prop :=
  disjoint_from 0 NNAV (nl_reps l) /\ (length (nl_reps l) <= 2)%nat /\
  Forall (fun r => snd r - fst r <= 2) (nl_reps l) /\ nav_legal l = true.

Lemma nav_layouts_complete l : nav_domain l -> In l nav_layouts.
Proof.
  intros (Hd & Hlen & Hr & Hleg). unfold nav_layouts. apply filter_In. split; [|exact Hleg].
  apply in_flat_map. exists (nl_reps l). split.
  - unfold rep_sets. apply filter_In. split.
    + apply layouts_complete; [unfold NNAV; simpl; lia|exact Hd].
    + apply andb_true_iff. split; [apply Nat.leb_le; exact Hlen|].
      apply forallb_forall. intros r Hin. rewrite Forall_forall in Hr. apply Z.leb_le. apply Hr; auto.
  - destruct l as [reps ds d jp st cd]. cbn [nl_reps] in *.
    change (mkNL reps ds d jp st cd) with
      ((fun sh : bool * Z * Z * option Z * option Z =>
          match sh with (ds0, d0, jp0, st0, cd0) => mkNL reps ds0 d0 jp0 st0 cd0 end) (ds, d, jp, st, cd)).
    apply in_map.
    unfold nav_legal in Hleg. cbn [nl_dest nl_jp nl_ds nl_stop nl_coda nl_reps] in Hleg.
    apply andb_true_iff in Hleg as [Hleg _].
    apply andb_true_iff in Hleg as [Hleg Hcd]. apply andb_true_iff in Hleg as [Hleg Hst].
    apply andb_true_iff in Hleg as [Hleg Hds]. apply andb_true_iff in Hleg as [Hleg Hjp].
    apply andb_true_iff in Hleg as [H0 H1].
    apply Z.leb_le in H0. apply Z.ltb_lt in H1. apply Z.leb_le in Hjp.
    unfold NNAV in *.
    unfold nav_shapes. apply in_flat_map. exists jp. split; [apply zrange_In; simpl; lia|].
    apply in_flat_map. exists ds. split; [destruct ds; simpl; tauto|].
    apply in_flat_map. exists d. split.
    + destruct ds; [apply zrange_In; lia|].
      apply Z.eqb_eq in Hds; subst d. left; auto.
    + destruct st as [s|].
      * right. apply in_flat_map. exists s.
        apply andb_true_iff in Hst as [Hs1 Hs2]. apply Z.ltb_lt in Hs1. apply Z.ltb_lt in Hs2.
        split; [apply zrange_In; lia|].
        destruct cd as [c|]; [|left; auto]. right.
        apply andb_true_iff in Hcd as [Hcd _]. apply andb_true_iff in Hcd as [Hc1 Hc2].
        apply Z.leb_le in Hc1. apply Z.ltb_lt in Hc2.
        change (ds, d, jp, Some s, Some c) with ((fun c0 => (ds, d, jp, Some s, Some c0)) c).
        apply in_map. apply zrange_In. unfold NNAV. lia.
      * destruct cd as [c|]; [|left; auto].
        rewrite andb_false_r in Hcd. discriminate.
Qed.

Lemma policies8_complete nr ar ign : In (nr, ar, ign) policies8.
Proof. destruct nr, ar, ign; simpl; tauto. Qed.

Lemma pathlist_eqb_eq a b : list_eqb zlist_eqb a b = true -> a = b.
Proof. apply (list_eqb_eq zlist_eqb). intros x y H. apply zlist_eqb_eq; auto. Qed.

Theorem navigation_unfolding_lemma : forall l nr ar ign,
  nav_domain l -> nav_clean l = true ->
  let g := make_segments (nav_marks l) in
  nav_paths_sorted g nr ar ign = Some (lsort (nav_reference l (mode_of nr ar) (ign || nr))).
Proof.
  intros l nr ar ign Hdom Hc g.
  pose proof (nav_layouts_complete l Hdom) as Hin.
  assert (Hl : In l clean_layouts) by (unfold clean_layouts; apply filter_In; auto).
  pose proof (forallb_In _ _ clean_layouts_ok l Hl) as H. unfold nav_ok in H. fold g in H.
  pose proof (forallb_In _ _ H (nr, ar, ign) (policies8_complete nr ar ign)) as Hq. cbv beta iota in Hq.
  destruct (nav_paths_sorted g nr ar ign) as [a|]; simpl in Hq; [|discriminate].
  f_equal. apply pathlist_eqb_eq; auto.
Qed.

(* the conventional readings are among them: D.C. al Fine at the end of a part with a repeat *)
Example dc_al_fine_example :
  let l := mkNL [(1, 2)] false 0 5 (Some 3) None in
  nav_domain l /\ nav_clean l = true /\
  nav_reference l 1 false = [[0; 1; 1; 2; 3; 4; 0; 1; 2]] /\
  nav_reference l 1 true = [[0; 1; 1; 2; 3; 4; 0; 1; 1; 2]].
Proof.
  split; [|repeat split; reflexivity].
  unfold nav_domain. simpl. unfold NNAV. repeat split; try lia; try reflexivity.
  repeat constructor; simpl; lia.
Qed.

(* ------------------------------------------------------------------ *)
(* known finding C09-K2 in the model: the textbook D.S. al Coda -- Segno at 1, To Coda at 2,
   D.S. al Coda at 3, Coda at 3, nothing else between Segno and To Coda -- has no unfolding under
   the all-variants and the minimal policy: the segno segment [1, 2) ends at the To Coda mark, its
   type leap_end is overwritten by leap_start, the jump back to it is not recognised as a leap, and
   the search runs into the IndexError (fuel 400 is beyond the 100 laps after which the
   implementation raises); the maximal policy does not take a jump written before the end *)
Definition ds_al_coda_textbook : nlayout := mkNL [] true 1 3 (Some 2) (Some 3).

Lemma ds_al_coda_textbook_refuted_lemma :
  nav_domain ds_al_coda_textbook /\ nav_k2 ds_al_coda_textbook = true /\
  forall ar ign fuel, In fuel [64%nat; 400%nat] ->
    get_paths fuel (make_segments (nav_marks ds_al_coda_textbook)) true ar ign = None /\
    get_paths fuel (make_segments (nav_marks ds_al_coda_textbook)) false false ign = None.
Proof.
  split.
  { unfold nav_domain. simpl. unfold NNAV. repeat split; try lia; try reflexivity. constructor. }
  split; [reflexivity|].
  intros ar ign fuel [<-|[<-|[]]]; destruct ar, ign; split; vm_compute; reflexivity.
Qed.
