(* C14/C06 -- general lemmas: boolean comparisons on Q, stable insertion sort by a rational key. *)
From PV Require Import Lib.Base Model.C14.
From Coq Require Import QArith Qminmax Lqa Sorted Permutation.
#[local] Open Scope Q_scope.

Lemma Qltb_true a b : Qltb a b = true <-> a < b.
Proof.
  unfold Qltb. rewrite negb_true_iff. split; intros H.
  - apply Qnot_le_lt. intros C. apply Qle_bool_iff in C. congruence.
  - destruct (Qle_bool b a) eqn:E; auto. apply Qle_bool_iff in E. lra.
Qed.

Lemma Qltb_false a b : Qltb a b = false <-> b <= a.
Proof.
  unfold Qltb. rewrite negb_false_iff. apply Qle_bool_iff.
Qed.

Lemma Qleb_false a b : Qle_bool a b = false <-> b < a.
Proof.
  split; intros H.
  - apply Qnot_le_lt. intros C. apply Qle_bool_iff in C. congruence.
  - destruct (Qle_bool a b) eqn:E; auto. apply Qle_bool_iff in E. lra.
Qed.

Section SortFacts.
  Context {A : Type} (key : A -> Q).
  Definition le_key (a b : A) : Prop := key a <= key b.
  Definition sorted_by_key (l : list A) : Prop := StronglySorted le_key l.

  Lemma insert_by_perm x l : Permutation (insert_by key x l) (x :: l).
  Proof.
    induction l as [|y r IH]; simpl; auto.
    destruct (Qle_bool (key x) (key y)); auto.
    rewrite IH. apply perm_swap.
  Qed.

  Lemma sort_by_perm l : Permutation (sort_by key l) l.
  Proof.
    induction l as [|x r IH]; simpl; auto.
    rewrite insert_by_perm. auto.
  Qed.

  Lemma insert_by_sorted x l : sorted_by_key l -> sorted_by_key (insert_by key x l).
  Proof.
    unfold sorted_by_key. induction l as [|y r IH]; intros H; simpl.
    - constructor; constructor.
    - destruct (Qle_bool (key x) (key y)) eqn:E.
      + apply Qle_bool_iff in E. constructor; auto.
        inversion H; subst. constructor; auto.
        eapply Forall_impl; [|eassumption]. unfold le_key. intros a Ha. lra.
      + apply Qleb_false in E. inversion H; subst. constructor; auto.
        eapply Permutation_Forall; [symmetry; apply insert_by_perm|].
        constructor; auto. unfold le_key. lra.
  Qed.

  Lemma sort_by_sorted l : sorted_by_key (sort_by key l).
  Proof.
    induction l as [|x r IH]; simpl. constructor. apply insert_by_sorted; auto.
  Qed.

  Lemma sort_by_In x l : In x (sort_by key l) <-> In x l.
  Proof.
    split; apply Permutation_in; [|symmetry]; apply sort_by_perm.
  Qed.

  Lemma sort_by_nil l : sort_by key l = [] -> l = [].
  Proof.
    intros H. apply Permutation_nil. rewrite <- H. apply sort_by_perm.
  Qed.

  (* in a sorted list [find] returns a least element among those satisfying a predicate *)
  Lemma find_sorted_least (P : A -> bool) l e :
    sorted_by_key l -> In e l -> P e = true ->
    exists e', find P l = Some e' /\ key e' <= key e.
  Proof.
    unfold sorted_by_key. induction l as [|y r IH]; intros S Hin HP; [destruct Hin|].
    inversion S; subst. simpl. destruct (P y) eqn:Py.
    - exists y. split; auto. destruct Hin as [->|Hin]; [lra|].
      rewrite Forall_forall in H2. apply H2; auto.
    - destruct Hin as [->|Hin]; [congruence|]. apply IH; auto.
  Qed.
End SortFacts.
