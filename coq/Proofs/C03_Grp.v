(* C03 -- proofs, part 5: the part-group structure survives export and import.
   (1) _parse_partlist inverts the eager serialisation of any forest;
   (2) the exporter's lazy closing (handle_parents / close_group_stack) writes exactly the eager
       serialisation when the groups are distinct objects and every group holds a part. *)
From PV Require Import Lib.Base Model.C03_Grp.
#[local] Open Scope Z_scope.

(* ------------------------------------------------------------------ induction over nodes *)

Fixpoint node_ind2 (P : node -> Prop)
  (Hp : forall p, P (NPart p))
  (Hg : forall g cs, Forall P cs -> P (NGroup g cs)) (n : node) : P n :=
  match n with
  | NPart p => Hp p
  | NGroup g cs =>
      Hg g cs ((fix go (l : list node) : Forall P l :=
                  match l with
                  | [] => Forall_nil P
                  | x :: r => Forall_cons x (node_ind2 P Hp Hg x) (go r)
                  end) cs)
  end.

(* ------------------------------------------------------------------ (1) parse (emit f) = f *)

Lemma parse_emit_children g fr top : forall cs,
  Forall (fun n => forall rest fr top,
            parse_go (emit_n n ++ rest) fr top =
            let (fr', top') := add_child n fr top in parse_go rest fr' top') cs ->
  forall acc rest,
  parse_go (flat_map emit_n cs ++ rest) ((g, acc) :: fr) top = parse_go rest ((g, acc ++ cs) :: fr) top.
Proof.
  induction cs as [|n r IH]; intros H acc rest; simpl.
  - rewrite app_nil_r. reflexivity.
  - inversion H as [|x y Hn Hr]; subst x y.
    rewrite <- app_assoc, Hn. simpl. rewrite (IH Hr). rewrite <- app_assoc. reflexivity.
Qed.

Lemma parse_emit_n : forall n rest fr top,
  parse_go (emit_n n ++ rest) fr top =
  let (fr', top') := add_child n fr top in parse_go rest fr' top'.
Proof.
  induction n as [p|g cs IH] using node_ind2; intros rest fr top.
  - reflexivity.
  - change (emit_n (NGroup g cs)) with (TStart g :: flat_map emit_n cs ++ [TStop g]).
    change ((TStart g :: flat_map emit_n cs ++ [TStop g]) ++ rest)
      with (TStart g :: (flat_map emit_n cs ++ [TStop g]) ++ rest).
    rewrite <- app_assoc.
    change (parse_go (TStart g :: flat_map emit_n cs ++ [TStop g] ++ rest) fr top)
      with (parse_go (flat_map emit_n cs ++ TStop g :: rest) ((g, []) :: fr) top).
    rewrite (parse_emit_children g fr top cs IH [] (TStop g :: rest)). reflexivity.
Qed.

Lemma parse_emit_f : forall f rest top,
  parse_go (emit_f f ++ rest) [] top = parse_go rest [] (top ++ f).
Proof.
  unfold emit_f. induction f as [|n r IH]; intros rest top; simpl.
  - rewrite app_nil_r. reflexivity.
  - rewrite <- app_assoc, parse_emit_n. simpl. rewrite IH, <- app_assoc. reflexivity.
Qed.

Lemma parse_emit_lemma : forall f, parse_groups (emit_f f) = Some f.
Proof.
  intros f. unfold parse_groups. rewrite <- (app_nil_r (emit_f f)), parse_emit_f. reflexivity.
Qed.

(* ------------------------------------------------------------------ (2) lazy closing = eager serialisation *)

(* the groups still open after the last part of a node: its right spine, innermost first *)
Fixpoint spine_n (n : node) : list Z :=
  match n with
  | NPart _ => []
  | NGroup g cs =>
      (fix go (l : list node) : list Z :=
         match l with
         | [] => []
         | x :: r => match r with [] => spine_n x | _ :: _ => go r end
         end) cs ++ [g]
  end.
Fixpoint spine_f (l : list node) : list Z :=
  match l with
  | [] => []
  | x :: r => match r with [] => spine_n x | _ :: _ => spine_f r end
  end.

(* the eager serialisation without its trailing stops *)
Fixpoint lazy_n (n : node) : list tok :=
  match n with
  | NPart p => [TPart p]
  | NGroup g cs =>
      TStart g :: (fix go (l : list node) : list tok :=
                     match l with
                     | [] => []
                     | x :: r => match r with [] => lazy_n x | _ :: _ => emit_n x ++ go r end
                     end) cs
  end.
Fixpoint lazy_f (l : list node) : list tok :=
  match l with
  | [] => []
  | x :: r => match r with [] => lazy_n x | _ :: _ => emit_n x ++ lazy_f r end
  end.

Lemma spine_n_group g cs : spine_n (NGroup g cs) = spine_f cs ++ [g].
Proof. reflexivity. Qed.
Lemma lazy_n_group g cs : lazy_n (NGroup g cs) = TStart g :: lazy_f cs.
Proof. reflexivity. Qed.

Lemma emit_lazy_f : forall f,
  Forall (fun n => emit_n n = lazy_n n ++ map TStop (spine_n n)) f ->
  emit_f f = lazy_f f ++ map TStop (spine_f f).
Proof.
  unfold emit_f. induction f as [|x r IH]; intros H; [reflexivity|].
  inversion H as [|a b Hx Hr]; subst a b.
  destruct r as [|y r'].
  - simpl. rewrite app_nil_r. exact Hx.
  - change (flat_map emit_n (x :: y :: r')) with (emit_n x ++ flat_map emit_n (y :: r')).
    rewrite (IH Hr).
    change (lazy_f (x :: y :: r')) with (emit_n x ++ lazy_f (y :: r')).
    change (spine_f (x :: y :: r')) with (spine_f (y :: r')).
    rewrite app_assoc. reflexivity.
Qed.

Lemma emit_lazy_n : forall n, emit_n n = lazy_n n ++ map TStop (spine_n n).
Proof.
  induction n as [p|g cs IH] using node_ind2.
  - reflexivity.
  - rewrite spine_n_group, lazy_n_group. cbn [emit_n].
    change (flat_map emit_n cs) with (emit_f cs). rewrite (emit_lazy_f cs IH).
    rewrite map_app. simpl. rewrite <- app_assoc. reflexivity.
Qed.

#[local] Arguments spine_n : simpl never.
#[local] Arguments lazy_n : simpl never.

(* ---- the stack discipline *)

Definition disj (A B : list Z) : Prop := forall x, In x A -> In x B -> False.

Lemma zmem_true a l : zmem a l = true <-> In a l.
Proof.
  unfold zmem. rewrite existsb_exists. split.
  - intros (x & Hx & E). apply Z.eqb_eq in E. subst. exact Hx.
  - intros H. exists a. split; [exact H|apply Z.eqb_refl].
Qed.

Lemma zmem_false a l : ~ In a l -> zmem a l = false.
Proof.
  intros H. destruct (zmem a l) eqn:E; [|reflexivity]. apply zmem_true in E. contradiction.
Qed.

Lemma split_chain_spec : forall new old dead,
  disj new (dead ++ old) -> split_chain (new ++ old) (dead ++ old) = (new, hd_error old).
Proof.
  induction new as [|a r IH]; intros old dead H; simpl.
  - destruct old as [|b o]; [reflexivity|]. simpl.
    assert (E : zmem b (dead ++ b :: o) = true).
    { apply zmem_true. apply in_or_app. right. left. reflexivity. }
    rewrite E. reflexivity.
  - rewrite zmem_false.
    + rewrite IH; [reflexivity|]. intros x Hx. apply (H x). right. exact Hx.
    + intros Hin. apply (H a); [left; reflexivity|exact Hin].
Qed.

Lemma close_until_spec : forall dead old,
  (forall a, hd_error old = Some a -> ~ In a dead) ->
  close_until (hd_error old) (dead ++ old) = (dead, old).
Proof.
  induction dead as [|d r IH]; intros old H; simpl.
  - destruct old as [|a o]; simpl; [reflexivity|]. rewrite Z.eqb_refl. reflexivity.
  - assert (E : match hd_error old with Some a => a =? d | None => false end = false).
    { destruct (hd_error old) as [a|] eqn:Ho; [|reflexivity].
      apply Z.eqb_neq. intros ->. apply (H d eq_refl). left. reflexivity. }
    rewrite E. rewrite IH; [reflexivity|].
    intros a Ha Hin. apply (H a Ha). right. exact Hin.
Qed.

Lemma handle_parents_spec new old dead :
  disj new (dead ++ old) -> disj dead old ->
  handle_parents (new ++ old) (dead ++ old) = (map TStop dead ++ map TStart (rev new), new ++ old).
Proof.
  intros H1 H2. unfold handle_parents.
  rewrite split_chain_spec by exact H1.
  rewrite close_until_spec; [reflexivity|].
  intros a Ha Hin. destruct old as [|b o]; [discriminate|]. simpl in Ha. inversion Ha; subst.
  apply (H2 a Hin). left. reflexivity.
Qed.

Lemma run_parts_app : forall a b st,
  run_parts (a ++ b) st =
  let (t1, s1) := run_parts a st in let (t2, s2) := run_parts b s1 in (t1 ++ t2, s2).
Proof.
  induction a as [|[anc p] r IH]; intros b st; simpl.
  - destruct (run_parts b st). reflexivity.
  - destruct (handle_parents anc st) as [t1 s1]. rewrite IH.
    destruct (run_parts r s1) as [t2 s2]. destruct (run_parts b s2) as [t3 s3].
    rewrite <- app_assoc. reflexivity.
Qed.

Lemma spine_in_gids : forall n x, In x (spine_n n) -> In x (gids_n n).
Proof.
  induction n as [p|g cs IH] using node_ind2; intros x Hx.
  - contradiction.
  - rewrite spine_n_group in Hx. apply in_app_or in Hx as [Hx|Hx].
    + right. clear g. induction cs as [|y r IHr]; [contradiction|].
      inversion IH as [|a b Hy Hr]; subst a b. simpl.
      apply in_or_app. destruct r as [|z r'].
      * left. apply Hy. exact Hx.
      * right. apply IHr; assumption.
    + destruct Hx as [<-|[]]. left. reflexivity.
Qed.

Lemma disj_sub A A' B : (forall x, In x A' -> In x A) -> disj A B -> disj A' B.
Proof. intros Hs H x Hx Hb. apply (H x); auto. Qed.

Lemma disj_app_r A B C : disj A (B ++ C) <-> disj A B /\ disj A C.
Proof.
  split.
  - intros H. split; intros x Hx Hy; apply (H x Hx); apply in_or_app; auto.
  - intros [H1 H2] x Hx Hy. apply in_app_or in Hy as [Hy|Hy]; [apply (H1 x)|apply (H2 x)]; assumption.
Qed.

Lemma nodup_app_inv (a b : list Z) : NoDup (a ++ b) -> NoDup a /\ NoDup b /\ disj b a.
Proof.
  induction a as [|x r IH]; simpl; intros H.
  - repeat split; [constructor|exact H|intros z _ []].
  - inversion H as [|x' l Hn Hr]; subst. destruct (IH Hr) as (H1 & H2 & H3).
    repeat split.
    + constructor; [|exact H1]. intros Hin. apply Hn. apply in_or_app. left. exact Hin.
    + exact H2.
    + intros z Hz [<-|Hz']; [apply Hn; apply in_or_app; right; exact Hz|apply (H3 z Hz Hz')].
Qed.

(* what the node lemma says for one node *)
Definition run_ok (n : node) : Prop :=
  forall new old dead,
  groups_nonempty n = true -> NoDup (gids_n n) ->
  disj (gids_n n) (dead ++ new ++ old) -> disj new (dead ++ old) -> disj dead old ->
  run_parts (chains_n (new ++ old) n) (dead ++ old) =
  (map TStop dead ++ map TStart (rev new) ++ lazy_n n, spine_n n ++ new ++ old).

Lemma run_forest : forall cs,
  Forall run_ok cs ->
  forall new old dead,
  cs <> [] -> forallb groups_nonempty cs = true -> NoDup (gids_f cs) ->
  disj (gids_f cs) (dead ++ new ++ old) -> disj new (dead ++ old) -> disj dead old ->
  run_parts (chains_f (new ++ old) cs) (dead ++ old) =
  (map TStop dead ++ map TStart (rev new) ++ lazy_f cs, spine_f cs ++ new ++ old).
Proof.
  induction cs as [|x r IH]; intros HF new old dead Hne Hg Hnd Hd1 Hd2 Hd3; [congruence|].
  inversion HF as [|a b Hx Hr]; subst a b.
  simpl in Hg. apply andb_true_iff in Hg as [Hgx Hgr].
  unfold gids_f in Hnd, Hd1. simpl in Hnd, Hd1.
  destruct (nodup_app_inv _ _ Hnd) as (Hndx & Hndr0 & Hxr0).
  assert (Hdx : disj (gids_n x) (dead ++ new ++ old)).
  { eapply disj_sub; [|exact Hd1]. intros y Hy. apply in_or_app. left. exact Hy. }
  destruct r as [|y r'].
  - unfold chains_f. simpl. rewrite app_nil_r. apply Hx; assumption.
  - unfold chains_f. change (flat_map (chains_n (new ++ old)) (x :: y :: r'))
      with (chains_n (new ++ old) x ++ chains_f (new ++ old) (y :: r')).
    rewrite run_parts_app. rewrite (Hx new old dead Hgx Hndx Hdx Hd2 Hd3).
    assert (Hndr : NoDup (gids_f (y :: r'))) by exact Hndr0.
    assert (Hsp : forall z, In z (spine_n x) -> In z (gids_n x)) by (apply spine_in_gids).
    assert (Hxr : disj (gids_f (y :: r')) (gids_n x)) by exact Hxr0.
    specialize (IH Hr [] (new ++ old) (spine_n x)).
    cbn [app rev map] in IH. rewrite IH.
    + change (lazy_f (x :: y :: r')) with (emit_n x ++ lazy_f (y :: r')).
      change (spine_f (x :: y :: r')) with (spine_f (y :: r')).
      rewrite (emit_lazy_n x). f_equal. rewrite <- !app_assoc. reflexivity.
    + discriminate.
    + exact Hgr.
    + exact Hndr.
    + apply disj_app_r. split.
      * intros z Hz Hz'. apply (Hxr z Hz). apply Hsp. exact Hz'.
      * eapply disj_sub; [|apply disj_app_r in Hd1; exact (proj2 Hd1)].
        intros z Hz. apply in_or_app. right. exact Hz.
    + intros z [].
    + eapply disj_sub; [exact Hsp|]. apply disj_app_r in Hdx. exact (proj2 Hdx).
Qed.

Lemma run_node : forall n, run_ok n.
Proof.
  induction n as [p|g cs IH] using node_ind2; unfold run_ok; intros new old dead Hg Hnd Hd1 Hd2 Hd3.
  - simpl. rewrite handle_parents_spec by assumption.
    unfold lazy_n, spine_n. simpl. rewrite <- app_assoc. reflexivity.
  - simpl in Hg. apply andb_true_iff in Hg as [Hp Hg].
    assert (Hne : cs <> []) by (intros ->; discriminate Hp).
    simpl in Hnd. inversion Hnd as [|a l Hng Hndc]; subst a l.
    change (chains_n (new ++ old) (NGroup g cs)) with (chains_f ((g :: new) ++ old) cs).
    rewrite (run_forest cs IH (g :: new) old dead Hne Hg Hndc).
    + rewrite spine_n_group, lazy_n_group. simpl. rewrite map_app. simpl.
      rewrite <- !app_assoc. reflexivity.
    + (* gids of the children vs dead ++ g :: new ++ old *)
      intros z Hz Hz'. apply in_app_or in Hz' as [Hz'|[<-|Hz']].
      * apply (Hd1 z); [right; exact Hz|apply in_or_app; left; exact Hz'].
      * apply Hng. exact Hz.
      * apply (Hd1 z); [right; exact Hz|apply in_or_app; right; exact Hz'].
    + intros z [<-|Hz] Hz'.
      * apply (Hd1 g); [left; reflexivity|].
        apply in_app_or in Hz' as [Hz'|Hz']; apply in_or_app; [left; exact Hz'|right; apply in_or_app; right; exact Hz'].
      * apply (Hd2 z Hz Hz').
    + exact Hd3.
Qed.

(* the part structures the theorem speaks about: the groups are distinct objects and each holds a part *)
Definition groups_wf (f : list node) : Prop :=
  forallb groups_nonempty f = true /\ NoDup (gids_f f).

Lemma export_is_emit_lemma : forall f, groups_wf f -> export_groups f = emit_f f.
Proof.
  intros f [Hg Hnd]. unfold export_groups.
  destruct f as [|x r]; [reflexivity|].
  assert (HF : Forall run_ok (x :: r)) by (apply Forall_forall; intros n _; apply run_node).
  pose proof (run_forest (x :: r) HF [] [] []) as H. cbn [app rev map] in H.
  rewrite H; try assumption; try discriminate.
  - rewrite app_nil_r. symmetry. apply emit_lazy_f.
    apply Forall_forall. intros n _. apply emit_lazy_n.
  - intros z _ [].
  - intros z [].
  - intros z [].
Qed.

Lemma groups_roundtrip_lemma : forall f, groups_wf f -> parse_groups (export_groups f) = Some f.
Proof. intros f H. rewrite (export_is_emit_lemma f H). apply parse_emit_lemma. Qed.

(* ------------------------------------------------------------------ instances *)

(* Woodwinds[Flutes[Fl1, Fl2], Oboe], Strings[[Vl]] , a bare part: nested two deep, a member after an
   inner group, sibling groups *)
Definition grp_ex : list node :=
  [NGroup 1 [NGroup 2 [NPart 1; NPart 2]; NPart 3]; NGroup 3 [NGroup 4 [NPart 4]]; NPart 5].

Example grp_ex_wf : groups_wf grp_ex.
Proof. split; [reflexivity|]. repeat constructor; simpl; intuition congruence. Qed.

Example grp_ex_export :
  export_groups grp_ex =
  [TStart 1; TStart 2; TPart 1; TPart 2; TStop 2; TPart 3; TStop 1; TStart 3; TStart 4; TPart 4;
   TStop 4; TStop 3; TPart 5].
Proof. vm_compute. reflexivity. Qed.

(* boundary: a group without parts is not written, and the structure is not recovered *)
Example grp_empty_group_lost :
  export_groups [NGroup 1 []; NPart 1] = [TPart 1] /\
  parse_groups (export_groups [NGroup 1 []; NPart 1]) = Some [NPart 1].
Proof. split; vm_compute; reflexivity. Qed.
