(* C09 -- the variant with clamped ends (what create_variant_part returns): the statements of
   Proofs/C09_variant.v carried over the final clamp, the full length theorem, and the
   id-suffix = visit-number theorem. *)
From PV Require Import Lib.Base Model.C09 Proofs.C09 Proofs.C09_variant.
From Coq Require Import ZArith List Bool Lia.
Import ListNotations.
#[local] Open Scope Z_scope.

Definition clip_opt (T : Z) (e : option Z) : option Z := option_map (Z.min T) e.

(* as `origin`, with the end clamped to the length T of the unfolded part *)
Definition origin_c (objs : list obj) (T : Z) (v : Z * Z * Z * Z) (n : nobj) : Prop :=
  let '(k, s, e, off) := v in
  exists o, In o objs /\ n_id n = o_id o /\ n_cls n = o_cls o /\ n_visit n = k /\
    n_start n = o_start o + (off - s) /\ n_end n = clip_opt T (shift_opt (off - s) (o_end o)) /\
    n_attrs n = o_attrs o /\ is_skip (o_cls o) = false /\
    ((n_extra n = false /\ in_seg s e o = true) \/
     (n_extra n = true /\ o_cls o = cls_fermata /\ o_start o = e)).

Lemma in_variant objs vs n :
  In n (variant objs vs) -> exists m, In m (variant_raw objs vs) /\ n = clip_end (total_len vs) m.
Proof. unfold variant. intros H. apply in_map_iff in H as (m & <- & Hm). eauto. Qed.

Lemma variant_in objs vs m : In m (variant_raw objs vs) -> In (clip_end (total_len vs) m) (variant objs vs).
Proof. unfold variant. apply in_map. Qed.

Theorem variant_origin_lemma : forall objs vs n, In n (variant objs vs) ->
  exists v, In v (with_off vs 0 0) /\ origin_c objs (total_len vs) v n.
Proof.
  intros objs vs n Hn. destruct (in_variant _ _ _ Hn) as (m & Hm & ->).
  destruct (variant_origin_raw _ _ _ Hm) as ([[[k s] e] off] & Hv & o & H1 & H2 & H3 & H4 & H5 & H6 & H7 & H8 & H9).
  exists (k, s, e, off). split; [auto|]. exists o. simpl.
  split; [auto|]. split; [auto|]. split; [auto|]. split; [auto|]. split; [auto|].
  split; [rewrite H6; reflexivity|]. split; [auto|]. split; [auto|]. exact H9.
Qed.

Theorem variant_no_nav_lemma : forall objs vs n, In n (variant objs vs) -> is_skip (n_cls n) = false.
Proof.
  intros objs vs n Hn. destruct (in_variant _ _ _ Hn) as (m & Hm & ->). simpl.
  apply (variant_no_nav_raw objs vs m Hm).
Qed.

Theorem variant_refs_closed_lemma : forall objs vs n,
  In n (variant objs vs) -> n_extra n = false -> closed_in (variant objs vs) n.
Proof.
  intros objs vs n Hn He. destruct (in_variant _ _ _ Hn) as (m & Hm & ->). simpl in He.
  pose proof (variant_refs_closed_raw objs vs m Hm He) as Hc.
  assert (Hc' : closed_in (variant objs vs) m).
  { eapply closed_in_mono; [|exact Hc]. intros m0 Hm0.
    exists (clip_end (total_len vs) m0). split; [apply variant_in; auto|]. repeat split. }
  exact Hc'.
Qed.

Theorem variant_extras_lemma : forall objs vs n,
  In n (variant objs vs) -> n_extra n = true -> n_cls n = cls_fermata.
Proof.
  intros objs vs n Hn He. destruct (in_variant _ _ _ Hn) as (m & Hm & ->). simpl in *.
  apply (variant_extras_raw objs vs m Hm He).
Qed.

Theorem variant_positions_lemma : forall objs vs n,
  Forall (fun v => fst v <= snd v) vs -> In n (variant objs vs) -> 0 <= n_start n <= total_len vs.
Proof.
  intros objs vs n Hf Hn. destruct (in_variant _ _ _ Hn) as (m & Hm & ->). simpl.
  apply (variant_positions_raw objs vs m Hf Hm).
Qed.

(* no copy ends after the end of the unfolded part *)
Theorem variant_ends_lemma : forall objs vs n x,
  In n (variant objs vs) -> n_end n = Some x -> x <= total_len vs.
Proof.
  intros objs vs n x Hn Hx. destruct (in_variant _ _ _ Hn) as (m & Hm & ->). simpl in Hx.
  destruct (n_end m) as [y|]; simpl in Hx; [|discriminate]. injection Hx as <-. lia.
Qed.

(* ------------------------------------------------------------------ *)
(* notes *)

Definition clip_view (T : Z) (x : Z * Z * option Z * (Z * Z * Z)) :=
  match x with (i, s, e, a) => (i, s, clip_opt T e, a) end.

Lemma notes_of_clip T l : notes_of (map (clip_end T) l) = map (clip_view T) (notes_of l).
Proof.
  unfold notes_of. induction l as [|n l IH]; simpl; [auto|].
  destruct (is_notecls (n_cls n)); simpl; [rewrite IH; reflexivity|exact IH].
Qed.

Theorem variant_notes_lemma : forall objs vs,
  notes_of (variant objs vs) = map (clip_view (total_len vs)) (expected_notes objs vs 0 0).
Proof. intros. unfold variant. rewrite notes_of_clip, variant_notes_raw. reflexivity. Qed.

(* no note of a visited segment sounds beyond the end of that segment *)
Definition notes_contained (objs : list obj) (vs : list (Z * Z)) : Prop :=
  forall o s e x, In o objs -> In (s, e) vs -> in_seg s e o = true -> is_notecls (o_cls o) = true ->
                  o_end o = Some x -> x <= e.

Lemma map_id_in {A} (f : A -> A) l : (forall x, In x l -> f x = x) -> map f l = l.
Proof.
  induction l as [|a l IH]; simpl; intros H; [auto|]. rewrite H by (left; auto). rewrite IH; auto.
Qed.

Theorem variant_notes_contained_lemma : forall objs vs,
  Forall (fun v => fst v <= snd v) vs -> notes_contained objs vs ->
  notes_of (variant objs vs) = expected_notes objs vs 0 0.
Proof.
  intros objs vs Hf Hc. rewrite variant_notes_lemma. apply map_id_in.
  intros x Hx. unfold expected_notes in Hx. apply in_flat_map in Hx as ([[[k s] e] off] & Hv & Hx).
  apply in_map_iff in Hx as (o & <- & Ho). apply filter_In in Ho as [Ho Hb].
  apply andb_true_iff in Hb as [Hi Hn].
  pose proof (with_off_bounds _ _ _ _ Hf Hv) as Hb. simpl in Hb.
  pose proof (with_off_In _ _ _ _ Hv) as Hin. simpl in Hin.
  unfold note_copy, clip_view. destruct (o_end o) as [y|] eqn:Ey; simpl; [|reflexivity].
  specialize (Hc o s e y Ho Hin Hi Hn Ey).
  replace (Z.min (total_len vs) (y + (off - s))) with (y + (off - s)) by lia. reflexivity.
Qed.

Theorem identity_notes_lemma : forall objs first last,
  first <= last -> notes_contained objs [(first, last)] ->
  notes_of (variant objs [(first, last)]) =
  map (note_copy (0 - first)) (filter (fun ob => in_seg first last ob && is_notecls (o_cls ob)) objs).
Proof.
  intros objs first last Hle Hc.
  assert (Hf : Forall (fun v : Z * Z => fst v <= snd v) [(first, last)]) by (constructor; [simpl; lia|constructor]).
  rewrite (variant_notes_contained_lemma objs _ Hf Hc).
  unfold expected_notes. simpl. rewrite app_nil_r. reflexivity.
Qed.

(* ------------------------------------------------------------------ *)
(* length: with well-formed visits, an object starting the first visited segment and one ending
   the last, the variant spans exactly [0, sum of the segment lengths] *)
Theorem variant_length_lemma : forall objs s0 e0 mid sl el o0 o1,
  let vs := (s0, e0) :: mid ++ [(sl, el)] in
  Forall (fun v => fst v <= snd v) vs ->
  In o0 objs -> is_skip (o_cls o0) = false -> is_sigcls (o_cls o0) = false -> o_start o0 = s0 -> s0 < e0 ->
  In o1 objs -> is_skip (o_cls o1) = false -> is_sigcls (o_cls o1) = false -> in_seg sl el o1 = true -> o_end o1 = Some el ->
  (exists n, In n (variant objs vs) /\ n_start n = 0) /\
  (exists n, In n (variant objs vs) /\ n_end n = Some (total_len vs)) /\
  (forall n, In n (variant objs vs) -> 0 <= n_start n <= total_len vs) /\
  (forall n x, In n (variant objs vs) -> n_end n = Some x -> x <= total_len vs).
Proof.
  intros objs s0 e0 mid sl el o0 o1 vs Hf Ho0 Hs0 Hg0 Hst0 Hlt Ho1 Hs1 Hg1 Hi1 He1.
  split; [|split; [|split]].
  - assert (Hi0 : in_seg s0 e0 o0 = true) by (unfold in_seg; rewrite Hst0; lia).
    pose proof (variant_go_present objs o0 vs 0 0 [] (0, s0, e0, 0) Ho0 Hs0 Hg0) as H.
    simpl in H. destruct H as (n & Hn & _ & _ & _ & _ & Hs & _); auto.
    exists (clip_end (total_len vs) n). split; [apply variant_in; exact Hn|]. simpl. rewrite Hs, Hst0. lia.
  - assert (Hlast : forall (l : list (Z * Z)) k off, In (k + Z.of_nat (length l), sl, el, off + total_len l)
                                       (with_off (l ++ [(sl, el)]) k off)).
    { induction l as [|[a b] l IH]; intros k off; simpl.
      - left. unfold total_len. simpl. repeat (f_equal; try lia).
      - right. specialize (IH (k + 1) (off + (b - a))).
        replace (k + Z.pos (Pos.of_succ_nat (length l))) with (k + 1 + Z.of_nat (length l)) by lia.
        replace (off + (b - a + total_len l)) with (off + (b - a) + total_len l) by lia. exact IH. }
    specialize (Hlast ((s0, e0) :: mid) 0 0).
    pose proof (variant_go_present objs o1 vs 0 0 [] _ Ho1 Hs1 Hg1 Hlast Hi1) as H. simpl in H.
    destruct H as (n & Hn & _ & _ & _ & _ & _ & He).
    exists (clip_end (total_len vs) n). split; [apply variant_in; exact Hn|]. simpl. rewrite He, He1. simpl. f_equal.
    unfold vs. simpl. rewrite total_len_app. simpl. lia.
  - intros n Hn. apply variant_positions_lemma with (objs := objs); auto.
  - intros n x Hn Hx. eapply variant_ends_lemma; eauto.
Qed.

(* ------------------------------------------------------------------ *)
(* id suffixes: the copy made in visit k of a note gets the ordinal of that visit among the
   visits whose segment contains the note *)

Lemma nodup_map_inj {A B} (f : A -> B) l a b :
  NoDup (map f l) -> In a l -> In b l -> f a = f b -> a = b.
Proof.
  induction l as [|x l IH]; simpl; intros Hn Ha Hb E; [contradiction|].
  inversion Hn as [|? ? Hx Hl]; subst.
  destruct Ha as [->|Ha], Hb as [->|Hb]; auto.
  - exfalso. apply Hx. rewrite E. apply in_map; auto.
  - exfalso. apply Hx. rewrite <- E. apply in_map; auto.
Qed.

Lemma count_unique objs o (F : obj -> bool) :
  NoDup (map o_id objs) -> In o objs ->
  length (filter (fun ob => (o_id ob =? o_id o) && F ob) objs) = if F o then 1%nat else 0%nat.
Proof.
  induction objs as [|x l IH]; simpl; intros Hn Ho; [contradiction|].
  inversion Hn as [|? ? Hx Hl]; subst.
  destruct Ho as [->|Ho].
  - rewrite Z.eqb_refl. simpl.
    assert (Hz : filter (fun ob => (o_id ob =? o_id o) && F ob) l = []).
    { clear IH Hl Hn. induction l as [|y l IHl]; simpl; [auto|].
      destruct (o_id y =? o_id o) eqn:E; simpl.
      - exfalso. apply Hx. apply Z.eqb_eq in E. rewrite <- E. left; auto.
      - apply IHl. intro H. apply Hx. right; auto. }
    destruct (F o); simpl; rewrite Hz; reflexivity.
  - destruct (o_id x =? o_id o) eqn:E; simpl.
    + exfalso. apply Hx. apply Z.eqb_eq in E. rewrite E. apply in_map; auto.
    + apply IH; auto.
Qed.

Lemma filter_map_len {A B} (p : B -> bool) (f : A -> B) l :
  length (filter p (map f l)) = length (filter (fun x => p (f x)) l).
Proof. induction l as [|a l IH]; simpl; [auto|]. destruct (p (f a)); simpl; rewrite IH; reflexivity. Qed.

Lemma filter_filter {A} (p q : A -> bool) l : filter p (filter q l) = filter (fun x => q x && p x) l.
Proof.
  induction l as [|a l IH]; simpl; [auto|]. destruct (q a); simpl; [destruct (p a); rewrite IH; reflexivity|exact IH].
Qed.

Lemma filter_ext_in' {A} (p q : A -> bool) l : (forall x, In x l -> p x = q x) -> filter p l = filter q l.
Proof.
  induction l as [|a l IH]; simpl; intros H; [auto|].
  rewrite (H a) by (left; auto). rewrite IH; auto.
Qed.

(* the visits listed by with_off come with increasing index and offset *)
Lemma with_off_index : forall vs k off v, In v (with_off vs k off) -> let '(kv, _, _, _) := v in k <= kv.
Proof.
  induction vs as [|[s e] r IH]; intros k off v Hv; simpl in *; [contradiction|].
  destruct Hv as [<-|Hv]; [lia|]. specialize (IH _ _ _ Hv). destruct v as [[[kv ?] ?] ?]. lia.
Qed.

Lemma with_off_order : forall vs k0 off0 v v',
  Forall (fun v => fst v <= snd v) vs -> In v (with_off vs k0 off0) -> In v' (with_off vs k0 off0) ->
  let '(k, s, e, off) := v in let '(k', s', e', off') := v' in
  (k' < k -> off' + (e' - s') <= off) /\ (k' = k -> v' = v).
Proof.
  induction vs as [|[s1 e1] r IH]; intros k0 off0 v v' Hf Hv Hv'; simpl in *; [contradiction|].
  inversion Hf as [|? ? Hse Hr]; subst. simpl in Hse.
  destruct Hv as [<-|Hv], Hv' as [<-|Hv'].
  - split; [lia|auto].
  - pose proof (with_off_index _ _ _ _ Hv') as Hi. destruct v' as [[[k' s'] e'] off']. split; lia.
  - pose proof (with_off_index _ _ _ _ Hv) as Hi.
    pose proof (with_off_bounds _ _ _ _ Hr Hv) as Hb. destruct v as [[[k s] e] off]. simpl in *.
    split; [lia|lia].
  - exact (IH _ _ _ _ Hr Hv Hv').
Qed.

Definition visit_holds (o : obj) (v : Z * Z * Z * Z) : bool := let '(_, s, e, _) := v in in_seg s e o.
Definition visit_before (k : Z) (v : Z * Z * Z * Z) : bool := let '(kv, _, _, _) := v in kv <? k.

(* number of expected note copies of o that start before t *)
Lemma count_expected objs o t : NoDup (map o_id objs) -> In o objs -> is_notecls (o_cls o) = true ->
  forall T vs k0 off0,
  length (filter (fun x => match x with (i, st, _, _) => (i =? o_id o) && (st <? t) end)
                 (map (clip_view T) (expected_notes objs vs k0 off0))) =
  length (filter (fun v => let '(_, s, _, off) := v in visit_holds o v && (o_start o + (off - s) <? t))
                 (with_off vs k0 off0)).
Proof.
  intros Hn Ho Hc T. unfold expected_notes.
  intros vs k0 off0. generalize (with_off vs k0 off0) as l. clear vs k0 off0.
  induction l as [|[[[k s] e] off] l IH]; simpl; [auto|].
  rewrite map_app, filter_app, app_length, IH. clear IH.
  rewrite map_map, filter_map_len, filter_filter.
  assert (E : filter (fun x => in_seg s e x && is_notecls (o_cls x) &&
                               match clip_view T (note_copy (off - s) x) with (i, st, _, _) => (i =? o_id o) && (st <? t) end) objs
              = filter (fun ob => (o_id ob =? o_id o) && (in_seg s e ob && is_notecls (o_cls ob) && (o_start ob + (off - s) <? t))) objs).
  { apply filter_ext_in'. intros x _. unfold note_copy, clip_view.
    destruct (in_seg s e x), (is_notecls (o_cls x)), (o_id x =? o_id o), (o_start x + (off - s) <? t); reflexivity. }
  rewrite E, (count_unique objs o (fun ob => in_seg s e ob && is_notecls (o_cls ob) && (o_start ob + (off - s) <? t)) Hn Ho).
  rewrite Hc, andb_true_r. unfold visit_holds.
  destruct (in_seg s e o && (o_start o + (off - s) <? t)); reflexivity.
Qed.

Theorem id_suffix_visit_number_lemma : forall objs vs k s e off o n,
  NoDup (map o_id objs) -> Forall (fun v => fst v <= snd v) vs ->
  In (k, s, e, off) (with_off vs 0 0) -> In o objs -> is_pitched (o_cls o) = true -> in_seg s e o = true ->
  n_id n = o_id o -> n_cls n = o_cls o -> n_start n = o_start o + (off - s) ->
  id_suffix (variant objs vs) n =
  1 + Z.of_nat (length (filter (fun v => visit_before k v && visit_holds o v) (with_off vs 0 0))).
Proof.
  intros objs vs k s e off o n Hnd Hf Hv Ho Hp Hi Hid Hcl Hst.
  assert (Hnc : is_notecls (o_cls o) = true).
  { unfold is_pitched in Hp. unfold is_notecls. apply orb_true_iff in Hp as [Hp|Hp]; rewrite Hp; simpl; auto.
    rewrite orb_true_r. reflexivity. }
  unfold id_suffix. rewrite Hcl, Hp. f_equal. f_equal.
  (* 1. among the variant's objects with o's identity, "pitched" and "note class" coincide *)
  assert (E1 : filter (fun m => (n_id m =? n_id n) && is_pitched (n_cls m) && (n_start m <? n_start n)) (variant objs vs)
             = filter (fun m => (n_id m =? o_id o) && (n_start m <? n_start n))
                      (filter (fun m => is_notecls (n_cls m)) (variant objs vs))).
  { rewrite filter_filter. apply filter_ext_in'. intros m Hm. rewrite Hid.
    destruct (n_id m =? o_id o) eqn:E; simpl; [|rewrite andb_false_r; reflexivity].
    apply Z.eqb_eq in E.
    destruct (variant_origin_lemma _ _ _ Hm) as ([[[k' s'] e'] off'] & _ & o' & Ho' & Hid' & Hcl' & _).
    assert (o' = o) by (apply (nodup_map_inj o_id objs); auto; congruence). subst o'.
    rewrite Hcl', Hp, Hnc. reflexivity. }
  rewrite E1. clear E1.
  (* 2. through the note views *)
  assert (E2 : length (filter (fun m => (n_id m =? o_id o) && (n_start m <? n_start n))
                              (filter (fun m => is_notecls (n_cls m)) (variant objs vs)))
             = length (filter (fun x => match x with (i, st, _, _) => (i =? o_id o) && (st <? n_start n) end)
                              (notes_of (variant objs vs)))).
  { unfold notes_of. rewrite filter_map_len. reflexivity. }
  rewrite E2, variant_notes_lemma, (count_expected objs o (n_start n) Hnd Ho Hnc). clear E2.
  (* 3. a copy made in another visit starts earlier exactly when that visit comes earlier *)
  f_equal. apply filter_ext_in'. intros [[[k' s'] e'] off'] Hv'.
  unfold visit_before, visit_holds.
  destruct (in_seg s' e' o) eqn:Hi'; simpl; rewrite ?andb_false_r, ?andb_true_r; [|reflexivity].
  pose proof (with_off_order vs 0 0 _ _ Hf Hv Hv') as [A1 A2].
  pose proof (with_off_order vs 0 0 _ _ Hf Hv' Hv) as [B1 B2].
  unfold in_seg in Hi, Hi'. apply andb_true_iff in Hi as [I1 I2]. apply andb_true_iff in Hi' as [I1' I2'].
  rewrite Hst.
  destruct (Z.lt_trichotomy k' k) as [Hlt|[Heq|Hgt]].
  - specialize (A1 Hlt). assert (k' <? k = true) by lia. assert (o_start o + (off' - s') <? o_start o + (off - s) = true) by lia.
    congruence.
  - specialize (A2 Heq). injection A2 as -> -> -> ->. rewrite !Z.ltb_irrefl. reflexivity.
  - specialize (B1 Hgt). assert (k' <? k = false) by lia. assert (o_start o + (off' - s') <? o_start o + (off - s) = false) by lia.
    congruence.
Qed.

(* ------------------------------------------------------------------ *)
(* the hypotheses of variant_length_lemma / id_suffix_visit_number_lemma are satisfiable: two measures
   [0,4) [4,8) with one note each, a repeat bracket over the first, a tie across the bar line and a
   slur from the first note into the second measure; path A A B *)
Definition ex_objs : list obj :=
  [ mkObj 0 3 0 (Some 4) 0 (-2, 0, 0) [];                 (* measure 1 *)
    mkObj 1 cls_note 0 (Some 4) 0 (600, 1, 1) [(0, []); (1, [2])];   (* note tied to the next *)
    mkObj 9 10 0 (Some 4) 0 (-2, 0, 0) [];                (* Repeat *)
    mkObj 3 3 4 (Some 8) 0 (-2, 0, 0) [];                 (* measure 2 *)
    mkObj 2 cls_note 4 (Some 8) 0 (620, 1, 1) [(0, [1]); (1, [])] ].
Definition ex_vs : list (Z * Z) := [(0, 4); (0, 4); (4, 8)].

Example ex_hyps :
  Forall (fun v => fst v <= snd v) ex_vs /\ NoDup (map o_id ex_objs) /\ notes_contained ex_objs ex_vs.
Proof.
  split; [repeat constructor; simpl; lia|]. split.
  - simpl. repeat constructor; simpl; intuition lia.
  - intros o s e x Ho Hv Hi Hs He. simpl in Ho, Hv.
    destruct Ho as [<-|[<-|[<-|[<-|[<-|[]]]]]]; destruct Hv as [Hv|[Hv|[Hv|[]]]]; injection Hv as <- <-;
      simpl in *; try discriminate; injection He as <-; lia.
Qed.

Example ex_variant :
  map (fun n => (n_id n, n_visit n, n_start n, n_end n, n_refs n, id_suffix (variant ex_objs ex_vs) n)) (variant ex_objs ex_vs) =
  [ (0, 0, 0, Some 4, [], 0); (1, 0, 0, Some 4, [(0, []); (1, [])], 1);
    (0, 1, 4, Some 8, [], 0); (1, 1, 4, Some 8, [(0, []); (1, [])], 2);
    (3, 2, 8, Some 12, [], 0); (2, 2, 8, Some 12, [(0, []); (1, [])], 1) ].
Proof. vm_compute. reflexivity. Qed.

(* the clamp at work (the former known finding C09-K1): a slur from the first measure into the second,
   path = first segment only (Fine after measure 1): the slur's copy ends at 4 = the sum of the lengths,
   not at 8 *)
Example ex_clamp :
  map (fun n => (n_id n, n_start n, n_end n))
      (variant [mkObj 0 3 0 (Some 4) 0 (-2, 0, 0) []; mkObj 5 7 0 (Some 8) 0 (-2, 0, 0) [(8, []); (9, [])]] [(0, 4)])
  = [(0, 0, Some 4); (5, 0, Some 4)].
Proof. vm_compute. reflexivity. Qed.
