(* C06 -- histories: every save of any history returns Model.C06.save of the current state *)
From PV Require Import Lib.Base Model.C06 Model.C06_hist.
From Coq Require Import QArith.
#[local] Open Scope Z_scope.

Lemma hstate_app w h1 h2 : hstate w (h1 ++ h2) = hstate (hstate w h1) h2.
Proof. unfold hstate. apply fold_left_app. Qed.

(* a save leaves the state alone: dropping it from a history changes no later state *)
Lemma hist_save_pure_lemma : forall h1 a h2 w, hstate w (h1 ++ HSave a :: h2) = hstate w (h1 ++ h2).
Proof. intros. rewrite !hstate_app. reflexivity. Qed.

Lemma hrun_frames_lemma : forall rule h w, hrun rule w h = map (fun f => hobserve rule (fst f) (snd f)) (hframes w h).
Proof.
  intros rule h. induction h as [|op r IH]; intros w; [reflexivity|].
  destruct op; cbn [hrun hframes map fst snd]; rewrite ?IH; reflexivity.
Qed.

(* the frame of the save that follows h1 is the state the edits of h1 add up to *)
Lemma hframes_nth_lemma : forall h1 a h2 w d,
  nth (hsaves h1) (hframes w (h1 ++ HSave a :: h2)) d = (hstate w h1, a).
Proof.
  induction h1 as [|op r IH]; intros a h2 w d; [reflexivity|].
  destruct op; cbn [app hframes hsaves nth]; unfold hstate; cbn [fold_left]; apply IH.
Qed.

Lemma hist_obs_current_lemma : forall rule h1 a h2 w,
  nth (hsaves h1) (hrun rule w (h1 ++ HSave a :: h2)) [] = hobserve rule (hstate w h1) a.
Proof.
  induction h1 as [|op r IH]; intros a h2 w; [reflexivity|].
  destruct op; cbn [app hrun hsaves nth]; unfold hstate; cbn [fold_left]; apply IH.
Qed.

Lemma hrun_length_lemma : forall rule h w, List.length (hrun rule w h) = hsaves h.
Proof.
  intros rule h. induction h as [|op r IH]; intros w; [reflexivity|].
  destruct op; cbn [hrun hsaves List.length]; rewrite ?IH; reflexivity.
Qed.

(* two histories whose edits add up to the same state give the same result for the same save *)
Lemma hist_obs_state_only_lemma : forall rule h1 h1' a h2 h2' w w',
  hstate w h1 = hstate w' h1' ->
  nth (hsaves h1) (hrun rule w (h1 ++ HSave a :: h2)) [] = nth (hsaves h1') (hrun rule w' (h1' ++ HSave a :: h2')) [].
Proof. intros. rewrite !hist_obs_current_lemma. congruence. Qed.

(* a non-trivial history: two parts, one object in both views, an edit between two saves *)
Definition hx_p0 : ppart := mkPP [] [] [] [mkPI 0 (1 # 4) (CC 0 64 127)] [mkPN 0 0 60 64 0 1; mkPN 1 0 62 70 (1 # 2) (3 # 2)] [].
Definition hx_p0' : ppart := mkPP [] [] [] [mkPI 0 (5 # 4) (CC 0 64 127)] [mkPN 0 0 60 64 1 2; mkPN 1 0 62 70 (3 # 2) (5 # 2)] [].
Definition hx_p1 : ppart := mkPP [] [] [] [] [mkPN 2 3 70 1 (1 # 2) (1 # 2)] [mkPI 2 0 (PC 3 5)].
Definition hx_a : hargs := mkHA VPerf 480 500000 false.
Definition hx_h1 : list hop := [HPut 0 hx_p0; HPut 1 hx_p1; HList [0%nat; 1%nat]; HPerf [0%nat; 1%nat]; HSave hx_a; HPut 0 hx_p0'; HList [1%nat]].

Lemma hist_example_lemma :
  hview_parts (hstate hworld0 hx_h1) VPerf = [hx_p0'; hx_p1] /\
  hview_parts (hstate hworld0 hx_h1) VList = [hx_p1] /\
  nth 1 (hrun 0 hworld0 (hx_h1 ++ [HSave hx_a])) [] = save 0 480 500000 false [hx_p0'; hx_p1] /\
  nth 0 (hrun 0 hworld0 (hx_h1 ++ [HSave hx_a])) [] <> nth 1 (hrun 0 hworld0 (hx_h1 ++ [HSave hx_a])) [].
Proof. repeat split; try (vm_compute; reflexivity). vm_compute. discriminate. Qed.

(* the memoising variant does NOT have the property: after the edit it still hands out the first result *)
Lemma hist_memo_refuted_lemma : exists w h1 a h2,
  nth (hsaves h1) (hrun_memo 0 None w (h1 ++ HSave a :: h2)) [] <> hobserve 0 (hstate w h1) a.
Proof. exists hworld0, hx_h1, hx_a, []. vm_compute. discriminate. Qed.

(* what the correspondence checker compares: check_save on the frames = on (current state, arguments) *)
Lemma check_hist_frames_lemma : forall h obs,
  check_hist (h, obs) = forall2b (fun f o => check_save (ha_ppq (snd f), ha_mpq (snd f), ha_merge (snd f), hview_parts (fst f) (ha_view (snd f)), o))
                                 (hframes hworld0 h) obs.
Proof. reflexivity. Qed.
