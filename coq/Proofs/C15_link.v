(* C15 -- the sounding notes of the merged part are those of the score-level note array:
   note_array (merged elements) and score_array (part arrays) describe the same multiset of
   (onset, duration, pitch) in quarters (cross-multiplied integers). *)
From PV Require Import Lib.Base Model.C05 Model.C05_Spec Model.C15 Model.C15_Spec
     Proofs.C05_lib Proofs.C05_ties Proofs.C05 Proofs.C15.
From Coq Require Import Permutation.
#[local] Open Scope Z_scope.

(* n' is n moved to a timeline with k times as many divisions (voice and staff may differ) *)
Definition scaled (k : Z) (n n' : note) : Prop :=
  n_oid n' = n_oid n /\ n_id n' = n_id n /\ n_start n' = n_start n * k /\ n_end n' = n_end n * k /\
  n_tie_prev n' = n_tie_prev n /\ n_tie_next n' = n_tie_next n /\ midi_pitch n' = midi_pitch n /\
  n_rest n' = n_rest n.

Lemma generic_never_discarded m k : is_generic k = true -> discard m k = false.
Proof. destruct k, m; simpl; intros H; try discriminate; reflexivity. Qed.

Lemma note_of_scaled m o uv us k e e' : renumber m o uv us (rescale_elem k e) = Some e' ->
  scaled k (note_of e) (note_of e').
Proof.
  intros R. apply renumber_fields in R as [A [B [C [D [E [F G]]]]]]. simpl in *.
  unfold scaled, note_of, midi_pitch; simpl. rewrite A, B, C, D, E, F, G.
  repeat split. destruct (e_end e); simpl; reflexivity.
Qed.

Lemma xform_notes m k first o uv us : forall es a, xform_elems m k first o uv us es = Some a ->
  Forall2 (scaled k) (notes_of es) (notes_of a).
Proof.
  unfold notes_of. induction es as [|e r IH]; simpl; intros a H.
  - injection H as <-. constructor.
  - destruct (is_generic (e_kind e)) eqn:G.
    + assert (K : keep m first e = true).
      { unfold keep. rewrite (generic_never_discarded m _ G). apply orb_true_r. }
      rewrite K in H.
      destruct (renumber m o uv us (rescale_elem k e)) as [e1|] eqn:R; [|discriminate].
      destruct (xform_elems m k first o uv us r) as [r'|] eqn:X; [|discriminate].
      injection H as <-. simpl.
      assert (G1 : is_generic (e_kind e1) = true).
      { pose proof (renumber_fields _ _ _ _ _ _ R) as [_ [B _]]. simpl in B. rewrite B. exact G. }
      rewrite G1. simpl. constructor; [eapply note_of_scaled; eauto | apply IH; reflexivity].
    + destruct (keep m first e).
      * destruct (renumber m o uv us (rescale_elem k e)) as [e1|] eqn:R; [|discriminate].
        destruct (xform_elems m k first o uv us r) as [r'|] eqn:X; [|discriminate].
        injection H as <-. simpl.
        assert (G1 : is_generic (e_kind e1) = false).
        { pose proof (renumber_fields _ _ _ _ _ _ R) as [_ [B _]]. simpl in B. rewrite B. exact G. }
        rewrite G1. apply IH; reflexivity.
      * apply IH, H.
Qed.

(* the notes of the merged part, grouped by part *)
Lemma merge_notes m L : forall ps i o out, merge_from m L i o ps = Some out ->
  exists G, notes_of (map snd out) = List.concat G /\
            Forall2 (fun p g => Forall2 (scaled (L / snd p)) (notes_of (fst p)) g) ps G.
Proof.
  induction ps as [|[es d] r IH]; simpl; intros i o out H.
  - injection H as <-. exists []. split; [reflexivity | constructor].
  - destruct (xform_elems m (L / d) (Nat.eqb i 0) o (uniq (voices_of es)) (uniq (staves_of es)) es) as [a|] eqn:X; [|discriminate].
    destruct (merge_from m L (S i) (next_offs o es) r) as [b|] eqn:M; [|discriminate].
    injection H as <-. destruct (IH _ _ _ M) as [G [E F]].
    exists (notes_of a :: G). split.
    + rewrite map_app, map_map. simpl. rewrite map_id.
      unfold notes_of in *. rewrite filter_app, map_app. simpl. f_equal. exact E.
    + constructor; [simpl; eapply xform_notes; eauto | exact F].
Qed.

(* ------------------------------------------------------------------ scaled lists *)

Lemma scaled_dur k n n' : scaled k n n' -> n_dur n' = n_dur n * k.
Proof. intros [_ [_ [S [E _]]]]. unfold n_dur. rewrite S, E. lia. Qed.

Lemma F2_scaled_oids k l l' : Forall2 (scaled k) l l' -> map n_oid l' = map n_oid l.
Proof. induction 1 as [|n n' l l' [O _] _ IH]; simpl; [reflexivity | rewrite O, IH; reflexivity]. Qed.

Lemma F2_scaled_length k l l' : Forall2 (scaled k) l l' -> List.length l' = List.length l.
Proof. induction 1; simpl; congruence. Qed.

Lemma F2_scaled_sum k l l' : Forall2 (scaled k) l l' -> sum_dur l' = sum_dur l * k.
Proof.
  induction 1 as [|n n' l l' Hs _ IH]; simpl; [reflexivity|].
  rewrite (scaled_dur _ _ _ Hs), IH. lia.
Qed.

Lemma F2_counterpart k l l' : Forall2 (scaled k) l l' -> forall n, In n l -> exists n', In n' l' /\ scaled k n n'.
Proof.
  induction 1 as [|n0 n0' l l' Hs _ IH]; simpl; intros n Hn; [destruct Hn|].
  destruct Hn as [<-|Hn]; [eauto|]. destruct (IH n Hn) as [n' [A B]]. eauto.
Qed.

Lemma F2_filter {A B} (R : A -> B -> Prop) (f : A -> bool) (g : B -> bool) l l' :
  Forall2 R l l' -> (forall a b, R a b -> f a = g b) -> Forall2 R (filter f l) (filter g l').
Proof.
  intros H E. induction H as [|a b l l' Hr _ IH]; simpl; [constructor|].
  rewrite <- (E a b Hr). destruct (f a); [constructor; assumption | assumption].
Qed.

Lemma heads_scaled k l l' : Forall2 (scaled k) l l' ->
  Forall2 (scaled k) (notes_tied (sounding l)) (notes_tied (sounding l')).
Proof.
  intros H. unfold notes_tied, sounding. apply F2_filter.
  - apply F2_filter; [exact H|]. intros a b [_ [_ [_ [_ [_ [_ [_ R]]]]]]]. rewrite R. reflexivity.
  - intros a b [_ [_ [_ [_ [P _]]]]]. unfold is_head. rewrite P. reflexivity.
Qed.

Lemma heads_concat G : notes_tied (sounding (List.concat G)) = flat_map (fun g => notes_tied (sounding g)) G.
Proof.
  induction G as [|g G IH]; simpl; [reflexivity|].
  unfold notes_tied, sounding in *. rewrite !filter_app, IH. reflexivity.
Qed.

(* ------------------------------------------------------------------ tie chains carry over *)

Lemma chain_transfer k N M : NoDup (map n_oid M) ->
  (forall n, In n N -> exists n', In n' M /\ scaled k n n') ->
  forall h l, tie_chain N h l -> forall h', In h' M -> scaled k h h' ->
  exists l', tie_chain M h' l' /\ Forall2 (scaled k) l l'.
Proof.
  intros ND C h l T. induction T as [n E | n j m l E F T IH]; intros h' Hh' Hs.
  - exists [h']. split; [|constructor; [assumption | constructor]].
    apply tc_last. destruct Hs as [_ [_ [_ [_ [_ [Nx _]]]]]]. congruence.
  - destruct (find_oid_some _ _ _ F) as [Hm Om].
    destruct (C m Hm) as [m' [Hm' Sm]].
    destruct (IH m' Hm' Sm) as [l' [T' F2]].
    exists (h' :: l'). split; [|constructor; assumption].
    eapply tc_step; [| |exact T'].
    + destruct Hs as [_ [_ [_ [_ [_ [Nx _]]]]]]. rewrite Nx. exact E.
    + destruct Sm as [Om' _]. rewrite <- Om, <- Om'. apply find_oid_In; assumption.
Qed.

(* the tied duration of a head of part N inside the merged note list M *)
Lemma tied_duration_transfer k N M : wf_ties N -> NoDup (map n_oid M) ->
  (forall n, In n N -> exists n', In n' M /\ scaled k n n') -> (List.length N <= List.length M)%nat ->
  forall h h', In h N -> In h' M -> scaled k h h' ->
  exists dt, duration_tied N (List.length N) h = Some dt /\
             duration_tied M (List.length M) h' = Some (dt * k).
Proof.
  intros W ND C Len h h' Hh Hh' Hs.
  destruct (chain_exists N W h Hh) as [l [T [I [NDl _]]]].
  destruct (chain_transfer k N M ND C h l T h' Hh' Hs) as [l' [T' F2]].
  exists (sum_dur l). split.
  - apply chain_sum_is_row_duration; [assumption | apply NoDup_incl_length; assumption].
  - rewrite <- (F2_scaled_sum _ _ _ F2). apply chain_sum_is_row_duration; [assumption|].
    rewrite (F2_scaled_length _ _ _ F2). pose proof (NoDup_incl_length NDl I). lia.
Qed.

(* ------------------------------------------------------------------ keys *)

Definition ckey (K : Z) (c : string * Z * Z * Z) : Z * Z * Z :=
  match c with (_, on, du, p) => (on * K, du * K, p) end.

Lemma qkey_ckey K r : qkey K r = ckey K (r_core r).
Proof. reflexivity. Qed.

Lemma incl_concat_in {A} (g : list A) G : In g G -> incl g (List.concat G).
Proof. intros H x Hx. apply in_concat. exists g. auto. Qed.

Lemma length_concat_in {A} (g : list A) G : In g G -> (List.length g <= List.length (List.concat G))%nat.
Proof.
  induction G as [|g0 G IH]; simpl; [tauto|]. intros [->|H]; rewrite app_length; [lia|].
  specialize (IH H). lia.
Qed.

(* keys of the heads of one part, seen in the merged list, against the keys of the part's own heads *)
Lemma part_keys_merged k Ls N g M : wf_ties N -> NoDup (map n_oid M) -> incl g M ->
  (List.length N <= List.length M)%nat -> Forall2 (scaled k) N g ->
  map (fun h' => ckey Ls (head_core M h')) (notes_tied (sounding g)) =
  map (fun h => match head_core N h with (_, on, du, p) => (on * k * Ls, du * k * Ls, p) end)
      (notes_tied (sounding N)).
Proof.
  intros W ND I Len F2.
  assert (C : forall n, In n N -> exists n', In n' M /\ scaled k n n').
  { intros n Hn. destruct (F2_counterpart _ _ _ F2 n Hn) as [n' [A B]]. exists n'. auto. }
  pose proof (heads_scaled _ _ _ F2) as FH.
  assert (InN : forall h, In h (notes_tied (sounding N)) -> In h N).
  { intros h Hh. unfold notes_tied, sounding in Hh. apply filter_In in Hh as [Hh _].
    apply filter_In in Hh as [Hh _]. exact Hh. }
  assert (InG : forall h, In h (notes_tied (sounding g)) -> In h M).
  { intros h Hh. unfold notes_tied, sounding in Hh. apply filter_In in Hh as [Hh _].
    apply filter_In in Hh as [Hh _]. apply I, Hh. }
  revert InN InG. induction FH as [|h h' hs hs' Hs _ IH]; simpl; intros InN InG; [reflexivity|].
  f_equal; [|apply IH; intros; [apply InN | apply InG]; right; assumption].
  destruct (tied_duration_transfer k N M W ND C Len h h' (InN h (or_introl eq_refl))
              (InG h' (or_introl eq_refl)) Hs) as [dt [D1 D2]].
  unfold head_core. rewrite D1, D2. simpl.
  destruct Hs as [_ [Id [St [_ [_ [_ [Pi _]]]]]]]. rewrite St, Pi. reflexivity.
Qed.

(* rows of a part array: all carry the part's divisions *)
Lemma part_rows_divs p a : part_rows p = Some a -> forall r, In r a -> r_divs r = snd p.
Proof.
  unfold part_rows. intros H r Hr.
  destruct (columns_spec_lemma _ _ _ _ H r Hr) as [h [d [_ [_ [RM _]]]]].
  unfold row_matches in RM.
  destruct RM as [_ [_ [_ [_ [_ [_ [_ [_ [_ [_ [_ [_ [_ [_ [_ RM]]]]]]]]]]]]]]]. exact RM.
Qed.

Lemma prep_parts_false L : forall parts i,
  List.concat (prep_parts false L i parts) = flat_map (prep_part false L 0) parts.
Proof. induction parts as [|p r IH]; simpl; intros i; [reflexivity|]. rewrite IH. reflexivity. Qed.

(* keys of one part of the score-level array *)
Lemma part_keys_score L Ls p a : part_rows p = Some a -> a <> [] ->
  Permutation (map (qkey L) (prep_part false Ls 0 a))
              (map (fun h => match head_core (notes_of (fst p)) h with
                             | (_, on, du, pi) => (on * (Ls / snd p) * L, du * (Ls / snd p) * L, pi) end)
                   (notes_tied (sounding (notes_of (fst p))))).
Proof.
  intros H Ne. pose proof (part_rows_divs p a H) as Dv.
  destruct a as [|r0 a']; [congruence|].
  unfold prep_part. rewrite (Dv r0 (or_introl eq_refl)).
  rewrite map_map.
  unfold part_rows in H. pose proof (rows_are_chain_heads_lemma _ _ _ _ H) as P.
  apply (Permutation_map (fun c => match c with (_, on, du, pi) => (on * (Ls / snd p) * L, du * (Ls / snd p) * L, pi) end)) in P.
  rewrite !map_map in P. exact P.
Qed.

Lemma perm_flat_map_F2 {A B C} (f : A -> list C) (g : B -> list C) l1 l2 :
  Forall2 (fun x y => Permutation (f x) (g y)) l1 l2 -> Permutation (flat_map f l1) (flat_map g l2).
Proof. induction 1; simpl; [constructor | apply Permutation_app; assumption]. Qed.

Lemma parts_rows_F2 : forall ps arrs, parts_rows ps = Some arrs ->
  Forall2 (fun p a => part_rows p = Some a) ps arrs.
Proof.
  induction ps as [|p r IH]; simpl; intros arrs H.
  - injection H as <-. constructor.
  - destruct (part_rows p) as [a|] eqn:A; [|discriminate].
    destruct (parts_rows r) as [l|] eqn:R; [|discriminate].
    injection H as <-. constructor; [assumption | apply IH; reflexivity].
Qed.

Lemma parts_rows_total : forall ps, Forall (fun p => wf_ties (notes_of (fst p))) ps ->
  exists arrs, parts_rows ps = Some arrs.
Proof.
  induction ps as [|p r IH]; simpl; intros W; [eauto|].
  apply Forall_cons_iff in W as [Wp Wr].
  destruct (note_array_total_lemma (notes_of (fst p)) no_maps (snd p) Wp) as [a A].
  unfold part_rows. rewrite A. destruct (IH Wr) as [l ->]. eauto.
Qed.

(* a non-empty part array puts the part's divisions into the score lcm *)
Lemma divs_in_score_lcm arrs p a : In a arrs -> part_rows p = Some a -> a <> [] ->
  (snd p | score_lcm arrs).
Proof.
  intros Ha H Ne. destruct a as [|r0 a']; [congruence|].
  unfold score_lcm. apply lcm_list_divides.
  rewrite <- (part_rows_divs p _ H r0 (or_introl eq_refl)).
  eapply part_divs_in; eauto.
Qed.

Lemma F2_In_r {A B} (R : A -> B -> Prop) l l' : Forall2 R l l' -> forall b, In b l' -> exists a, In a l /\ R a b.
Proof.
  induction 1 as [|x y l l' Hr _ IH]; simpl; intros b Hb; [destruct Hb|].
  destruct Hb as [<-|Hb]; [eauto|]. destruct (IH b Hb) as [a [Ha Hab]]. eauto.
Qed.

Lemma F2_In_l {A B} (R : A -> B -> Prop) l l' : Forall2 R l l' -> forall a, In a l -> exists b, In b l' /\ R a b.
Proof.
  induction 1 as [|x y l l' Hr _ IH]; simpl; intros a Ha; [destruct Ha|].
  destruct Ha as [<-|Ha]; [eauto|]. destruct (IH a Ha) as [b [Hb Hab]]. eauto.
Qed.

Lemma F2_impl {A B} (R R' : A -> B -> Prop) l l' : (forall a b, R a b -> R' a b) ->
  Forall2 R l l' -> Forall2 R' l l'.
Proof. intros I. induction 1; constructor; auto. Qed.

(* three lists in step *)
Lemma F2_with_In {A B} (R : A -> B -> Prop) l l' : Forall2 R l l' ->
  Forall2 (fun x y => In x l /\ In y l' /\ R x y) l l'.
Proof.
  induction 1 as [|x y l l' Hr _ IH]; constructor.
  - simpl; auto.
  - eapply F2_impl; [|exact IH]. simpl. intros a b [Ha [Hb Hab]]. auto.
Qed.

Lemma F2_zip3 {A B C} (R1 : A -> B -> Prop) (R2 : A -> C -> Prop) : forall la lb lc,
  Forall2 R1 la lb -> Forall2 R2 la lc ->
  Forall2 (fun b c => exists a, R1 a b /\ R2 a c) lb lc.
Proof.
  induction la as [|a la IH]; intros lb lc H1 H2; inversion H1; inversion H2; subst; constructor.
  - exists a. auto.
  - apply IH; assumption.
Qed.

(* O5 *)
Lemma merge_eq_score_array_lemma m ts L out :
  merge_parts m ts = RMerged L out ->
  divs_pos (flat_map flatten ts) -> ties_ok (flat_map flatten ts) ->
  exists rows arrs,
    merged_rows L out = Some rows /\ parts_rows (flat_map flatten ts) = Some arrs /\
    Permutation (map (qkey (score_lcm arrs)) rows) (map (qkey L) (score_array false arrs)).
Proof.
  intros H P [ND W]. set (ps := flat_map flatten ts) in *.
  destruct (merge_time_preserved_lemma _ _ _ _ H P) as [EL [Lpos _]]. fold ps in EL.
  destruct (merge_parts_merged _ _ _ _ H) as [_ [Mf _]]. fold ps in Mf.
  destruct (merge_notes _ _ _ _ _ _ Mf) as [G [EM F2]].
  set (M := notes_of (map snd out)) in *.
  (* identities of the merged notes *)
  assert (OM : map n_oid M = map n_oid (all_notes ps)).
  { rewrite EM. unfold all_notes. clear -F2. induction F2 as [|p g ps G Hs _ IH]; simpl; [reflexivity|].
    rewrite !map_app, IH, (F2_scaled_oids _ _ _ Hs). reflexivity. }
  assert (NDM : NoDup (map n_oid M)) by (rewrite OM; exact ND).
  destruct (parts_rows_total ps W) as [arrs PR]. set (Ls := score_lcm arrs).
  pose proof (parts_rows_F2 _ _ PR) as FA.
  (* every head of the merged list has a tied duration *)
  assert (Dt : forall h', In h' (notes_tied (sounding M)) -> exists d, duration_tied M (List.length M) h' = Some d).
  { intros h' Hh'. rewrite EM, heads_concat in Hh'. apply in_flat_map in Hh' as [g [Hg Hh']].
    destruct (F2_In_r _ _ _ F2 g Hg) as [p [Hp Fp]].
    rewrite Forall_forall in W. specialize (W p Hp).
    pose proof (heads_scaled _ _ _ Fp) as FH.
    destruct (F2_In_r _ _ _ FH h' Hh') as [h [Hh Hs]].
    assert (C : forall n, In n (notes_of (fst p)) -> exists n', In n' M /\ scaled (L / snd p) n n').
    { intros n Hn. destruct (F2_counterpart _ _ _ Fp n Hn) as [n' [A B]]. exists n'. split; [|exact B].
      rewrite EM. eapply incl_concat_in; eauto. }
    assert (Len : (List.length (notes_of (fst p)) <= List.length M)%nat).
    { rewrite <- (F2_scaled_length _ _ _ Fp), EM. apply length_concat_in, Hg. }
    assert (HhN : In h (notes_of (fst p))).
    { unfold notes_tied, sounding in Hh. apply filter_In in Hh as [Hh _]. apply filter_In in Hh as [Hh _]. exact Hh. }
    assert (Hh'M : In h' M).
    { rewrite EM. eapply incl_concat_in; [exact Hg|]. unfold notes_tied, sounding in Hh'.
      apply filter_In in Hh' as [Hh' _]. apply filter_In in Hh' as [Hh' _]. exact Hh'. }
    destruct (tied_duration_transfer _ _ _ W NDM C Len h h' HhN Hh'M Hs) as [dt [_ D2]]. eauto. }
  assert (RR : exists rows0, raw_rows M no_maps L (notes_tied (sounding M)) = Some rows0).
  { clear -Dt. induction (notes_tied (sounding M)) as [|h t IH]; simpl; [eauto|].
    destruct (Dt h (or_introl eq_refl)) as [d ->].
    destruct IH as [rows0 ->]; [intros; apply Dt; right; assumption|]. eauto. }
  destruct RR as [rows0 RR].
  assert (MR : merged_rows L out = Some (sort_rows (sanitize_voices rows0))).
  { unfold merged_rows, note_array, array_of. fold M. unfold sounding in RR. rewrite RR. reflexivity. }
  exists (sort_rows (sanitize_voices rows0)), arrs. split; [exact MR|]. split; [exact PR|].
  (* merged side *)
  unfold merged_rows in MR. fold M in MR.
  pose proof (rows_are_chain_heads_lemma _ _ _ _ MR) as PM.
  apply (Permutation_map (ckey Ls)) in PM. rewrite !map_map in PM.
  etransitivity; [exact PM|]. clear PM.
  (* score side *)
  destruct (score_rows_union_lemma false arrs) as [PS _]. simpl in PS.
  apply (Permutation_map (qkey L)) in PS. symmetry. etransitivity; [exact PS|]. clear PS.
  rewrite prep_parts_false. rewrite flat_map_concat_map, concat_map, map_map, <- flat_map_concat_map.
  symmetry.
  (* per part *)
  rewrite EM, heads_concat, flat_map_concat_map, concat_map, map_map, <- flat_map_concat_map.
  apply perm_flat_map_F2.
  pose proof (F2_zip3 _ _ _ _ _ (F2_with_In _ _ _ F2) (F2_with_In _ _ _ FA)) as Z3.
  eapply F2_impl; [|exact Z3]. clear Z3.
  intros g a [p [[Hp [Hg Fp]] [_ [Ha Ap]]]]. simpl in Fp, Ap.
  rewrite <- EM. fold Ls.
  rewrite Forall_forall in W. specialize (W p Hp).
  assert (Ig : incl g M) by (rewrite EM; apply incl_concat_in, Hg).
  assert (Len : (List.length (notes_of (fst p)) <= List.length M)%nat).
  { rewrite <- (F2_scaled_length _ _ _ Fp), EM. apply length_concat_in, Hg. }
  rewrite (part_keys_merged (L / snd p) Ls (notes_of (fst p)) g M W NDM Ig Len Fp).
  destruct a as [|r0 a'].
  - (* a part without sounding notes contributes nothing on either side *)
    unfold part_rows in Ap. pose proof (rows_are_chain_heads_lemma _ _ _ _ Ap) as PA. simpl in PA.
    apply Permutation_nil in PA. apply map_eq_nil in PA. rewrite PA. simpl. constructor.
  - assert (Ne : r0 :: a' <> []) by discriminate.
    etransitivity; [|symmetry; apply (part_keys_score L Ls p _ Ap Ne)].
    assert (Dd : (snd p | L)).
    { rewrite EL. apply lcm_list_divides. unfold divs_of. apply in_map, Hp. }
    assert (Ds : (snd p | Ls)) by (eapply divs_in_score_lcm; eauto).
    assert (Hd : 0 < snd p).
    { unfold divs_pos in P. rewrite Forall_forall in P. apply P. unfold divs_of. apply in_map, Hp. }
    pose proof (divide_mul_div _ _ Hd Dd) as Q1. pose proof (divide_mul_div _ _ Hd Ds) as Q2.
    assert (E : L / snd p * Ls = Ls / snd p * L).
    { rewrite <- Q2 at 1. rewrite <- Q1 at 2. ring. }
    erewrite map_ext; [apply Permutation_refl|].
    intros h. unfold head_core. simpl. rewrite <- !Z.mul_assoc, E. reflexivity.
Qed.
