(* C06 -- pairing of note-on / note-off messages inverts the writing of notes, for any interleaving *)
From PV Require Import Lib.Base Lib.Round Model.C12 Model.C06 Proofs.C06_lib Proofs.C06.
From Coq Require Import QArith Sorted Permutation.
#[local] Open Scope Z_scope.

(* ---- per-key decomposition of the message loop *)
Definition key_of (n : lnote) : Z := note_hash (ln_ch n) (ln_pitch n).
Definition proj (k : Z) (l : list (Z * msg)) : list (Z * msg) := filter (fun e => is_note_ev k (snd e)) l.
Definition restrict (s : list (Z * (Z * Z))) (k : Z) : list (Z * (Z * Z)) :=
  match zlookup k s with Some v => [(k, v)] | None => [] end.
Definition on_key (k : Z) (n : lnote) : bool := key_of n =? k.

Lemma zlookup_remove_same k (s : list (Z * (Z * Z))) : zlookup k (sounding_remove k s) = None.
Proof.
  induction s as [|[k0 v0] r IH]; simpl; auto.
  destruct (k =? k0) eqn:E; auto. simpl. rewrite E. exact IH.
Qed.

Lemma restrict_remove_same s k : restrict (sounding_remove k s) k = [].
Proof. unfold restrict. rewrite zlookup_remove_same. reflexivity. Qed.
Lemma restrict_remove_other s k k0 : k <> k0 -> restrict (sounding_remove k0 s) k = restrict s k.
Proof. intros H. unfold restrict. rewrite zlookup_remove_other; auto. Qed.
Lemma remove_restrict s k : sounding_remove k (restrict s k) = [].
Proof. unfold restrict. destruct (zlookup k s); simpl; auto. rewrite Z.eqb_refl. reflexivity. Qed.
Lemma zlookup_restrict s k : zlookup k (restrict s k) = zlookup k s.
Proof. unfold restrict. destruct (zlookup k s) eqn:E; simpl; auto. rewrite Z.eqb_refl. reflexivity. Qed.
Lemma restrict_cons_same s k v : restrict ((k, v) :: s) k = [(k, v)].
Proof. unfold restrict. simpl. rewrite Z.eqb_refl. reflexivity. Qed.
Lemma restrict_cons_other s k k0 v : k <> k0 -> restrict ((k0, v) :: s) k = restrict s k.
Proof. intros H. unfold restrict. simpl. destruct (k =? k0) eqn:E; [lia|reflexivity]. Qed.

Lemma pair_notes_key k : forall l s,
  filter (on_key k) (pair_notes s l) = pair_notes (restrict s k) (proj k l).
Proof.
  induction l as [|[t m] r IH]; intros s; [reflexivity|].
  unfold proj. cbn [filter snd]. fold (proj k r).
  destruct m; cbn [is_note_ev]; try (cbn [pair_notes]; apply IH).
  - (* NoteOn *)
    destruct (note_hash ch pitch =? k) eqn:E.
    + apply Z.eqb_eq in E. subst k. cbn [pair_notes].
      destruct (0 <? vel).
      * rewrite IH. rewrite restrict_cons_same, remove_restrict. reflexivity.
      * rewrite zlookup_restrict. destruct (zlookup (note_hash ch pitch) s) as [[t0 v0]|].
        -- cbn [filter]. unfold on_key at 1, key_of. cbn [ln_ch ln_pitch]. rewrite Z.eqb_refl.
           rewrite IH, restrict_remove_same, remove_restrict. reflexivity.
        -- apply IH.
    + apply Z.eqb_neq in E. cbn [pair_notes].
      destruct (0 <? vel).
      * rewrite IH. rewrite restrict_cons_other by lia. rewrite restrict_remove_other by lia. reflexivity.
      * destruct (zlookup (note_hash ch pitch) s) as [[t0 v0]|].
        -- cbn [filter]. unfold on_key at 1, key_of. cbn [ln_ch ln_pitch].
           destruct (note_hash ch pitch =? k) eqn:E2; [lia|].
           rewrite IH, restrict_remove_other by lia. reflexivity.
        -- apply IH.
  - (* NoteOff *)
    destruct (note_hash ch pitch =? k) eqn:E.
    + apply Z.eqb_eq in E. subst k. cbn [pair_notes].
      rewrite zlookup_restrict. destruct (zlookup (note_hash ch pitch) s) as [[t0 v0]|].
      * cbn [filter]. unfold on_key at 1, key_of. cbn [ln_ch ln_pitch]. rewrite Z.eqb_refl.
        rewrite IH, restrict_remove_same, remove_restrict. reflexivity.
      * apply IH.
    + apply Z.eqb_neq in E. cbn [pair_notes].
      destruct (zlookup (note_hash ch pitch) s) as [[t0 v0]|].
      * cbn [filter]. unfold on_key at 1, key_of. cbn [ln_ch ln_pitch].
        destruct (note_hash ch pitch =? k) eqn:E2; [lia|].
        rewrite IH, restrict_remove_other by lia. reflexivity.
      * apply IH.
Qed.

(* ---- two lists with the same per-key subsequences are permutations of each other *)
Section FilterPerm.
  Context {A : Type} (f : A -> Z).
  Let on (k : Z) (x : A) : bool := f x =? k.

  Lemma filter_head_split (p : A -> bool) x r : forall b,
    filter p b = x :: r -> exists b1 b2, b = b1 ++ x :: b2 /\ filter p b1 = [] /\ filter p b2 = r.
  Proof.
    induction b as [|y b IH]; simpl; [discriminate|].
    destruct (p y) eqn:E.
    - intros H. injection H as -> <-. exists [], b. auto.
    - intros H. destruct (IH H) as (b1 & b2 & -> & H1 & H2).
      exists (y :: b1), b2. simpl. rewrite E. auto.
  Qed.

  Lemma filter_eq_perm : forall a b,
    (forall k, filter (on k) a = filter (on k) b) -> Permutation a b.
  Proof.
    induction a as [|x a IH]; intros b H.
    - destruct b as [|y b]; auto. specialize (H (f y)). simpl in H. unfold on at 1 in H.
      rewrite Z.eqb_refl in H. discriminate.
    - pose proof (H (f x)) as Hx. simpl in Hx. unfold on at 1 in Hx. rewrite Z.eqb_refl in Hx.
      symmetry in Hx. destruct (filter_head_split _ _ _ _ Hx) as (b1 & b2 & -> & H1 & H2).
      apply Permutation_cons_app. apply IH. intros k.
      specialize (H k). rewrite filter_app in *. simpl in H.
      destruct (Z.eq_dec (f x) k) as [<-|N].
      + rewrite H1, H2. reflexivity.
      + assert (E : on k x = false) by (unfold on; lia). rewrite E in H. exact H.
  Qed.
End FilterPerm.

(* ---- notes as written: note-on, then any message that ends the key *)
Definition wnote := (lnote * msg)%type.
Definition wnote_ok (w : wnote) : Prop :=
  0 < ln_vel (fst w) /\ is_off_for (ln_ch (fst w)) (ln_pitch (fst w)) (snd w) = true.
Definition wnote_events (w : wnote) : list (Z * msg) :=
  let n := fst w in [(ln_on n, NoteOn (ln_ch n) (ln_pitch n) (ln_vel n)); (ln_off n, snd w)].

Lemma pair_notes_written ws :
  Forall wnote_ok ws -> pair_notes [] (flat_map wnote_events ws) = map fst ws.
Proof.
  induction 1 as [|[n m] r [Hv Hoff] HF IH]; [reflexivity|].
  cbn [flat_map wnote_events fst snd app pair_notes] in *.
  destruct (0 <? ln_vel n) eqn:E; [|lia]. cbn [sounding_remove].
  destruct m; cbn [is_off_for] in Hoff; try discriminate.
  - apply andb_true_iff in Hoff as [Hoff Hv0]. apply andb_true_iff in Hoff as [Hc Hp].
    apply Z.eqb_eq in Hc, Hp. subst ch pitch.
    destruct (0 <? vel) eqn:E2; [lia|]. cbn [zlookup]. rewrite Z.eqb_refl.
    rewrite IH. destruct n; reflexivity.
  - apply andb_true_iff in Hoff as [Hc Hp]. apply Z.eqb_eq in Hc, Hp. subst ch pitch.
    cbn [zlookup]. rewrite Z.eqb_refl.
    rewrite IH. destruct n; reflexivity.
Qed.

Definition well_interleaved (ws : list wnote) (l : list (Z * msg)) : Prop :=
  forall k, proj k l = flat_map wnote_events (filter (fun w => on_key k (fst w)) ws).

Lemma map_filter_fst k (ws : list wnote) :
  map fst (filter (fun w => on_key k (fst w)) ws) = filter (on_key k) (map fst ws).
Proof. induction ws as [|w r IH]; simpl; auto. destruct (on_key k (fst w)); simpl; rewrite IH; reflexivity. Qed.

Lemma pairing_inverts_lemma ws l :
  Forall wnote_ok ws -> well_interleaved ws l -> Permutation (pair_notes [] l) (map fst ws).
Proof.
  intros Hok Hint. apply (filter_eq_perm key_of). intros k.
  change (fun x => key_of x =? k) with (on_key k).
  rewrite pair_notes_key. change (restrict [] k) with (@nil (Z * (Z * Z))).
  rewrite Hint, pair_notes_written.
  - apply map_filter_fst.
  - apply Forall_forall. intros w Hw. apply filter_In in Hw as [Hw _].
    rewrite Forall_forall in Hok. auto.
Qed.

Lemma pairing_inverts_example_lemma :
  let ws := [(mkLN 60 64 0 0 10, NoteOff 0 60 0); (mkLN 64 70 1 5 20, NoteOn 1 64 0); (mkLN 60 30 0 10 12, NoteOff 0 60 99)] in
  let l := [(0, NoteOn 0 60 64); (5, NoteOn 1 64 70); (7, CC 0 64 127); (10, NoteOff 0 60 0); (10, NoteOn 0 60 30);
            (11, Tempo 400000); (12, NoteOff 0 60 99); (20, NoteOn 1 64 0)] in
  Forall wnote_ok ws /\ well_interleaved ws l /\ pair_notes [] l = [mkLN 60 64 0 0 10; mkLN 60 30 0 10 12; mkLN 64 70 1 5 20].
Proof.
  cbv zeta. split; [|split].
  - repeat constructor; cbn; lia.
  - intros k. unfold proj, on_key, key_of, note_hash. cbn -[Z.eqb].
    destruct (60 =? k) eqn:E1; destruct (192 =? k) eqn:E2; try lia; reflexivity.
  - vm_compute. reflexivity.
Qed.
