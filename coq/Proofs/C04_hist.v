(* C04 -- proofs about the history machine of Model/C04_hist.v *)
From PV Require Import Lib.Base Model.C04 Model.C04_hist Proofs.C04.
#[local] Open Scope Z_scope.

Lemma qd_at_below : forall l d a x, increasing_from a l = true -> x <= a -> qd_at d l x = d.
Proof.
  induction l as [|[t0 q0] r IH]; intros d a x H Hx; simpl in *; auto.
  apply andb_prop in H. destruct H as [H1 H2]. apply Z.ltb_lt in H1.
  destruct (x <? t0) eqn:E; auto. apply Z.ltb_ge in E. lia.
Qed.

Lemma next_after_incr : forall l a t, increasing_from a l = true -> t <= a ->
  next_after l t = match l with [] => None | (t0, _) :: _ => Some t0 end.
Proof.
  destruct l as [|[t0 q0] r]; intros a t H Ht; simpl in *; auto.
  apply andb_prop in H. destruct H as [H1 _]. apply Z.ltb_lt in H1.
  destruct (t <? t0) eqn:E; auto. apply Z.ltb_ge in E. lia.
Qed.

(* set_quarter_duration implements "q from t onwards, until the next change point" *)
Lemma set_qd_spec_some : forall l d a t q x, increasing_from a l = true ->
  qd_at d (set_qd (Some d) l t q) x =
  if (t <=? x) && before_next l t x then q else qd_at d l x.
Proof.
  induction l as [|[t0 q0] r IH]; intros d a t q x H; simpl in H.
  - unfold before_next; simpl. destruct (d =? q) eqn:E; simpl.
    + apply Z.eqb_eq in E. subst. destruct (t <=? x); auto.
    + destruct (x <? t) eqn:E1, (t <=? x) eqn:E2; simpl; auto;
        [apply Z.ltb_lt in E1; apply Z.leb_le in E2; lia | apply Z.ltb_ge in E1; apply Z.leb_gt in E2; lia].
  - apply andb_prop in H. destruct H as [H1 H2]. apply Z.ltb_lt in H1.
    simpl set_qd. destruct (t0 <? t) eqn:E0.
    + apply Z.ltb_lt in E0. simpl qd_at. rewrite (IH q0 t0 t q x H2).
      unfold before_next. simpl next_after.
      assert (Et : t <? t0 = false) by (apply Z.ltb_ge; lia). rewrite Et.
      destruct (x <? t0) eqn:E1; auto.
      apply Z.ltb_lt in E1. assert (Ex : t <=? x = false) by (apply Z.leb_gt; lia). rewrite Ex. reflexivity.
    + apply Z.ltb_ge in E0. destruct (t0 =? t) eqn:E1.
      * apply Z.eqb_eq in E1. subst t0. simpl qd_at. unfold before_next. simpl next_after.
        rewrite Z.ltb_irrefl.
        rewrite (next_after_incr r t t H2 (Z.le_refl _)).
        destruct (x <? t) eqn:E2.
        -- apply Z.ltb_lt in E2. assert (Ex : t <=? x = false) by (apply Z.leb_gt; lia). rewrite Ex. reflexivity.
        -- apply Z.ltb_ge in E2. assert (Ex : t <=? x = true) by (apply Z.leb_le; lia). rewrite Ex. simpl.
           destruct r as [|[t1 q1] r']; simpl; auto.
           destruct (x <? t1); auto.
      * apply Z.eqb_neq in E1. assert (Hlt : t < t0) by lia.
        unfold before_next. simpl next_after.
        assert (Et : t <? t0 = true) by (apply Z.ltb_lt; lia). rewrite Et.
        destruct (d =? q) eqn:E2.
        -- apply Z.eqb_eq in E2. subst q. simpl qd_at.
           destruct (x <? t0) eqn:E3; [destruct (t <=? x); reflexivity | rewrite andb_false_r; reflexivity].
        -- simpl qd_at. destruct (x <? t) eqn:E3.
           ++ apply Z.ltb_lt in E3. assert (Ex : t <=? x = false) by (apply Z.leb_gt; lia). rewrite Ex. simpl.
              assert (Ex0 : x <? t0 = true) by (apply Z.ltb_lt; lia). rewrite Ex0. reflexivity.
           ++ apply Z.ltb_ge in E3. assert (Ex : t <=? x = true) by (apply Z.leb_le; lia). rewrite Ex. simpl.
              destruct (x <? t0); reflexivity.
Qed.

(* the call as made on a part: the lists start at time 0 (Part.__init__), t >= 0 *)
Theorem set_qd_spec : forall q0 r t q x, increasing_from 0 r = true -> 0 <= t ->
  qd_at q0 (set_qd None ((0, q0) :: r) t q) x =
  if (t <=? x) && before_next ((0, q0) :: r) t x then q else qd_at q0 ((0, q0) :: r) x.
Proof.
  intros q0 r t q x H Ht. simpl set_qd. destruct (0 <? t) eqn:E.
  - apply Z.ltb_lt in E. simpl qd_at. rewrite (set_qd_spec_some r q0 0 t q x H).
    unfold before_next. simpl next_after. assert (Et : t <? 0 = false) by (apply Z.ltb_ge; lia). rewrite Et.
    destruct (x <? 0) eqn:E1; auto.
    apply Z.ltb_lt in E1. assert (Ex : t <=? x = false) by (apply Z.leb_gt; lia). rewrite Ex. reflexivity.
  - apply Z.ltb_ge in E. assert (t = 0) by lia. subst t. simpl. unfold before_next. simpl next_after.
    rewrite (next_after_incr r 0 0 H (Z.le_refl _)).
    destruct (x <? 0) eqn:E1.
    + apply Z.ltb_lt in E1. assert (Ex : 0 <=? x = false) by (apply Z.leb_gt; lia). rewrite Ex. reflexivity.
    + apply Z.ltb_ge in E1. assert (Ex : 0 <=? x = true) by (apply Z.leb_le; lia). rewrite Ex. simpl.
      destruct r as [|[t1 q1] r']; simpl; auto. destruct (x <? t1); auto.
Qed.

Lemma set_qd_increasing : forall l prev a t q, increasing_from a l = true -> a < t ->
  increasing_from a (set_qd prev l t q) = true.
Proof.
  induction l as [|[t0 q0] r IH]; intros prev a t q H Ha; simpl in *.
  - destruct prev as [p|]; [destruct (p =? q)|]; simpl; auto; rewrite andb_true_r; apply Z.ltb_lt; auto.
  - apply andb_prop in H. destruct H as [H1 H2]. destruct (t0 <? t) eqn:E0.
    + simpl. rewrite H1. simpl. apply IH; auto. apply Z.ltb_lt; auto.
    + destruct (t0 =? t) eqn:E1.
      * simpl. rewrite H1, H2. reflexivity.
      * apply Z.ltb_ge in E0. apply Z.eqb_neq in E1.
        assert (Hs : increasing_from a ((t, q) :: (t0, q0) :: r) = true).
        { simpl. rewrite H2. assert (X : a <? t = true) by (apply Z.ltb_lt; auto). rewrite X.
          assert (Y : t <? t0 = true) by (apply Z.ltb_lt; lia). rewrite Y. reflexivity. }
        destruct prev as [p|]; [destruct (p =? q)|]; auto; simpl; rewrite H1, H2; reflexivity.
Qed.

Lemma qd_at_in : forall l d x, qd_at d l x = d \/ In (qd_at d l x) (map snd l).
Proof.
  induction l as [|[t0 q0] r IH]; intros d x; simpl; auto.
  destruct (x <? t0); auto. destruct (IH q0 x) as [H|H]; [right; left; symmetry; exact H | right; right; exact H].
Qed.

(* ---- histories *)
Lemma state_after_snoc : forall ops st o, state_after st (ops ++ [o]) = edit (state_after st ops) o.
Proof. intros. unfold state_after. rewrite fold_left_app. reflexivity. Qed.

Lemma run_spec_gen : forall todo st0 done, run (state_after st0 done) todo = spec_obs st0 done todo.
Proof.
  induction todo as [|o r IH]; intros st0 done; simpl; auto.
  destruct o; simpl.
  - rewrite <- IH, state_after_snoc. reflexivity.
  - rewrite <- IH, state_after_snoc. reflexivity.
  - rewrite <- IH, state_after_snoc. reflexivity.
Qed.

(* forall history: every observation is f(current state), the current state being the fold of the edits so far *)
Theorem run_is_current_state : forall st ops, run st ops = spec_obs st [] ops.
Proof. intros. exact (run_spec_gen ops st []). Qed.

Lemma run_app_export : forall ops st mn,
  run st (ops ++ [HExport mn]) = run st ops ++ [observe (state_after st ops) mn].
Proof.
  induction ops as [|o r IH]; intros st mn; simpl; auto.
  destruct o; simpl; rewrite IH; reflexivity.
Qed.

(* whatever happened before: the ticks per quarter written by an export are a multiple of every quarter
   duration the parts hold NOW *)
Theorem history_ppq_divisible : forall st ops mn,
  (forall q, In q (all_q (state_after st ops)) -> 0 < q) ->
  exists ppq, run st (ops ++ [HExport mn]) = run st ops ++ [Some ppq] /\ mn <= ppq /\
              forall q, In q (all_q (state_after st ops)) -> (q | ppq).
Proof.
  intros st ops mn Hpos. rewrite run_app_export. unfold observe.
  destruct (ppq_spec (all_q (state_after st ops)) mn Hpos) as [ppq [H1 [H2 [_ [H4 _]]]]].
  exists ppq. rewrite H1. auto.
Qed.

(* the memoising variant is refuted: an edit between two exports with equal minimum_ppq *)
Example run_memo_refuted :
  exists st ops, run_memo [] st ops <> spec_obs st [] ops /\ run st ops = spec_obs st [] ops.
Proof.
  exists [[(0, 4)]], [HExport 0; HSetQD 0 0 5; HExport 0]. split; [vm_compute; discriminate | reflexivity].
Qed.

(* non-vacuity: a history with an insertion, a redundant insertion, an overwrite and a replaced part *)
Example history_example_pf :
  run [[(0, 4)]; [(0, 6)]] [HExport 0; HSetQD 0 16 5; HExport 0; HSetQD 0 32 5; HSetQD 1 0 8; HExport 100;
                            HSetItem 0 [(0, 3)]; HExport 0]
  = [Some 12; Some 60; Some 160; Some 24]
  /\ state_after [[(0, 4)]; [(0, 6)]] [HSetQD 0 16 5; HSetQD 0 32 5; HSetQD 1 0 8] = [[(0, 4); (16, 5)]; [(0, 8)]].
Proof. split; reflexivity. Qed.
