(* C11 -- the estimator converts back exactly on exact hits *)
From PV Require Import Lib.Base Lib.Round Gen.C11_Tables Model.C11 Model.C11_Spec Proofs.C11_lib.
From Coq Require Import QArith Qabs Qround Qminmax Qfield.
#[local] Open Scope Z_scope.

(* ---- table consistency, re-checked against the reflected tables on every build *)
Definition table_consistent : bool :=
  Nat.eqb (List.length sym_durs) (List.length durs) &&
  forallb (fun i => match nth_error sym_durs i with
                    | Some (ty, dots) => match table_value (ty, dots, None) with
                                         | Some v => Qeq_bool v (qnth durs i)
                                         | None => false
                                         end
                    | None => false
                    end) (seq 0 (List.length durs)).

Lemma table_consistent_ok : table_consistent = true.
Proof. vm_compute. reflexivity. Qed.

Definition straight_consistent : bool :=
  forallb (fun k => match slookup (nth k sym_straight ""%string) label_durs with
                    | Some lab => Qeq_bool lab (qnth straight_durs k) && Qltb 0 lab
                    | None => false
                    end) (seq 0 (Datatypes.S (List.length (filter (fun x => Qltb x 4) straight_durs))))
  && match nth_error dot_multipliers 0 with Some dm => Qeq_bool dm 1 | None => false end.

Lemma straight_consistent_ok : straight_consistent = true.
Proof. vm_compute. reflexivity. Qed.

Lemma filter_length_mono {A} (p q : A -> bool) l :
  (forall x, p x = true -> q x = true) -> (List.length (filter p l) <= List.length (filter q l))%nat.
Proof.
  intros H. induction l as [|x l IH]; simpl; [lia|].
  destruct (p x) eqn:P.
  - rewrite (H x P). simpl. lia.
  - destruct (q x); simpl; lia.
Qed.

Lemma Qltb_lt a b : Qltb a b = true <-> (a < b)%Q.
Proof.
  unfold Qltb. rewrite negb_true_iff. split.
  - intros H. apply Qnot_le_lt. intros L. apply Qle_bool_iff in L. congruence.
  - intros H. destruct (Qle_bool b a) eqn:E; [|reflexivity]. apply Qle_bool_iff in E.
    exfalso. apply (Qlt_not_le _ _ H E).
Qed.

Lemma count_lt_le4 q : Qltb 4 q = false -> (count_lt straight_durs q <= List.length (filter (fun x => Qltb x 4) straight_durs))%nat.
Proof.
  intros H. unfold count_lt. apply filter_length_mono. intros x Hx.
  apply Qltb_lt in Hx. apply Qltb_lt.
  assert (q <= 4)%Q.
  { destruct (Qlt_le_dec 4 q) as [L|L]; [|exact L]. apply Qltb_lt in L. congruence. }
  eapply Qlt_le_trans; eassumption.
Qed.

Lemma tuplet_value (divq S nq qdur aq : Q) :
  ~ qdur == 0 -> ~ S == 0 -> ~ nq == 0 -> nq * S / qdur == aq ->
  (divq * S * 1 * (nq / aq) == divq * qdur)%Q.
Proof.
  intros Hq HS Hn E. rewrite <- E. field. repeat split; assumption.
Qed.

Lemma table_hit_value (divq lab dm dur qdur : Q) :
  (lab * dm == dur -> qdur == dur -> divq * lab * dm * (1 / 1) == divq * qdur)%Q.
Proof. intros E1 E2. rewrite E2, <- E1. field. Qed.

Lemma div_qdur d div : 0 < div -> (inject_Z div * (inject_Z d / inject_Z div) == inject_Z d)%Q.
Proof.
  intros H. field. intros E. unfold Qeq in E. simpl in E. lia.
Qed.

(* the loop result, with the fuel abstract (keeps the kernel from unrolling it) *)
Lemma tuplet_loop_inv fuel eps S qdur x a n :
  iter2 fuel (tuplet_step eps S qdur) 2 = inr (a, n) -> x = 2 ->
  n >= 2 /\ a = round_half_even (inject_Z n * S / qdur).
Proof.
  intros H _.
  pose proof (iter2_inv (fun n => 2 <= n) (fun r => snd r >= 2 /\ fst r = round_half_even (inject_Z (snd r) * S / qdur))
                (tuplet_step eps S qdur)) as L.
  assert (Hs : forall x, 2 <= x -> match tuplet_step eps S qdur x with
                                    | inl x' => 2 <= x'
                                    | inr r => snd r >= 2 /\ fst r = round_half_even (inject_Z (snd r) * S / qdur)
                                    end).
  { intros y Hy. unfold tuplet_step. destruct (near_int eps (inject_Z y * S / qdur)); simpl; [split; [lia|reflexivity] | lia]. }
  specialize (L Hs fuel 2 (Z.le_refl 2)). rewrite H in L. exact L.
Qed.

Lemma table_branch i ty dots qdur d div :
  0 < div -> (qdur == inject_Z d / inject_Z div)%Q ->
  nth_error sym_durs i = Some (ty, dots) -> (qdur == qnth durs i)%Q ->
  exists v, sym_to_num (ty, dots, None) div = Some v /\ (v == inject_Z d)%Q.
Proof.
  intros Hdiv Eq EN Hx.
  pose proof table_consistent_ok as TC. unfold table_consistent in TC.
  apply andb_true_iff in TC as [TL TC]. apply Nat.eqb_eq in TL.
  rewrite forallb_forall in TC.
  assert (Hi : In i (seq 0 (List.length durs))).
  { apply in_seq. split; [lia|]. rewrite Nat.add_0_l, <- TL. apply nth_error_Some. congruence. }
  specialize (TC i Hi). rewrite EN in TC. unfold table_value in TC.
  destruct (slookup ty label_durs) as [lab|] eqn:Hlab; cbn [opt_bind] in TC; [|discriminate].
  destruct (nth_error dot_multipliers (Z.to_nat dots)) as [dm|] eqn:Hdm; cbn [opt_bind] in TC; [|discriminate].
  unfold sym_to_num. rewrite Hlab. cbn [opt_bind]. rewrite Hdm. cbn [opt_bind].
  change (0 =? 0) with true. cbv iota.
  eexists. split; [reflexivity|].
  apply Qeq_bool_iff in TC.
  rewrite (table_hit_value (inject_Z div) lab dm (qnth durs i) qdur TC Hx).
  rewrite Eq. apply div_qdur; assumption.
Qed.

Lemma tuplet_branch k a n qdur d div :
  0 < div -> (qdur == inject_Z d / inject_Z div)%Q -> (0 < qdur)%Q ->
  (k <= List.length (filter (fun x => Qltb x 4) straight_durs))%nat ->
  n >= 2 -> (inject_Z n * qnth straight_durs k / qdur == inject_Z a)%Q ->
  exists v, sym_to_num (nth k sym_straight ""%string, 0, Some (a, n)) div = Some v /\ (v == inject_Z d)%Q.
Proof.
  intros Hdiv Eq Hqpos Hle Hn Hx.
  assert (Hq0 : ~ (qdur == 0)%Q) by (intros E; rewrite E in Hqpos; apply (Qlt_irrefl 0); exact Hqpos).
  set (S := qnth straight_durs k) in *.
  remember (nth k sym_straight ""%string) as tyk eqn:Etyk.
  pose proof straight_consistent_ok as SC. unfold straight_consistent in SC.
  apply andb_true_iff in SC as [SC DM]. rewrite forallb_forall in SC.
  assert (Hk : In k (seq 0 (Datatypes.S (List.length (filter (fun x => Qltb x 4) straight_durs))))).
  { apply in_seq. split; [lia|]. rewrite Nat.add_0_l. lia. }
  specialize (SC k Hk).
  rewrite <- Etyk in SC.
  destruct (slookup tyk label_durs) as [lab|] eqn:Hlab; [|discriminate].
  apply andb_true_iff in SC as [SC1 SC2]. apply Qeq_bool_iff in SC1. apply Qltb_lt in SC2.
  destruct (nth_error dot_multipliers 0) as [dm|] eqn:Hdm; [|discriminate]. apply Qeq_bool_iff in DM.
  fold S in SC1.
  assert (HSpos : (0 < S)%Q) by (rewrite <- SC1; exact SC2).
  assert (HS0 : ~ (S == 0)%Q) by (intros E; rewrite E in HSpos; apply (Qlt_irrefl 0); exact HSpos).
  assert (Hnq : ~ (inject_Z n == 0)%Q) by (intros E; unfold Qeq in E; simpl in E; lia).
  assert (Ha0 : a <> 0).
  { intros ->. assert (R : (0 < inject_Z n * S / qdur)%Q).
    { apply Qlt_shift_div_l; [assumption|]. rewrite Qmult_0_l.
      apply Qmult_lt_0_compat; [unfold Qlt; simpl; lia|]. exact HSpos. }
    rewrite Hx in R. apply (Qlt_irrefl 0); exact R. }
  assert (En : (n =? 0) = false) by lia. assert (Ea : (a =? 0) = false) by lia.
  unfold sym_to_num. rewrite Hlab. cbn [opt_bind]. change (Z.to_nat 0) with 0%nat. rewrite Hdm. cbn [opt_bind].
  rewrite En, Ea.
  eexists. split; [reflexivity|].
  rewrite SC1, DM.
  rewrite (tuplet_value (inject_Z div) S (inject_Z n) qdur (inject_Z a) Hq0 HS0 Hnq Hx).
  rewrite Eq. apply div_qdur; assumption.
Qed.

(* the estimator and the exact-hit test with the three table searches and the fuel as
   parameters: the case analysis below never makes the kernel look into the tables *)
Definition estimate_core (fuel : nat) (eps qdur : Q) (i j k : nat) : est :=
  if Qeq_bool qdur 0 then ENone else
  if Qltb (Qabs (qdur - qnth durs i)) eps then sym_of_table i
  else
    if Qltb (Qabs (qdur - qnth composite_durs j)) eps then ENone
    else if Qltb 4 qdur then ENone
    else
      match iter2 fuel (tuplet_step eps (qnth straight_durs k) qdur) 2 with
      | inr (a, n) => ESome (nth k sym_straight ""%string, 0, Some (a, n))
      | inl _ => EFuel
      end.

Definition exact_core (fuel : nat) (eps qdur : Q) (i k : nat) : bool :=
  if Qltb (Qabs (qdur - qnth durs i)) eps then Qeq_bool qdur (qnth durs i)
  else
    match iter2 fuel (tuplet_step eps (qnth straight_durs k) qdur) 2 with
    | inr (a, n) => Qeq_bool (inject_Z n * qnth straight_durs k / qdur) (inject_Z a)
    | inl _ => false
    end.

Lemma estimate_q_core eps qdur :
  estimate_q eps qdur = estimate_core tuplet_fuel eps qdur (find_nearest durs qdur)
                          (find_nearest composite_durs qdur) (count_lt straight_durs qdur).
Proof. reflexivity. Qed.

Lemma exact_hit_core d div :
  exact_hit d div = exact_core tuplet_fuel eps_default (inject_Z d / inject_Z div)
                      (find_nearest durs (inject_Z d / inject_Z div)) (count_lt straight_durs (inject_Z d / inject_Z div)).
Proof. reflexivity. Qed.

Lemma core_exact fuel eps qdur i j k d div sd :
  0 < div -> (qdur == inject_Z d / inject_Z div)%Q -> (0 < qdur)%Q ->
  (Qltb 4 qdur = false -> (k <= List.length (filter (fun x => Qltb x 4) straight_durs))%nat) ->
  estimate_core fuel eps qdur i j k = ESome sd -> exact_core fuel eps qdur i k = true ->
  exists v, sym_to_num sd div = Some v /\ (v == inject_Z d)%Q.
Proof.
  intros Hdiv Eq' Hqpos Hk He Hx. unfold estimate_core in He. unfold exact_core in Hx.
  destruct (Qeq_bool qdur 0) eqn:E0; [discriminate|].
  destruct (Qltb (Qabs (qdur - qnth durs i)) eps) eqn:ET.
  - unfold sym_of_table in He. destruct (nth_error sym_durs i) as [[ty dots]|] eqn:EN; [|discriminate].
    injection He as <-. apply Qeq_bool_iff in Hx.
    exact (table_branch i ty dots qdur d div Hdiv Eq' EN Hx).
  - destruct (Qltb (Qabs (qdur - qnth composite_durs j)) eps); [discriminate|].
    destruct (Qltb 4 qdur) eqn:E4; [discriminate|].
    specialize (Hk eq_refl).
    remember (nth k sym_straight ""%string) as tyk eqn:Etyk.
    destruct (iter2 fuel (tuplet_step eps (qnth straight_durs k) qdur) 2) as [x|[a n]] eqn:EI; [discriminate|].
    injection He as <-.
    destruct (tuplet_loop_inv fuel _ _ _ 2 a n EI eq_refl) as [Hn Ha].
    apply Qeq_bool_iff in Hx. rewrite Etyk.
    exact (tuplet_branch k a n qdur d div Hdiv Eq' Hqpos Hk Hn Hx).
Qed.

Lemma estimate_exact_lemma d div sd :
  0 < d -> 0 < div -> estimate d div = ESome sd -> exact_hit d div = true ->
  exists v, sym_to_num sd div = Some v /\ (v == inject_Z d)%Q.
Proof.
  intros Hd Hdiv He Hx. unfold estimate in He. rewrite estimate_q_core in He. rewrite exact_hit_core in Hx.
  assert (Hqpos : (0 < inject_Z d / inject_Z div)%Q).
  { apply Qlt_shift_div_l; [unfold Qlt; simpl; lia|]. unfold Qlt; simpl; lia. }
  refine (core_exact _ _ _ _ _ _ d div sd Hdiv (Qeq_refl _) Hqpos _ He Hx).
  apply count_lt_le4.
Qed.


(* ---- the eps tolerance: how far a reported value can be from the numeric duration *)

(* the loop stops only at an n whose quotient is within eps of the integer it reports *)
Lemma tuplet_loop_near fuel eps S qdur a n :
  iter2 fuel (tuplet_step eps S qdur) 2 = inr (a, n) ->
  near_int eps (inject_Z n * S / qdur) = true.
Proof.
  intros H.
  pose proof (iter2_inv (fun _ => True) (fun r => near_int eps (inject_Z (snd r) * S / qdur) = true)
                (tuplet_step eps S qdur)) as L.
  assert (Hs : forall x, True -> match tuplet_step eps S qdur x with
                                 | inl _ => True
                                 | inr r => near_int eps (inject_Z (snd r) * S / qdur) = true
                                 end).
  { intros y _. unfold tuplet_step. destruct (near_int eps (inject_Z y * S / qdur)) eqn:E; simpl; [exact E|exact I]. }
  specialize (L Hs fuel 2 I). rewrite H in L. exact L.
Qed.

Lemma table_branch_value i ty dots div :
  nth_error sym_durs i = Some (ty, dots) ->
  exists tv v, table_value (ty, dots, None) = Some tv /\ (tv == qnth durs i)%Q
               /\ sym_to_num (ty, dots, None) div = Some v /\ (v == inject_Z div * tv)%Q.
Proof.
  intros EN.
  pose proof table_consistent_ok as TC. unfold table_consistent in TC.
  apply andb_true_iff in TC as [TL TC]. apply Nat.eqb_eq in TL.
  rewrite forallb_forall in TC.
  assert (Hi : In i (seq 0 (List.length durs))).
  { apply in_seq. split; [lia|]. rewrite Nat.add_0_l, <- TL. apply nth_error_Some. congruence. }
  specialize (TC i Hi). rewrite EN in TC. unfold table_value in *.
  destruct (slookup ty label_durs) as [lab|] eqn:Hlab; cbn [opt_bind] in *; [|discriminate].
  destruct (nth_error dot_multipliers (Z.to_nat dots)) as [dm|] eqn:Hdm; cbn [opt_bind] in *; [|discriminate].
  apply Qeq_bool_iff in TC.
  exists (lab * dm)%Q. eexists. split; [reflexivity|]. split; [exact TC|].
  unfold sym_to_num. rewrite Hlab. cbn [opt_bind]. rewrite Hdm. cbn [opt_bind].
  change (0 =? 0) with true. cbv iota. split; [reflexivity|]. field.
Qed.

Lemma core_within_eps fuel eps qdur i j k sd :
  estimate_core fuel eps qdur i j k = ESome sd ->
  match sd with
  | (ty, dots, None) => nth_error sym_durs i = Some (ty, dots) /\ (Qabs (qdur - qnth durs i) < eps)%Q
  | (ty, dots, Some (a, n)) =>
      ty = nth k sym_straight ""%string /\ dots = 0 /\ n >= 2
      /\ a = round_half_even (inject_Z n * qnth straight_durs k / qdur)
      /\ (Qabs (inject_Z n * qnth straight_durs k / qdur - inject_Z a) <= eps)%Q
  end.
Proof.
  intros He. unfold estimate_core in He.
  destruct (Qeq_bool qdur 0) eqn:E0; [discriminate|].
  destruct (Qltb (Qabs (qdur - qnth durs i)) eps) eqn:ET.
  - unfold sym_of_table in He. destruct (nth_error sym_durs i) as [[ty dots]|] eqn:EN; [|discriminate].
    injection He as <-. split; [reflexivity|]. apply Qltb_lt. exact ET.
  - destruct (Qltb (Qabs (qdur - qnth composite_durs j)) eps); [discriminate|].
    destruct (Qltb 4 qdur) eqn:E4; [discriminate|].
    remember (nth k sym_straight ""%string) as tyk eqn:Etyk.
    destruct (iter2 fuel (tuplet_step eps (qnth straight_durs k) qdur) 2) as [x|[a n]] eqn:EI; [discriminate|].
    injection He as <-.
    destruct (tuplet_loop_inv fuel _ _ _ 2 a n EI eq_refl) as [Hn Ha].
    pose proof (tuplet_loop_near fuel _ _ _ a n EI) as Hnear.
    repeat split; try assumption.
    unfold near_int in Hnear. apply Qle_bool_iff in Hnear. rewrite <- Ha in Hnear. exact Hnear.
Qed.

Lemma estimate_table_within_eps_lemma d div ty dots :
  estimate d div = ESome (ty, dots, None) ->
  exists tv v, table_value (ty, dots, None) = Some tv
    /\ (Qabs (inject_Z d / inject_Z div - tv) < eps_default)%Q
    /\ sym_to_num (ty, dots, None) div = Some v /\ (v == inject_Z div * tv)%Q.
Proof.
  intros He. unfold estimate in He. rewrite estimate_q_core in He.
  apply core_within_eps in He. destruct He as [EN Hlt].
  destruct (table_branch_value _ ty dots div EN) as (tv & v & T1 & T2 & T3 & T4).
  exists tv, v. split; [exact T1|]. split; [|split; assumption].
  rewrite T2. exact Hlt.
Qed.

Lemma estimate_tuplet_within_eps_lemma d div ty dots a n :
  estimate d div = ESome (ty, dots, Some (a, n)) ->
  dots = 0 /\ n >= 2 /\
  exists S, S = qnth straight_durs (count_lt straight_durs (inject_Z d / inject_Z div))
    /\ a = round_half_even (inject_Z n * S / (inject_Z d / inject_Z div))
    /\ (Qabs (inject_Z n * S / (inject_Z d / inject_Z div) - inject_Z a) <= eps_default)%Q.
Proof.
  intros He. unfold estimate in He. rewrite estimate_q_core in He.
  apply core_within_eps in He. destruct He as (_ & Hd & Hn & Ha & Hle).
  split; [exact Hd|]. split; [exact Hn|]. eexists. split; [reflexivity|]. split; assumption.
Qed.

(* the strict reading of O4 fails inside the domain 1..960: witnesses for the two known findings *)
Lemma estimate_eps_refuted_lemma :
  exists d div sd v, 1 <= div <= 960 /\ 0 < d /\ estimate d div = ESome sd /\ sym_to_num sd div = Some v
                     /\ Qeq_bool v (inject_Z d) = false.
Proof. exists 15, 950, ("256th"%string, 0, None). eexists. vm_compute. repeat split; discriminate. Qed.

Lemma estimate_tuplet_eps_refuted_lemma :
  exists d div sd v, 1 <= div <= 960 /\ 0 < d /\ estimate d div = ESome sd /\ sym_to_num sd div = Some v
                     /\ Qeq_bool v (inject_Z d) = false.
Proof. exists 1007, 480, ("whole"%string, 0, Some (143, 75)). eexists. vm_compute. repeat split; discriminate. Qed.


(* ---- the judgement of a sweep row depends on d/div and the answer only: a row (k*d, k*div) with
   the answer of (d, div) is judged as (d, div) is *)
Lemma Qeq_bool_comp a a' b b' : (a == a')%Q -> (b == b')%Q -> Qeq_bool a b = Qeq_bool a' b'.
Proof.
  intros Ea Eb. destruct (Qeq_bool a b) eqn:E1, (Qeq_bool a' b') eqn:E2; try reflexivity.
  - apply Qeq_bool_iff in E1. rewrite Ea, Eb in E1. apply Qeq_bool_iff in E1. congruence.
  - apply Qeq_bool_iff in E2. rewrite <- Ea, <- Eb in E2. apply Qeq_bool_iff in E2. congruence.
Qed.

Lemma Qle_bool_comp a a' b b' : (a == a')%Q -> (b == b')%Q -> Qle_bool a b = Qle_bool a' b'.
Proof.
  intros Ea Eb. destruct (Qle_bool a b) eqn:E1, (Qle_bool a' b') eqn:E2; try reflexivity.
  - apply Qle_bool_iff in E1. rewrite Ea, Eb in E1. apply Qle_bool_iff in E1. congruence.
  - apply Qle_bool_iff in E2. rewrite <- Ea, <- Eb in E2. apply Qle_bool_iff in E2. congruence.
Qed.

Lemma qdur_scale k d div : 0 < k -> 0 < div ->
  (inject_Z (k * d) / inject_Z (k * div) == inject_Z d / inject_Z div)%Q.
Proof.
  intros Hk Hd. rewrite !inject_Z_mult. field. split; intros E; unfold Qeq in E; simpl in E; lia.
Qed.

Lemma sym_to_num_scale k sd div :
  match sym_to_num sd div with
  | Some v => exists v', sym_to_num sd (k * div) = Some v' /\ (v' == inject_Z k * v)%Q
  | None => sym_to_num sd (k * div) = None
  end.
Proof.
  destruct sd as [[ty dots] tup]. unfold sym_to_num.
  destruct (slookup ty label_durs) as [lab|]; cbn [opt_bind]; [|reflexivity].
  destruct (nth_error dot_multipliers (Z.to_nat dots)) as [dm|]; cbn [opt_bind]; [|reflexivity].
  destruct (match tup with Some (a, n) => (a, n) | None => (0, 0) end) as [a n].
  eexists. split; [reflexivity|]. rewrite inject_Z_mult. ring.
Qed.

Lemma classify_row_scale_lemma k d div obs :
  0 < k -> 0 < div -> classify_row (k * d) (k * div) obs = classify_row d div obs.
Proof.
  intros Hk Hd. unfold classify_row. destruct obs as [sd|]; [|reflexivity].
  pose proof (sym_to_num_scale k sd div) as Hs.
  destruct (sym_to_num sd div) as [v|]; [|rewrite Hs; reflexivity].
  destruct Hs as (v' & -> & Ev).
  assert (Hkq : ~ (inject_Z k == 0)%Q) by (intros E; unfold Qeq in E; simpl in E; lia).
  assert (E1 : Qeq_bool v' (inject_Z (k * d)) = Qeq_bool v (inject_Z d)).
  { destruct (Qeq_bool v (inject_Z d)) eqn:E.
    - apply Qeq_bool_iff in E. apply Qeq_bool_iff. rewrite Ev, E, inject_Z_mult. reflexivity.
    - destruct (Qeq_bool v' (inject_Z (k * d))) eqn:E'; [|reflexivity].
      apply Qeq_bool_iff in E'. rewrite Ev, inject_Z_mult in E'.
      apply Qmult_inj_l in E'; [|exact Hkq]. apply Qeq_bool_iff in E'. congruence. }
  rewrite E1. destruct (Qeq_bool v (inject_Z d)); [reflexivity|].
  pose proof (qdur_scale k d div Hk Hd) as Eq.
  destruct sd as [[ty dots] [[a n]|]].
  - destruct (slookup ty label_durs) as [lab|]; [|reflexivity].
    rewrite (Qle_bool_comp (Qabs (inject_Z n * lab / (inject_Z (k * d) / inject_Z (k * div)) - inject_Z a))
                           (Qabs (inject_Z n * lab / (inject_Z d / inject_Z div) - inject_Z a))
                           (thousandth + (1 # 1000000000)) (thousandth + (1 # 1000000000))).
    + reflexivity.
    + rewrite Eq. reflexivity.
    + reflexivity.
  - destruct (table_value (ty, dots, None)) as [tv|]; [|reflexivity].
    assert (Ed : (Qabs (inject_Z (k * d) / inject_Z (k * div) - tv) == Qabs (inject_Z d / inject_Z div - tv))%Q)
      by (rewrite Eq; reflexivity).
    rewrite (Qle_bool_comp thousandth thousandth (Qabs (inject_Z (k * d) / inject_Z (k * div) - tv))
                           (Qabs (inject_Z d / inject_Z div - tv)) (Qeq_refl _) Ed).
    rewrite (Qle_bool_comp (Qabs (inject_Z (k * d) / inject_Z (k * div) - tv))
                           (Qabs (inject_Z d / inject_Z div - tv)) thousandth thousandth Ed (Qeq_refl _)).
    reflexivity.
Qed.

(* the boundary of the known finding K1 in the judgement of the sweep: a table answer that does not convert back is
   class 2 only STRICTLY within 1/1000 quarter of the table value it names -- whatever tolerance the code under test uses *)
Lemma known_table_hit_strictly_within_eps_lemma d div ty dots :
  classify_row d div (Some (ty, dots, None)) = 2 ->
  exists tv, table_value (ty, dots, None) = Some tv
    /\ (Qabs (inject_Z d / inject_Z div - tv) < 1 # 1000)%Q.
Proof.
  unfold classify_row. destruct (sym_to_num (ty, dots, None) div) as [v|]; [|discriminate].
  destruct (Qeq_bool v (inject_Z d)); [discriminate|].
  destruct (table_value (ty, dots, None)) as [tv|]; [|discriminate].
  destruct (Qle_bool thousandth (Qabs (inject_Z d / inject_Z div - tv))) eqn:E.
  - destruct (Qle_bool (Qabs (inject_Z d / inject_Z div - tv)) thousandth); discriminate.
  - intros _. exists tv. split; [reflexivity|]. apply Qnot_le_lt. intros H.
    apply Qle_bool_iff in H. unfold thousandth in E. congruence.
Qed.

(* ... and the class is not empty on either side: (15, 950) -> 256th is a known inexact hit (1/60800 quarter away);
   (5761, 960) -> dotted whole, ONE division = 1/960 quarter away, is a violation, and the model of the code does not
   give that answer; (469, 250) -> quarter with three dots is exactly 1/1000 away (class 5) *)
Lemma one_division_off_is_a_violation_lemma :
  classify_row 15 950 (Some ("256th"%string, 0, None)) = 2
  /\ classify_row 5761 960 (Some ("whole"%string, 1, None)) = 4
  /\ classify_row 5759 960 (Some ("whole"%string, 1, None)) = 4
  /\ classify_row 28801 960 (Some ("long"%string, 3, None)) = 4
  /\ classify_row 469 250 (Some ("quarter"%string, 3, None)) = 5
  /\ estimate 5761 960 = ENone /\ estimate 28801 960 = ENone
  /\ estimate 5760 960 = ESome ("whole"%string, 1, None).
Proof. vm_compute. repeat split; reflexivity. Qed.
