(* C11 -- the estimator converts back exactly on exact hits *)
From PV Require Import Lib.Base Lib.Round Gen.C11_Tables Model.C11 Model.C11_Spec Proofs.C11_lib.
From Coq Require Import QArith Qabs Qround Qminmax Qfield.
#[local] Open Scope Z_scope.

(* ---- table consistency, re-checked against the reflected tables on every build *)
Definition table_consistent : bool :=
  Nat.eqb (List.length sym_durs) (List.length durs) &&
  forallb (fun i => match nth_error sym_durs i with
                    | Some (ty, dots) => match table_value (ty, dots, None) with
                                         | Some v => Qeq_bool v (qnth durs i)
                                         | None => false
                                         end
                    | None => false
                    end) (seq 0 (List.length durs)).

Lemma table_consistent_ok : table_consistent = true.
Proof. vm_compute. reflexivity. Qed.

Definition straight_consistent : bool :=
  forallb (fun k => match slookup (nth k sym_straight ""%string) label_durs with
                    | Some lab => Qeq_bool lab (qnth straight_durs k) && Qltb 0 lab
                    | None => false
                    end) (seq 0 (Datatypes.S (List.length (filter (fun x => Qltb x 4) straight_durs))))
  && match nth_error dot_multipliers 0 with Some dm => Qeq_bool dm 1 | None => false end.

Lemma straight_consistent_ok : straight_consistent = true.
Proof. vm_compute. reflexivity. Qed.

Lemma filter_length_mono {A} (p q : A -> bool) l :
  (forall x, p x = true -> q x = true) -> (List.length (filter p l) <= List.length (filter q l))%nat.
Proof.
  intros H. induction l as [|x l IH]; simpl; [lia|].
  destruct (p x) eqn:P.
  - rewrite (H x P). simpl. lia.
  - destruct (q x); simpl; lia.
Qed.

Lemma Qltb_lt a b : Qltb a b = true <-> (a < b)%Q.
Proof.
  unfold Qltb. rewrite negb_true_iff. split.
  - intros H. apply Qnot_le_lt. intros L. apply Qle_bool_iff in L. congruence.
  - intros H. destruct (Qle_bool b a) eqn:E; [|reflexivity]. apply Qle_bool_iff in E.
    exfalso. apply (Qlt_not_le _ _ H E).
Qed.

Lemma count_lt_le4 q : Qltb 4 q = false -> (count_lt straight_durs q <= List.length (filter (fun x => Qltb x 4) straight_durs))%nat.
Proof.
  intros H. unfold count_lt. apply filter_length_mono. intros x Hx.
  apply Qltb_lt in Hx. apply Qltb_lt.
  assert (q <= 4)%Q.
  { destruct (Qlt_le_dec 4 q) as [L|L]; [|exact L]. apply Qltb_lt in L. congruence. }
  eapply Qlt_le_trans; eassumption.
Qed.

Lemma tuplet_value (divq S nq qdur aq : Q) :
  ~ qdur == 0 -> ~ S == 0 -> ~ nq == 0 -> nq * S / qdur == aq ->
  (divq * S * 1 * (nq / aq) == divq * qdur)%Q.
Proof.
  intros Hq HS Hn E. rewrite <- E. field. repeat split; assumption.
Qed.

Lemma table_hit_value (divq lab dm dur qdur : Q) :
  (lab * dm == dur -> qdur == dur -> divq * lab * dm * (1 / 1) == divq * qdur)%Q.
Proof. intros E1 E2. rewrite E2, <- E1. field. Qed.

Lemma div_qdur d div : 0 < div -> (inject_Z div * (inject_Z d / inject_Z div) == inject_Z d)%Q.
Proof.
  intros H. field. intros E. unfold Qeq in E. simpl in E. lia.
Qed.

Lemma estimate_exact_lemma d div sd :
  0 < d -> 0 < div -> estimate d div = ESome sd -> exact_hit d div = true ->
  exists v, sym_to_num sd div = Some v /\ (v == inject_Z d)%Q.
Proof.
  intros Hd Hdiv He Hx. unfold estimate, estimate_q in He. unfold exact_hit in Hx.
  set (qdur := (inject_Z d / inject_Z div)%Q) in *.
  assert (Hqpos : (0 < qdur)%Q).
  { unfold qdur. apply Qlt_shift_div_l; [unfold Qlt; simpl; lia|]. unfold Qlt; simpl; lia. }
  assert (Hq0 : ~ (qdur == 0)%Q) by (intros E; rewrite E in Hqpos; discriminate).
  destruct (Qeq_bool qdur 0) eqn:E0; [discriminate|].
  set (i := find_nearest durs qdur) in *.
  destruct (Qltb (Qabs (qdur - qnth durs i)) eps_default) eqn:ET.
  - (* table hit *)
    unfold sym_of_table in He. destruct (nth_error sym_durs i) as [[ty dots]|] eqn:EN; [|discriminate].
    injection He as <-.
    pose proof table_consistent_ok as TC. unfold table_consistent in TC.
    apply andb_true_iff in TC as [TL TC]. apply Nat.eqb_eq in TL.
    rewrite forallb_forall in TC.
    assert (Hi : In i (seq 0 (List.length durs))).
    { apply in_seq. split; [lia|]. rewrite Nat.add_0_l, <- TL. apply nth_error_Some. congruence. }
    specialize (TC i Hi). rewrite EN in TC. unfold table_value in TC.
    destruct (slookup ty label_durs) as [lab|] eqn:Hlab; cbn [opt_bind] in TC; [|discriminate].
    destruct (nth_error dot_multipliers (Z.to_nat dots)) as [dm|] eqn:Hdm; cbn [opt_bind] in TC; [|discriminate].
    unfold sym_to_num. cbv beta iota zeta. rewrite Hlab. cbn [opt_bind]. rewrite Hdm. cbn [opt_bind].
    change (0 =? 0) with true. cbv iota.
    eexists. split; [reflexivity|].
    apply Qeq_bool_iff in TC. apply Qeq_bool_iff in Hx.
    rewrite (table_hit_value (inject_Z div) lab dm (qnth durs i) qdur TC Hx).
    apply div_qdur; assumption.
  - (* not a table hit *)
    set (j := find_nearest composite_durs qdur) in *.
    destruct (Qltb (Qabs (qdur - qnth composite_durs j)) eps_default); [discriminate|].
    destruct (Qltb 4 qdur) eqn:E4; [discriminate|].
    set (k := count_lt straight_durs qdur) in *.
    set (S := qnth straight_durs k) in *.
    remember (nth k sym_straight ""%string) as tyk eqn:Etyk.
    pose proof (iter2_inv (fun n => 2 <= n) (fun r => snd r >= 2 /\ fst r = round_half_even (inject_Z (snd r) * S / qdur))
                  (tuplet_step eps_default S qdur)) as L.
    assert (Hs : forall x, 2 <= x -> match tuplet_step eps_default S qdur x with
                                      | inl x' => 2 <= x'
                                      | inr r => snd r >= 2 /\ fst r = round_half_even (inject_Z (snd r) * S / qdur)
                                      end).
    { intros x Hx2. unfold tuplet_step. destruct (near_int eps_default (inject_Z x * S / qdur)); simpl; [split; [lia|reflexivity] | lia]. }
    specialize (L Hs tuplet_fuel 2 (Z.le_refl 2)).
    destruct (iter2 tuplet_fuel (tuplet_step eps_default S qdur) 2) as [x|[a n]]; [discriminate|].
    injection He as <-. simpl in L. destruct L as [Hn Ha].
    apply Qeq_bool_iff in Hx.
    pose proof straight_consistent_ok as SC. unfold straight_consistent in SC.
    apply andb_true_iff in SC as [SC DM]. rewrite forallb_forall in SC.
    assert (Hk : In k (seq 0 (Datatypes.S (List.length (filter (fun x => Qltb x 4) straight_durs))))).
    { apply in_seq. split; [lia|]. rewrite Nat.add_0_l.
      pose proof (count_lt_le4 qdur E4) as Hle. fold k in Hle. lia. }
    specialize (SC k Hk).
    rewrite <- Etyk in SC.
    destruct (slookup tyk label_durs) as [lab|] eqn:Hlab; [|discriminate].
    apply andb_true_iff in SC as [SC1 SC2]. apply Qeq_bool_iff in SC1. apply Qltb_lt in SC2.
    destruct (nth_error dot_multipliers 0) as [dm|] eqn:Hdm; [|discriminate]. apply Qeq_bool_iff in DM.
    assert (HS0 : ~ (S == 0)%Q) by (intros E; fold S in SC1; rewrite <- SC1 in E; rewrite E in SC2; discriminate).
    assert (Hnq : ~ (inject_Z n == 0)%Q) by (intros E; unfold Qeq in E; simpl in E; lia).
    assert (Ha0 : a <> 0).
    { intros ->. assert (R : (0 < inject_Z n * S / qdur)%Q).
      { apply Qlt_shift_div_l; [assumption|]. rewrite Qmult_0_l.
        apply Qmult_lt_0_compat; [unfold Qlt; simpl; lia|]. fold S in SC1. rewrite <- SC1. exact SC2. }
      rewrite Hx in R. discriminate. }
    assert (En : (n =? 0) = false) by lia. assert (Ea : (a =? 0) = false) by lia.
    unfold sym_to_num. cbv beta iota zeta. rewrite Hlab. cbn [opt_bind]. change (Z.to_nat 0) with 0%nat. rewrite Hdm. cbn [opt_bind].
    rewrite En, Ea.
    eexists. split; [reflexivity|].
    fold S in SC1. rewrite SC1, DM.
    rewrite (tuplet_value (inject_Z div) S (inject_Z n) qdur (inject_Z a) Hq0 HS0 Hnq Hx).
    apply div_qdur; assumption.
Qed.
