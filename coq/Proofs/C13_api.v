(* C13 -- statements about the glue around the rasteriser: unit inference, drum filtering, the velocity
   default, the frames of a note by mode, acceptance of every valid array, the sparse assembly, and the
   round trip with a time margin / at the level of compute_pianoroll. *)
From PV Require Import Lib.Base Lib.Round Model.C13 Model.C13_Api.
From Coq Require Import QArith Qround Qabs Permutation Lqa Sorted.
From PV Require Import Proofs.C13_lib Proofs.C13 Proofs.C13_pc Proofs.C13_more Proofs.C13_decode Proofs.C13_round Proofs.C13_scan.
#[local] Open Scope Z_scope.

(* ---------- unit inference ---------- *)
Lemma has_unit_In u us : has_unit u us = true <-> In u us.
Proof.
  unfold has_unit. rewrite existsb_exists. split.
  - intros [x [Hx E]]. destruct u, x; try discriminate; exact Hx.
  - intros H. exists u. split; [exact H | destruct u; reflexivity].
Qed.

Lemma infer_unit_lemma us :
  match infer_unit us with
  | Some u => In u us /\ forall u', In u' us -> unit_rank u <= unit_rank u'
  | None => us = []
  end.
Proof.
  unfold infer_unit.
  destruct (has_unit UBeat us) eqn:E1; destruct (has_unit UQuarter us) eqn:E2;
  destruct (has_unit UDiv us) eqn:E3; destruct (has_unit USec us) eqn:E4;
  destruct (has_unit UTick us) eqn:E5; cbn [orb];
  repeat match goal with
  | H : has_unit _ _ = true |- _ => apply has_unit_In in H
  | H : has_unit ?u ?l = false |- _ =>
      assert (~ In u l) by (intros G; apply has_unit_In in G; congruence); clear H
  end;
  try (split; [assumption | intros u' Hu'; destruct u'; cbn; try lia; contradiction]).
  destruct us as [|u l]; [reflexivity|]. exfalso. destruct u; intuition.
Qed.

(* ---------- drum filtering ---------- *)
Lemma drums_removed_lemma c us hv rows : c_remove_drums c = true ->
  compute_pianoroll c (us, hv, true, rows) = compute_pianoroll c (us, hv, false, filter not_drum rows).
Proof.
  intros H. unfold compute_pianoroll, resolve_unit, select_rows. rewrite H. cbn [andb].
  destruct (c_time_unit c); reflexivity.
Qed.

Lemma drums_kept_lemma c us hv hc rows : hc && c_remove_drums c = false ->
  compute_pianoroll c (us, hv, hc, rows) = compute_pianoroll c (us, hv, false, rows).
Proof.
  intros H. unfold compute_pianoroll, resolve_unit, select_rows. rewrite H. cbn [andb].
  destruct (c_time_unit c); reflexivity.
Qed.

(* ---------- no velocity column: every cell is 0 or 1 ---------- *)
Lemma no_velocity_lemma c us hc rows R : compute_pianoroll c (us, false, hc, rows) = Some R ->
  forall r j, 0 <= r < r_rows R -> cell_at (r_cells R) r j = 0 \/ cell_at (r_cells R) r j = 1.
Proof.
  intros H r j Hr. apply compute_pianoroll_lemma in H as [u [ns [_ [Es Hm]]]].
  apply select_rows_lemma in Es as [k [_ F]].
  assert (V : forall n, In n ns -> n_vel n = 1).
  { clear Hm. induction F as [|x n l l' E F IH]; intros m Hm; [destruct Hm|].
    destruct Hm as [<-|Hm]; [|apply IH, Hm].
    unfold row_note in E. destruct x as [[[p ts] v] ch]. destruct (nth_error ts k) as [[on du]|]; [|discriminate].
    injection E as <-. reflexivity. }
  rewrite (roll_spec_lemma _ _ _ Hm r j Hr). unfold cell_spec.
  pose proof (sounding_max_spec (with_div (c_opts c) match c_time_div c with Some d => d | None => auto_div u end) ns r j) as S.
  cbv zeta in S. destruct (sounding_max _ ns r j) as [v|].
  - destruct S as [[n [Hn [_ Ev]]] _]. rewrite <- Ev, (V n Hn). right. destruct (o_binary _); reflexivity.
  - left. apply binarize_0.
Qed.

(* ---------- the frames a note fills, mode by mode ---------- *)
Lemma covers_by_mode_lemma o mt lo n r c :
  covers o mt lo n r c = true <->
  r = row_full o lo n /\
  (if o_onset_only o then c = fr_on o mt n
   else if o_note_sep o then fr_on o mt n <= c < Z.max (fr_on o mt n + 1) (fr_on o mt n + fr_dur o n - 1)
   else fr_on o mt n <= c < fr_on o mt n + fr_dur o n).
Proof.
  unfold covers, fr_end, fr_off, fr_off_nom. pose proof (fr_dur_pos o n) as D.
  destruct (o_onset_only o); [lia|]. destruct (o_note_sep o); lia.
Qed.

Lemma fr_dur_lemma o n :
  fr_dur o n = Z.max 1 (round_half_even (inject_Z (o_time_div o) * n_dur n)) /\ 1 <= fr_dur o n.
Proof. split; [reflexivity | apply fr_dur_pos]. Qed.

(* ---------- the sparse assembly ---------- *)
Lemma fold_add_shift l : forall a, fold_left Z.add l a = a + fold_left Z.add l 0.
Proof. induction l as [|x l IH]; intros a; simpl; [lia|]. rewrite (IH (a + x)), (IH x). lia. Qed.

Lemma sparse_sum_cons x m r c :
  sparse_sum (x :: m) r c =
  (let '(r', c', v) := x in if (r =? r') && (c =? c') then v else 0) + sparse_sum m r c.
Proof. unfold sparse_sum. cbn [map fold_left]. rewrite fold_add_shift. lia. Qed.

Lemma sparse_sum_absent m r c : ~ In (r, c) (map pos_of_cell m) -> sparse_sum m r c = 0.
Proof.
  induction m as [|[[r0 c0] v0] m IH]; intros H; [reflexivity|].
  rewrite sparse_sum_cons. cbn [map pos_of_cell In] in H.
  destruct ((r =? r0) && (c =? c0)) eqn:E.
  - exfalso. apply H. left. f_equal; lia.
  - rewrite IH; [lia | tauto].
Qed.

Lemma sparse_sum_lookup m r c : NoDup (map pos_of_cell m) -> sparse_sum m r c = cell_at m r c.
Proof.
  unfold cell_at. induction m as [|[[r0 c0] v0] m IH]; intros H; [reflexivity|].
  cbn [map pos_of_cell] in H. inversion H as [|? ? Hn Hm]; subst.
  rewrite sparse_sum_cons. cbn [get]. destruct ((r =? r0) && (c =? c0)) eqn:E.
  - assert (r = r0 /\ c = c0) as [-> ->] by lia. rewrite sparse_sum_absent; [lia | exact Hn].
  - rewrite (IH Hm). lia.
Qed.

Lemma assembled_roll_lemma o ns R : make_pianoroll o ns = Some R ->
  forall r c, sparse_sum (r_cells R) r c = cell_at (r_cells R) r c.
Proof. intros H r c. apply sparse_sum_lookup, (stored_positions_distinct_lemma _ _ _ H). Qed.

(* two entries at one position ARE added: without the dictionary a collision would show the sum *)
Lemma sparse_sum_adds_lemma : sparse_sum [(60, 0, 40); (60, 0, 90)] 60 0 = 130 /\
  cell_at (fill [(60, 0, 40); (60, 0, 90)]) 60 0 = 90.
Proof. split; reflexivity. Qed.

Lemma distinct_positions_NoDup m : distinct_positions m = true <-> NoDup (map pos_of_cell m).
Proof.
  induction m as [|[[r c] v] m IH]; cbn [distinct_positions map pos_of_cell].
  - split; [constructor | reflexivity].
  - rewrite andb_true_iff, negb_true_iff, IH. split.
    + intros [E H]. constructor; [|exact H]. intros G. apply in_map_iff in G as [[[r' c'] v'] [Ep Hy]].
      injection Ep as -> ->. assert (X : existsb (fun y : cell => let '(r'0, c'0, _) := y in (r =? r'0) && (c =? c'0)) m = true).
      { apply existsb_exists. exists (r, c, v'). split; [exact Hy | lia]. }
      congruence.
    + intros H. inversion H as [|? ? Hn Hm]; subst. split; [|exact Hm].
      destruct (existsb _ m) eqn:E; [|reflexivity]. exfalso. apply Hn.
      apply existsb_exists in E as [[[r' c'] v'] [Hy E]]. apply in_map_iff. exists (r', c', v').
      split; [cbn; f_equal; lia | exact Hy].
Qed.

(* ---------- every valid array is accepted ---------- *)
Lemma round_nonneg q : (0 <= q)%Q -> 0 <= round_half_even q.
Proof.
  intros H. pose proof (round_half_even_near q) as N. unfold half in N.
  apply Qabs_Qle_condition in N as [N1 N2].
  assert (G : (inject_Z (-1) < inject_Z (round_half_even q))%Q).
  { change (inject_Z (-1)) with (-1 # 1)%Q. lra. }
  rewrite <- Zlt_Qlt in G. lia.
Qed.

Lemma spec_min_time_le o ns n : In n ns -> (spec_min_time o ns <= n_onset n)%Q.
Proof.
  intros Hn. unfold spec_min_time. destruct ns as [|n0 l]; [destruct Hn|]. cbv zeta.
  destruct (qmin_list_spec (map n_onset (n0 :: l)) (n_onset n0)) as [_ [_ Hall]].
  assert (G : (qmin_list (map n_onset (n0 :: l)) (n_onset n0) <= n_onset n)%Q)
    by (apply Hall, in_map, Hn).
  destruct (o_remove_silence o); [exact G|].
  destruct (Qle_bool 0 _) eqn:E; [|exact G].
  apply Qle_bool_iff in E. lra.
Qed.

Definition valid_input (o : opts) (ns : list note) : Prop :=
  ns <> [] /\ 0 < o_time_div o /\ 0 <= o_time_margin o /\
  forall n, In n ns -> (0 <= n_dur n)%Q /\ (o_pitch_margin o <= -1 -> 0 <= n_pitch n <= 127).

Lemma fr_end_le_nom o mt n : fr_end o mt n <= fr_off_nom o mt n.
Proof.
  unfold fr_end, fr_off, fr_off_nom. pose proof (fr_dur_pos o n).
  destruct (o_onset_only o); [lia|]. destruct (o_note_sep o); lia.
Qed.

Lemma max_off_nom_ge o mt s n : In n s -> fr_off_nom o mt n <= max_off_nom o mt s.
Proof.
  destruct s as [|s0 s]; [intros []|]. intros H.
  destruct (max_off_nom_greatest o mt s0 s) as [_ Hall]. apply Hall, H.
Qed.

Lemma accepts_valid_lemma o ns : valid_input o ns ->
  (forall e l, o_end_time o = Some e -> last_off o ns l ->
     (inject_Z l <= (e - spec_min_time o ns) * inject_Z (o_time_div o) + inject_Z (o_time_margin o * o_time_div o))%Q) ->
  exists R, make_pianoroll o ns = Some R.
Proof.
  intros [Hne [Htd [Htm Hn]]] He.
  pose proof (min_time_spec o ns Hne) as Qm.
  pose proof (model_last_off o ns Hne) as Hl.
  pose proof (sorted_perm ns) as P.
  set (sorted := map snd (sort_on ns)) in *. set (mt := min_time o sorted) in *.
  set (L := max_off_nom o mt sorted) in *.
  assert (Hc : exists N, n_cols o mt sorted = Some N /\ L <= N).
  { rewrite n_cols_eq. fold L. unfold n_cols_of. destruct (o_end_time o) as [e|] eqn:Ee.
    - specialize (He e L eq_refl Hl).
      assert (B : (inject_Z L <= (e - mt) * inject_Z (o_time_div o) + inject_Z (o_time_margin o * o_time_div o))%Q)
        by (rewrite Qm; exact He).
      pose proof B as B'. apply Qle_bool_iff in B'. rewrite B'. eexists. split; [reflexivity|].
      rewrite Zle_Qle. eapply Qle_trans; [exact B|]. eapply Qle_trans; [|apply Qle_ceiling].
      assert (T : (0 <= inject_Z (o_time_margin o * o_time_div o))%Q).
      { change 0%Q with (inject_Z 0). rewrite <- Zle_Qle. nia. }
      replace (2 * o_time_div o * o_time_margin o) with (o_time_margin o * o_time_div o + o_time_margin o * o_time_div o) by lia.
      rewrite inject_Z_plus. lra.
    - eexists. split; [reflexivity|]. nia. }
  destruct Hc as [N [Hc HL]].
  apply (make_pianoroll_some o ns N Hne).
  - apply not_true_is_false. intros E. apply existsb_exists in E as [n [Hin E]].
    destruct (Hn n Hin) as [D _]. apply Qle_bool_iff in D. rewrite D in E. discriminate.
  - exact Hc.
  - rewrite fill_in_shape. apply forallb_forall. intros [[r c] v] Hin.
    apply in_flat_map in Hin as [n [Hs Hin]].
    assert (Hin' : In n ns) by (eapply Permutation_in; eauto).
    unfold note_cells in Hin. cbv zeta in Hin. apply in_map_iff in Hin as [c' [E Hc']]. injection E as <- <- <-.
    apply In_zrange in Hc'. pose proof (fr_end_gt o mt n) as G1.
    assert (C1 : 0 <= fr_on o mt n).
    { unfold fr_on. assert (0 <= round_half_even (inject_Z (o_time_div o) * (n_onset n - mt))).
      { apply round_nonneg. pose proof (spec_min_time_le o ns n Hin') as S. rewrite <- Qm in S.
        assert (T : (0 < inject_Z (o_time_div o))%Q) by (change 0%Q with (inject_Z 0); rewrite <- Zlt_Qlt; exact Htd).
        apply Qmult_le_0_compat; lra. }
      nia. }
    assert (C2 : fr_off_nom o mt n <= L).
    { apply max_off_nom_ge, Hs. }
    pose proof (fr_end_le_nom o mt n) as C3.
    assert (Rw : 0 <= row_full o (lowest_pitch o ns) n < n_rows_full o ns).
    { destruct (Hn n Hin') as [_ Hp]. unfold row_full, n_rows_full, lowest_pitch, highest_pitch.
      destruct (-1 <? o_pitch_margin o) eqn:Ep; [|lia].
      destruct ns as [|n0 l]; [congruence|].
      destruct (zmin_list_least n_pitch n0 l) as [_ Lo]. destruct (zmax_list_greatest n_pitch n0 l) as [_ Hi].
      specialize (Lo n Hin'). specialize (Hi n Hin'). lia. }
    unfold in_shape. unfold L, mt, sorted in *. lia.
Qed.

(* ---------- the round trip with a time margin ---------- *)
Lemma Qdiv_shift (td k t : Z) (x : Q) : td <> 0 ->
  (inject_Z td * x == inject_Z k)%Q -> (inject_Z (k + t * td) / inject_Z td == x + inject_Z t)%Q.
Proof.
  intros Ht E. rewrite inject_Z_plus, inject_Z_mult, <- E. field. intros Z0. apply Ht.
  unfold Qeq in Z0. simpl in Z0. lia.
Qed.

Lemma roundtrip_margin_lemma o ns R :
  make_pianoroll o ns = Some R ->
  o_binary o = false -> o_onset_only o = false -> o_note_sep o = false ->
  o_pitch_margin o <= -1 -> 0 < o_time_div o ->
  (forall n, In n ns -> grid_aligned (o_time_div o) (spec_min_time o ns) n /\ n_vel n <> 0 /\
                        (o_piano_range o = true -> 21 <= n_pitch n <= 108)) ->
  non_touching o (spec_min_time o ns) (lowest_pitch o ns) ns ->
  exists out ns', pianoroll_to_notearray (r_rows R) (r_cols R) (r_cells R) (o_time_div o) = Some out /\
    Permutation ns ns' /\ Forall2 (recovered (spec_min_time o ns - inject_Z (o_time_margin o))) out ns'.
Proof.
  intros H Hb Ho Hsep Hpm Htd Hn Hnt.
  set (mt := spec_min_time o ns) in *. set (lo := lowest_pitch o ns) in *.
  pose proof (rows_default_lemma _ _ _ H Hpm) as Hrows.
  assert (Erow : forall n, row_full o lo n = n_pitch n).
  { intros n. unfold row_full. destruct (-1 <? o_pitch_margin o) eqn:E; [lia | reflexivity]. }
  assert (Hfull : n_rows_full o ns = 128).
  { unfold n_rows_full, highest_pitch, lowest_pitch. destruct (-1 <? o_pitch_margin o) eqn:E; [lia | reflexivity]. }
  assert (Hv : forall n, In n ns -> n_vel n <> 0 /\ 0 <= row_full o lo n - pr_start o < r_rows R).
  { intros n Hin. destruct (Hn n Hin) as [_ [G1 G2]]. split; [exact G1|].
    pose proof (note_in_shape _ _ _ n H Hin) as [_ [_ S]]. fold lo in S. rewrite Hfull in S.
    rewrite Erow in *. rewrite Hrows. unfold pr_start.
    destruct (o_piano_range o); [specialize (G2 eq_refl); lia | lia]. }
  pose proof (decode_encode_roll_lemma _ _ _ H Hb Hv Hnt) as D. fold mt lo in D.
  apply Permutation_map_inv in D as [ns' [E P]].
  assert (Hout : forall init, init = pr_start o ->
            Forall2 (recovered (mt - inject_Z (o_time_margin o)))
              (map (fun x : dnote => let '(p, a, b, v) := x in
                      (p + init, (inject_Z a / inject_Z (o_time_div o))%Q,
                       (inject_Z (b - a) / inject_Z (o_time_div o))%Q, v))
                   (map (frame_of o mt lo) ns')) ns').
  { intros init ->.
    assert (Hin' : forall n, In n ns' -> In n ns)
      by (intros n G; apply (Permutation_in _ (Permutation_sym P)), G).
    clear E P. induction ns' as [|n l IH]; [constructor|].
    cbn [map]. constructor; [|apply IH; intros m Hm; apply Hin'; right; exact Hm].
    destruct (Hn n (Hin' n (or_introl eq_refl))) as [[ka [kd [Ea [Ed Hk]]]] _].
    unfold frame_of, recovered. rewrite Erow.
    assert (Fon : fr_on o mt n = ka + o_time_margin o * o_time_div o).
    { unfold fr_on. rewrite Ea, round_half_even_Z. reflexivity. }
    assert (Fend : fr_end o mt n - fr_on o mt n = kd).
    { unfold fr_end, fr_off, fr_off_nom, fr_dur. rewrite Ho, Hsep, Ed, round_half_even_Z. lia. }
    split; [lia|]. split; [|split; [|reflexivity]].
    - rewrite Fon. rewrite (Qdiv_shift _ _ _ (n_onset n - mt)); [ring | lia | exact Ea].
    - rewrite Fend. apply Qdiv_of_mult; [lia | exact Ed]. }
  unfold pianoroll_to_notearray. rewrite E.
  unfold pr_start in Hout. destruct (o_piano_range o); rewrite Hrows; cbn [Z.eqb Pos.eqb].
  - eexists. exists ns'. split; [reflexivity|]. split; [exact P | apply Hout; reflexivity].
  - eexists. exists ns'. split; [reflexivity|]. split; [exact P | apply Hout; reflexivity].
Qed.

(* ---------- the round trip at the level of compute_pianoroll, with the code's own decoder ---------- *)
Lemma Forall2_perm_l {A B} (Rl : A -> B -> Prop) l l' : Permutation l l' ->
  forall m, Forall2 Rl l m -> exists m', Permutation m m' /\ Forall2 Rl l' m'.
Proof.
  intros P. induction P; intros m F.
  - inversion F; subst. exists []. split; constructor.
  - inversion F as [|? y ? m0 Hx F0]; subst. destruct (IHP m0 F0) as [m' [Pm Fm]].
    exists (y :: m'). split; [apply perm_skip, Pm | constructor; assumption].
  - inversion F as [|? b ? m0 Hy F0]; subst. inversion F0 as [|? a ? m1 Hx F1]; subst.
    exists (a :: b :: m1). split; [apply perm_swap | repeat constructor; assumption].
  - destruct (IHP1 m F) as [m1 [P1' F1]]. destruct (IHP2 m1 F1) as [m2 [P2' F2]].
    exists m2. split; [eapply Permutation_trans; eassumption | exact F2].
Qed.

(* default mode of compute_pianoroll as far as the round trip is concerned *)
Definition plain_mode (o : opts) : Prop :=
  o_binary o = false /\ o_onset_only o = false /\ o_note_sep o = false /\ o_pitch_margin o <= -1 /\
  0 <= o_time_margin o /\ o_end_time o = None.

Lemma roundtrip_api_lemma c a u ns :
  resolve_unit a (c_time_unit c) = Some u ->
  select_rows a u (c_remove_drums c) = Some ns ->
  let td := match c_time_div c with Some d => d | None => auto_div u end in
  let o := with_div (c_opts c) td in
  plain_mode (c_opts c) -> 0 < td -> ns <> [] ->
  (forall n, In n ns -> grid_aligned td (spec_min_time o ns) n /\ n_vel n <> 0 /\ 0 <= n_pitch n <= 127 /\
                        (o_piano_range o = true -> 21 <= n_pitch n <= 108)) ->
  non_touching o (spec_min_time o ns) (lowest_pitch o ns) ns ->
  exists out ns', roundtrip c a = Some out /\ Permutation ns ns' /\
    Forall2 (recovered (spec_min_time o ns - inject_Z (o_time_margin o))) out ns'.
Proof.
  intros Eu Es td o [Hb [Ho [Hsep [Hpm [Htm Het]]]]] Htd Hne Hn Hnt.
  assert (A : exists R, make_pianoroll o ns = Some R).
  { apply accepts_valid_lemma.
    - split; [exact Hne|]. split; [exact Htd|]. split; [exact Htm|]. intros n Hin.
      destruct (Hn n Hin) as [[ka [kd [_ [Ed Hk]]]] [_ [Hp _]]]. split; [|intros _; exact Hp].
      assert (T : (0 < inject_Z td)%Q) by (change 0%Q with (inject_Z 0); rewrite <- Zlt_Qlt; exact Htd).
      assert (K : (0 <= inject_Z kd)%Q) by (change 0%Q with (inject_Z 0); rewrite <- Zle_Qle; lia).
      change (o_time_div o) with td in Ed. rewrite <- Ed in K.
      destruct (Qlt_le_dec (n_dur n) 0) as [Neg|]; [|assumption]. exfalso.
      assert (inject_Z td * n_dur n < 0)%Q; [|lra].
      setoid_replace 0%Q with (inject_Z td * 0)%Q by ring. apply Qmult_lt_l; assumption.
    - intros e l Ee. change (o_end_time o) with (o_end_time (c_opts c)) in Ee. congruence. }
  destruct A as [R HR].
  destruct (roundtrip_margin_lemma o ns R HR Hb Ho Hsep Hpm Htd) as [out [ns' [D [P F]]]].
  - intros n Hin. destruct (Hn n Hin) as [G1 [G2 [_ G3]]]. auto.
  - exact Hnt.
  - pose proof (notearray_scan_perm (r_rows R) (r_cols R) (r_cells R) td) as S.
    change (o_time_div o) with td in D. rewrite D in S.
    destruct (pianoroll_to_notearray_scan (r_rows R) (r_cols R) (r_cells R) td) as [outs|] eqn:Es'; [|destruct S].
    destruct (Forall2_perm_l _ _ _ (Permutation_sym S) _ F) as [ns'' [P' F']].
    exists outs, ns''. split; [|split; [eapply Permutation_trans; eassumption | exact F']].
    unfold roundtrip, resolved_div, compute_pianoroll. rewrite Eu, Es. fold td. fold o. rewrite HR. exact Es'.
Qed.

(* ---------- the pitch-class roll in terms of the notes ---------- *)
Lemma zsum_nonneg_nonzero l : (forall x, In x l -> 0 <= x) ->
  (zsum l <> 0 <-> exists x, In x l /\ x <> 0).
Proof.
  unfold zsum. rewrite fold_left_add. induction l as [|y l IH]; intros Hp; cbn [fold_right].
  - split; [lia | intros [x [[] _]]].
  - assert (Hl : forall x, In x l -> 0 <= x) by (intros x Hx; apply Hp; right; exact Hx).
    specialize (IH Hl). assert (0 <= y) by (apply Hp; left; reflexivity).
    assert (S : 0 <= fold_right Z.add 0 l).
    { clear IH Hp. induction l as [|z l IHl]; cbn [fold_right]; [lia|].
      assert (0 <= z) by (apply Hl; left; reflexivity).
      assert (0 <= fold_right Z.add 0 l) by (apply IHl; intros x Hx; apply Hl; right; exact Hx). lia. }
    split.
    + intros Hs. destruct (Z.eq_dec y 0) as [->|Ny].
      * assert (G : 0 + fold_right Z.add 0 l <> 0) by lia. apply IH in G as [x [Hx Nx]]. exists x. split; [right; exact Hx | exact Nx].
      * exists y. split; [left; reflexivity | exact Ny].
    + intros [x [[<-|Hx] Nx]]; [lia|].
      assert (G : 0 + fold_right Z.add 0 l <> 0) by (apply IH; exists x; split; assumption). lia.
Qed.

Lemma cell_spec_nonneg o ns r c : (forall n, In n ns -> 0 < n_vel n) -> 0 <= cell_spec o ns r c.
Proof.
  intros Hv. unfold cell_spec. pose proof (sounding_max_spec o ns r c) as S. cbv zeta in S.
  destruct (sounding_max o ns r c) as [v|].
  - destruct S as [[n [Hn [_ Ev]]] _]. specialize (Hv n Hn). unfold binarize.
    destruct (o_binary o); [destruct (v =? 0)|]; lia.
  - rewrite binarize_0. lia.
Qed.

Lemma pc_nonzero_lemma o ns R : make_pianoroll o ns = Some R ->
  o_pitch_margin o <= -1 -> o_piano_range o = false ->
  (forall n, In n ns -> 0 < n_vel n) ->
  forall c j, 0 <= c < 12 ->
  (pc_cell (r_cells R) c j <> 0 <->
   exists n, In n ns /\ n_pitch n mod 12 = c /\
             covers o (spec_min_time o ns) (lowest_pitch o ns) n (n_pitch n) j = true).
Proof.
  intros H Hpm Hpr Hv c j Hc.
  pose proof (rows_default_lemma _ _ _ H Hpm) as Hrows. rewrite Hpr in Hrows.
  rewrite (fold_spec_lemma _ _ _ H Hrows c j Hc).
  assert (Erow : forall n, row_full o (lowest_pitch o ns) n = n_pitch n).
  { intros n. unfold row_full. destruct (-1 <? o_pitch_margin o) eqn:E; [lia | reflexivity]. }
  assert (Hfull : n_rows_full o ns = 128).
  { unfold n_rows_full, highest_pitch, lowest_pitch. destruct (-1 <? o_pitch_margin o) eqn:E; [lia | reflexivity]. }
  assert (Hst : pr_start o = 0) by (unfold pr_start; rewrite Hpr; reflexivity).
  rewrite zsum_nonneg_nonzero.
  - split.
    + intros [x [Hx Nx]]. apply in_map_iff in Hx as [k [<- Hk]].
      destruct (c + 12 * k <? 128) eqn:E; [|congruence].
      apply (cell_nonzero_iff_lemma o ns _ j Hv) in Nx as [n [Hn Cv]].
      rewrite Hst, Z.add_0_r in Cv. exists n. split; [exact Hn|].
      assert (Ep : n_pitch n = c + 12 * k).
      { unfold covers in Cv. rewrite Erow in Cv. lia. }
      apply In_zrange in Hk. split; [lia | rewrite Ep; exact Cv].
    + intros [n [Hn [Em Cv]]].
      pose proof (note_in_shape _ _ _ n H Hn) as [_ [_ S]]. rewrite Erow, Hfull in S.
      exists (cell_spec o ns (n_pitch n) j). split.
      * apply in_map_iff. exists (n_pitch n / 12). split.
        -- replace (c + 12 * (n_pitch n / 12)) with (n_pitch n) by lia.
           destruct (n_pitch n <? 128) eqn:E; [reflexivity | lia].
        -- apply zrange_In. lia.
      * apply (cell_nonzero_iff_lemma o ns _ j Hv). exists n. split; [exact Hn|].
        rewrite Hst, Z.add_0_r. exact Cv.
  - intros x Hx. apply in_map_iff in Hx as [k [<- _]].
    destruct (c + 12 * k <? 128); [apply cell_spec_nonneg, Hv | lia].
Qed.

(* index rows of the pitch-class roll: (pitch class, onset frame, offset frame, MIDI pitch), input order *)
Lemma pc_idx_rows_lemma p a R : pc_source p a = Some R ->
  exists u ns o, select_rows a u true = Some ns /\ make_pianoroll o ns <> None /\
    o_pitch_margin o = -1 /\ o_piano_range o = false /\
    r_idx R = map (fun n => (n_pitch n mod 12, fr_on o (spec_min_time o ns) n, fr_off o (spec_min_time o ns) n, n_pitch n)) ns.
Proof.
  intros H. apply pc_source_lemma in H as [R0 [H0 [_ [_ [_ Ei]]]]].
  apply compute_pianoroll_lemma in H0 as [u [ns [_ [Es Hm]]]]. cbn [c_remove_drums c_opts c_time_div] in *.
  eexists u, ns, _. split; [exact Es|]. split; [rewrite Hm; discriminate|].
  split; [reflexivity|]. split; [reflexivity|].
  rewrite Ei, (idx_rows_lemma _ _ _ Hm), map_map. apply map_ext. intros n.
  unfold idx_of, row_full, pr_start. cbn. rewrite Z.sub_0_r. reflexivity.
Qed.

(* ---------- the decoded list is in the order the code sorts to ---------- *)
Definition dn_le (x y : dnote) : Prop := dnote_leb x y = true.

Lemma dnote_leb_total x y : dnote_leb x y = false -> dnote_leb y x = true.
Proof.
  destruct x as [[[p1 a1] b1] v1], y as [[[p2 a2] b2] v2]. unfold dnote_leb.
  destruct (a1 <? a2) eqn:E1; [discriminate|]. destruct (a2 <? a1) eqn:E2; [reflexivity|].
  destruct (p1 <? p2) eqn:E3; [discriminate|]. destruct (p2 <? p1) eqn:E4; [reflexivity|].
  destruct (b1 <? b2) eqn:E5; [discriminate|]. destruct (b2 <? b1) eqn:E6; [reflexivity|]. lia.
Qed.

Lemma ins_dn_sorted x l : Sorted dn_le l -> Sorted dn_le (ins_dn x l).
Proof.
  induction l as [|y l IH]; intros S; cbn [ins_dn].
  - constructor; constructor.
  - destruct (dnote_leb x y) eqn:E.
    + constructor; [exact S | constructor; exact E].
    + inversion S as [|? ? S' Hd]; subst. constructor; [apply IH, S'|].
      destruct l as [|z l]; cbn [ins_dn].
      * constructor. apply dnote_leb_total, E.
      * destruct (dnote_leb x z); constructor; [apply dnote_leb_total, E|].
        inversion Hd; subst. assumption.
Qed.

Lemma sort_dn_sorted l : Sorted dn_le (sort_dn l).
Proof. unfold sort_dn. induction l as [|x l IH]; cbn [fold_right]; [constructor | apply ins_dn_sorted, IH]. Qed.

Lemma decode_sorted_lemma rows cols m :
  Sorted dn_le (decode_frames rows cols m) /\ Sorted dn_le (scan_frames rows cols m).
Proof.
  split; [apply sort_dn_sorted|]. unfold scan_frames. destruct (scan _ _ _ _ _). apply sort_dn_sorted.
Qed.

(* ---------- a concrete instance through the whole interface ---------- *)
(* seconds AND beats present (beats are taken although they come second), velocity and channel fields, a
   drum row, rows out of onset order, two notes on one pitch, one time unit of margin before and after *)
Definition api_arr : narr :=
  ([USec; UBeat], true, true,
   [(60, [((31 # 10)%Q, (1 # 10)%Q); ((3 # 2)%Q, (1 # 2)%Q)], 80, 0);
    (36, [(0%Q, 1%Q); ((1 # 4)%Q, (1 # 4)%Q)], 99, 9);
    (64, [((1 # 3)%Q, 2%Q); (0%Q, (1 # 4)%Q)], 33, 1);
    (60, [((7 # 10)%Q, 1%Q); ((1 # 4)%Q, (3 # 4)%Q)], 101, 0)]).
Definition api_copts : copts := mkCopts None (Some 4) true (mkOpts 1 false false (-1) 1 false false None false).
Definition api_notes : list note :=
  [(60, (3 # 2)%Q, (1 # 2)%Q, 80); (64, 0%Q, (1 # 4)%Q, 33); (60, (1 # 4)%Q, (3 # 4)%Q, 101)].

Lemma example_api_lemma :
  let o := with_div (c_opts api_copts) 4 in
  resolve_unit api_arr (c_time_unit api_copts) = Some UBeat /\
  select_rows api_arr UBeat true = Some api_notes /\
  plain_mode (c_opts api_copts) /\
  valid_input o api_notes /\
  non_touching o (spec_min_time o api_notes) (lowest_pitch o api_notes) api_notes /\
  (forall n, In n api_notes -> grid_aligned 4 (spec_min_time o api_notes) n) /\
  roundtrip api_copts api_arr =
    Some [(64, (4 # 4)%Q, (1 # 4)%Q, 33); (60, (5 # 4)%Q, (3 # 4)%Q, 101); (60, (10 # 4)%Q, (2 # 4)%Q, 80)] /\
  (exists R, compute_pianoroll api_copts api_arr = Some R /\ r_rows R = 128 /\ r_cols R = 16 /\
             cell_at (r_cells R) 36 5 = 0 /\ cell_at (r_cells R) 60 5 = 101 /\
             sparse_sum (r_cells R) 60 5 = 101).
Proof.
  cbv zeta. split; [reflexivity|]. split; [reflexivity|]. split; [|split; [|split; [|split; [|split]]]].
  - unfold plain_mode. cbn. repeat split; try reflexivity; lia.
  - unfold valid_input. split; [discriminate|]. split; [reflexivity|]. split; [cbn; lia|].
    intros n [<-|[<-|[<-|[]]]]; cbn; split; try (intros _; lia); discriminate.
  - unfold non_touching, api_notes.
    constructor; [|constructor; [|constructor; [constructor | constructor]]].
    + constructor; [|constructor; [|constructor]]; unfold apart.
      * intros E. vm_compute in E. discriminate.
      * intros _. right. vm_compute. reflexivity.
    + constructor; [|constructor]. unfold apart. intros E. vm_compute in E. discriminate.
  - intros n [<-|[<-|[<-|[]]]].
    + exists 6, 2. vm_compute. repeat split; congruence.
    + exists 0, 1. vm_compute. repeat split; congruence.
    + exists 1, 3. vm_compute. repeat split; congruence.
  - vm_compute. reflexivity.
  - eexists. split; [vm_compute; reflexivity|]. vm_compute. repeat split; reflexivity.
Qed.
