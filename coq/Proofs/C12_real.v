(* C12 O5 over the reals: in equal temperament frequency and MIDI pitch are inverse.
   Uses Coq.Reals, hence the standard library's real-number axioms (allow-listed for C12). *)
From Coq Require Import Reals Lra.
#[local] Open Scope R_scope.

Definition freq_of_midi (a4 m : R) : R := a4 / 32 * Rpower 2 ((m - 9) / 12).
Definition midi_of_freq (a4 f : R) : R := 12 * (ln (32 * f / a4) / ln 2) + 9.

Lemma ln2_pos : 0 < ln 2.
Proof. rewrite <- ln_1. apply ln_increasing; lra. Qed.

Lemma freq_midi_inverse_lemma a4 m : 0 < a4 -> midi_of_freq a4 (freq_of_midi a4 m) = m.
Proof.
  intros Ha. unfold midi_of_freq, freq_of_midi.
  replace (32 * (a4 / 32 * Rpower 2 ((m - 9) / 12)) / a4) with (Rpower 2 ((m - 9) / 12)) by (field; lra).
  unfold Rpower. rewrite ln_exp.
  pose proof ln2_pos. field. lra.
Qed.

Lemma freq_octave_lemma a4 m : freq_of_midi a4 (m + 12) = 2 * freq_of_midi a4 m.
Proof.
  unfold freq_of_midi.
  replace ((m + 12 - 9) / 12) with ((m - 9) / 12 + 1) by field.
  rewrite Rpower_plus, Rpower_1 by lra. field.
Qed.

Lemma freq_a4_lemma a4 : freq_of_midi a4 69 = a4.
Proof.
  unfold freq_of_midi.
  replace ((69 - 9) / 12) with (INR 5) by (simpl; field).
  rewrite Rpower_pow by lra. simpl. field.
Qed.
